package c09

import (
	"context"
	"fmt"
	"sort"
	"strings"
	"sync"
	"testing/synctest"
	"time"

	"github.com/voedger/voedger/pkg/istructs"

	"verifharness/kit"
)

// drive.go: the step scheduler.  The actualizer's two goroutines (reader, projector operator) park
// at the interposition points of rig.go; the driver acts only when everything is quiescent
// (synctest.Wait), chooses one move (release a parked goroutine with a verdict, append an event,
// notify, advance the virtual clock, stop / start the actualizer, look at the store) and records it
// as one action of the Coq model.  A schedule is therefore a list of moves and replays exactly.

const (
	flushInterval = 10 * time.Minute // one Tick; longer than the longest retry back-off (3 min)
	posTicks      = 3                // FlushPositionInterval = 3 Ticks
)

type gate struct {
	who  byte   // 'R' reader, 'P' projector operator
	kind string // init readEnd readOne | invoke flush putWS putPos mail
	ofs  istructs.Offset
	ws   istructs.WSID
	offs []istructs.Offset
	ch   chan verdict
	// filled by the parked goroutine after its release
	got []istructs.Offset
	val istructs.Offset
}

type verdict struct {
	before error // fail without performing the call
	after  error // perform the call, then report failure
}

type evDesc struct {
	Trig bool          `json:"trig"`
	WS   istructs.WSID `json:"ws"`
	Mail bool          `json:"mail"`
}

// scenario: everything that determines a case (with the seed of its move choices)
type scenario struct {
	Seed      uint64 `json:"seed"`
	Stream    string `json:"stream"` // plain | faults | restarts | mail | malformed | batch | alias
	NoCache   bool   `json:"no_event_cache,omitempty"` // PLog event cache off: single reads fill pooled buffers
	WithMail  bool   `json:"with_mail"`
	Limit     int    `json:"bundles_limit"`
	Steps     int    `json:"steps"`
	MaxEvents int    `json:"max_events"`
	Faults    int    `json:"fault_budget"`
	Stops     int    `json:"stop_budget"`
	Burst     int    `json:"initial_events"`
	// canonical Go map order (workspaces inside the view ApplyBatch) the run must exhibit: the case is
	// re-run until it does, see runCase
	RevWS bool `json:"reversed_ws_once"`
	// Script: if non-empty, the moves are taken from it instead of the PRNG (corpus cases);
	// Events: attributes of the appended events, in order (the PRNG decides beyond the list)
	Script []string `json:"script,omitempty"`
	Events []evDesc `json:"events,omitempty"`
}

type driver struct {
	mu     sync.Mutex
	parked []*gate
	sc     scenario
	rng    *kit.Rng
	rig    *rig
	events []evDesc
	mails  []istructs.Offset
	acts   []string
	desc   []string
	tags   map[string]bool

	running, stopped, pFailed bool
	cancel                    context.CancelFunc
	ended                     bool // the run goroutine returned
	faults, stops             int
	script                    int

	// mirror of the bundles, only to recognise the order in which Go's maps were iterated
	bufView, bufMail   []istructs.Offset
	inFlush            bool
	flView, flMail     []istructs.Offset
	flGates            int
	mailFlushes        int
	twoWSFlushes       int
	wrongOrder         bool
	orderSeen          []string
	lastPos            istructs.Offset
	posBeforeMail      bool
	invoked, dropsSeen int
	err                error
	lastR              *gate
	readQ              []istructs.Offset // offsets the reader got and the operator has not reached yet
	inInvoke           bool
	badRows            bool
	ahead              bool
	lastNotify         istructs.Offset
	flTwoSeen          bool
	quiet              bool
}

// ---- hooks (called on the actualizer's goroutines) ----

func (d *driver) park(g *gate) verdict {
	g.ch = make(chan verdict)
	d.mu.Lock()
	d.parked = append(d.parked, g)
	d.mu.Unlock()
	return <-g.ch
}

func (d *driver) borrowFlush() { d.park(&gate{who: 'P', kind: "flush"}) }
func (d *driver) readOffset() error {
	g := &gate{who: 'R', kind: "init"}
	d.mu.Lock()
	d.readQ = nil
	d.lastR = g
	d.mu.Unlock()
	return d.park(g).before
}
func (d *driver) afterReadOffset(val istructs.Offset) {
	d.mu.Lock()
	d.lastR.val = val
	d.mu.Unlock()
}
func (d *driver) readPLog(from istructs.Offset, count int) error {
	g := &gate{who: 'R', kind: "readOne", ofs: from}
	if count == istructs.ReadToTheEnd {
		g.kind = "readEnd"
	}
	d.mu.Lock()
	d.lastR = g
	d.mu.Unlock()
	return d.park(g).before
}
func (d *driver) afterReadPLog(got []istructs.Offset) {
	d.mu.Lock()
	d.lastR.got = got
	d.readQ = append(d.readQ, got...)
	d.mu.Unlock()
}

// lookupDescriptor: the operator's isProjectorDefined; the event is the next triggering one the reader got
func (d *driver) lookupDescriptor(ws istructs.WSID) bool {
	d.mu.Lock()
	inside := d.inInvoke
	var ofs istructs.Offset
	if !inside {
		for len(d.readQ) > 0 {
			o := d.readQ[0]
			d.readQ = d.readQ[1:]
			if int(o) >= 1 && int(o) <= len(d.events) && d.events[o-1].Trig {
				ofs = o
				break
			}
		}
	}
	d.mu.Unlock()
	if inside {
		return false // a read from inside the projector function (workspace validation of its view)
	}
	return d.park(&gate{who: 'P', kind: "desc", ofs: ofs, ws: ws}).before != nil
}
func (d *driver) invokeEnd() {
	d.mu.Lock()
	d.inInvoke = false
	d.mu.Unlock()
}
func (d *driver) invoke(ofs istructs.Offset) (error, bool) {
	v := d.park(&gate{who: 'P', kind: "invoke", ofs: ofs})
	d.mu.Lock()
	defer d.mu.Unlock()
	d.inInvoke = true
	mail := false
	if int(ofs) >= 1 && int(ofs) <= len(d.events) {
		mail = d.events[ofs-1].Mail
	}
	return v.before, mail
}
func (d *driver) putBatch(ws istructs.WSID, offsets []istructs.Offset, position istructs.Offset) (error, error) {
	g := &gate{who: 'P', kind: "putWS", ws: ws, offs: offsets}
	if ws == istructs.NullWSID {
		g.kind, g.ofs = "putPos", position
	}
	v := d.park(g)
	return v.before, v.after
}
func (d *driver) sendMail(ofs istructs.Offset) error {
	v := d.park(&gate{who: 'P', kind: "mail", ofs: ofs})
	if v.before == nil {
		d.mu.Lock()
		d.mails = append(d.mails, ofs)
		d.mu.Unlock()
	}
	return v.before
}

// ---- driver side ----

func (d *driver) find(who byte) *gate {
	d.mu.Lock()
	defer d.mu.Unlock()
	for _, g := range d.parked {
		if g.who == who {
			return g
		}
	}
	return nil
}

func (d *driver) release(g *gate, v verdict) {
	d.mu.Lock()
	for i, x := range d.parked {
		if x == g {
			d.parked = append(d.parked[:i], d.parked[i+1:]...)
			break
		}
	}
	d.mu.Unlock()
	g.ch <- v
	synctest.Wait()
}

// quiesce waits until nothing moves and lets a reader go on unrecorded whose pipeline has failed or
// whose context is cancelled: what it still reads is dropped by the inactive operator (the model's
// HNotice step), and how often it reads before it notices the error is decided by a Go select.
func (d *driver) quiesce() {
	for {
		synctest.Wait()
		d.mu.Lock()
		if d.ended && d.running {
			d.running = false
		}
		d.mu.Unlock()
		g := d.find('R')
		if g == nil {
			break
		}
		if g.kind == "init" && !d.stopped {
			d.pFailed = false
			break
		}
		if !(d.stopped || d.pFailed) {
			break
		}
		d.release(g, verdict{})
	}
	// flush bookkeeping: a flush is over when the operator is not parked inside it any more
	if p := d.find('P'); p == nil || p.kind == "invoke" || p.kind == "flush" || p.kind == "desc" {
		d.inFlush = false
	}
}

func offs(l []istructs.Offset) string {
	s := make([]string, len(l))
	for i, o := range l {
		s[i] = kit.N(uint64(o))
	}
	return kit.List(s)
}

func (d *driver) record(coq, human string) {
	d.acts = append(d.acts, coq)
	d.desc = append(d.desc, human)
}

func (d *driver) tag(t string) { d.tags[t] = true }

func (d *driver) start() {
	ctx, cancel := context.WithCancel(context.Background())
	d.cancel = cancel
	d.running, d.stopped, d.ended, d.pFailed = true, false, false, false
	go func() {
		d.rig.run(ctx)
		d.mu.Lock()
		d.ended = true
		d.mu.Unlock()
	}()
	d.record("Start", "start")
}

func (d *driver) stop() {
	d.cancel()
	d.stopped = true
	d.stops++
	d.record("Stop", "stop")
	if p := d.find('P'); p != nil {
		d.tag("stop-at:" + p.kind)
	} else {
		d.tag("stop-at:idle")
	}
}

func (d *driver) appendEvent(e evDesc) {
	d.mu.Lock()
	d.events = append(d.events, e)
	n := len(d.events)
	d.mu.Unlock()
	if err := d.rig.appendEvent(istructs.Offset(n), e.Trig, e.WS); err != nil {
		d.err = err
		return
	}
	d.record(fmt.Sprintf("Append (mkEv %s %d %s)", kit.Bool(e.Trig), e.WS, kit.Bool(e.Mail)),
		fmt.Sprintf("append #%d trig=%v ws=%d mail=%v", n, e.Trig, e.WS, e.Mail))
}

func (d *driver) notify(n istructs.Offset) {
	d.rig.notify(n)
	d.record(fmt.Sprintf("Notify %d", n), fmt.Sprintf("notify %d", n))
	if int(n) > len(d.events) {
		d.tag("notify-ahead")
		d.ahead = true
	}
	d.lastNotify = n
}

func (d *driver) tick() {
	time.Sleep(flushInterval)
	d.record("Tick", "tick")
}

func (d *driver) check() {
	pos, err := d.rig.storedPosition()
	if err != nil {
		d.err = err
		return
	}
	eff, bad, err := d.rig.storedEffects()
	if err != nil {
		d.err = err
		return
	}
	var effs []istructs.Offset
	for o, cnt := range eff {
		for i := int32(0); i < cnt; i++ {
			effs = append(effs, o)
		}
	}
	sort.Slice(effs, func(i, j int) bool { return effs[i] < effs[j] })
	d.mu.Lock()
	ms := append([]istructs.Offset{}, d.mails...)
	d.mu.Unlock()
	human := fmt.Sprintf("check: position=%d rows=%v mails=%v", pos, effs, ms)
	if len(bad) > 0 {
		d.badRows = true
		human += fmt.Sprintf(" ROWS WITH ANOTHER EVENT'S CONTENT=%v", bad)
	}
	d.record(fmt.Sprintf("Check %d %s %s %s", pos, offs(effs), offs(ms), offs(bad)), human)
}

// releaseR lets the parked reader perform its call; fault: the call fails instead
func (d *driver) releaseR(g *gate, fault bool) {
	v := verdict{}
	if fault {
		v.before = errFault
		d.faults++
		d.tag("fault:" + g.kind)
	}
	d.release(g, v)
	switch g.kind {
	case "init":
		if fault {
			d.record("RInitErr", "reader: reading the stored position fails")
		} else {
			d.record(fmt.Sprintf("RInitOk %d", g.val), fmt.Sprintf("reader: (re)starts from stored position %d", g.val))
			d.bufView, d.bufMail, d.inFlush = nil, nil, false
		}
	case "readEnd":
		if fault {
			d.record("RReadEndErr", fmt.Sprintf("reader: ReadPLog(%d, to the end) fails", g.ofs))
		} else {
			d.record("RReadEnd "+offs(g.got), fmt.Sprintf("reader: ReadPLog(%d, to the end) -> %v", g.ofs, g.got))
		}
	case "readOne":
		if fault {
			d.record(fmt.Sprintf("RReadOneErr %d", g.ofs), fmt.Sprintf("reader: ReadPLog(%d, 1) fails", g.ofs))
		} else {
			d.record(fmt.Sprintf("RReadOne %d %s", g.ofs, kit.Bool(len(g.got) > 0)), fmt.Sprintf("reader: ReadPLog(%d, 1) -> %v", g.ofs, g.got))
		}
	}
}

// flushGate: bookkeeping at a storage call of FlushBundles; recognises the map iteration orders
func (d *driver) flushGate(g *gate) {
	if !d.inFlush {
		d.inFlush = true
		d.flView, d.flMail = d.bufView, d.bufMail
		d.bufView, d.bufMail = nil, nil
		d.flGates = 0
		if len(d.flMail) > 0 {
			// FlushBundles applies the view storage last (repair of F21); a view-first order would be a
			// regression: it is recorded, judged by the oracle and rejected by the model, not retried
			d.mailFlushes++
			first := "view"
			if g.kind == "mail" {
				first = "mail"
			}
			d.orderSeen = append(d.orderSeen, first+"-first")
		}
	}
	if g.kind == "putWS" {
		// the first of two workspace batches: insertion order unless the scenario asks for the reverse once
		remaining := map[istructs.WSID]bool{}
		var firstWS istructs.WSID
		for _, o := range d.flView {
			ws := d.events[o-1].WS
			if len(remaining) == 0 {
				firstWS = ws
			}
			remaining[ws] = true
		}
		if len(remaining) == 2 && !d.flTwoSeen {
			d.flTwoSeen = true
			d.twoWSFlushes++
			inOrder := g.ws == firstWS
			wantRev := d.sc.RevWS && d.twoWSFlushes == 1
			if inOrder == wantRev {
				d.wrongOrder = true
			}
			if inOrder {
				d.orderSeen = append(d.orderSeen, "ws-in-order")
			} else {
				d.orderSeen = append(d.orderSeen, "ws-reversed")
			}
		}
	}
	d.flGates++
}

func verdictCoq(v verdict) string {
	switch {
	case v.before != nil:
		return "VBefore"
	case v.after != nil:
		return "VAfter"
	}
	return "VOk"
}

// releaseP lets the parked operator perform its call; fault 1: fails before, 2: fails after (writes)
func (d *driver) releaseP(g *gate, fault int) {
	v := verdict{}
	if fault == 1 || (fault == 2 && (g.kind == "invoke" || g.kind == "mail")) {
		v.before = errFault
	} else if fault == 2 {
		v.after = errFault
	}
	if g.kind == "flush" {
		v = verdict{}
	}
	if v.before != nil || v.after != nil {
		d.faults++
		d.pFailed = true
		d.tag("fault:" + g.kind + ":" + verdictCoq(v))
	}
	switch g.kind {
	case "desc":
		d.inFlush, d.flTwoSeen = false, false
		present := v.before == nil && v.after == nil
		if !present {
			v = verdict{before: errFault}
		}
		d.record(fmt.Sprintf("PLookup %d %s", g.ofs, kit.Bool(present)), fmt.Sprintf("operator: workspace descriptor of #%d (ws %d) readable=%v", g.ofs, g.ws, present))
	case "invoke":
		d.invoked++
		d.inFlush, d.flTwoSeen = false, false
		if v.before == nil {
			d.bufView = append(d.bufView, g.ofs)
			if d.sc.WithMail && d.events[g.ofs-1].Mail {
				d.bufMail = append(d.bufMail, g.ofs)
			}
		}
		d.record(fmt.Sprintf("PInvoke %d %s", g.ofs, kit.Bool(v.before == nil)), fmt.Sprintf("projector invoked for #%d -> ok=%v", g.ofs, v.before == nil))
	case "flush":
		d.inFlush, d.flTwoSeen = false, false
		d.record("PFlushStart", "operator: Flush (timer or disassembly)")
	case "putWS":
		d.flushGate(g)
		d.record(fmt.Sprintf("PPutWS %d %s %s", g.ws, offs(g.offs), verdictCoq(v)), fmt.Sprintf("view PutBatch ws=%d rows=%v %s", g.ws, g.offs, verdictCoq(v)))
	case "putPos":
		d.flushGate(g)
		if len(d.flView) == 0 && len(d.flMail) == 0 {
			d.tag("position-by-interval")
		}
		if v.before == nil {
			d.lastPos = g.ofs
			// F21: is a mail of a triggering event up to this position still unsent?
			d.mu.Lock()
			sent := map[istructs.Offset]bool{}
			for _, o := range d.mails {
				sent[o] = true
			}
			for i, e := range d.events {
				if o := istructs.Offset(i + 1); o <= g.ofs && e.Trig && e.Mail && d.sc.WithMail && !sent[o] {
					d.posBeforeMail = true
				}
			}
			d.mu.Unlock()
		}
		d.record(fmt.Sprintf("PPutPos %d %s", g.ofs, verdictCoq(v)), fmt.Sprintf("view PutBatch position=%d %s", g.ofs, verdictCoq(v)))
	case "mail":
		d.flushGate(g)
		d.record(fmt.Sprintf("PMail %d %s", g.ofs, kit.Bool(v.before == nil)), fmt.Sprintf("send mail for #%d -> ok=%v", g.ofs, v.before == nil))
	}
	d.release(g, v)
}

// ---- choosing moves ----

type move struct {
	name  string
	w     int
	fault int
}

func (d *driver) moves(drain bool) []move {
	var ms []move
	p, r := d.find('P'), d.find('R')
	faultsLeft := d.faults < d.sc.Faults && !drain
	if p != nil {
		ms = append(ms, move{"relP", 40, 0})
		if faultsLeft && p.kind != "flush" {
			ms = append(ms, move{"relP", 4, 1}, move{"relP", 3, 2})
		}
	}
	if r != nil && !(d.stopped || d.pFailed) {
		ms = append(ms, move{"relR", 40, 0})
		if faultsLeft {
			ms = append(ms, move{"relR", 3, 1})
		}
	}
	if drain {
		if len(ms) == 0 {
			ms = append(ms, move{"tick", 1, 0})
		}
		return ms
	}
	if len(d.events) < d.sc.MaxEvents {
		ms = append(ms, move{"append", 14, 0})
	}
	if len(d.events) > 0 || d.sc.Stream == "malformed" {
		ms = append(ms, move{"notify", 10, 0})
	}
	if p == nil {
		ms = append(ms, move{"tick", 10, 0})
	}
	if d.running && !d.stopped && d.stops < d.sc.Stops {
		ms = append(ms, move{"stop", 3, 0})
	}
	if !d.running {
		ms = append(ms, move{"start", 30, 0})
	}
	ms = append(ms, move{"check", 2, 0})
	return ms
}

func (d *driver) newEvent() evDesc {
	if n := len(d.events); n < len(d.sc.Events) {
		return d.sc.Events[n]
	}
	e := evDesc{Trig: d.rng.Chance(7, 10), WS: wsids[0]}
	if d.rng.Chance(2, 5) {
		e.WS = wsids[1]
	}
	if d.sc.WithMail {
		e.Mail = d.rng.Chance(3, 5)
	}
	return e
}

func (d *driver) apply(m move) {
	switch m.name {
	case "relP":
		d.releaseP(d.find('P'), m.fault)
	case "relR":
		d.releaseR(d.find('R'), m.fault != 0)
	case "append":
		d.appendEvent(d.newEvent())
	case "notify":
		n := istructs.Offset(len(d.events))
		if m.fault > 0 {
			n = istructs.Offset(m.fault) // scripted: "notify:N"
		} else if d.sc.Stream == "malformed" {
			switch d.rng.Intn(4) {
			case 0:
				n += istructs.Offset(1 + d.rng.Intn(3)) // ahead of the log
			case 1:
				n = istructs.Offset(d.rng.Intn(len(d.events) + 1)) // stale / zero
			}
		} else if d.rng.Chance(1, 5) && n > d.lastNotify {
			// the actualizer may see any of the notifications the command processor sent so far
			n = d.lastNotify + istructs.Offset(1+d.rng.Intn(int(n-d.lastNotify)))
		}
		d.notify(n)
	case "tick":
		d.tick()
	case "stop":
		d.stop()
	case "start":
		d.start()
	case "check":
		d.check()
	}
}

func (d *driver) pick(drain bool) move {
	ms := d.moves(drain)
	if !drain && d.script < len(d.sc.Script) {
		// scripted move: "name", "name:fault" or "name:fault@kind" (the fault only at a call of that kind)
		parts := strings.SplitN(d.sc.Script[d.script], ":", 2)
		d.script++
		mv := move{name: parts[0]}
		if len(parts) == 2 {
			fk := strings.SplitN(parts[1], "@", 2)
			fmt.Sscanf(fk[0], "%d", &mv.fault)
			if len(fk) == 2 {
				who := byte('P')
				if mv.name == "relR" {
					who = 'R'
				}
				if g := d.find(who); g == nil || g.kind != fk[1] {
					mv.fault = 0
				}
			}
		}
		for _, m := range ms {
			if m.name == mv.name {
				return mv
			}
		}
		return move{name: "skip"}
	}
	total := 0
	for _, m := range ms {
		total += m.w
	}
	x := d.rng.Intn(total)
	for _, m := range ms {
		if x < m.w {
			return m
		}
		x -= m.w
	}
	return ms[0]
}

// runOnce executes the scenario inside the current bubble; ok=false: a Go map was iterated in
// another order than the scenario's canonical one (the attempt is discarded and repeated)
func runOnce(sc scenario, acceptAnyOrder bool) (d *driver, ok bool) {
	d = &driver{sc: sc, rng: kit.NewRng(sc.Seed), tags: map[string]bool{}}
	rg, err := newRig(d, rigConf{withMail: sc.WithMail, bundlesLimit: sc.Limit, flushInterval: int64(flushInterval), flushPosEvery: int64(posTicks * flushInterval), noEventCache: sc.NoCache})
	if err != nil {
		d.err = err
		return d, true
	}
	d.rig = rg
	defer rg.close()
	for i := 0; i < sc.Burst && len(d.events) < sc.MaxEvents; i++ {
		d.appendEvent(d.newEvent())
	}
	d.start()
	scripted := len(sc.Script) > 0
	for i := 0; (i < sc.Steps || (scripted && d.script < len(sc.Script))) && d.err == nil; i++ {
		d.quiesce()
		if d.wrongOrder && !acceptAnyOrder {
			break
		}
		wasRunning := d.running
		d.apply(d.pick(false))
		d.quiesce()
		if wasRunning && !d.running {
			d.check() // what is persisted after every stop
		}
	}
	// drain: no more faults; everything notified; timers run out
	if !(d.wrongOrder && !acceptAnyOrder) && d.err == nil {
		d.drain(acceptAnyOrder)
	}
	d.teardown()
	return d, !(d.wrongOrder && !acceptAnyOrder)
}

func (d *driver) drain(acceptAnyOrder bool) {
	d.quiesce()
	for guard := 0; d.running && d.stopped && guard < 1000; guard++ { // let a stop complete
		if p := d.find('P'); p != nil {
			d.releaseP(p, 0)
		}
		d.quiesce()
	}
	if !d.running {
		d.start()
	}
	if len(d.events) > 0 {
		d.notify(istructs.Offset(len(d.events)))
	}
	idle := 0
	for guard := 0; guard < 5000 && idle < 2 && d.err == nil; guard++ {
		d.quiesce()
		if d.wrongOrder && !acceptAnyOrder {
			return // the attempt is discarded by the caller
		}
		m := d.pick(true)
		if m.name == "tick" {
			d.tick()
			d.quiesce()
			if d.find('P') == nil && d.find('R') == nil {
				idle++
			}
			continue
		}
		idle = 0
		d.apply(m)
	}
	d.quiesce()
	// outside the property's domain (a notification ran ahead of the log) nothing is claimed about the end
	d.quiet = idle >= 2 && !d.ahead
	d.check()
}

// teardown stops the actualizer and lets every parked goroutine run out
func (d *driver) teardown() {
	if d.rig == nil {
		return
	}
	if d.cancel != nil {
		d.cancel()
	}
	d.stopped = true
	for guard := 0; guard < 100000; guard++ {
		synctest.Wait()
		d.mu.Lock()
		n := len(d.parked)
		var g *gate
		if n > 0 {
			g = d.parked[0]
			d.parked = d.parked[1:]
		}
		ended := d.ended || !d.running
		d.mu.Unlock()
		if g != nil {
			g.ch <- verdict{}
			continue
		}
		if ended {
			return
		}
		time.Sleep(flushInterval)
	}
}
