// Package c09: the real async actualizer (pkg/processors/actualizers) driven step by step.
//
// rig.go: an external replica of the package's own test rig (deployTestApp): one application with
// one asynchronous projector over real istructsmem / mem storage / in10nmem / appparts, with an
// interposition layer (IAppPartitions -> IAppPartition -> IAppStructs -> IEvents / IViewRecords,
// the projector function, the e-mail sender) at which the harness parks the actualizer's goroutines,
// observes what they do and injects faults.
package c09

import (
	"context"
	"errors"
	"fmt"
	"sort"
	"strconv"
	"strings"
	"time"

	"github.com/voedger/voedger/pkg/appdef"
	"github.com/voedger/voedger/pkg/appdef/builder"
	"github.com/voedger/voedger/pkg/appdef/constraints"
	"github.com/voedger/voedger/pkg/appdef/filter"
	appdefsys "github.com/voedger/voedger/pkg/appdef/sys"
	"github.com/voedger/voedger/pkg/appparts"
	wsdescutil "github.com/voedger/voedger/pkg/coreutils/testwsdesc"
	"github.com/voedger/voedger/pkg/goutils/logger"
	"github.com/voedger/voedger/pkg/goutils/timeu"
	"github.com/voedger/voedger/pkg/iextengine"
	"github.com/voedger/voedger/pkg/in10n"
	"github.com/voedger/voedger/pkg/in10nmem"
	"github.com/voedger/voedger/pkg/iratesce"
	"github.com/voedger/voedger/pkg/isecretsimpl"
	"github.com/voedger/voedger/pkg/isequencer"
	"github.com/voedger/voedger/pkg/istorage/mem"
	istorageimpl "github.com/voedger/voedger/pkg/istorage/provider"
	"github.com/voedger/voedger/pkg/istructs"
	"github.com/voedger/voedger/pkg/istructsmem"
	payloads "github.com/voedger/voedger/pkg/itokens-payloads"
	"github.com/voedger/voedger/pkg/itokensjwt"
	imetrics "github.com/voedger/voedger/pkg/metrics"
	"github.com/voedger/voedger/pkg/processors/actualizers"
	"github.com/voedger/voedger/pkg/state"
	"github.com/voedger/voedger/pkg/sys"
	"github.com/voedger/voedger/pkg/sys/storages"
	"github.com/voedger/voedger/pkg/vvm/engines"
)

var (
	testApp   = istructs.AppQName_test1_app1
	partID    = istructs.PartitionID(1) // the partition whose PLog the actualizer follows
	otherPart = istructs.PartitionID(2) // workspace descriptors are created through this one
	qnWS      = appdef.NewQName("test", "WS")
	qnWSDesc  = appdef.NewQName("test", "WSDesc")
	qnCmd     = appdef.NewQName("test", "Cmd")   // triggers the projector
	qnOther   = appdef.NewQName("test", "Other") // does not
	qnPrj     = appdef.NewQName("test", "prj")
	qnSeen    = appdef.NewQName("test", "Seen")
	qnArg     = appdef.NewQName("test", "Arg") // argument of qnCmd: a string the projector copies into its row
	wsids     = []istructs.WSID{1001, 1002}
	errFault  = errors.New("injected fault")
)

// hooks is what the interposition layer calls; every method may block (park) the caller
type hooks interface {
	// borrowFlush: WaitForBorrow called with context.Background(): only asyncProjector.Flush does that
	borrowFlush()
	// readOffset: the actualizer reads its persisted position; returns an injected error or nil
	readOffset() error
	// readPLog: one ReadPLog call of the reader; the returned error is injected instead of the read
	readPLog(from istructs.Offset, count int) error
	// afterReadPLog: the read returned these offsets
	afterReadPLog(got []istructs.Offset)
	// afterReadOffset: the position that was read
	afterReadOffset(val istructs.Offset)
	// invoke: the projector function is entered for the event at this offset; error = projector failure;
	// mail = also send an e-mail intent
	invoke(ofs istructs.Offset) (fail error, mail bool)
	// putBatch: view rows are about to be written; before!=nil: fail without writing, after!=nil: write, then fail
	putBatch(ws istructs.WSID, offsets []istructs.Offset, position istructs.Offset) (before, after error)
	// sendMail: an e-mail for this offset is about to be sent; error = sender failure
	sendMail(ofs istructs.Offset) error
	// lookupDescriptor: the descriptor record of this workspace is about to be read (isProjectorDefined
	// of the operator; reads from inside the projector function are not reported); absent = the
	// command that creates the workspace has stored its event and not yet applied its records
	lookupDescriptor(ws istructs.WSID) (absent bool)
	// invokeEnd: the projector function returns
	invokeEnd()
}

type rig struct {
	as       istructs.IAppStructs
	appParts appparts.IAppPartitions
	broker   in10n.IN10nBroker
	runner   appparts.IActualizerRunner
	cleanups []func()
	idGen    istructs.IIDGenerator
	h        hooks
	withMail bool
}

type rigConf struct {
	withMail      bool // the projector declares a sys.SendMail intent (makes it non-buffered)
	bundlesLimit  int
	flushInterval int64 // ns
	flushPosEvery int64 // ns
	noEventCache  bool  // PLogEventCacheSize = 0: single reads come from the storage into pooled buffers
}

func newRig(h hooks, rc rigConf) (*rig, error) {
	logger.SetLogLevel(logger.LogLevelNone)
	r := &rig{h: h, idGen: istructsmem.NewIDGenerator(), withMail: rc.withMail}
	adb := builder.New()
	adb.AddPackage("test", "test.com/test")
	wsb := adb.AddWorkspace(qnWS)
	descr := wsb.AddCDoc(qnWSDesc)
	descr.SetSingleton()
	wsb.SetDescriptor(qnWSDesc)
	wsdescutil.AddWorkspaceDescriptorStubDef(wsb)
	actualizers.ProvideViewDef(wsb, qnSeen, func(view appdef.IViewBuilder) {
		view.Key().PartKey().AddField("pk", appdef.DataKind_int32)
		view.Key().ClustCols().AddField("ofs", appdef.DataKind_int64)
		view.Value().AddField("cnt", appdef.DataKind_int32, true)
		view.Value().AddField("s", appdef.DataKind_string, false, constraints.MaxLen(1000))
	})
	wsb.AddObject(qnArg).AddField("s", appdef.DataKind_string, true, constraints.MaxLen(1000))
	wsb.AddCommand(qnCmd).SetParam(qnArg)
	wsb.AddCommand(qnOther)
	prj := wsb.AddProjector(qnPrj)
	prj.Events().Add([]appdef.OperationKind{appdef.OperationKind_Execute}, filter.QNames(qnCmd))
	if rc.withMail {
		prj.Intents().Add(sys.Storage_SendMail)
	}

	cfgs := make(istructsmem.AppConfigsType, 1)
	cfg := cfgs.AddBuiltInAppConfig(testApp, adb)
	cfg.SetNumAppWorkspaces(istructs.DefaultNumAppWorkspaces)
	if rc.noEventCache {
		cfg.Params.PLogEventCacheSize = 0
	}
	cfg.Resources.Add(istructsmem.NewCommandFunction(qnCmd, istructsmem.NullCommandExec))
	cfg.Resources.Add(istructsmem.NewCommandFunction(qnOther, istructsmem.NullCommandExec))
	cfg.AddAsyncProjectors(istructs.Projector{Name: qnPrj, Func: r.projector})
	appDef, err := adb.Build()
	if err != nil {
		return nil, err
	}
	storage := istorageimpl.Provide(mem.Provide(timeu.NewITime()))
	asp := istructsmem.Provide(cfgs, payloads.ProvideIAppTokensFactory(itokensjwt.TestTokensJWT()), storage, isequencer.SequencesTrustLevel_0, nil)
	if r.as, err = asp.BuiltIn(testApp); err != nil {
		return nil, err
	}
	broker, brokerCleanup := in10nmem.NewN10nBroker(in10n.Quotas{Channels: 1000, ChannelsPerSubject: 1000, Subscriptions: 1000, SubscriptionsPerSubject: 1000}, timeu.NewITime())
	r.broker = broker
	statelessResources := istructsmem.NewStatelessResources()
	secretReader := isecretsimpl.ProvideSecretReader()
	appPartsCtx, appPartsCancel := context.WithCancel(context.Background())
	appParts, appPartsCleanup, err := appparts.New2(appPartsCtx, asp,
		actualizers.NewSyncActualizerFactoryFactory(actualizers.ProvideSyncActualizerFactory(), secretReader, broker, statelessResources),
		appparts.NullActualizerRunner, appparts.NullSchedulerRunner,
		engines.ProvideExtEngineFactories(engines.ExtEngineFactoriesConfig{AppConfigs: cfgs, StatelessResources: statelessResources,
			WASMConfig: iextengine.WASMFactoryConfig{Compile: false}}, "", imetrics.Provide()),
		iratesce.TestBucketsFactory)
	if err != nil {
		appPartsCancel()
		brokerCleanup()
		return nil, err
	}
	r.cleanups = []func(){appPartsCancel, appPartsCleanup, brokerCleanup}
	appParts.DeployApp(testApp, nil, appDef, 2, appparts.PoolSize(4, 4, 4, 0), cfg.NumAppWorkspaces())
	appParts.DeployAppPartitions(testApp, []istructs.PartitionID{partID})
	r.appParts = &wrapParts{IAppPartitions: appParts, r: r}
	// workspace descriptors: written through the other partition so that the followed PLog starts empty
	for i, ws := range wsids {
		if err := wsdescutil.CreateCDocWorkspaceDescriptorStub(r.as, otherPart, ws, qnWSDesc, istructs.Offset(i+1), 1); err != nil {
			r.close()
			return nil, err
		}
	}
	r.runner = actualizers.ProvideActualizers(actualizers.BasicAsyncActualizerConfig{
		VvmName:               "verif",
		SecretReader:          secretReader,
		Metrics:               imetrics.Provide(),
		Broker:                broker,
		BundlesLimit:          rc.bundlesLimit,
		FlushInterval:         time.Duration(rc.flushInterval),
		FlushPositionInterval: time.Duration(rc.flushPosEvery),
		EmailSender:           newMailer(storages.NewIEmailSenderSMTP().Send, r),
	})
	r.runner.SetAppPartitions(r.appParts)
	return r, nil
}

func (r *rig) close() {
	for _, c := range r.cleanups {
		c()
	}
}

// run is one incarnation of the actualizer; returns when ctx is cancelled
func (r *rig) run(ctx context.Context) { r.runner.NewAndRun(ctx, testApp, partID, qnPrj) }

// appendEvent puts one event at the given offset into the followed PLog (WLogOffset carries the
// PLog offset so that the projector function can tell which event it sees)
func (r *rig) appendEvent(ofs istructs.Offset, trig bool, ws istructs.WSID) error {
	qn := qnOther
	if trig {
		qn = qnCmd
	}
	reb := r.as.Events().GetNewRawEventBuilder(istructs.NewRawEventBuilderParams{GenericRawEventBuilderParams: istructs.GenericRawEventBuilderParams{
		Workspace: ws, HandlingPartition: partID, PLogOffset: ofs, WLogOffset: ofs, QName: qn}})
	if trig {
		reb.ArgumentObjectBuilder().PutString("s", payload(ofs))
	}
	raw, err := reb.BuildRawEvent()
	if err != nil {
		return err
	}
	ev, err := r.as.Events().PutPlog(raw, nil, r.idGen)
	if err != nil {
		return err
	}
	ev.Release()
	return nil
}

// payload is the string carried by the argument of the triggering event at this offset
func payload(ofs istructs.Offset) string { return strings.Repeat(fmt.Sprintf("<%06d>", ofs), 30) }

// notify is what the command processor does after it saved the event at this offset
func (r *rig) notify(ofs istructs.Offset) {
	r.broker.Update(in10n.ProjectionKey{App: testApp, Projection: actualizers.PLogUpdatesQName, WS: istructs.WSID(partID)}, ofs)
}

// storedPosition reads the persisted resume position (not through the interposition layer)
func (r *rig) storedPosition() (istructs.Offset, error) {
	return actualizers.ActualizerOffset(r.as, partID, qnPrj)
}

// storedEffects: offset -> how many times the projector's effect for it was persisted-over
func (r *rig) storedEffects() (map[istructs.Offset]int32, []istructs.Offset, error) {
	res := map[istructs.Offset]int32{}
	var bad []istructs.Offset // rows whose string is not the one of their event
	for _, ws := range wsids {
		kb := r.as.ViewRecords().KeyBuilder(qnSeen)
		kb.PutInt32("pk", 0)
		err := r.as.ViewRecords().Read(context.Background(), ws, kb, func(k istructs.IKey, v istructs.IValue) error {
			o := istructs.Offset(k.AsInt64("ofs"))
			res[o] = v.AsInt32("cnt")
			if v.AsString("s") != payload(o) {
				bad = append(bad, o)
			}
			return nil
		})
		if err != nil {
			return nil, nil, err
		}
	}
	sort.Slice(bad, func(i, j int) bool { return bad[i] < bad[j] })
	return res, bad, nil
}

// ---- the instrumented projector ----

func (r *rig) projector(event istructs.IPLogEvent, s istructs.IState, intents istructs.IIntents) error {
	ofs := event.WLogOffset()
	fail, withMail := r.h.invoke(ofs)
	defer r.h.invokeEnd()
	if fail != nil {
		return fail
	}
	kb, err := s.KeyBuilder(sys.Storage_View, qnSeen)
	if err != nil {
		return err
	}
	kb.PutInt32("pk", 0)
	kb.PutInt64("ofs", int64(ofs))
	old, ok, err := s.CanExist(kb)
	if err != nil {
		return err
	}
	vb, err := intents.NewValue(kb)
	if err != nil {
		return err
	}
	cnt := int32(1)
	if ok {
		cnt = old.AsInt32("cnt") + 1
	}
	vb.PutInt32("cnt", cnt)
	// as projectors do: a value read from the event goes into the intent as it is
	vb.PutString("s", event.ArgumentObject().AsString("s"))
	if withMail && r.withMail {
		mk, err := s.KeyBuilder(sys.Storage_SendMail, appdef.NullQName)
		if err != nil {
			return err
		}
		mk.PutString(sys.Storage_SendMail_Field_Host, "localhost")
		mk.PutInt32(sys.Storage_SendMail_Field_Port, 25)
		mk.PutString(sys.Storage_SendMail_Field_From, "verif@localhost")
		mk.PutString(sys.Storage_SendMail_Field_To, "verif@localhost")
		mk.PutString(sys.Storage_SendMail_Field_Subject, strconv.FormatUint(uint64(ofs), 10))
		if _, err := intents.NewValue(mk); err != nil {
			return err
		}
	}
	return nil
}

// mailer implements state.IEmailSender. Its option type is inferred from the real SMTP sender's
// method so that this module does not have to import the mail library directly.
type mailer[O any] struct{ r *rig }

func newMailer[O any](_ func(string, state.EmailMessage, ...O) error, r *rig) *mailer[O] {
	return &mailer[O]{r: r}
}

func (m *mailer[O]) Send(_ string, msg state.EmailMessage, _ ...O) error {
	ofs, err := strconv.ParseUint(msg.Subject, 10, 64)
	if err != nil {
		return fmt.Errorf("unexpected mail subject %q", msg.Subject)
	}
	return m.r.h.sendMail(istructs.Offset(ofs))
}

// ---- interposition layer ----

type wrapParts struct {
	appparts.IAppPartitions
	r *rig
}

func (w *wrapParts) WaitForBorrow(ctx context.Context, app appdef.AppQName, part istructs.PartitionID, kind appparts.ProcessorKind) (appparts.IAppPartition, error) {
	if ctx == context.Background() {
		w.r.h.borrowFlush()
	}
	p, err := w.IAppPartitions.WaitForBorrow(ctx, app, part, kind)
	if err != nil {
		return nil, err
	}
	return &wrapPart{IAppPartition: p, r: w.r}, nil
}

type wrapPart struct {
	appparts.IAppPartition
	r *rig
}

func (w *wrapPart) AppStructs() istructs.IAppStructs {
	return &wrapStructs{IAppStructs: w.IAppPartition.AppStructs(), r: w.r}
}

type wrapStructs struct {
	istructs.IAppStructs
	r *rig
}

func (w *wrapStructs) Events() istructs.IEvents {
	return &wrapEvents{IEvents: w.IAppStructs.Events(), r: w.r}
}
func (w *wrapStructs) Records() istructs.IRecords {
	return &wrapRecords{IRecords: w.IAppStructs.Records(), r: w.r}
}
func (w *wrapStructs) ViewRecords() istructs.IViewRecords {
	return &wrapViews{IViewRecords: w.IAppStructs.ViewRecords(), r: w.r}
}

type wrapRecords struct {
	istructs.IRecords
	r *rig
}

func (w *wrapRecords) GetSingleton(ws istructs.WSID, qn appdef.QName) (istructs.IRecord, error) {
	if qn == appdef.QNameCDocWorkspaceDescriptor && w.r.h.lookupDescriptor(ws) {
		return istructsmem.NewNullRecord(istructs.NullRecordID), nil
	}
	return w.IRecords.GetSingleton(ws, qn)
}

type wrapEvents struct {
	istructs.IEvents
	r *rig
}

func (w *wrapEvents) ReadPLog(ctx context.Context, part istructs.PartitionID, offset istructs.Offset, toRead int, cb istructs.PLogEventsReaderCallback) error {
	if part != partID {
		return w.IEvents.ReadPLog(ctx, part, offset, toRead, cb)
	}
	if err := w.r.h.readPLog(offset, toRead); err != nil {
		return err
	}
	var got []istructs.Offset
	err := w.IEvents.ReadPLog(ctx, part, offset, toRead, func(o istructs.Offset, e istructs.IPLogEvent) error {
		got = append(got, o)
		return cb(o, e)
	})
	w.r.h.afterReadPLog(got)
	return err
}

type wrapViews struct {
	istructs.IViewRecords
	r *rig
}

func (w *wrapViews) Get(ws istructs.WSID, kb istructs.IKeyBuilder) (istructs.IValue, error) {
	if ws != istructs.NullWSID {
		return w.IViewRecords.Get(ws, kb)
	}
	if err := w.r.h.readOffset(); err != nil {
		return nil, err
	}
	v, err := w.IViewRecords.Get(ws, kb)
	if err == nil {
		w.r.h.afterReadOffset(istructs.Offset(v.AsInt64(appdefsys.ProjectionOffsetsView.Fields.Offset)))
	} else if errors.Is(err, istructs.ErrRecordNotFound) {
		w.r.h.afterReadOffset(0)
	}
	return v, err
}

func (w *wrapViews) PutBatch(ws istructs.WSID, batch []istructs.ViewKV) error {
	offsets, position := describeBatch(ws, batch)
	before, after := w.r.h.putBatch(ws, offsets, position)
	if before != nil {
		return before
	}
	if err := w.IViewRecords.PutBatch(ws, batch); err != nil {
		return err
	}
	return after
}

// describeBatch: the event offsets whose effect rows the batch carries (a workspace batch) or the
// resume position it carries (the NullWSID batch)
func describeBatch(ws istructs.WSID, batch []istructs.ViewKV) (offsets []istructs.Offset, position istructs.Offset) {
	for _, kv := range batch {
		if ws == istructs.NullWSID {
			position = istructs.Offset(kv.Value.Build().AsInt64(appdefsys.ProjectionOffsetsView.Fields.Offset))
			continue
		}
		if _, _, err := kv.Key.ToBytes(ws); err != nil {
			continue
		}
		offsets = append(offsets, istructs.Offset(kv.Key.(istructs.IRowReader).AsInt64("ofs")))
	}
	return offsets, position
}
