// Package c09: harness of property C09 (registers itself with kit.Register in an init function).
package c09
