package c09

import "verifharness/kit"

func init() {
	kit.Register("C09", kit.Runner{Generate: Generate, Replay: Replay})
}
