package c09

import (
	"errors"
	"io"
	"reflect"
	"sync"
	"testing"
	"testing/synctest"
	"time"
)

// The actualizer runs on real-time timers (flush interval, retry back-off) and on goroutines that
// can only be observed from outside.  Every case therefore runs inside a testing/synctest bubble:
// time is virtual (it advances only when the driver sleeps) and synctest.Wait() returns exactly when
// every goroutine of the actualizer is blocked - at one of the harness's parking points or idle.
// synctest needs a *testing.T; this file obtains one from a harness binary through
// testing.MainStart (what `go test` itself generates).

type noDeps struct{}

type corpusEntry = struct {
	Parent     string
	Path       string
	Data       []byte
	Values     []any
	Generation int
	IsSeed     bool
}

var errNoDeps = errors.New("not available in the harness")

func (noDeps) ImportPath() string                          { return "verifharness/c09" }
func (noDeps) ModulePath() string                          { return "verifharness" }
func (noDeps) MatchString(string, string) (bool, error)    { return true, nil }
func (noDeps) SetPanicOnExit0(bool)                        {}
func (noDeps) StartCPUProfile(io.Writer) error             { return errNoDeps }
func (noDeps) StopCPUProfile()                             {}
func (noDeps) StartTestLog(io.Writer)                      {}
func (noDeps) StopTestLog() error                          { return nil }
func (noDeps) WriteProfileTo(string, io.Writer, int) error { return errNoDeps }
func (noDeps) CoordinateFuzzing(time.Duration, int64, time.Duration, int64, int, []corpusEntry, []reflect.Type, string, string) error {
	return errNoDeps
}
func (noDeps) RunFuzzWorker(func(corpusEntry) error) error { return errNoDeps }
func (noDeps) ReadCorpus(string, []reflect.Type) ([]corpusEntry, error) {
	return nil, errNoDeps
}
func (noDeps) CheckCorpus([]any, []reflect.Type) error { return nil }
func (noDeps) ResetCoverage()                          {}
func (noDeps) SnapshotCoverage()                       {}
func (noDeps) InitRuntimeCoverage() (string, func(string, string) (string, error), func() float64) {
	return "", nil, nil
}

var bubbleOnce sync.Mutex

// withBubbles calls body with a function that runs its argument inside a fresh synctest bubble.
func withBubbles(body func(bubble func(func()))) error {
	bubbleOnce.Lock()
	defer bubbleOnce.Unlock()
	var failed bool
	m := testing.MainStart(noDeps{}, []testing.InternalTest{{Name: "C09", F: func(t *testing.T) {
		body(func(f func()) { synctest.Test(t, func(*testing.T) { f() }) })
		failed = t.Failed()
	}}}, nil, nil, nil)
	if code := m.Run(); code != 0 || failed {
		return errors.New("the synctest driver reported a failure")
	}
	return nil
}
