package c09

import (
	"crypto/sha1"
	"encoding/json"
	"fmt"
	"os"
	"path/filepath"
	"runtime"
	"sort"
	"strings"

	"verifharness/kit"
)

// gen.go: scenario generation, the retry loop that pins the Go map iteration orders, case output.

const maxAttempts = 5000

type caseDesc struct {
	Scenario scenario `json:"scenario"`
	Steps    []string `json:"steps"`
	Quiet    bool     `json:"ended_quiescent"`
	Orders   []string `json:"map_orders_observed,omitempty"`
	Note     string   `json:"note,omitempty"`
}

func genScenario(rng *kit.Rng) scenario {
	sc := scenario{Seed: rng.U64(), Limit: kit.Pick(rng, []int{1, 2, 3, 3, 5, 100}), Steps: 25 + rng.Intn(40), MaxEvents: 3 + rng.Intn(10), Burst: rng.Intn(4)}
	switch x := rng.Intn(100); {
	case x < 28:
		sc.Stream = "plain"
	case x < 53:
		sc.Stream, sc.Faults = "faults", 1+rng.Intn(3)
	case x < 68:
		sc.Stream, sc.Stops, sc.Faults = "restarts", 1+rng.Intn(2), rng.Intn(2)
	case x < 84:
		sc.Stream, sc.WithMail, sc.Faults, sc.Stops = "mail", true, rng.Intn(3), rng.Intn(2)
		sc.MaxEvents = 1 + rng.Intn(5)
	case x < 92:
		sc.Stream, sc.Faults = "malformed", rng.Intn(2)
	case x < 96:
		// buffered projector, events mostly arriving one by one through notifications, PLog event cache off
		sc.Stream, sc.NoCache, sc.Limit, sc.Faults = "alias", true, kit.Pick(rng, []int{5, 100}), rng.Intn(2)
		sc.Burst = 0
	default:
		sc.Stream = "batch"
		sc.Burst = kit.Pick(rng, []int{49, 50, 51, 52, 99, 100, 101})
		sc.MaxEvents = sc.Burst + rng.Intn(3)
		sc.Limit = kit.Pick(rng, []int{7, 100})
		sc.Steps = 20 + rng.Intn(30)
		sc.Faults = rng.Intn(2)
	}
	if !sc.WithMail && sc.Limit >= 2 {
		sc.RevWS = rng.Chance(1, 10)
	}
	return sc
}

// runCase runs the scenario in fresh bubbles until the Go map iteration orders it met are the
// canonical ones of the scenario (so that a fixed seed gives the same trace on every run)
func runCase(bubble func(func()), sc scenario) *driver {
	var d *driver
	for attempt := 0; attempt < maxAttempts; attempt++ {
		ok := false
		last := attempt == maxAttempts-1
		bubble(func() { d, ok = runOnce(sc, last) })
		if ok {
			if last && d.wrongOrder {
				d.tag("map-order:not-canonical")
			}
			break
		}
	}
	return d
}

func emit(out *kit.Out, d *driver, note string) {
	sc := d.sc
	coq := fmt.Sprintf("mkTrace %d %s %d %s %s", sc.Limit, kit.Bool(sc.WithMail), posTicks, kit.Bool(d.quiet), kit.List(d.acts))
	h := sha1.Sum([]byte(strings.Join(d.acts, ";")))
	d.tag("stream:" + sc.Stream)
	d.tag(fmt.Sprintf("limit:%d", sc.Limit))
	d.tag(fmt.Sprintf("faults:%d", d.faults))
	d.tag(fmt.Sprintf("stops:%d", d.stops))
	for _, o := range d.orderSeen {
		d.tag("map-order:" + o)
	}
	if d.badRows {
		d.tag("C09-F2:row-content-of-another-event")
	}
	if d.posBeforeMail {
		d.tag("F21:position-before-mail")
	}
	if !d.quiet {
		d.tag("not-quiescent-at-end")
	}
	restarts := 0
	for _, a := range d.acts {
		if strings.HasPrefix(a, "RInitOk ") && a != "RInitOk 0" {
			restarts++
		}
	}
	var tags []string
	for t := range d.tags {
		tags = append(tags, t)
	}
	sort.Strings(tags)
	out.Emit(kit.Case{
		Coq:        coq,
		Key:        fmt.Sprintf("%s/%x", sc.Stream, h[:8]),
		Nontrivial: d.invoked >= 2 && (d.faults+d.stops > 0 || restarts > 0),
		Desc:       caseDesc{Scenario: sc, Steps: d.desc, Quiet: d.quiet, Orders: d.orderSeen, Note: note},
		Tags:       tags,
	})
}

func Generate(seed uint64, n int, tier, corpusDir string, shard int, out *kit.Out) error {
	// one P: which pooled buffer a read gets next (sync.Pool under bytebufferpool) does not depend on
	// how the goroutines are spread over processors
	runtime.GOMAXPROCS(1)
	var firstErr error
	err := withBubbles(func(bubble func(func())) {
		if corpusDir != "" && shard == 0 {
			files, _ := filepath.Glob(filepath.Join(corpusDir, "*.json"))
			sort.Strings(files)
			for _, f := range files {
				sc, note, err := loadScenario(f)
				if err != nil {
					firstErr = fmt.Errorf("%s: %w", f, err)
					return
				}
				d := runCase(bubble, sc)
				if d.err != nil {
					firstErr = fmt.Errorf("%s: %w", f, d.err)
					return
				}
				d.tag("corpus:" + strings.TrimSuffix(filepath.Base(f), ".json"))
				emit(out, d, note)
			}
		}
		rng := kit.NewRng(seed)
		for i := 0; i < n; i++ {
			sc := genScenario(rng.Fork())
			d := runCase(bubble, sc)
			if d.err != nil {
				firstErr = fmt.Errorf("case %d (seed %d): %w", i, sc.Seed, d.err)
				return
			}
			emit(out, d, "")
		}
	})
	if firstErr != nil {
		return firstErr
	}
	return err
}

// loadScenario reads a corpus file ({"scenario": ..., "note": ...}) or a replay file written by
// bin/check ({"case": {"desc": {"scenario": ...}}})
func loadScenario(path string) (scenario, string, error) {
	var f struct {
		Scenario *scenario `json:"scenario"`
		Note     string    `json:"note"`
		Case     *struct {
			Desc caseDesc `json:"desc"`
		} `json:"case"`
	}
	b, err := os.ReadFile(path)
	if err != nil {
		return scenario{}, "", err
	}
	if err := json.Unmarshal(b, &f); err != nil {
		return scenario{}, "", err
	}
	switch {
	case f.Scenario != nil:
		return *f.Scenario, f.Note, nil
	case f.Case != nil:
		return f.Case.Desc.Scenario, f.Case.Desc.Note, nil
	}
	return scenario{}, "", fmt.Errorf("no scenario in file")
}

func Replay(path string, out *kit.Out) error {
	sc, note, err := loadScenario(path)
	if err != nil {
		return err
	}
	runtime.GOMAXPROCS(1)
	var derr error
	err = withBubbles(func(bubble func(func())) {
		d := runCase(bubble, sc)
		if d.err != nil {
			derr = d.err
			return
		}
		emit(out, d, note)
	})
	if derr != nil {
		return derr
	}
	return err
}
