// Package c03: record store vs fold of logged events (property C03).
// rig.go: the application schema and the real istructsmem instance the scenarios run on.
package c03

import (
	"context"
	"fmt"
	"os"

	"verifharness/kit"

	"github.com/voedger/voedger/pkg/appdef"
	"github.com/voedger/voedger/pkg/appdef/builder"
	"github.com/voedger/voedger/pkg/isequencer"
	"github.com/voedger/voedger/pkg/istorage"
	"github.com/voedger/voedger/pkg/istorage/bbolt"
	"github.com/voedger/voedger/pkg/istorage/mem"
	"github.com/voedger/voedger/pkg/istorage/provider"
	"github.com/voedger/voedger/pkg/istructs"
	"github.com/voedger/voedger/pkg/istructsmem"
	payloads "github.com/voedger/voedger/pkg/itokens-payloads"
	"github.com/voedger/voedger/pkg/itokensjwt"
)

// field kinds of the model: numbers (int32/int64/bool/ref, printed FNum) and strings (string/bytes, FStr)
type fieldDef struct {
	Name string
	Kind appdef.DataKind
	Refs []string // for RecordID fields: allowed target types
}

type typeDef struct {
	Name      string
	Kind      string // cdoc | crecord | wdoc
	Singleton bool
	Fields    []fieldDef
	// containers: name -> child type
	Containers [][2]string
}

// schema: documents, nested records (two levels), a workspace document, two singletons,
// reference fields.  Type index in the Coq terms = position in this list + 1.
var schema = []typeDef{
	{Name: "Doc", Kind: "cdoc", Fields: []fieldDef{
		{"n", appdef.DataKind_int32, nil}, {"big", appdef.DataKind_int64, nil}, {"flag", appdef.DataKind_bool, nil},
		{"name", appdef.DataKind_string, nil}, {"blob", appdef.DataKind_bytes, nil},
		{"ref", appdef.DataKind_RecordID, []string{"Doc", "WDoc"}}},
		Containers: [][2]string{{"items", "Item"}, {"extra", "Item"}}},
	{Name: "Item", Kind: "crecord", Fields: []fieldDef{
		{"qty", appdef.DataKind_int32, nil}, {"note", appdef.DataKind_string, nil}, {"ref", appdef.DataKind_RecordID, []string{"Doc"}}},
		Containers: [][2]string{{"subs", "Sub"}}},
	{Name: "Sub", Kind: "crecord", Fields: []fieldDef{
		{"tag", appdef.DataKind_string, nil}, {"w", appdef.DataKind_int64, nil}}},
	{Name: "WDoc", Kind: "wdoc", Fields: []fieldDef{
		{"cnt", appdef.DataKind_int64, nil}, {"txt", appdef.DataKind_string, nil}, {"owner", appdef.DataKind_RecordID, []string{"Doc"}},
		{"raw", appdef.DataKind_bytes, nil}}},
	{Name: "Settings", Kind: "cdoc", Singleton: true, Fields: []fieldDef{
		{"opt", appdef.DataKind_int64, nil}, {"title", appdef.DataKind_string, nil}}},
	{Name: "WState", Kind: "wdoc", Singleton: true, Fields: []fieldDef{
		{"seq", appdef.DataKind_int32, nil}, {"memo", appdef.DataKind_bytes, nil}}},
}

// container names: index in the Coq terms = position + 1 (0 = no container)
var containerNames = []string{"items", "extra", "subs"}

func qn(name string) appdef.QName { return appdef.NewQName("verif", name) }

func typeIdx(q appdef.QName) uint64 {
	for i, t := range schema {
		if qn(t.Name) == q {
			return uint64(i + 1)
		}
	}
	return 0
}

func containerIdx(c string) uint64 {
	for i, n := range containerNames {
		if n == c {
			return uint64(i + 1)
		}
	}
	if c == "" {
		return 0
	}
	return 99
}

func typeByName(name string) *typeDef {
	for i := range schema {
		if schema[i].Name == name {
			return &schema[i]
		}
	}
	return nil
}

func buildAppDef() appdef.IAppDefBuilder {
	adb := builder.New()
	adb.AddPackage("verif", "verif.test/verif")
	ws := adb.AddWorkspace(qn("workspace"))
	ws.AddCDoc(qn("WSDesc"))
	ws.SetDescriptor(qn("WSDesc"))
	for _, t := range schema {
		var f appdef.IFieldsBuilder
		var c appdef.IContainersBuilder
		switch t.Kind {
		case "cdoc":
			d := ws.AddCDoc(qn(t.Name))
			if t.Singleton {
				d.SetSingleton()
			}
			f, c = d, d
		case "crecord":
			d := ws.AddCRecord(qn(t.Name))
			f, c = d, d
		case "wdoc":
			d := ws.AddWDoc(qn(t.Name))
			if t.Singleton {
				d.SetSingleton()
			}
			f, c = d, d
		}
		for _, fd := range t.Fields {
			if fd.Kind == appdef.DataKind_RecordID {
				refs := make([]appdef.QName, len(fd.Refs))
				for i, r := range fd.Refs {
					refs[i] = qn(r)
				}
				f.AddRefField(fd.Name, false, refs...)
			} else {
				f.AddField(fd.Name, fd.Kind, false)
			}
		}
		for _, ct := range t.Containers {
			c.AddContainer(ct[0], qn(ct[1]), 0, appdef.Occurs_Unbounded)
		}
	}
	return adb
}

var appName = istructs.AppQName_test1_app1

// rig: one storage (mem or bbolt) and the app structs currently "running" on it
type rig struct {
	sp      istorage.IAppStorageProvider
	app     istructs.IAppStructs
	reader  istructs.IAppStructs // a second instance that never sees the event objects: its log reads always decode the stored bytes
	cleanup func()
}

func newRig(backend string) (*rig, error) {
	var asf istorage.IAppStorageFactory
	cleanup := func() {}
	clock := kit.NewClock()
	switch backend {
	case "mem":
		asf = mem.Provide(clock)
	case "bbolt":
		dir, err := os.MkdirTemp(kit.ScratchDir(), "c03bbolt")
		if err != nil {
			return nil, err
		}
		f := bbolt.Provide(bbolt.ParamsType{DBDir: dir}, clock)
		asf = f
		cleanup = func() {
			f.StopGoroutines()
			os.RemoveAll(dir)
		}
	default:
		return nil, fmt.Errorf("unknown backend %q", backend)
	}
	r := &rig{sp: provider.Provide(asf), cleanup: cleanup}
	if err := r.restart(); err != nil {
		cleanup()
		return nil, err
	}
	r.reader, r.app = r.app, nil
	if err := r.restart(); err != nil {
		cleanup()
		return nil, err
	}
	r.reader, r.app = r.app, r.reader
	return r, nil
}

// readLogged decodes one stored PLog event through the reader instance
func (r *rig) readLogged(partition istructs.PartitionID, offset istructs.Offset) (ev istructs.IPLogEvent, err error) {
	err = r.reader.Events().ReadPLog(context.Background(), partition, offset, 1, func(_ istructs.Offset, e istructs.IPLogEvent) error {
		ev = e
		return nil
	})
	if err == nil && ev == nil {
		err = fmt.Errorf("plog event %d not found by the reader", offset)
	}
	return ev, err
}

// restart: a new app-structs provider (fresh configuration, empty PLog cache) over the same storage,
// as after a process restart
func (r *rig) restart() error {
	cfgs := make(istructsmem.AppConfigsType, 1)
	cfg := cfgs.AddBuiltInAppConfig(appName, buildAppDef())
	cfg.SetNumAppWorkspaces(istructs.DefaultNumAppWorkspaces)
	p := istructsmem.Provide(cfgs, payloads.ProvideIAppTokensFactory(itokensjwt.TestTokensJWT()), r.sp, isequencer.SequencesTrustLevel_0, nil)
	app, err := p.BuiltIn(appName)
	if err != nil {
		return err
	}
	r.app = app
	return nil
}

// readPLog reads one event back from the log through the current app structs
func (r *rig) readPLog(partition istructs.PartitionID, offset istructs.Offset) (ev istructs.IPLogEvent, err error) {
	err = r.app.Events().ReadPLog(context.Background(), partition, offset, 1, func(_ istructs.Offset, e istructs.IPLogEvent) error {
		ev = e
		return nil
	})
	if err == nil && ev == nil {
		err = fmt.Errorf("plog event %d not found", offset)
	}
	return ev, err
}

// idGen: per-workspace counters starting at the same value, so that equal ids live in
// different workspaces; the base sits just below a 4096 boundary of the record key split
type idGen struct {
	next uint64
	last map[istructs.RecordID]istructs.RecordID
}

func (g *idGen) NextID(raw istructs.RecordID) (istructs.RecordID, error) {
	id := istructs.RecordID(g.next)
	g.next++
	g.last[raw] = id
	return id, nil
}

func (g *idGen) UpdateOnSync(id istructs.RecordID) {
	if uint64(id) >= g.next {
		g.next = uint64(id) + 1
	}
}
