// Package c03: harness of property C03 (registers itself with kit.Register in an init function).
package c03
