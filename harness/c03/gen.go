package c03

import (
	"encoding/json"
	"fmt"
	"os"
	"sort"
	"strings"

	"verifharness/kit"

	"github.com/voedger/voedger/pkg/appdef"
	"github.com/voedger/voedger/pkg/istructs"
)

// small colliding alphabets and boundary values
var nums32 = []int64{0, 0, 1, -1, 7, 2147483647, -2147483648}
var nums64 = []int64{0, 0, 1, -1, 7, 9007199254740993, 9223372036854775807, -9223372036854775808}
var strs = []string{"", "61", "6162", "782079", "c3a9", "00", "20"}           // hex; "" = empty string
var blobs = []string{"", "00", "0000", "ff", "0102", "00ff00", "6162"}        // hex
var wsids = []uint64{1, 2, 140737488486400}                                   // the third rarely
var idBases = []uint64{4096*50 - 2, 200001, 4096 * 60, 4096*4096 - 1, 1 << 40} // around partition bounds of the key split

type generator struct {
	r   *kit.Rng
	run *runner
	raw uint64
}

func (g *generator) nextRaw() uint64 { g.raw++; return g.raw }

func (g *generator) pickWS() uint64 {
	if g.r.Chance(1, 12) {
		return wsids[2]
	}
	return wsids[g.r.Intn(2)]
}

// existing records of a workspace whose type is one of `types` (nil = any), singletons included
func (g *generator) existing(ws uint64, types []string) []recRef {
	var out []recRef
	ok := func(t string) bool {
		if types == nil {
			return true
		}
		for _, x := range types {
			if x == t {
				return true
			}
		}
		return false
	}
	for k, ri := range g.run.created[ws] {
		if ok(ri.Type) {
			out = append(out, recRef{WS: ws, K: k})
		}
	}
	for _, s := range []string{"Settings", "WState"} {
		if _, exists := g.run.types[wsKey{ws, g.run.singletonID(s)}]; exists && ok(s) {
			out = append(out, recRef{WS: ws, Single: s})
		}
	}
	return out
}

func (g *generator) typeOfRef(ref recRef) string {
	if ref.Single != "" {
		return ref.Single
	}
	return g.run.created[ref.WS][ref.K].Type
}

// genPuts: 0..max puts on distinct-or-repeated fields of type t; rawTargets: raw ids of creates of
// the same event by type (for references into the event)
func (g *generator) genPuts(ws uint64, t *typeDef, max int, rawTargets map[string][]uint64, forUpdate bool) []fieldPut {
	n := g.r.Intn(max + 1)
	var puts []fieldPut
	for i := 0; i < n; i++ {
		fi := g.r.Intn(len(t.Fields))
		f := t.Fields[fi]
		p := fieldPut{F: fi}
		switch f.Kind {
		case appdef.DataKind_int32:
			p.Kind, p.Num = "num", kit.Pick(g.r, nums32)
		case appdef.DataKind_int64:
			p.Kind, p.Num = "num", kit.Pick(g.r, nums64)
		case appdef.DataKind_bool:
			p.Kind, p.Num = "num", int64(g.r.Intn(2))
		case appdef.DataKind_string:
			p.Kind, p.Str = "str", kit.Pick(g.r, strs)
			p.IsNull = p.Str == "" || (forUpdate && g.r.Chance(1, 4))
		case appdef.DataKind_bytes:
			p.Kind, p.Str = "str", kit.Pick(g.r, blobs)
			p.IsNull = p.Str == "" || (forUpdate && g.r.Chance(1, 4))
		case appdef.DataKind_RecordID:
			p.Kind = "ref"
			var raws []uint64
			for _, rt := range f.Refs {
				raws = append(raws, rawTargets[rt]...)
			}
			cands := g.existing(ws, f.Refs)
			switch {
			case len(raws) > 0 && g.r.Chance(1, 3):
				p.Kind, p.Num = "rawref", int64(kit.Pick(g.r, raws))
			case len(cands) > 0 && g.r.Chance(3, 4):
				c := kit.Pick(g.r, cands)
				p.Ref = &c
			default:
				p.Kind, p.Num = "num", 0 // null reference
			}
		}
		if p.IsNull {
			p.Str = ""
		}
		puts = append(puts, p)
	}
	return puts
}

func boolp(b bool) *bool { return &b }

// a document with nested records
func (g *generator) genTree(ws uint64, ev *eventSpec, rawTargets map[string][]uint64) {
	switch g.r.Intn(5) {
	case 0:
		raw := g.nextRaw()
		rawTargets["WDoc"] = append(rawTargets["WDoc"], raw)
		ev.Creates = append(ev.Creates, createSpec{Raw: raw, Type: "WDoc"})
	case 1:
		// an item under an existing document
		docs := g.existing(ws, []string{"Doc"})
		if len(docs) > 0 {
			d := kit.Pick(g.r, docs)
			ev.Creates = append(ev.Creates, createSpec{Raw: g.nextRaw(), Type: "Item", ParentRef: &d, Container: kit.Pick(g.r, []string{"items", "extra"})})
			return
		}
		fallthrough
	default:
		doc := g.nextRaw()
		rawTargets["Doc"] = append(rawTargets["Doc"], doc)
		ev.Creates = append(ev.Creates, createSpec{Raw: doc, Type: "Doc"})
		for i, n := 0, g.r.Intn(4); i < n; i++ {
			item := g.nextRaw()
			ev.Creates = append(ev.Creates, createSpec{Raw: item, Type: "Item", ParentRaw: doc, Container: kit.Pick(g.r, []string{"items", "items", "extra"})})
			for j, m := 0, g.r.Intn(3); j < m && g.r.Chance(1, 2); j++ {
				ev.Creates = append(ev.Creates, createSpec{Raw: g.nextRaw(), Type: "Sub", ParentRaw: item, Container: "subs"})
			}
		}
	}
}

func (g *generator) fillCreates(ws uint64, ev *eventSpec, rawTargets map[string][]uint64) {
	for i := range ev.Creates {
		c := &ev.Creates[i]
		c.Puts = g.genPuts(ws, typeByName(c.Type), 4, rawTargets, false)
		if g.r.Chance(1, 10) {
			c.Active = boolp(g.r.Chance(1, 2))
		}
	}
}

func (g *generator) genUpdate(ws uint64, target recRef, rawTargets map[string][]uint64) updateSpec {
	t := typeByName(g.typeOfRef(target))
	u := updateSpec{Target: target, Origin: "fresh", Puts: g.genPuts(ws, t, 3, rawTargets, true)}
	if target.Single != "" && g.r.Chance(2, 3) {
		u.OriginVia = 2
	}
	switch g.r.Intn(8) {
	case 0:
		u.Active = boolp(false)
	case 1:
		u.Active = boolp(true)
	case 2:
		u.Active = boolp(g.r.Bool())
		u.Puts = nil
	}
	if g.r.Chance(1, 7) {
		u.Again = g.genPuts(ws, t, 2, rawTargets, true)
	}
	return u
}

func (g *generator) pickTargets(ws uint64, max int) []recRef {
	ex := g.existing(ws, nil)
	if len(ex) == 0 {
		return nil
	}
	n := 1 + g.r.Intn(max)
	seen := map[recRef]bool{}
	var out []recRef
	for i := 0; i < n; i++ {
		// favour recent records and a few "hot" old ones
		var c recRef
		if g.r.Chance(1, 2) {
			c = ex[len(ex)-1-g.r.Intn(min(len(ex), 4))]
		} else {
			c = kit.Pick(g.r, ex)
		}
		if !seen[c] {
			seen[c] = true
			out = append(out, c)
		}
	}
	return out
}

// genEvent: mostly valid events; `malformed` asks for one of the rejected / out-of-contract shapes
func (g *generator) genEvent(malformed bool) *eventSpec {
	ws := g.pickWS()
	ev := &eventSpec{WS: ws}
	rawTargets := map[string][]uint64{}
	if malformed {
		other := wsids[0]
		if ws == other {
			other = wsids[1]
		}
		switch g.r.Intn(8) {
		case 0, 1: // update with the record of another workspace: missing here, or another type, or a foreign origin
			ex := g.existing(other, nil)
			if len(ex) > 0 {
				c := kit.Pick(g.r, ex)
				t := typeByName(g.typeOfRef(c))
				tgt := c
				tgt.WS = ws
				if c.Single == "" {
					tgt = recRef{WS: ws, Abs: uint64(g.run.resolve(c))}
				}
				ev.Updates = append(ev.Updates, updateSpec{Target: tgt, Origin: "otherws", OriginWS: other, Puts: g.genPuts(other, t, 2, nil, true)})
				return ev
			}
		case 2: // system fields cannot be updated
			if tg := g.pickTargets(ws, 1); len(tg) > 0 {
				u := g.genUpdate(ws, tg[0], nil)
				k := g.r.Intn(3)
				if typeByName(g.typeOfRef(tg[0])).Kind != "crecord" {
					k = 2 // documents have no sys.ParentID / sys.Container
				}
				switch k {
				case 0:
					p := kit.Pick(g.r, g.existing(ws, nil))
					u.SysParent = &p
				case 1:
					s := kit.Pick(g.r, containerNames)
					u.SysContainer = &s
				default:
					p := kit.Pick(g.r, g.existing(ws, nil))
					u.SysID = &p
				}
				ev.Updates = append(ev.Updates, u)
				return ev
			}
		case 3: // singleton created twice (in one event, or when it exists)
			s := kit.Pick(g.r, []string{"Settings", "WState"})
			ev.Creates = append(ev.Creates, createSpec{Raw: g.nextRaw(), Type: s})
			if _, exists := g.run.types[wsKey{ws, g.run.singletonID(s)}]; !exists || g.r.Chance(1, 3) {
				ev.Creates = append(ev.Creates, createSpec{Raw: g.nextRaw(), Type: s})
			}
			g.fillCreates(ws, ev, rawTargets)
			return ev
		default: // stale origin: a snapshot taken before later updates (outside the caller's contract)
			for _, c := range g.existing(ws, nil) {
				id := g.run.resolve(c)
				if n := len(g.run.snaps[wsKey{ws, id}]); n >= 2 {
					u := g.genUpdate(ws, c, nil)
					u.Origin, u.Snap = "snap", g.r.Intn(n-1)
					ev.Updates = append(ev.Updates, u)
					return ev
				}
			}
		}
	}
	kind := g.r.Intn(20)
	hasRecs := len(g.existing(ws, nil)) > 0
	switch {
	case kind < 6 || !hasRecs:
		g.genTree(ws, ev, rawTargets)
		if g.r.Chance(1, 4) {
			g.genTree(ws, ev, rawTargets)
		}
	case kind < 15:
		for _, tg := range g.pickTargets(ws, 3) {
			ev.Updates = append(ev.Updates, g.genUpdate(ws, tg, rawTargets))
		}
	case kind < 18:
		g.genTree(ws, ev, rawTargets)
		for _, tg := range g.pickTargets(ws, 2) {
			ev.Updates = append(ev.Updates, g.genUpdate(ws, tg, rawTargets))
		}
	default:
		s := kit.Pick(g.r, []string{"Settings", "WState"})
		if _, exists := g.run.types[wsKey{ws, g.run.singletonID(s)}]; exists {
			ev.Updates = append(ev.Updates, g.genUpdate(ws, recRef{WS: ws, Single: s}, rawTargets))
		} else {
			ev.Creates = append(ev.Creates, createSpec{Raw: g.nextRaw(), Type: s})
		}
	}
	g.fillCreates(ws, ev, rawTargets)
	return ev
}

func (g *generator) touched(ev *eventSpec, before int) []obsSpec {
	var obs []obsSpec
	// records created by the step in this workspace: those after `before` in the workspace list
	for k := before; k < len(g.run.created[ev.WS]) && before >= 0; k++ {
		obs = append(obs, obsSpec{Via: g.r.Intn(2), Ref: recRef{WS: ev.WS, K: k}})
	}
	for _, c := range ev.Creates {
		if typeByName(c.Type).Singleton {
			obs = append(obs, obsSpec{Via: 2, Ref: recRef{WS: ev.WS, Single: c.Type}})
		}
	}
	for _, u := range ev.Updates {
		via := g.r.Intn(2)
		if u.Target.Single != "" && g.r.Bool() {
			via = 2
		}
		obs = append(obs, obsSpec{Via: via, Ref: u.Target})
	}
	return obs
}

func (g *generator) extraObs() []obsSpec {
	var obs []obsSpec
	ws := g.pickWS()
	// the same ids read in another workspace, ids never created, reserved ids
	for i, n := 0, g.r.Intn(4); i < n; i++ {
		src := wsids[g.r.Intn(2)]
		if l := g.run.created[src]; len(l) > 0 {
			obs = append(obs, obsSpec{Via: 1, Ref: recRef{WS: ws, Abs: uint64(l[g.r.Intn(len(l))].ID)}})
		}
	}
	if g.r.Chance(1, 3) {
		obs = append(obs, obsSpec{Via: g.r.Intn(2), Ref: recRef{WS: ws, Abs: kit.Pick(g.r, []uint64{1, 65535, 65537, 200000, g.run.gen(ws).next, g.run.gen(ws).next + 4096})}})
	}
	if g.r.Chance(1, 4) {
		obs = append(obs, obsSpec{Via: 2, Ref: recRef{WS: ws, Single: kit.Pick(g.r, []string{"Settings", "WState"})}})
	}
	return obs
}

func (g *generator) finalObs() []obsSpec {
	var obs []obsSpec
	for _, ws := range wsids {
		ids := map[uint64]bool{}
		for _, w2 := range wsids {
			for _, ri := range g.run.created[w2] {
				ids[uint64(ri.ID)] = true
			}
		}
		var l []uint64
		for id := range ids {
			l = append(l, id)
		}
		sort.Slice(l, func(i, j int) bool { return l[i] < l[j] })
		for _, id := range l {
			obs = append(obs, obsSpec{Via: 1, Ref: recRef{WS: ws, Abs: id}})
		}
		for _, s := range []string{"Settings", "WState"} {
			obs = append(obs, obsSpec{Via: 2, Ref: recRef{WS: ws, Single: s}})
		}
	}
	return obs
}

func (g *generator) singletonExists(ws uint64, s string) bool {
	_, ok := g.run.types[wsKey{ws, g.run.singletonID(s)}]
	return ok
}

// singletonStep: updates of singletons whose origins are all read (mostly through GetSingleton)
// before the first event is built: the same singleton in two workspaces and/or both singletons of
// one workspace
func (g *generator) singletonStep() *op {
	var evs []*eventSpec
	for _, ws := range []uint64{wsids[0], wsids[1]} {
		ev := &eventSpec{WS: ws}
		for _, s := range []string{"Settings", "WState"} {
			if g.singletonExists(ws, s) && g.r.Chance(3, 4) {
				u := g.genUpdate(ws, recRef{WS: ws, Single: s}, nil)
				u.Again = nil
				if g.r.Chance(5, 6) {
					u.OriginVia = 2
				}
				ev.Updates = append(ev.Updates, u)
			}
		}
		if len(ev.Updates) > 0 {
			evs = append(evs, ev)
		}
	}
	if len(evs) == 0 {
		return nil
	}
	if g.r.Bool() {
		evs[0], evs[len(evs)-1] = evs[len(evs)-1], evs[0]
	}
	o := &op{Apply: evs[0], More: evs[1:]}
	if g.r.Chance(1, 3) {
		o.Between = g.extraObs()
	}
	return o
}

// groupStep: 2-3 ordinary events over distinct records whose origins are read before the first is built
func (g *generator) groupStep() *op {
	o := &op{}
	seen := map[recRef]bool{}
	for i, n := 0, 2+g.r.Intn(2); i < n; i++ {
		ev := g.genEvent(false)
		var us []updateSpec
		for _, u := range ev.Updates {
			if !seen[u.Target] {
				seen[u.Target] = true
				us = append(us, u)
			}
		}
		ev.Updates = us
		if len(ev.Creates)+len(ev.Updates) == 0 {
			continue
		}
		if o.Apply == nil {
			o.Apply = ev
		} else {
			o.More = append(o.More, ev)
		}
	}
	if o.Apply == nil {
		return nil
	}
	if g.r.Chance(1, 3) {
		o.Between = g.extraObs()
	}
	return o
}

// genAndRun generates one scenario while executing it (the generator looks at which records exist)
func genAndRun(r *kit.Rng, backend string, maxEvents int, malformedStream bool) (kit.Case, error) {
	sc := &scenario{Backend: backend, IDBase: kit.Pick(r, idBases)}
	run, err := newRunner(sc)
	if err != nil {
		return kit.Case{}, err
	}
	defer run.rig.cleanup()
	g := &generator{r: r, run: run}
	do := func(o *op) error {
		sc.Ops = append(sc.Ops, o)
		return run.exec(o)
	}
	n := 1 + r.Intn(maxEvents)
	if r.Chance(1, 5) {
		n = 1 + r.Intn(4)
	}
	if r.Chance(1, 2) {
		// singletons early, in both workspaces, so that later steps can update them side by side
		for _, ws := range []uint64{wsids[0], wsids[1]} {
			for _, sn := range []string{"Settings", "WState"} {
				if r.Chance(2, 3) {
					ev := &eventSpec{WS: ws, Creates: []createSpec{{Raw: g.nextRaw(), Type: sn}}}
					g.fillCreates(ws, ev, map[string][]uint64{})
					if err := do(&op{Apply: ev}); err != nil {
						return kit.Case{}, err
					}
				}
			}
		}
	}
	for i := 0; i < n && !run.stopped; i++ {
		mal := malformedStream && r.Chance(1, 3)
		var step *op
		switch {
		case !mal && r.Chance(1, 5):
			step = g.singletonStep()
		case !mal && r.Chance(1, 6):
			step = g.groupStep()
		}
		if step == nil {
			ev := g.genEvent(mal)
			if len(ev.Creates)+len(ev.Updates) == 0 {
				continue
			}
			step = &op{Apply: ev}
		}
		evs := append([]*eventSpec{step.Apply}, step.More...)
		before := map[uint64]int{}
		for _, ws := range wsids {
			before[ws] = len(run.created[ws])
		}
		applied := run.applied
		if err := do(step); err != nil {
			return kit.Case{}, err
		}
		// every prefix optionally followed by re-applies of its last event
		if run.applied > 0 && r.Chance(2, 5) {
			for k, m := 0, 1+r.Intn(2); k < m; k++ {
				if err := do(&op{Reapply: 1 + r.Intn(2)}); err != nil {
					return kit.Case{}, err
				}
			}
		}
		var obs []obsSpec
		doneWS := map[uint64]bool{}
		for _, ev := range evs {
			if run.applied > applied {
				b := -1
				if !doneWS[ev.WS] {
					b = before[ev.WS]
					doneWS[ev.WS] = true
				}
				obs = append(obs, g.touched(ev, b)...)
			} else {
				// a rejected event: what it named must be unchanged
				for _, u := range ev.Updates {
					obs = append(obs, obsSpec{Via: 0, Ref: u.Target})
				}
			}
		}
		obs = append(obs, g.extraObs()...)
		if len(obs) > 0 {
			if err := do(&op{Obs: obs}); err != nil {
				return kit.Case{}, err
			}
		}
	}
	if r.Chance(1, 2) && run.applied > 0 {
		if err := do(&op{Reapply: 2}); err != nil {
			return kit.Case{}, err
		}
	}
	if err := do(&op{Obs: g.finalObs()}); err != nil {
		return kit.Case{}, err
	}
	return run.result(), nil
}

// Generate runs the corpus first, then n generated scenarios
func Generate(seed uint64, n int, tier string, corpusDir string, shard int, out *kit.Out) error {
	r := kit.NewRng(seed + uint64(shard)*1000003)
	if corpusDir != "" && shard == 0 {
		entries, _ := os.ReadDir(corpusDir)
		var names []string
		for _, e := range entries {
			if strings.HasSuffix(e.Name(), ".json") {
				names = append(names, e.Name())
			}
		}
		sort.Strings(names)
		for _, nm := range names {
			sc, err := loadScenario(corpusDir + "/" + nm)
			if err != nil {
				return fmt.Errorf("%s: %w", nm, err)
			}
			c, err := runScenario(sc)
			if err != nil {
				return fmt.Errorf("%s: %w", nm, err)
			}
			c.Tags = append(c.Tags, "corpus:"+strings.TrimSuffix(nm, ".json"))
			out.Emit(c)
		}
	}
	for i := 0; i < n; i++ {
		cr := r.Fork()
		backend := "mem"
		maxEvents := 24
		if i%4 == 3 {
			backend, maxEvents = "bbolt", 12
		}
		if i%10 == 9 {
			maxEvents = 60
			if backend == "bbolt" {
				maxEvents = 25
			}
		}
		c, err := genAndRun(cr, backend, maxEvents, i%3 == 1)
		if err != nil {
			return fmt.Errorf("case %d: %w", i, err)
		}
		out.Emit(c)
	}
	return nil
}

func loadScenario(path string) (*scenario, error) {
	b, err := os.ReadFile(path)
	if err != nil {
		return nil, err
	}
	var wrapper struct {
		Case struct {
			Desc *scenario `json:"desc"`
		} `json:"case"`
		Desc *scenario `json:"desc"`
	}
	if err := json.Unmarshal(b, &wrapper); err == nil {
		if wrapper.Desc != nil && len(wrapper.Desc.Ops) > 0 {
			return wrapper.Desc, nil
		}
		if wrapper.Case.Desc != nil && len(wrapper.Case.Desc.Ops) > 0 {
			return wrapper.Case.Desc, nil
		}
	}
	var sc scenario
	if err := json.Unmarshal(b, &sc); err != nil {
		return nil, err
	}
	if len(sc.Ops) == 0 {
		return nil, fmt.Errorf("no ops in %s", path)
	}
	return &sc, nil
}

// Replay runs exactly the scenario stored in a replay/corpus file
func Replay(path string, out *kit.Out) error {
	sc, err := loadScenario(path)
	if err != nil {
		return err
	}
	c, err := runScenario(sc)
	if err != nil {
		return err
	}
	out.Emit(c)
	return nil
}

var _ = istructs.NullRecordID
