package c03

import "verifharness/kit"

func init() {
	kit.Register("C03", kit.Runner{Generate: Generate, Replay: Replay})
}
