package c03

import (
	"errors"
	"fmt"
	"sort"
	"strings"

	"verifharness/kit"

	"github.com/voedger/voedger/pkg/appdef"
	"github.com/voedger/voedger/pkg/istructs"
	"github.com/voedger/voedger/pkg/istructsmem"
)

// ---------- scenario description (replayable) ----------

// recRef names a record symbolically so that a scenario replays on a tree that assigns ids differently
type recRef struct {
	WS     uint64 `json:"ws"`
	K      int    `json:"k"`                // K-th non-singleton record created in WS (0-based), if Single == "" and Abs == 0
	Single string `json:"single,omitempty"` // singleton of this type
	Abs    uint64 `json:"abs,omitempty"`    // literal id
}

type fieldPut struct {
	F      int     `json:"f"`              // field position in the type
	Kind   string  `json:"kind"`           // num | str | ref | rawref
	Num    int64   `json:"num,omitempty"`  // num; rawref: raw id of a create of the same event
	Str    string  `json:"str,omitempty"`  // str: hex of the bytes
	Ref    *recRef `json:"ref,omitempty"`  // ref
	IsNull bool    `json:"null,omitempty"` // str: put nil / empty
}

type createSpec struct {
	Raw       uint64     `json:"raw"`
	Type      string     `json:"type"`
	ParentRaw uint64     `json:"parent_raw,omitempty"`
	ParentRef *recRef    `json:"parent_ref,omitempty"`
	Container string     `json:"container,omitempty"`
	Active    *bool      `json:"active,omitempty"`
	Puts      []fieldPut `json:"puts,omitempty"`
}

type updateSpec struct {
	Target recRef `json:"target"`
	// origin handed to ICUD.Update: "fresh" (Get just before), "snap" (state after the Snap-th event
	// that touched the record), "otherws" (the record with the same id read in workspace OriginWS)
	Origin       string     `json:"origin"`
	OriginVia    int        `json:"origin_via,omitempty"` // fresh origin read by 0 Get, 2 GetSingleton (singleton targets)
	Snap         int        `json:"snap,omitempty"`
	OriginWS     uint64     `json:"origin_ws,omitempty"`
	Puts         []fieldPut `json:"puts,omitempty"`
	Again        []fieldPut `json:"again,omitempty"` // puts through a second ICUD.Update call for the same record
	Active       *bool      `json:"active,omitempty"`
	SysParent    *recRef    `json:"sys_parent,omitempty"`
	SysContainer *string    `json:"sys_container,omitempty"`
	SysID        *recRef    `json:"sys_id,omitempty"`
}

type eventSpec struct {
	WS      uint64       `json:"ws"`
	Creates []createSpec `json:"creates,omitempty"`
	Updates []updateSpec `json:"updates,omitempty"`
}

type obsSpec struct {
	Via int    `json:"via"` // 0 Get, 1 GetBatch (consecutive entries of one ws form one batch), 2 GetSingleton
	Ref recRef `json:"ref"`
}

type op struct {
	Apply   *eventSpec `json:"apply,omitempty"`
	// More: further events of the same step; the update origins of ALL events of the step are read
	// first, then Between is read, only then the events are built and applied one after the other
	More    []*eventSpec `json:"more,omitempty"`
	Between []obsSpec    `json:"between,omitempty"`
	Reapply int        `json:"reapply,omitempty"` // 1 = event object from the PLog cache, 2 = restart, read from storage
	Obs     []obsSpec  `json:"obs,omitempty"`
	// observed
	Observed any `json:"observed,omitempty"`
}

type scenario struct {
	Backend string `json:"backend"`
	IDBase  uint64 `json:"id_base"`
	Ops     []*op  `json:"ops"`
}

// ---------- runner ----------

type recInfo struct {
	ID   istructs.RecordID
	Type string
}

type wsKey struct {
	ws uint64
	id istructs.RecordID
}

type runner struct {
	rig     *rig
	sc      *scenario
	gens    map[uint64]*idGen
	created map[uint64][]recInfo          // per ws, in creation order (non-singletons)
	snaps   map[wsKey][]istructs.IRecord  // states after each applied event touching the record
	types   map[wsKey]string              // type of every existing record (incl. singletons)
	plogOfs istructs.Offset
	wlogOfs map[uint64]istructs.Offset
	lastOfs istructs.Offset // PLog offset of the last applied event
	terms   []string
	tags    map[string]bool
	applied int
	updated int
	held    []heldRec // record objects returned by reads, re-rendered after later traffic
	stopped bool      // a panic inside the code under test ended the scenario
	shape   strings.Builder
}

func newRunner(sc *scenario) (*runner, error) {
	rg, err := newRig(sc.Backend)
	if err != nil {
		return nil, err
	}
	return &runner{rig: rg, sc: sc, gens: map[uint64]*idGen{}, created: map[uint64][]recInfo{}, snaps: map[wsKey][]istructs.IRecord{},
		types: map[wsKey]string{}, wlogOfs: map[uint64]istructs.Offset{}, tags: map[string]bool{sc.Backend: true}}, nil
}

func (r *runner) gen(ws uint64) *idGen {
	g := r.gens[ws]
	if g == nil {
		g = &idGen{next: r.sc.IDBase, last: map[istructs.RecordID]istructs.RecordID{}}
		r.gens[ws] = g
	}
	return g
}

func (r *runner) singletonID(typ string) istructs.RecordID {
	id, err := r.rig.app.Records().GetSingletonID(qn(typ))
	if err != nil {
		panic(err)
	}
	return id
}

func (r *runner) resolve(ref recRef) istructs.RecordID {
	switch {
	case ref.Single != "":
		return r.singletonID(ref.Single)
	case ref.Abs != 0:
		return istructs.RecordID(ref.Abs)
	}
	l := r.created[ref.WS]
	if ref.K < 0 || ref.K >= len(l) {
		return istructs.RecordID(999999999) // never created
	}
	return l[ref.K].ID
}

func hexBytes(s string) []byte {
	var b []byte
	fmt.Sscanf(s, "%x", &b)
	return b
}

// ---------- Coq printing ----------

func coqBool(b bool) string { return kit.Bool(b) }

func fvalOf(r istructs.IRowReader, f fieldDef) string {
	switch f.Kind {
	case appdef.DataKind_int32:
		return "FNum " + kit.Z(int64(r.AsInt32(f.Name)))
	case appdef.DataKind_int64:
		return "FNum " + kit.Z(r.AsInt64(f.Name))
	case appdef.DataKind_bool:
		if r.AsBool(f.Name) {
			return "FNum 1"
		}
		return "FNum 0"
	case appdef.DataKind_RecordID:
		return "FNum " + kit.Z(int64(r.AsRecordID(f.Name)))
	case appdef.DataKind_string:
		return "FStr " + kit.Bytes([]byte(r.AsString(f.Name)))
	case appdef.DataKind_bytes:
		return "FStr " + kit.Bytes(r.AsBytes(f.Name))
	}
	panic("unexpected kind")
}

type hasValuer interface{ HasValue(string) bool }

// recTerm prints a record read from the real store as a Coq `rec`; "" for the null record
func recTerm(rec istructs.IRecord) string {
	if rec.QName() == appdef.NullQName {
		return ""
	}
	t := typeByName(rec.QName().Entity())
	fields := make([]string, len(t.Fields))
	for i, f := range t.Fields {
		if rec.(hasValuer).HasValue(f.Name) {
			fields[i] = "Some (" + fvalOf(rec, f) + ")"
		} else {
			fields[i] = "None"
		}
	}
	return fmt.Sprintf("(mkRec %d %d %d %d %s %s)", rec.ID(), typeIdx(rec.QName()), rec.Parent(), containerIdx(rec.Container()),
		coqBool(rec.AsBool(appdef.SystemField_IsActive)), kit.List(fields))
}

func optRecTerm(rec istructs.IRecord) string {
	if s := recTerm(rec); s != "" {
		return "(Some " + s + ")"
	}
	return "None"
}

// applies the puts to a row writer and records them as a change list
func (r *runner) doPuts(w0 istructs.IRowWriter, t *typeDef, puts []fieldPut, changes []string, rawMap func(uint64) uint64) {
	w := w0
	if w == nil {
		w = nopWriter{}
	}
	for _, p := range puts {
		if p.F < 0 || p.F >= len(t.Fields) {
			continue
		}
		f := t.Fields[p.F]
		switch f.Kind {
		case appdef.DataKind_int32:
			w.PutInt32(f.Name, int32(p.Num))
			changes[p.F] = "SetTo (FNum " + kit.Z(int64(int32(p.Num))) + ")"
		case appdef.DataKind_int64:
			w.PutInt64(f.Name, p.Num)
			changes[p.F] = "SetTo (FNum " + kit.Z(p.Num) + ")"
		case appdef.DataKind_bool:
			w.PutBool(f.Name, p.Num != 0)
			if p.Num != 0 {
				changes[p.F] = "SetTo (FNum 1)"
			} else {
				changes[p.F] = "SetTo (FNum 0)"
			}
		case appdef.DataKind_RecordID:
			var id uint64
			shown := id
			switch p.Kind {
			case "rawref":
				id = uint64(p.Num)
				shown = rawMap(id)
			case "ref":
				if p.Ref != nil {
					id = uint64(r.resolve(*p.Ref))
				}
				shown = id
			default:
				id = uint64(p.Num)
				shown = id
			}
			w.PutRecordID(f.Name, istructs.RecordID(id))
			changes[p.F] = "SetTo (FNum " + kit.Z(int64(shown)) + ")"
		case appdef.DataKind_string:
			if p.IsNull {
				w.PutString(f.Name, "")
				changes[p.F] = "Clear"
			} else {
				b := hexBytes(p.Str)
				w.PutString(f.Name, string(b))
				changes[p.F] = "SetTo (FStr " + kit.Bytes(b) + ")"
			}
		case appdef.DataKind_bytes:
			if p.IsNull {
				w.PutBytes(f.Name, nil)
				changes[p.F] = "Clear"
			} else {
				b := hexBytes(p.Str)
				w.PutBytes(f.Name, b)
				changes[p.F] = "SetTo (FStr " + kit.Bytes(b) + ")"
			}
		}
	}
}

func keeps(n int) []string {
	c := make([]string, n)
	for i := range c {
		c[i] = "Keep"
	}
	return c
}

func errClass(err error) int {
	switch {
	case err == nil:
		return 0
	case errors.Is(err, istructsmem.ErrUnableToUpdateSystemFieldError):
		return 1
	case errors.Is(err, istructsmem.ErrRecordIDUniqueViolationError):
		return 2
	case errors.Is(err, istructsmem.ErrIDNotFoundError):
		return 3
	case errors.Is(err, istructsmem.ErrWrongTypeError):
		return 4
	}
	return 8
}

func (r *runner) get(ws uint64, id istructs.RecordID) (istructs.IRecord, error) {
	return r.rig.app.Records().Get(istructs.WSID(ws), true, id)
}


type originRead struct {
	rec     istructs.IRecord
	term    string // the record as rendered when it was returned by the read
	stale   bool
	differs bool // a stale / foreign origin whose content is not what is stored now
	actDiff bool // ... whose sys.IsActive is not the stored one
}

type heldRec struct {
	rec  istructs.IRecord
	term string // optRecTerm at read time
}

const junkRec = "(mkRec 0 0 0 0 false [])"

// safeOptRecTerm renders a record; a panic inside the accessors (a record whose payload was
// clobbered) is rendered as a junk record and tagged
func (r *runner) safeOptRecTerm(rec istructs.IRecord) (term string) {
	defer func() {
		if p := recover(); p != nil {
			r.tags["panic:render"] = true
			term = "(Some " + junkRec + ")"
		}
	}()
	return optRecTerm(rec)
}

func (r *runner) hold(rec istructs.IRecord, term string) {
	if len(r.held) < 8 {
		r.held = append(r.held, heldRec{rec, term})
	}
}

// recheckHeld renders every held record object again: it must still be what the read returned
func (r *runner) recheckHeld() {
	for _, h := range r.held {
		r.terms = append(r.terms, fmt.Sprintf("SHeld %s %s", h.term, r.safeOptRecTerm(h.rec)))
	}
	r.held = nil
}

// readOrigins reads the records that will be handed to ICUD.Update for one event (fresh origins are
// observations as well)
func (r *runner) readOrigins(ev *eventSpec) ([]*originRead, error) {
	out := make([]*originRead, len(ev.Updates))
	for i := range ev.Updates {
		u := &ev.Updates[i]
		id := r.resolve(u.Target)
		var origin istructs.IRecord
		var err error
		stale := false
		via := -1
		switch u.Origin {
		case "snap":
			l := r.snaps[wsKey{u.Target.WS, id}]
			if u.Snap >= 0 && u.Snap < len(l) {
				origin = l[u.Snap]
				stale = u.Snap < len(l)-1
			}
		case "otherws":
			origin, err = r.get(u.OriginWS, id)
			stale = true
		}
		if origin == nil {
			if u.OriginVia == 2 && u.Target.Single != "" {
				origin, err = r.rig.app.Records().GetSingleton(istructs.WSID(u.Target.WS), qn(u.Target.Single))
				via = 2
				r.tags["origin:GetSingleton"] = true
			} else {
				origin, err = r.get(u.Target.WS, id)
				via = 0
			}
		}
		if err != nil {
			return nil, err
		}
		if origin.QName() == appdef.NullQName {
			continue // nothing to hand to Update (the API takes an existing record)
		}
		term := r.safeOptRecTerm(origin)
		if via >= 0 {
			r.terms = append(r.terms, fmt.Sprintf("SObs %d %d %d %s", via, u.Target.WS, id, term))
		}
		differs, actDiff := false, false
		if stale {
			if cur, e := r.get(u.Target.WS, id); e == nil {
				differs = r.safeOptRecTerm(cur) != term
				actDiff = cur.QName() != appdef.NullQName && cur.AsBool(appdef.SystemField_IsActive) != origin.AsBool(appdef.SystemField_IsActive)
			}
		}
		out[i] = &originRead{origin, strings.TrimSuffix(strings.TrimPrefix(term, "(Some "), ")"), stale, differs, actDiff}
	}
	return out, nil
}

// runStep: all origins of all events of the step are read first, then the `between` reads, then
// the events are built and applied in order; finally the held record objects are checked again
func (r *runner) runStep(o *op) error {
	evs := append([]*eventSpec{o.Apply}, o.More...)
	origins := make([][]*originRead, len(evs))
	for i, ev := range evs {
		var err error
		if origins[i], err = r.readOrigins(ev); err != nil {
			return err
		}
	}
	if len(evs) > 1 {
		r.tags["origins-read-before-step"] = true
		r.shape.WriteString("|G")
	}
	if len(o.Between) > 0 {
		b := &op{Obs: o.Between}
		if err := r.runObs(b); err != nil {
			return err
		}
	}
	var observed []map[string]any
	o.Observed = &observed
	for i, ev := range evs {
		obs := map[string]any{}
		observed = append(observed, obs)
		if err := r.runEvent(ev, origins[i], obs); err != nil {
			return err
		}
	}
	r.recheckHeld()
	return nil
}

// runEvent executes one event through GetNewRawEventBuilder / BuildRawEvent / PutPlog / Apply
func (r *runner) runEvent(ev *eventSpec, origins []*originRead, obs map[string]any) error {
	app := r.rig.app
	r.plogOfs++
	r.wlogOfs[ev.WS]++
	bld := app.Events().GetNewRawEventBuilder(istructs.NewRawEventBuilderParams{GenericRawEventBuilderParams: istructs.GenericRawEventBuilderParams{
		HandlingPartition: 1, PLogOffset: r.plogOfs, Workspace: istructs.WSID(ev.WS), WLogOffset: r.wlogOfs[ev.WS],
		QName: istructs.QNameCommandCUD, RegisteredAt: 1}})
	cud := bld.CUDBuilder()
	g := r.gen(ev.WS)
	g.last = map[istructs.RecordID]istructs.RecordID{}

	type cterm struct {
		spec    *createSpec
		t       *typeDef
		changes []string
	}
	type uterm struct {
		spec                  *updateSpec
		t                     *typeDef
		origin                istructs.IRecord
		originTerm            string
		id, parent, container uint64
		assign                string
		changes               []string
	}
	var cts []*cterm
	var uts []*uterm
	rawSingle := map[uint64]string{}
	// raw ids are shown as the ids they get; unknown until PutPlog, so terms are rendered afterwards
	rawMap := func(raw uint64) uint64 {
		if s, ok := rawSingle[raw]; ok {
			return uint64(r.singletonID(s))
		}
		if id, ok := g.last[istructs.RecordID(raw)]; ok {
			return uint64(id)
		}
		return raw
	}
	type lazy struct {
		w       istructs.IRowWriter
		t       *typeDef
		puts    []fieldPut
		changes []string
	}
	var lazies []lazy
	for i := range ev.Creates {
		c := &ev.Creates[i]
		t := typeByName(c.Type)
		if t == nil {
			return fmt.Errorf("unknown type %q", c.Type)
		}
		if t.Singleton {
			rawSingle[c.Raw] = c.Type
		}
		w := cud.Create(qn(c.Type))
		w.PutRecordID(appdef.SystemField_ID, istructs.RecordID(c.Raw))
		if c.ParentRaw != 0 {
			w.PutRecordID(appdef.SystemField_ParentID, istructs.RecordID(c.ParentRaw))
		} else if c.ParentRef != nil {
			w.PutRecordID(appdef.SystemField_ParentID, r.resolve(*c.ParentRef))
		}
		if c.Container != "" {
			w.PutString(appdef.SystemField_Container, c.Container)
		}
		if c.Active != nil {
			w.PutBool(appdef.SystemField_IsActive, *c.Active)
		}
		ct := &cterm{spec: c, t: t, changes: keeps(len(t.Fields))}
		lazies = append(lazies, lazy{w, t, c.Puts, ct.changes})
		cts = append(cts, ct)
	}
	stale, staleDiffers, actLeak := false, false, false
	for i := range ev.Updates {
		u := &ev.Updates[i]
		if origins[i] == nil {
			continue
		}
		origin := origins[i].rec
		stale = stale || origins[i].stale
		staleDiffers = staleDiffers || origins[i].differs
		actLeak = actLeak || (origins[i].actDiff && u.Active == nil)
		// the object about to be handed to Update must still be what the read returned
		r.terms = append(r.terms, fmt.Sprintf("SHeld (Some %s) %s", origins[i].term, r.safeOptRecTerm(origin)))
		t := typeByName(origin.QName().Entity())
		w := cud.Update(origin)
		ut := &uterm{spec: u, t: t, origin: origin, originTerm: origins[i].term, id: uint64(origin.ID()), parent: uint64(origin.Parent()),
			container: containerIdx(origin.Container()), assign: "None", changes: keeps(len(t.Fields))}
		if u.Active != nil {
			w.PutBool(appdef.SystemField_IsActive, *u.Active)
			ut.assign = "(Some " + coqBool(*u.Active) + ")"
		}
		if u.SysParent != nil {
			p := r.resolve(*u.SysParent)
			w.PutRecordID(appdef.SystemField_ParentID, p)
			ut.parent = uint64(p)
		}
		if u.SysContainer != nil {
			w.PutString(appdef.SystemField_Container, *u.SysContainer)
			ut.container = containerIdx(*u.SysContainer)
		}
		if u.SysID != nil {
			p := r.resolve(*u.SysID)
			w.PutRecordID(appdef.SystemField_ID, p)
			ut.id = uint64(p)
		}
		lazies = append(lazies, lazy{w, t, u.Puts, ut.changes})
		if len(u.Again) > 0 {
			w2 := cud.Update(origin)
			lazies = append(lazies, lazy{w2, t, u.Again, ut.changes})
		}
		uts = append(uts, ut)
	}
	// the puts themselves (raw references are rendered after ID generation: two passes over `changes`)
	for _, l := range lazies {
		r.doPuts(l.w, l.t, l.puts, l.changes, func(raw uint64) uint64 { return raw })
	}
	render := func(applied bool) string {
		// re-render the change lists (same order, no writer) with raw references mapped to the generated ids
		if applied {
			for _, l := range lazies {
				r.doPuts(nil, l.t, l.puts, l.changes, rawMap)
			}
		}
		var cs, us []string
		for _, ct := range cts {
			c := ct.spec
			id := c.Raw
			if applied || ct.t.Singleton {
				id = rawMap(c.Raw)
			}
			var parent uint64
			if c.ParentRaw != 0 {
				parent = c.ParentRaw
				if applied {
					parent = rawMap(c.ParentRaw)
				}
			} else if c.ParentRef != nil {
				parent = uint64(r.resolve(*c.ParentRef))
			}
			active := c.Active == nil || *c.Active
			cs = append(cs, fmt.Sprintf("mkCreate %s %d %d %d %d %s %s", coqBool(ct.t.Singleton), id, typeIdx(qn(c.Type)), parent,
				containerIdx(c.Container), coqBool(active), kit.List(ct.changes)))
		}
		for _, ut := range uts {
			us = append(us, fmt.Sprintf("mkUpdate %d %s %d %d %s %s", ut.id, ut.originTerm, ut.parent, ut.container, ut.assign, kit.List(ut.changes)))
		}
		return fmt.Sprintf("(mkEvent %d %s %s)", ev.WS, kit.List(cs), kit.List(us))
	}

	fmt.Fprintf(&r.shape, "|A%d:c%d:u%d", ev.WS%7, len(cts), len(uts))
	raw, err := bld.BuildRawEvent()
	if err != nil {
		code := errClass(err)
		obs["build_error"] = err.Error()
		obs["code"] = code
		r.terms = append(r.terms, fmt.Sprintf("SApply %s %d", render(false), code))
		r.tags[fmt.Sprintf("rejected:%d", code)] = true
		fmt.Fprintf(&r.shape, "!%d", code)
		// the offsets stay used (the command processor would log the failure there)
		return nil
	}
	pev, err := app.Events().PutPlog(raw, nil, g)
	if err != nil {
		return fmt.Errorf("PutPlog: %w", err)
	}
	if !pev.Error().ValidEvent() {
		return fmt.Errorf("PutPlog made the event invalid: %s", pev.Error().ErrStr())
	}
	aerr := app.Records().Apply(pev)
	code := 0
	switch {
	case aerr == nil:
	case errors.Is(aerr, istructsmem.ErrSequencesViolation):
		code = 7
	default:
		code = 9
	}
	obs["code"] = code
	if aerr != nil {
		obs["apply_error"] = aerr.Error()
	}
	r.terms = append(r.terms, fmt.Sprintf("SApply %s %d", render(true), code))
	if code != 0 {
		r.tags[fmt.Sprintf("apply-error:%d", code)] = true
		return nil
	}
	r.applied++
	r.lastOfs = r.plogOfs
	// the event as the log holds it (decoded by an instance that never saw the object)
	lt, err := r.loggedTerm(r.lastOfs)
	if err != nil {
		return err
	}
	r.terms = append(r.terms, "SLogged "+lt)
	if stale {
		r.tags["stale-origin"] = true
		r.shape.WriteString("~")
	}
	if actLeak {
		// observed: an applied update that does not assign sys.IsActive was built from an object whose
		// activity is not the stored one (before 001f02315 the object's activity was written and logged: F-C03-2)
		r.tags["unassigned-activity-from-stale-object"] = true
	}
	if staleDiffers {
		// observed: BuildRawEvent and Apply accepted an update whose origin object is not the stored record
		// (before e4efa7ee7 such an event broke the fold: F-C03-1)
		r.tags["stale-or-foreign-origin-applied"] = true
	}
	newIDs := map[string]uint64{}
	for _, ct := range cts {
		id := istructs.RecordID(rawMap(ct.spec.Raw))
		newIDs[fmt.Sprint(ct.spec.Raw)] = uint64(id)
		if !ct.t.Singleton {
			r.created[ev.WS] = append(r.created[ev.WS], recInfo{id, ct.spec.Type})
		} else {
			r.tags["singleton"] = true
		}
		r.types[wsKey{ev.WS, id}] = ct.spec.Type
		if ct.spec.ParentRaw != 0 || ct.spec.ParentRef != nil {
			r.tags["nested"] = true
		}
		if err := r.snap(ev.WS, id); err != nil {
			return err
		}
	}
	obs["new_ids"] = newIDs
	if len(uts) > 0 {
		r.updated++
	}
	for _, ut := range uts {
		if ut.spec.Active != nil {
			if *ut.spec.Active {
				r.tags["reactivate-or-keep"] = true
			} else {
				r.tags["deactivate"] = true
			}
		}
		for _, c := range ut.changes {
			if c == "Clear" || strings.HasPrefix(c, "SetTo (FStr [])") {
				r.tags["emptied"] = true
			}
		}
		if len(ut.spec.Again) > 0 {
			r.tags["update-twice"] = true
		}
		if err := r.snap(ev.WS, istructs.RecordID(ut.id)); err != nil {
			return err
		}
	}
	return nil
}

func (r *runner) snap(ws uint64, id istructs.RecordID) error {
	rec, err := r.get(ws, id)
	if err != nil {
		return err
	}
	k := wsKey{ws, id}
	r.snaps[k] = append(r.snaps[k], rec)
	return nil
}

func (r *runner) runReapply(o *op) error {
	if r.lastOfs == 0 {
		return nil
	}
	if o.Reapply == 2 {
		if err := r.rig.restart(); err != nil {
			return err
		}
	}
	ev, err := r.rig.readPLog(1, r.lastOfs)
	if err != nil {
		return err
	}
	code := 0
	if err := r.rig.app.GetEventReapplier(ev).ApplyRecords(); err != nil {
		code = 1
		if errors.Is(err, istructsmem.ErrSequencesViolation) {
			code = 7
		}
		o.Observed = map[string]any{"reapply_error": err.Error()}
	}
	r.terms = append(r.terms, fmt.Sprintf("SReapply %d %d", o.Reapply, code))
	r.tags[fmt.Sprintf("reapply:%d", o.Reapply)] = true
	fmt.Fprintf(&r.shape, "|R%d", o.Reapply)
	r.recheckHeld()
	return nil
}

// loggedTerm renders the stored form of an applied event as a Coq `event` (origins are not logged)
func (r *runner) loggedTerm(ofs istructs.Offset) (string, error) {
	ev, err := r.rig.readLogged(1, ofs)
	if err != nil {
		return "", err
	}
	var cs, us []string
	ev.CUDs(func(row istructs.ICUDRow) bool {
		t := typeByName(row.QName().Entity())
		changes := keeps(len(t.Fields))
		row.SpecifiedValues(func(f appdef.IField, _ any) bool {
			for i, fd := range t.Fields {
				if fd.Name == f.Name() {
					changes[i] = "SetTo (" + fvalOf(row, fd) + ")"
				}
			}
			return true
		})
		parent := uint64(row.AsRecordID(appdef.SystemField_ParentID))
		cont := containerIdx(row.AsString(appdef.SystemField_Container))
		active := coqBool(row.AsBool(appdef.SystemField_IsActive))
		if row.IsNew() {
			cs = append(cs, fmt.Sprintf("mkCreate %s %d %d %d %d %s %s", coqBool(t.Singleton), row.ID(), typeIdx(row.QName()), parent, cont, active, kit.List(changes)))
		} else {
			// the row says whether the event assigned sys.IsActive (stored mask bit) and carries a value either way
			assign := "None"
			if row.IsActivated() || row.IsDeactivated() {
				assign = "(Some " + active + ")"
			}
			us = append(us, fmt.Sprintf("mkUpdate %d (mkRec %d %d 0 0 %s []) %d %d %s %s", row.ID(), row.ID(), typeIdx(row.QName()), active, parent, cont, assign, kit.List(changes)))
		}
		return true
	})
	return fmt.Sprintf("(mkEvent %d %s %s)", ev.Workspace(), kit.List(cs), kit.List(us)), nil
}

func (r *runner) runObs(o *op) error {
	seen := []string{}
	i := 0
	for i < len(o.Obs) {
		ob := o.Obs[i]
		ws := ob.Ref.WS
		switch ob.Via {
		case 0:
			id := r.resolve(ob.Ref)
			rec, err := r.get(ws, id)
			if err != nil {
				return err
			}
			term := r.safeOptRecTerm(rec)
			r.terms = append(r.terms, fmt.Sprintf("SObs 0 %d %d %s", ws, id, term))
			seen = append(seen, fmt.Sprintf("get %d/%d: %s", ws, id, term))
			r.hold(rec, term)
			i++
		case 2:
			rec, err := r.rig.app.Records().GetSingleton(istructs.WSID(ws), qn(ob.Ref.Single))
			if err != nil {
				return err
			}
			id := r.singletonID(ob.Ref.Single)
			term := r.safeOptRecTerm(rec)
			r.terms = append(r.terms, fmt.Sprintf("SObs 2 %d %d %s", ws, id, term))
			seen = append(seen, fmt.Sprintf("singleton %d/%s: %s", ws, ob.Ref.Single, term))
			r.hold(rec, term)
			i++
		default:
			var batch []istructs.RecordGetBatchItem
			j := i
			for j < len(o.Obs) && o.Obs[j].Via == 1 && o.Obs[j].Ref.WS == ws && len(batch) < 50 {
				batch = append(batch, istructs.RecordGetBatchItem{ID: r.resolve(o.Obs[j].Ref)})
				j++
			}
			if err := r.rig.app.Records().GetBatch(istructs.WSID(ws), true, batch); err != nil {
				return err
			}
			for _, b := range batch {
				r.terms = append(r.terms, fmt.Sprintf("SObs 1 %d %d %s", ws, b.ID, optRecTerm(b.Record)))
				seen = append(seen, fmt.Sprintf("batch %d/%d: %s", ws, b.ID, optRecTerm(b.Record)))
			}
			i = j
		}
	}
	o.Observed = seen
	return nil
}

func (r *runner) exec(o *op) (err error) {
	if r.stopped {
		return nil
	}
	// a panic inside the code under test (e.g. a record whose payload was clobbered) ends the
	// scenario with a step that neither the model nor the oracle accepts
	defer func() {
		if p := recover(); p != nil {
			r.stopped = true
			r.tags["panic"] = true
			r.terms = append(r.terms, "SHeld None (Some "+junkRec+")")
			o.Observed = map[string]any{"panic": fmt.Sprint(p)}
			err = nil
		}
	}()
	switch {
	case o.Apply != nil:
		return r.runStep(o)
	case o.Reapply != 0:
		return r.runReapply(o)
	default:
		return r.runObs(o)
	}
}

func (r *runner) result() kit.Case {
	var tags []string
	for t := range r.tags {
		tags = append(tags, t)
	}
	n := len(r.sc.Ops)
	switch {
	case n <= 8:
		tags = append(tags, "ops<=8")
	case n <= 30:
		tags = append(tags, "ops<=30")
	default:
		tags = append(tags, "ops>30")
	}
	sort.Strings(tags)
	return kit.Case{Coq: kit.List(r.terms), Key: r.sc.Backend + r.shape.String(), Nontrivial: r.applied >= 2 && r.updated >= 1, Desc: r.sc, Tags: tags}
}

// runScenario replays a stored scenario
func runScenario(sc *scenario) (kit.Case, error) {
	r, err := newRunner(sc)
	if err != nil {
		return kit.Case{}, err
	}
	defer r.rig.cleanup()
	for _, o := range sc.Ops {
		o.Observed = nil
		if err := r.exec(o); err != nil {
			return kit.Case{}, err
		}
	}
	return r.result(), nil
}

// nopWriter: doPuts without a target (second pass that only renders the change list)
type nopWriter struct{ istructs.IRowWriter }

func (nopWriter) PutInt32(string, int32)                {}
func (nopWriter) PutInt64(string, int64)                {}
func (nopWriter) PutBool(string, bool)                  {}
func (nopWriter) PutString(string, string)              {}
func (nopWriter) PutBytes(string, []byte)               {}
func (nopWriter) PutRecordID(string, istructs.RecordID) {}
