// Package c14: harness of property C14 (registers itself with kit.Register in an init function).
package c14
