package c14

import (
	"encoding/hex"
	"encoding/json"
	"fmt"
	"os"
	"sort"
	"strings"
	"time"

	"verifharness/kit"
)

const sec = int64(time.Second)

// applications: three that istructs.ClusterApps lists, and ones it does not list (several owners and
// names, names one character apart, the null application "/")
var listedApps = []string{"test1/app1", "test1/app2", "sys/registry"}
var unlistedApps = []string{"acme/shop", "acme/billing", "acme/shop2", "acmf/shop", "sys/vvm", "/"}
var apps = append(append([]string{}, listedApps...), unlistedApps...)

// another application than a, mostly of the same kind (listed / not listed)
func otherApp(r *kit.Rng, a string) string {
	pool := listedApps
	for _, u := range unlistedApps {
		if u == a {
			pool = unlistedApps
		}
	}
	if r.Chance(1, 4) {
		pool = apps
	}
	for {
		if o := kit.Pick(r, pool); o != a {
			return o
		}
	}
}

func floorSec(ns int64) int64 {
	q := ns / sec
	if ns%sec < 0 {
		q--
	}
	return q * sec
}

// another secret than k: mostly one that agrees with k on the first 64 bytes
func otherSecret(r *kit.Rng, k int) int {
	if k == 4 && r.Chance(1, 4) {
		return 18 // the HS256-equivalent 64-byte secret
	}
	if k == 18 && r.Chance(1, 2) {
		return 4
	}
	for {
		o := kit.Pick(r, signingSecrets)
		if o == k {
			continue
		}
		if family(o) == family(k) || r.Chance(1, 4) {
			return o
		}
	}
}

func pickSecret(r *kit.Rng) int {
	if r.Chance(1, 2) {
		return 0
	}
	return kit.Pick(r, signingSecrets)
}

func genKeys(r *kit.Rng) *keysSpec {
	ks := &keysSpec{A: r.Intn(nSecrets), DataHex: kit.Pick(r, []string{"", "00", "68656c6c6f", "ff00ff00ff00ff00ff00ff00ff00ff00ff00ff00ff00ff00ff00ff00ff00ff00ff"})}
	switch r.Intn(4) {
	case 0:
		ks.B = ks.A
	case 1:
		ks.B = r.Intn(nSecrets)
	default:
		ks.A = kit.Pick(r, signingSecrets)
		ks.B = otherSecret(r, ks.A)
	}
	return ks
}

func genIssue(r *kit.Rng) *issueSpec {
	return &issueSpec{
		Key:   pickSecret(r),
		App:   kit.Pick(r, apps),
		PType: kit.Pick(r, payloadTypes),
		PVar:  r.Intn(10),
		T0:    kit.Pick(r, []int64{0, 1000000, 999999999, sec, 12345678901, 86400 * sec}),
		Dur: kit.Pick(r, []int64{1, 1000000, 999 * 1000000, sec, sec + 1, 1500 * 1000000, 2 * sec, 600 * sec, 600 * sec, 86400 * sec,
			0, -sec, 3*sec - 1}),
	}
}

// validation context for an issued token: mostly the matching one, sometimes one aspect off
func genVal(r *kit.Rng, is *issueSpec, clockBoundary bool) valSpec {
	v := valSpec{Key: is.Key, App: is.App, PType: is.PType}
	end := is.T0 + is.Dur
	e := floorSec(end)
	if clockBoundary {
		v.Now = kit.Pick(r, []int64{is.T0, is.T0 + 1, e - sec, e - 1000000, e - 1, e, e + 1, end - 1, end, end + 1, end + 3600*sec, is.T0 - sec})
	} else {
		v.Now = kit.Pick(r, []int64{is.T0, is.T0 + 1, e - 1})
		if is.Dur < 2*sec {
			v.Now = is.T0 // keep the mutation streams on unexpired tokens so that acceptance is the interesting outcome
		}
	}
	switch r.Intn(10) {
	case 0, 3:
		v.Key = otherSecret(r, is.Key)
	case 1, 4:
		v.App = otherApp(r, is.App)
	case 2:
		v.PType = kit.Pick(r, payloadTypes)
	}
	return v
}

func genMut(r *kit.Rng, tok string) *mutSpec {
	segs := strings.Split(tok, ".")
	h, c := len(segs[0]), len(segs[1])
	sigStart := h + c + 2
	inSeg := func(which int) int {
		switch which {
		case 0:
			return r.Intn(h)
		case 1:
			return h + 1 + r.Intn(c)
		default:
			return sigStart + r.Intn(len(tok)-sigStart)
		}
	}
	switch r.Intn(16) {
	case 0:
		return &mutSpec{Op: "truncate", Pos: kit.Pick(r, []int{0, 1, h, h + 1, h + 1 + c, sigStart, len(tok) - 1, len(tok) - 2, inSeg(1), inSeg(2)})}
	case 1, 2:
		return &mutSpec{Op: "flipbit", Pos: inSeg(r.Intn(3)), Arg: r.Intn(6)}
	case 3:
		return &mutSpec{Op: "flipbit", Pos: len(tok) - 1, Arg: r.Intn(6)} // low bits of the last signature character are padding
	case 4:
		return &mutSpec{Op: "delete", Pos: kit.Pick(r, []int{h, h + 1 + c, inSeg(0), inSeg(1), inSeg(2), len(tok) - 1})}
	case 5:
		return &mutSpec{Op: "insert", Pos: inSeg(r.Intn(3)), Arg: r.Intn(64)}
	case 6:
		return &mutSpec{Op: "replace", Pos: inSeg(r.Intn(3)), Arg: r.Intn(64)}
	case 7:
		return &mutSpec{Op: "swapseg", Pos: r.Intn(3), Arg: r.Intn(3)}
	case 8:
		return &mutSpec{Op: kit.Pick(r, []string{"dropsig", "dropdot", "appendseg", "pad", "hdrnewline"})}
	case 9, 10:
		return &mutSpec{Op: "resign", Arg: kit.Pick(r, signingSecrets)}
	case 11, 12:
		return &mutSpec{Op: "sigtrailbits", Arg: r.Intn(3)}
	case 13:
		return &mutSpec{Op: "signewline", Pos: r.Intn(44), Arg: r.Intn(3)}
	default:
		return &mutSpec{Op: "algnone"}
	}
}

type edit struct {
	name string
	f    func(m map[string]any, ctx *forgeCtx)
}

type forgeCtx struct {
	ptype string
	app   string
	now   int64 // ns after Epoch
}

func raw(s string) json.RawMessage { return json.RawMessage(s) }

var claimEdits = []edit{
	{"none", func(m map[string]any, c *forgeCtx) {}},
	{"none", func(m map[string]any, c *forgeCtx) {}},
	{"no-aud", func(m map[string]any, c *forgeCtx) { delete(m, "aud") }},
	{"aud-num", func(m map[string]any, c *forgeCtx) { m["aud"] = 5 }},
	{"aud-arr", func(m map[string]any, c *forgeCtx) { m["aud"] = []string{audOf(c.ptype)} }},
	{"aud-null", func(m map[string]any, c *forgeCtx) { m["aud"] = nil }},
	{"aud-other", func(m map[string]any, c *forgeCtx) { m["aud"] = "payloads.Other" }},
	{"aud-empty", func(m map[string]any, c *forgeCtx) { m["aud"] = "" }},
	{"no-Duration", func(m map[string]any, c *forgeCtx) { delete(m, "Duration") }},
	{"dur-str", func(m map[string]any, c *forgeCtx) { m["Duration"] = "600" }},
	{"dur-frac", func(m map[string]any, c *forgeCtx) { m["Duration"] = raw("1.5") }},
	{"dur-exp", func(m map[string]any, c *forgeCtx) { m["Duration"] = raw("1e3") }},
	{"dur-null", func(m map[string]any, c *forgeCtx) { m["Duration"] = nil }},
	{"dur-huge", func(m map[string]any, c *forgeCtx) { m["Duration"] = raw("92233720368547758070") }},
	{"no-exp", func(m map[string]any, c *forgeCtx) { delete(m, "exp") }},
	{"exp-str", func(m map[string]any, c *forgeCtx) { m["exp"] = "tomorrow" }},
	{"exp-null", func(m map[string]any, c *forgeCtx) { m["exp"] = nil }},
	{"exp-bool", func(m map[string]any, c *forgeCtx) { m["exp"] = true }},
	{"exp-frac", func(m map[string]any, c *forgeCtx) { m["exp"] = raw(fmt.Sprintf("%d.5", kit.Epoch.Unix()+floorSec(c.now)/sec)) }},
	{"exp-now", func(m map[string]any, c *forgeCtx) { m["exp"] = kit.Epoch.Unix() + floorSec(c.now)/sec }},
	{"exp-past", func(m map[string]any, c *forgeCtx) { m["exp"] = kit.Epoch.Unix() + floorSec(c.now)/sec - 10 }},
	{"exp-zero", func(m map[string]any, c *forgeCtx) { m["exp"] = 0 }},
	{"nbf-future", func(m map[string]any, c *forgeCtx) { m["nbf"] = kit.Epoch.Unix() + floorSec(c.now)/sec + 1 }},
	{"nbf-now", func(m map[string]any, c *forgeCtx) { m["nbf"] = kit.Epoch.Unix() + floorSec(c.now)/sec }},
	{"nbf-str", func(m map[string]any, c *forgeCtx) { m["nbf"] = "x" }},
	{"nbf-future+exp-past", func(m map[string]any, c *forgeCtx) {
		m["nbf"] = kit.Epoch.Unix() + floorSec(c.now)/sec + 5
		m["exp"] = kit.Epoch.Unix() + floorSec(c.now)/sec - 5
	}},
	{"no-AppQName", func(m map[string]any, c *forgeCtx) { delete(m, "AppQName") }},
	{"app-noslash", func(m map[string]any, c *forgeCtx) { m["AppQName"] = "test1app1" }},
	{"app-2slash", func(m map[string]any, c *forgeCtx) { m["AppQName"] = "test1/app1/x" }},
	{"app-num", func(m map[string]any, c *forgeCtx) { m["AppQName"] = 7 }},
	{"app-other", func(m map[string]any, c *forgeCtx) { m["AppQName"] = "evil/app" }},
	{"no-IssuedAt", func(m map[string]any, c *forgeCtx) { delete(m, "IssuedAt") }},
	{"iat-bad", func(m map[string]any, c *forgeCtx) { m["IssuedAt"] = "yesterday" }},
	{"iat-num", func(m map[string]any, c *forgeCtx) { m["IssuedAt"] = 1767225600 }},
	{"iat-null", func(m map[string]any, c *forgeCtx) { m["IssuedAt"] = nil }},
	{"no-iat", func(m map[string]any, c *forgeCtx) { delete(m, "iat") }},
	{"iat-future", func(m map[string]any, c *forgeCtx) { m["iat"] = kit.Epoch.Unix() + floorSec(c.now)/sec + 1000 }},
	{"payload-illtyped", func(m map[string]any, c *forgeCtx) {
		switch c.ptype {
		case "principal", "altprincipal", "probe":
			m["Login"] = 5
		case "blob":
			m["Workspace"] = "one"
		default:
			m["Field"] = []int{1}
		}
	}},
	{"only-std", func(m map[string]any, c *forgeCtx) {
		for k := range m {
			switch k {
			case "aud", "exp", "iat", "Duration", "AppQName", "IssuedAt":
			default:
				delete(m, k)
			}
		}
	}},
	{"only-aud", func(m map[string]any, c *forgeCtx) {
		for k := range m {
			if k != "aud" {
				delete(m, k)
			}
		}
	}},
	{"only-aud-Duration", func(m map[string]any, c *forgeCtx) {
		for k := range m {
			if k != "aud" && k != "Duration" {
				delete(m, k)
			}
		}
	}},
}

var wholeClaims = []string{`{}`, `null`, `[]`, `"str"`, `5`, ``, `{`, `{"aud":"payloads.PrincipalPayload","Duration":`, `{"aud":"payloads.PrincipalPayload","Duration":1} trailing`}

var headers = []string{
	`{"alg":"HS256","typ":"JWT"}`, `{"alg":"HS256","typ":"JWT"}`, `{"alg":"HS256","typ":"JWT"}`, `{"alg":"HS256"}`,
	`{"alg":"HS384","typ":"JWT"}`, `{"alg":"HS512","typ":"JWT"}`,
	`{"alg":"none","typ":"JWT"}`, `{"alg":"RS256","typ":"JWT"}`, `{"alg":"ES256","typ":"JWT"}`, `{"alg":"EdDSA"}`, `{"alg":"PS384"}`,
	`{"alg":"XX","typ":"JWT"}`, `{"alg":"hs256"}`, `{"typ":"JWT"}`, `{"alg":5}`, `{"alg":null}`, `{}`, `null`, `[]`, `{`, `"HS256"`,
}

func goodClaims(c *forgeCtx, pvar int, durNs int64) map[string]any {
	b, _ := json.Marshal(makePayload(c.ptype, pvar))
	m := map[string]any{}
	_ = json.Unmarshal(b, &m)
	now := kit.Epoch.Add(time.Duration(c.now))
	m["iat"] = now.Unix()
	m["exp"] = now.Add(time.Duration(durNs)).Unix()
	m["aud"] = audOf(c.ptype)
	m["Duration"] = durNs
	m["AppQName"] = c.app
	m["IssuedAt"] = now
	return m
}

func genForge(r *kit.Rng) (*forgeSpec, valSpec) {
	v := valSpec{Key: pickSecret(r), App: kit.Pick(r, apps), PType: kit.Pick(r, payloadTypes), Now: kit.Pick(r, []int64{0, 999999999, 5 * sec, 5*sec + 1})}
	if r.Chance(1, 2) {
		v.PType = "principal"
	}
	ctx := &forgeCtx{ptype: v.PType, app: v.App, now: v.Now}
	f := &forgeSpec{Header: headers[0], Sign: kit.Pick(r, []string{fmt.Sprintf("k%d", otherSecret(r, v.Key)), fmt.Sprintf("k%d", otherSecret(r, v.Key)), "empty", "garbage"})}
	if r.Chance(3, 5) {
		f.Sign = fmt.Sprintf("k%d", v.Key)
	}
	m := goodClaims(ctx, r.Intn(10), kit.Pick(r, []int64{600 * sec, 2 * sec, sec}))
	nEdits := kit.Pick(r, []int{1, 1, 1, 2})
	for i := 0; i < nEdits; i++ {
		e := kit.Pick(r, claimEdits)
		e.f(m, ctx)
	}
	b, _ := json.Marshal(m)
	f.Claims = string(b)
	if r.Chance(1, 15) { // the caller wipes the buffer it constructed the signer from; the token is signed with what the buffer holds then, or with the secret
		v.Key = r.Intn(2)
		v.Wipe = true
		f.Sign = kit.Pick(r, []string{fmt.Sprintf("k%d", zeroSecret), fmt.Sprintf("k%d", zeroSecret), fmt.Sprintf("k%d", v.Key)})
		return f, v
	}
	switch r.Intn(12) {
	case 0, 1, 2:
		f.Header = kit.Pick(r, headers)
	case 3:
		f.Claims = kit.Pick(r, wholeClaims)
	case 4:
		s := kit.Pick(r, []string{"*", "", "e30=", "A"})
		if r.Bool() {
			f.HeaderSeg = &s
		} else {
			f.ClaimsSeg = &s
		}
	case 5:
		f.Sign = "badb64"
	}
	return f, v
}

var rawStrings = []string{
	"", "", " ", "\t", "\n", "\r\n", " \t\r\n\v\f", "\u0085", "\u00a0", "\u2028", "\u3000", "  ", "a", ".", "..", "...", "a.b", "a.b.c", "a.b.c.d", "e30.e30.", "e30..", "e30.e30", "e30.e30.e30", ".e30.", "..e30",
	"eyJhbGciOiJIUzI1NiJ9.e30.", "eyJhbGciOiJIUzI1NiJ9..", "eyJhbGciOiJub25lIn0.e30.", "bnVsbA.bnVsbA.", "bnVsbA.e30.AAAA",
	"Bearer abc", "\xff\xfe.\x00.\x01", "e30 .e30.", "e30\n.e30.", "=.=.=", "e30.W10.", "e30.eyJhdWQiOjF9.",
	"e30.eyJhdWQiOiJ4In0.", "e30.eyJhdWQiOiJ4IiwiRHVyYXRpb24iOjF9.", "e30.eyJhdWQiOiJ4IiwiRHVyYXRpb24iOiIxIn0.",
}

func genRaw(r *kit.Rng) (string, valSpec) {
	v := valSpec{Key: pickSecret(r), App: kit.Pick(r, apps), PType: kit.Pick(r, payloadTypes), Now: 0}
	if r.Chance(1, 2) {
		v.PType = "principal"
	}
	if r.Chance(2, 3) {
		return kit.Pick(r, rawStrings), v
	}
	// random segments over a base64-like alphabet with a few foreign bytes
	n := kit.Pick(r, []int{1, 2, 3, 3, 3, 4})
	segs := make([]string, n)
	for i := range segs {
		l := r.Intn(12)
		b := make([]byte, l)
		for j := range b {
			if r.Chance(1, 15) {
				b[j] = kit.Pick(r, []byte{' ', '=', '+', '/', 0, 0xff, '\n'})
			} else {
				b[j] = b64alphabet[r.Intn(64)]
			}
		}
		segs[i] = string(b)
	}
	return strings.Join(segs, "."), v
}

func genCase(r *kit.Rng, i int) (*caseSpec, error) {
	switch i % 10 {
	case 0, 1, 2: // issued tokens, all payload types, clock around the expiry instant
		is := genIssue(r)
		return &caseSpec{Issue: is, Val: genVal(r, is, true)}, nil
	case 3, 4, 5: // byte-level mutations of issued tokens
		is := genIssue(r)
		if r.Chance(1, 6) { // white space around a genuine principal token, through Authenticate as well
			is.PType, is.PVar = "principal", kit.Pick(r, []int{1, 3, 0, 8})
			v := valSpec{Key: is.Key, App: is.App, PType: "principal", Now: is.T0}
			if is.Dur < 2*sec {
				is.Dur = 600 * sec
			}
			return &caseSpec{Issue: is, Mut: &mutSpec{Op: "padends", Pos: r.Intn(3), Arg: r.Intn(len(whitespace))}, Val: v}, nil
		}
		tok, err := issueOnly(is)
		if err != nil {
			return nil, err
		}
		return &caseSpec{Issue: is, Mut: genMut(r, tok), Val: genVal(r, is, false)}, nil
	case 6, 7, 8: // well-formed JWTs built here: arbitrary header / claims / signature
		f, v := genForge(r)
		return &caseSpec{Forge: f, Val: v}, nil
	default: // malformed stream, and (every other time) two secrets side by side
		if i%20 == 19 {
			return &caseSpec{Keys: genKeys(r)}, nil
		}
		s, v := genRaw(r)
		h := hex.EncodeToString([]byte(s))
		return &caseSpec{RawHex: &h, Val: v}, nil
	}
}

func emit(cs *caseSpec, out *kit.Out) error {
	cs.Obs, cs.Token = nil, ""
	coq, tags, key, nontrivial, err := run(cs)
	if err != nil {
		return err
	}
	out.Emit(kit.Case{Coq: coq, Key: key, Nontrivial: nontrivial, Desc: cs, Tags: tags})
	return nil
}

// The claims a token carries are the payload's JSON fields plus the reserved ones, which win; on the
// way back encoding/json matches field names case-insensitively. The payload equality C14 claims
// therefore needs payload types without a field that collides with a reserved claim: checked here
// for the payload types of itokens-payloads on every run.
func checkReservedNames() error {
	reserved := reservedClaims
	for _, pt := range []string{"principal", "blob", "verified", "verification"} {
		b, _ := json.Marshal(newPayload(pt))
		m := map[string]any{}
		_ = json.Unmarshal(b, &m)
		for k := range m {
			for _, rsv := range reserved {
				if strings.EqualFold(k, rsv) {
					return fmt.Errorf("payload type %s has field %q, which collides with the reserved claim %q: its value would not survive IssueToken/ValidateToken", audOf(pt), k, rsv)
				}
			}
		}
	}
	return nil
}

func Generate(seed uint64, n int, tier string, corpusDir string, out *kit.Out) error {
	if err := checkReservedNames(); err != nil {
		return err
	}
	if corpusDir != "" {
		entries, _ := os.ReadDir(corpusDir)
		var names []string
		for _, e := range entries {
			if strings.HasSuffix(e.Name(), ".json") {
				names = append(names, e.Name())
			}
		}
		sort.Strings(names)
		for _, nm := range names {
			cs, err := load(corpusDir + "/" + nm)
			if err != nil {
				return fmt.Errorf("%s: %w", nm, err)
			}
			if err := emit(cs, out); err != nil {
				return fmt.Errorf("%s: %w", nm, err)
			}
		}
	}
	r := kit.NewRng(seed)
	for i := 0; i < n; i++ {
		cs, err := genCase(r.Fork(), i)
		if err != nil {
			return err
		}
		if err := emit(cs, out); err != nil {
			return err
		}
	}
	return nil
}

func load(path string) (*caseSpec, error) {
	b, err := os.ReadFile(path)
	if err != nil {
		return nil, err
	}
	var w struct {
		Case struct {
			Desc *caseSpec `json:"desc"`
		} `json:"case"`
		Desc *caseSpec `json:"desc"`
	}
	if err := json.Unmarshal(b, &w); err == nil {
		if w.Desc != nil {
			return w.Desc, nil
		}
		if w.Case.Desc != nil {
			return w.Case.Desc, nil
		}
	}
	var cs caseSpec
	if err := json.Unmarshal(b, &cs); err != nil {
		return nil, err
	}
	return &cs, nil
}

func Replay(path string, out *kit.Out) error {
	cs, err := load(path)
	if err != nil {
		return err
	}
	return emit(cs, out)
}

func timeDur(ns int64) time.Duration { return time.Duration(ns) }
