// Package alt holds a payload type that has the bare name of a voedger payload type but lives in
// another package: tokens are bound to the package-qualified type name, so it must not be
// interchangeable with payloads.PrincipalPayload.
package alt

type PrincipalPayload struct {
	Login       string
	ProfileWSID uint64
	IsAPIToken  bool
}
