// Package c14: token validation (property C14). Drives the real itokensjwt / itokens-payloads /
// iauthnzimpl on issued, byte-mutated and forged tokens and prints, for every case, the abstract
// view of the token (computed here with our own split + base64 + encoding/json + crypto/hmac,
// never through itokensjwt or jwt/v5) together with everything the real code returned.
package c14

import (
	"bytes"
	"context"
	"crypto/hmac"
	"crypto/sha256"
	"crypto/sha512"
	"encoding/base64"
	"encoding/hex"
	"encoding/json"
	"errors"
	"fmt"
	"hash"
	"hash/crc32"
	"math"
	"math/big"
	"reflect"
	"sort"
	"strconv"
	"strings"
	"time"

	"verifharness/c14/alt"
	"verifharness/kit"

	"github.com/golang-jwt/jwt/v5"
	"github.com/voedger/voedger/pkg/appdef"
	"github.com/voedger/voedger/pkg/iauthnz"
	"github.com/voedger/voedger/pkg/iauthnzimpl"
	"github.com/voedger/voedger/pkg/istructs"
	"github.com/voedger/voedger/pkg/itokens"
	payloads "github.com/voedger/voedger/pkg/itokens-payloads"
	"github.com/voedger/voedger/pkg/itokensjwt"
)

// ---- fixed test universe: families of secrets, three apps, four payload types ----

// The secrets are identified by index (the replay description stores indices). 0 and 1 are two
// unrelated secrets of the minimum length (64 bytes). 2..10 all start with secret 0 and differ from
// each other only after byte 64 (one more byte, other last byte, other byte 65, longer extensions);
// 11 and 12 extend secret 1. 13..16 are prefixes of secret 0 below the minimum length, which
// NewJWTSigner must refuse. Extension bytes are never zero: HMAC zero-pads keys shorter than the
// hash block, so K and K||00 are the same HMAC key for HS384/HS512 - not a defect of the code under test.
const nValidSecrets = 13
const nSecrets = 17
const zeroSecret = 17

// the secrets a signer can be configured with
var signingSecrets = []int{0, 1, 2, 3, 4, 5, 6, 7, 8, 9, 10, 11, 12, 18, 19}

// HMAC does not use the secret as it is: a secret longer than the hash's block is replaced by its
// hash, and the result is padded with zero bytes to the block. This block is the key of the MAC.
func hmacBlock(alg string, k []byte) []byte {
	hf := hmacHash(alg)
	if hf == nil {
		hf = sha256.New
	}
	h := hf()
	if len(k) > h.BlockSize() {
		h.Write(k)
		k = h.Sum(nil)
	}
	out := make([]byte, h.BlockSize())
	copy(out, k)
	return out
}

func base(i int) []byte {
	k := make([]byte, 64)
	for j := range k {
		k[j] = byte(17*j + 101*i + 3)
	}
	return k
}

func ext(k []byte, n int) []byte {
	out := append([]byte{}, k...)
	for j := 0; j < n; j++ {
		out = append(out, byte(1+(len(out)*29+7)%250))
	}
	return out
}

func tweak(k []byte, pos int) []byte {
	out := append([]byte{}, k...)
	if pos < 0 {
		pos = len(out) - 1
	}
	out[pos] ^= 0x5a
	if out[pos] == 0 {
		out[pos] = 0x33
	}
	return out
}

func secret(i int) itokensjwt.SecretKeyType {
	a, b := base(0), base(1)
	switch i {
	case 0:
		return a
	case 1:
		return b
	case 2:
		return ext(a, 1) // 65 bytes
	case 3:
		return tweak(ext(a, 1), -1) // 65 bytes, other byte 65
	case 4:
		return ext(a, 36) // 100 bytes, extension of 2
	case 5:
		return tweak(ext(a, 36), -1) // other last byte
	case 6:
		return tweak(ext(a, 36), 64) // other byte 65
	case 7:
		return ext(a, 64) // 128 bytes, extension of 4
	case 8:
		return ext(a, 136) // 200 bytes, extension of 7
	case 9:
		return tweak(ext(a, 136), -1)
	case 10:
		return tweak(ext(a, 136), 64)
	case 11:
		return ext(b, 1)
	case 12:
		return ext(b, 64)
	case 13:
		return a[:63]
	case 14:
		return a[:32]
	case 15:
		return a[:1]
	case 16:
		return []byte{}
	case 17: // what a caller's wiped 64-byte buffer holds (never drawn as a signer's configured secret)
		return make([]byte, 64)
	case 18: // a different 64-byte secret that is the same HS256 key as the 100-byte secret 4: sha256(secret 4) and 32 zero bytes
		h := sha256.Sum256(secret(4))
		return append(h[:], make([]byte, 32)...)
	case 19: // secret 0 and one zero byte: another HS256 key (65 bytes are hashed), the same HS384/HS512 key (zero padding to 128)
		return append(base(0), 0)
	}
	panic(fmt.Sprintf("unknown secret %d", i))
}

// secrets 2..10 agree with secret 0 on the first 64 bytes, 11..12 with secret 1
func family(i int) int {
	switch {
	case i == 18:
		return 2
	case i == 0 || (i >= 2 && i <= 10) || i >= 13:
		return 0
	}
	return 1
}

func keyRelation(a, b int, alg string) string {
	ka, kb := secret(a), secret(b)
	switch {
	case bytes.Equal(ka, kb):
		return "keys:same"
	case bytes.Equal(hmacBlock(alg, ka), hmacBlock(alg, kb)):
		return "keys:hmac-equivalent"
	case len(ka) >= 64 && len(kb) >= 64 && bytes.Equal(ka[:64], kb[:64]):
		return "keys:differ-only-after-byte-64"
	}
	return "keys:differ-within-64"
}

// the HMAC key block under which sig is the MAC of text by the header's method, found by
// recomputing the MAC with each WHOLE secret of the run (equivalent secrets have the same block)
func macKey(alg string, text string, sig []byte) ([]byte, error) {
	hf := hmacHash(alg)
	if hf == nil {
		return nil, nil
	}
	var found []byte
	for _, i := range append(append([]int{}, signingSecrets...), zeroSecret) {
		m := hmac.New(hf, secret(i))
		m.Write([]byte(text))
		if hmac.Equal(sig, m.Sum(nil)) {
			blk := hmacBlock(alg, secret(i))
			if found != nil && !bytes.Equal(found, blk) {
				return nil, fmt.Errorf("two different HMAC keys give the same %s MAC (secret %d)", alg, i)
			}
			found = blk
		}
	}
	return found, nil
}

var payloadTypes = []string{"principal", "blob", "verified", "verification", "altprincipal", "probe"}

// ReservedProbe is a payload type whose top-level JSON keys collide with the claims the signer
// writes (it embeds the generic payload, as "all payloads must inherit this payload" suggests).
// The signer's claims win: the application, duration and issue time of a token are the signer's,
// whatever the payload says; only the other fields (Login) are payload.
type ReservedProbe struct {
	istructs.GenericPayload
	Login string
}

var reservedClaims = []string{"aud", "exp", "iat", "nbf", "iss", "sub", "jti", "Duration", "AppQName", "IssuedAt"}

func isReserved(k string) bool {
	for _, r := range reservedClaims {
		if strings.EqualFold(k, r) {
			return true
		}
	}
	return false
}

func newPayload(ptype string) any {
	switch ptype {
	case "principal":
		return &payloads.PrincipalPayload{}
	case "blob":
		return &payloads.BLOBUploadingPayload{}
	case "verified":
		return &payloads.VerifiedValuePayload{}
	case "verification":
		return &payloads.VerificationPayload{}
	case "altprincipal": // same bare name, other package
		return &alt.PrincipalPayload{}
	case "probe":
		return &ReservedProbe{}
	}
	panic("unknown payload type " + ptype)
}

func audOf(ptype string) string { return reflect.TypeOf(newPayload(ptype)).Elem().String() }

const bigWSID = istructs.WSID(140737488486400)
const clusterWSID = istructs.WSID(9147936743227393) // cluster 65 in the high bits: not a float64 integer

// the integer fields of a payload as it was handed to IssueToken: Coq pairs (name, value)
func issuedInts(pl any) string {
	b, _ := json.Marshal(pl)
	m, _ := decodeClaims(b)
	keys := make([]string, 0, len(m))
	for k := range m {
		keys = append(keys, k)
	}
	sort.Strings(keys)
	var items []string
	for _, k := range keys {
		if n, ok := m[k].(json.Number); ok && !isReserved(k) {
			if z, ok := new(big.Int).SetString(string(n), 10); ok {
				items = append(items, fmt.Sprintf("(%s, (%s)%%Z)", bs(k), z.String()))
			}
		}
	}
	return kit.List(items)
}

func hasIntAbove2p53(pl any) bool {
	b, _ := json.Marshal(pl)
	m, _ := decodeClaims(b)
	lim := new(big.Int).Lsh(big.NewInt(1), 53)
	for _, v := range m {
		if n, ok := v.(json.Number); ok {
			if z, ok := new(big.Int).SetString(string(n), 10); ok && z.CmpAbs(lim) > 0 {
				return true
			}
		}
	}
	return false
}

// payload values of every type; variant numbers are part of the replay description
func makePayload(ptype string, v int) any {
	q := appdef.NewQName
	switch ptype {
	case "principal":
		switch v % 10 {
		case 5: // integers float64 cannot hold: one above 2^53, a workspace ID with cluster bits set, the largest uint64
			return &payloads.PrincipalPayload{Login: "big", SubjectKind: istructs.SubjectKind_User, IsAPIToken: true, ProfileWSID: 1<<53 + 1}
		case 6:
			return &payloads.PrincipalPayload{Login: "cluster65", SubjectKind: istructs.SubjectKind_User, IsAPIToken: true, ProfileWSID: clusterWSID}
		case 7:
			return &payloads.PrincipalPayload{Login: "max", SubjectKind: istructs.SubjectKind_Device, IsAPIToken: true, ProfileWSID: math.MaxUint64}
		case 8: // and the largest ones it can
			return &payloads.PrincipalPayload{Login: "2^53", SubjectKind: istructs.SubjectKind_User, IsAPIToken: true, ProfileWSID: 1 << 53}
		case 9:
			return &payloads.PrincipalPayload{Login: "2^53-1", SubjectKind: istructs.SubjectKind_User, IsAPIToken: true, ProfileWSID: 1<<53 - 1}
		case 0:
			return &payloads.PrincipalPayload{Login: "user1", SubjectKind: istructs.SubjectKind_User}
		case 1:
			return &payloads.PrincipalPayload{Login: "dev", Alias: "front desk", SubjectKind: istructs.SubjectKind_Device, IsAPIToken: true,
				ProfileWSID: bigWSID, Roles: []payloads.RoleType{{WSID: 1, QName: q("air", "LinkedDevice")}, {WSID: bigWSID, QName: q("air", "Waiter")}}}
		case 2:
			return &payloads.PrincipalPayload{Login: "boss@x.y", SubjectKind: istructs.SubjectKind_User, GlobalRoles: []appdef.QName{q("sys", "Admin"), q("app", "Role2")}}
		case 3:
			return &payloads.PrincipalPayload{Login: "", SubjectKind: istructs.SubjectKind_User, IsAPIToken: true, Roles: []payloads.RoleType{}}
		default:
			return &payloads.PrincipalPayload{Login: "Ünï/c\"ode<&>", Alias: "a", SubjectKind: istructs.SubjectKind_Device}
		}
	case "blob":
		return []any{&payloads.BLOBUploadingPayload{Workspace: 1, BLOB: 2, MaxSize: 3},
			&payloads.BLOBUploadingPayload{},
			&payloads.BLOBUploadingPayload{Workspace: bigWSID, BLOB: 200001, MaxSize: math.MaxInt64},
			&payloads.BLOBUploadingPayload{Workspace: 1<<53 + 1, BLOB: 2, MaxSize: 3},
			&payloads.BLOBUploadingPayload{Workspace: clusterWSID, BLOB: 1<<53 + 1, MaxSize: 1<<62 + 1},
			&payloads.BLOBUploadingPayload{Workspace: math.MaxUint64, BLOB: math.MaxUint64, MaxSize: 1 << 53},
			&payloads.BLOBUploadingPayload{Workspace: 1 << 53, BLOB: 1<<53 - 1, MaxSize: 1<<53 + 1}}[v%7]
	case "verified":
		return []any{&payloads.VerifiedValuePayload{VerificationKind: appdef.VerificationKind_EMail, WSID: 5, ID: 7, Entity: q("app", "doc"), Field: "email", Value: "a@b.c"},
			&payloads.VerifiedValuePayload{VerificationKind: appdef.VerificationKind_Phone, Entity: q("a", "b"), Field: "phone", Value: 42},
			&payloads.VerifiedValuePayload{Entity: q("a", "b")},
			&payloads.VerifiedValuePayload{VerificationKind: appdef.VerificationKind_EMail, WSID: clusterWSID, ID: 1<<53 + 1, Entity: q("app", "doc"), Field: "n", Value: int64(1<<53 + 1)},
			&payloads.VerifiedValuePayload{VerificationKind: appdef.VerificationKind_Phone, WSID: math.MaxUint64, ID: 1 << 53, Entity: q("a", "b"), Field: "n", Value: int64(1 << 53)}}[v%5]
	case "probe": // a payload that names another application, duration and issue time than the signer's
		return []any{&ReservedProbe{Login: "p0"},
			&ReservedProbe{Login: "p1", GenericPayload: istructs.GenericPayload{AppQName: appdef.NewAppQName("acme", "billing"), Duration: 1000 * time.Hour, IssuedAt: kit.Epoch.Add(24 * time.Hour)}},
			&ReservedProbe{Login: "p2", GenericPayload: istructs.GenericPayload{AppQName: appdef.NewAppQName("test1", "app2"), Duration: time.Nanosecond}},
			&ReservedProbe{Login: "p3", GenericPayload: istructs.GenericPayload{AppQName: appdef.NewAppQName("sys", "registry"), Duration: -time.Hour, IssuedAt: kit.Epoch.Add(-1000 * time.Hour)}}}[v%4]
	case "altprincipal":
		return []any{&alt.PrincipalPayload{Login: "user1"}, &alt.PrincipalPayload{Login: "root", IsAPIToken: true, ProfileWSID: 1 << 53}}[v%2]
	case "verification":
		p := &payloads.VerificationPayload{VerifiedValuePayload: payloads.VerifiedValuePayload{VerificationKind: appdef.VerificationKind_EMail, WSID: 1, ID: 2, Entity: q("app", "doc"), Field: "f", Value: "v"}}
		for i := range p.Hash256 {
			p.Hash256[i] = byte(i*7 + v)
		}
		return p
	}
	panic("unknown payload type " + ptype)
}

func parseApp(s string) appdef.AppQName {
	o, n, _ := strings.Cut(s, "/")
	return appdef.NewAppQName(o, n)
}

// ---- case description (everything needed to re-run a case) ----

type issueSpec struct {
	Key   int    `json:"key"`
	App   string `json:"app"`
	PType string `json:"ptype"`
	PVar  int    `json:"pvar"`
	T0    int64  `json:"t0_ns"`  // ns after kit.Epoch
	Dur   int64  `json:"dur_ns"` // token duration
}

type mutSpec struct {
	Op  string `json:"op"`
	Pos int    `json:"pos,omitempty"`
	Arg int    `json:"arg,omitempty"`
}

type forgeSpec struct {
	Header    string  `json:"header"`               // JSON text of the header
	Claims    string  `json:"claims"`               // JSON text of the claims
	HeaderSeg *string `json:"header_seg,omitempty"` // raw segment instead of base64(Header)
	ClaimsSeg *string `json:"claims_seg,omitempty"` // raw segment instead of base64(Claims)
	Sign      string  `json:"sign"`                 // k<i> (HMAC under secret i by the header's alg, HS256 if the alg is not HMAC) | empty | garbage | badb64
}

type valSpec struct {
	Key   int    `json:"key"`
	App   string `json:"app"`
	PType string `json:"ptype"`
	Now   int64  `json:"now_ns"` // ns after kit.Epoch
	// the caller overwrites the slice it handed to NewJWTSigner with zeros before validating
	Wipe bool `json:"wipe_secret_after_construction,omitempty"`
}

// two secrets side by side: does NewJWTSigner take them, do their keyed hashes of the same data agree
type keysSpec struct {
	A       int    `json:"a"`
	B       int    `json:"b"`
	DataHex string `json:"data_hex"`
}

type caseSpec struct {
	Keys   *keysSpec      `json:"keys,omitempty"`
	Issue  *issueSpec     `json:"issue,omitempty"`
	Mut    *mutSpec       `json:"mut,omitempty"`
	Forge  *forgeSpec     `json:"forge,omitempty"`
	RawHex *string        `json:"raw_hex,omitempty"`
	Val    valSpec        `json:"validate"`
	Token  string         `json:"token_hex,omitempty"` // filled by run: the validated string
	Obs    map[string]any `json:"observed,omitempty"`
}

// ---- Coq printing ----

func zc(x int64) string { return fmt.Sprintf("(%d)%%Z", x) }
func bs(s string) string { return kit.Bytes([]byte(s)) }
func optBytes(ok bool, s string) string {
	if ok {
		return "(Some " + bs(s) + ")"
	}
	return "None"
}
func optZ(ok bool, x int64) string {
	if ok {
		return "(Some " + zc(x) + ")"
	}
	return "None"
}

func jvalCoq(v any) string {
	switch x := v.(type) {
	case nil:
		return "JNull"
	case bool:
		return "(JBool " + kit.Bool(x) + ")"
	case json.Number:
		i, err := strconv.ParseInt(string(x), 10, 64)
		f, _ := strconv.ParseFloat(string(x), 64)
		fl := math.Floor(f)
		if fl > 4e18 {
			fl = 4e18
		}
		if fl < -4e18 {
			fl = -4e18
		}
		if z, ok := new(big.Int).SetString(string(x), 10); ok { // an integer literal: its exact value, whatever its size
			return fmt.Sprintf("(JNum %s (%s)%%Z)", optZ(err == nil, i), z.String())
		}
		return fmt.Sprintf("(JNum %s %s)", optZ(err == nil, i), zc(int64(fl)))
	case string:
		return "(JStr " + bs(x) + ")"
	case []any:
		return "JArr"
	case map[string]any:
		return "JObj"
	}
	return "JObj"
}

func claimsCoq(m map[string]any) string {
	keys := make([]string, 0, len(m))
	for k := range m {
		keys = append(keys, k)
	}
	sort.Strings(keys)
	items := make([]string, len(keys))
	for i, k := range keys {
		items[i] = "(" + bs(k) + ", " + jvalCoq(m[k]) + ")"
	}
	return kit.List(items)
}

// ---- our own view of a token string ----

type tview struct {
	split    bool
	hdr      string // HBadB64 | HBadJSON | HObj
	alg      string
	algIsStr bool
	cl       string // CBadB64 | CBadJSON | CObj
	claims   map[string]any
	claimsB  []byte
	sigB64   bool
	sig      []byte
	macKey   []byte // HMAC key block the signature was made under, nil: none of the run's secrets
	sigCanon bool
	iatOK    bool
	iat      int64
	plOK     bool
	plDigest uint32
	segs     []string
}

func hmacHash(alg string) func() hash.Hash {
	switch alg {
	case "HS256":
		return sha256.New
	case "HS384":
		return sha512.New384
	case "HS512":
		return sha512.New
	}
	return nil
}

func decodeClaims(b []byte) (map[string]any, error) {
	var m map[string]any
	dec := json.NewDecoder(bytes.NewReader(b))
	dec.UseNumber()
	err := dec.Decode(&m)
	if err != nil {
		return nil, err
	}
	return m, nil
}

// digest of the JSON image of a payload without the keys the signer reserves for itself (none of the
// shipped payload types has one: checkReservedNames)
func payloadDigest(p any) uint32 {
	b, err := json.Marshal(p)
	if err != nil {
		return 0
	}
	if m, err := decodeClaims(b); err == nil && m != nil {
		drop := false
		for k := range m {
			if isReserved(k) {
				delete(m, k)
				drop = true
			}
		}
		if drop {
			b, _ = json.Marshal(m)
		}
	}
	return crc32.ChecksumIEEE(b)
}

func viewOf(tok string, ptype string) (*tview, error) {
	v := &tview{hdr: "HBadB64", cl: "CBadB64"}
	if strings.Count(tok, ".") != 2 {
		return v, nil
	}
	v.split = true
	v.segs = strings.Split(tok, ".")
	if hb, err := base64.RawURLEncoding.DecodeString(v.segs[0]); err == nil {
		var h map[string]any
		if json.Unmarshal(hb, &h) != nil {
			v.hdr = "HBadJSON"
		} else {
			v.hdr = "HObj"
			v.alg, v.algIsStr = h["alg"].(string)
		}
	}
	if cb, err := base64.RawURLEncoding.DecodeString(v.segs[1]); err == nil {
		v.claimsB = cb
		if m, err := decodeClaims(cb); err != nil {
			v.cl = "CBadJSON"
		} else {
			v.cl = "CObj"
			v.claims = m
			if m == nil {
				v.claims = map[string]any{}
			}
			if s, ok := m["IssuedAt"].(string); ok {
				if t, err := time.Parse(time.RFC3339Nano, s); err == nil {
					v.iatOK, v.iat = true, t.UnixNano()
				}
			}
			p := newPayload(ptype)
			dec := json.NewDecoder(bytes.NewReader(cb))
			dec.UseNumber()
			if dec.Decode(p) == nil {
				v.plOK, v.plDigest = true, payloadDigest(p)
			}
		}
	}
	if sb, err := base64.RawURLEncoding.DecodeString(v.segs[2]); err == nil {
		v.sigB64, v.sig = true, sb
		v.sigCanon = base64.RawURLEncoding.EncodeToString(sb) == v.segs[2]
		if v.algIsStr {
			k, err := macKey(v.alg, v.segs[0]+"."+v.segs[1], sb)
			if err != nil {
				return nil, err
			}
			v.macKey = k
		}
	}
	return v, nil
}

func optBlock(b []byte) string {
	if b == nil {
		return "None"
	}
	return "(Some " + kit.Bytes(b) + ")"
}

// the method whose key preprocessing applies to a token: the header's if it is an HMAC one
func (v *tview) keyAlg() string {
	if v.algIsStr && hmacHash(v.alg) != nil {
		return v.alg
	}
	return "HS256"
}

func (v *tview) coq() string {
	if !v.split {
		return "VNoSplit"
	}
	h := v.hdr
	if h == "HObj" {
		h = "(HObj " + optBytes(v.algIsStr, v.alg) + ")"
	}
	c := v.cl
	if c == "CObj" {
		c = "(CObj " + claimsCoq(v.claims) + ")"
	}
	return fmt.Sprintf("(VTok (mkTok %s %s %s %s %s %s %s))", h, c, kit.Bool(v.sigB64), optBlock(v.macKey), kit.Bool(v.sigCanon),
		optZ(v.iatOK, v.iat), kit.OptN(v.plOK, uint64(v.plDigest)))
}

// panics iff the unchecked assertions of ValidateToken/buildGenericPayload would (F13)
func (v *tview) lacksAssertedClaim() bool {
	if !v.split || v.hdr != "HObj" {
		return false
	}
	_, audStr := v.claims["aud"].(string)
	_, durNum := v.claims["Duration"].(json.Number)
	return !audStr || !durNum
}

// ---- observation of one validation call ----

type obs struct {
	code   string // ok | err | panic
	kind   string // error kind (Coq constructor)
	errTxt string
	app    string
	dur    int64
	iatOK  bool
	iat    int64
	digest uint32
	pl     any
}

func errKind(err error) string {
	switch {
	case errors.Is(err, payloads.ErrTokenIssuedForAnotherApp):
		return "EOtherApp"
	case errors.Is(err, itokens.ErrTokenExpired):
		return "EExpired"
	case errors.Is(err, itokens.ErrInvalidAudience):
		return "EAudience"
	case errors.Is(err, itokens.ErrInvalidPayload):
		return "EPayload"
	case errors.Is(err, itokens.ErrInvalidToken):
		return "EInvalidToken"
	case errors.Is(err, jwt.ErrTokenMalformed):
		return "EMalformed"
	case errors.Is(err, jwt.ErrTokenSignatureInvalid):
		return "ESignature"
	case errors.Is(err, jwt.ErrTokenInvalidClaims):
		return "EClaims"
	}
	var se *json.SyntaxError
	var te *json.UnmarshalTypeError
	if errors.As(err, &se) || errors.As(err, &te) || strings.HasPrefix(err.Error(), "json:") || strings.Contains(err.Error(), "unmarshal") ||
		strings.Contains(err.Error(), "convert") || strings.Contains(err.Error(), "parsing") || strings.Contains(err.Error(), "invalid") {
		return "EDecode"
	}
	return "EDecode"
}

func observe(validate func(p any) (istructs.GenericPayload, error), ptype string) (o obs) {
	defer func() {
		if r := recover(); r != nil {
			o = obs{code: "panic", errTxt: fmt.Sprint(r)}
		}
	}()
	p := newPayload(ptype)
	gp, err := validate(p)
	if err != nil {
		return obs{code: "err", kind: errKind(err), errTxt: err.Error()}
	}
	o = obs{code: "ok", app: gp.AppQName.String(), dur: int64(gp.Duration), digest: payloadDigest(p), pl: p}
	if !gp.IssuedAt.IsZero() {
		o.iatOK, o.iat = true, gp.IssuedAt.UnixNano()
	}
	return o
}

func (o obs) coq() string {
	switch o.code {
	case "panic":
		return "OPanic"
	case "err":
		return "(OErr " + o.kind + ")"
	}
	return fmt.Sprintf("(OOk (mkGp %s %s %s) %d)", bs(o.app), zc(o.dur), optZ(o.iatOK, o.iat), o.digest)
}

func (o obs) tag() string {
	if o.code == "err" {
		return "err:" + o.kind
	}
	return o.code
}

func (o obs) desc() map[string]any {
	m := map[string]any{"result": o.code}
	if o.code == "err" {
		m["kind"], m["error"] = o.kind, o.errTxt
	}
	if o.code == "panic" {
		m["panic"] = o.errTxt
	}
	if o.code == "ok" {
		m["gp_app"], m["gp_dur"], m["gp_issued_at_ns"], m["payload"] = o.app, o.dur, o.iat, o.pl
	}
	return m
}

// ---- token construction ----

func b64(b []byte) string { return base64.RawURLEncoding.EncodeToString(b) }

func signSegs(h, c string, alg string, key []byte) string {
	hf := hmacHash(alg)
	if hf == nil {
		hf = sha256.New
	}
	m := hmac.New(hf, key)
	m.Write([]byte(h + "." + c))
	return b64(m.Sum(nil))
}

func headerAlg(hdr string) string {
	var h map[string]any
	if json.Unmarshal([]byte(hdr), &h) == nil {
		if s, ok := h["alg"].(string); ok {
			return s
		}
	}
	return ""
}

// "k<i>": HMAC (by the header's method, HS256 if that is not an HMAC one) under secret i
func signKey(mode string) (int, bool) {
	if len(mode) < 2 || mode[0] != 'k' {
		return 0, false
	}
	k, err := strconv.Atoi(mode[1:])
	return k, err == nil && k >= 0 && k <= 19
}

func buildForged(f *forgeSpec) string {
	h := b64([]byte(f.Header))
	if f.HeaderSeg != nil {
		h = *f.HeaderSeg
	}
	c := b64([]byte(f.Claims))
	if f.ClaimsSeg != nil {
		c = *f.ClaimsSeg
	}
	var s string
	switch f.Sign {
	case "empty":
		s = ""
	case "garbage":
		s = b64([]byte("0123456789abcdef0123456789abcdef"))
	case "badb64":
		s = "!!*"
	default:
		k, ok := signKey(f.Sign)
		if !ok {
			panic("unknown sign mode " + f.Sign)
		}
		s = signSegs(h, c, headerAlg(f.Header), secret(k))
	}
	return h + "." + c + "." + s
}

// what unicode.IsSpace (strings.TrimSpace) takes for white space, and a two-character run
var whitespace = []string{" ", "\t", "\r", "\n", "\v", "\f", "\u0085", "\u00a0", "\u2028", "\u2029", "\u3000", " \r\n"}

const b64alphabet = "ABCDEFGHIJKLMNOPQRSTUVWXYZabcdefghijklmnopqrstuvwxyz0123456789-_"

func mutate(tok string, m *mutSpec) string {
	b := []byte(tok)
	segs := strings.Split(tok, ".")
	clampPos := func() int {
		if len(b) == 0 {
			return 0
		}
		return ((m.Pos % len(b)) + len(b)) % len(b)
	}
	switch m.Op {
	case "truncate":
		return string(b[:clampPos()])
	case "flipbit":
		p := clampPos()
		b[p] ^= 1 << (uint(m.Arg) % 8)
		return string(b)
	case "delete":
		p := clampPos()
		return string(append(b[:p:p], b[p+1:]...))
	case "insert":
		p := clampPos()
		return string(b[:p]) + string(rune(b64alphabet[m.Arg%64])) + string(b[p:])
	case "replace":
		p := clampPos()
		b[p] = b64alphabet[m.Arg%64]
		return string(b)
	case "swapseg":
		if len(segs) == 3 {
			i, j := m.Pos%3, m.Arg%3
			segs[i], segs[j] = segs[j], segs[i]
			return strings.Join(segs, ".")
		}
	case "dropsig":
		if len(segs) == 3 {
			return segs[0] + "." + segs[1] + "."
		}
	case "dropdot":
		if len(segs) == 3 {
			return segs[0] + "." + segs[1]
		}
	case "appendseg":
		return tok + ".AAAA"
	case "resign": // HS256 signature with secret Arg over the unchanged header and claims
		if len(segs) == 3 {
			return segs[0] + "." + segs[1] + "." + signSegs(segs[0], segs[1], "HS256", secret(m.Arg))
		}
	case "sigtrailbits": // other base64 character with the same significant bits in the last signature character
		if len(segs) == 3 && len(segs[2]) > 0 {
			s := []byte(segs[2])
			i := strings.IndexByte(b64alphabet, s[len(s)-1])
			if i >= 0 {
				s[len(s)-1] = b64alphabet[i^(1+m.Arg%3)]
			}
			return segs[0] + "." + segs[1] + "." + string(s)
		}
	case "signewline":
		if len(segs) == 3 {
			p := 0
			if len(segs[2]) > 0 {
				p = m.Pos % (len(segs[2]) + 1)
			}
			return segs[0] + "." + segs[1] + "." + segs[2][:p] + []string{"\n", "\r", "\r\n"}[m.Arg%3] + segs[2][p:]
		}
	case "hdrnewline":
		if len(segs) == 3 {
			return segs[0] + "\n." + segs[1] + "." + segs[2]
		}
	case "algnone":
		if len(segs) == 3 {
			return b64([]byte(`{"alg":"none","typ":"JWT"}`)) + "." + segs[1] + "."
		}
	case "padends": // Pos: 0 in front, 1 behind, 2 both; Arg: which whitespace character
		w := whitespace[m.Arg%len(whitespace)]
		switch m.Pos % 3 {
		case 0:
			return w + tok
		case 1:
			return tok + w
		}
		return w + tok + w
	case "pad":
		return tok + "="
	}
	return tok
}

// ---- running one case ----

var authenticator = iauthnzimpl.NewDefaultAuthenticator(iauthnzimpl.TestSubjectRolesGetter, iauthnzimpl.TestIsDeviceAllowedFuncs)

func runKeys(cs *caseSpec) (coq string, tags []string, key string, nontrivial bool, err error) {
	ks := cs.Keys
	data, err := hex.DecodeString(ks.DataHex)
	if err != nil {
		return "", nil, "", false, err
	}
	clock := kit.NewClock()
	construct := func(i int) (t itokens.ITokens, note string) {
		defer func() {
			if r := recover(); r != nil {
				t, note = nil, fmt.Sprint(r)
			}
		}()
		return itokensjwt.ProvideITokens(secret(i), clock), "constructed"
	}
	ta, na := construct(ks.A)
	tb, nb := construct(ks.B)
	hashEq := "None"
	cs.Obs = map[string]any{"a_len": len(secret(ks.A)), "b_len": len(secret(ks.B)), "a": na, "b": nb}
	rel := keyRelation(ks.A, ks.B, "HS256")
	tags = []string{"origin:keys", rel, fmt.Sprintf("ctor:%v,%v", ta != nil, tb != nil)}
	if ta != nil && tb != nil {
		ha, hb := ta.CryptoHash256(data), tb.CryptoHash256(data)
		ha2 := ta.CryptoHash256(data)
		eq := ha == hb
		if ha != ha2 {
			return "", nil, "", false, fmt.Errorf("CryptoHash256 is not a function of (secret, data)")
		}
		hashEq = "(Some " + kit.Bool(eq) + ")"
		cs.Obs["hash_a"], cs.Obs["hash_b"], cs.Obs["hash_equal"] = hex.EncodeToString(ha[:]), hex.EncodeToString(hb[:]), eq
		tags = append(tags, fmt.Sprintf("hash-equal:%v", eq))
		if eq && rel != "keys:same" && rel != "keys:hmac-equivalent" {
			tags = append(tags, "same-hash-under-"+rel[5:])
		}
		nontrivial = rel != "keys:differ-within-64"
	}
	coq = fmt.Sprintf("TKeys (mkKeys %s %s %s %s %s %s %s)", kit.Bytes(secret(ks.A)), kit.Bytes(secret(ks.B)),
		kit.Bytes(hmacBlock("HS256", secret(ks.A))), kit.Bytes(hmacBlock("HS256", secret(ks.B))), kit.Bool(ta != nil), kit.Bool(tb != nil), hashEq)
	sort.Strings(tags)
	key = strings.Join(tags, ",") + fmt.Sprintf("|%d,%d|%d", len(secret(ks.A)), len(secret(ks.B)), len(data))
	return coq, tags, key, nontrivial, nil
}

func run(cs *caseSpec) (coq string, tags []string, key string, nontrivial bool, err error) {
	if cs.Keys != nil {
		return runKeys(cs)
	}
	clock := kit.NewClock()
	tagset := map[string]bool{}
	var tok, issued string
	var origin string
	resignedBy := -1
	valKey := secret(cs.Val.Key)
	switch {
	case cs.Issue != nil:
		is := cs.Issue
		clock.Advance(time.Duration(is.T0))
		signer := itokensjwt.ProvideITokens(secret(is.Key), clock)
		pl := makePayload(is.PType, is.PVar)
		issued, err = signer.IssueToken(parseApp(is.App), time.Duration(is.Dur), pl)
		if err != nil {
			return "", nil, "", false, fmt.Errorf("IssueToken: %w", err)
		}
		tok = issued
		if cs.Mut != nil {
			tok = mutate(issued, cs.Mut)
			tagset["mut:"+cs.Mut.Op] = true
		}
		t0abs := kit.Epoch.Add(time.Duration(is.T0)).UnixNano()
		origin = fmt.Sprintf("(OIssued %s %s %s %s %s %s %d %s)", "@@ISSUERKEY@@", kit.Bool(tok == issued),
			bs(is.App), bs(audOf(is.PType)), zc(t0abs), zc(is.Dur), payloadDigest(pl), issuedInts(pl))
		if hasIntAbove2p53(pl) {
			tagset["payload:int>2^53"] = true
		}
		tagset["origin:issued"] = true
		if tok != issued {
			tagset["origin:issued-mutated"] = true
		}
		if cs.Mut != nil && cs.Mut.Op == "resign" {
			resignedBy = cs.Mut.Arg // the harness signed the issued header and claims itself
		}
		clock.Advance(time.Duration(cs.Val.Now - is.T0))
	case cs.Forge != nil:
		tok = buildForged(cs.Forge)
		clock.Advance(time.Duration(cs.Val.Now))
		tagset["origin:forged"] = true
		tagset["sign:"+cs.Forge.Sign] = true
	default:
		raw := ""
		if cs.RawHex != nil {
			b, herr := hex.DecodeString(*cs.RawHex)
			if herr != nil {
				return "", nil, "", false, herr
			}
			raw = string(b)
		}
		tok = raw
		origin = "ORaw"
		clock.Advance(time.Duration(cs.Val.Now))
		tagset["origin:raw"] = true
	}
	cs.Token = hex.EncodeToString([]byte(tok))
	v, err := viewOf(tok, cs.Val.PType)
	if err != nil {
		return "", nil, "", false, err
	}
	signedBy := -1
	if cs.Forge != nil || resignedBy >= 0 {
		// what the harness itself signed: the claims it wrote, under which secret, with a real HMAC or not
		signedBy = resignedBy
		if cs.Forge != nil {
			if k, ok := signKey(cs.Forge.Sign); ok && hmacHash(headerAlg(cs.Forge.Header)) != nil {
				signedBy = k
			}
		}
		var aud, app string
		var audOK, appOK, expOK bool
		var exp int64
		if v.claims != nil {
			aud, audOK = v.claims["aud"].(string)
			app, appOK = v.claims["AppQName"].(string)
			if n, ok := v.claims["exp"].(json.Number); ok {
				f, _ := strconv.ParseFloat(string(n), 64)
				exp, expOK = int64(math.Floor(f)), true
			}
		}
		var sblk []byte
		if signedBy >= 0 {
			sblk = hmacBlock(v.keyAlg(), secret(signedBy))
		}
		origin = fmt.Sprintf("(OSigned %s %s %s %s)", optBlock(sblk), optBytes(audOK, aud), optBytes(appOK, app), optZ(expOK, exp))
	}
	if cs.Issue != nil {
		origin = strings.Replace(origin, "@@ISSUERKEY@@", kit.Bytes(hmacBlock(v.keyAlg(), secret(cs.Issue.Key))), 1)
	}

	nowAbs := clock.Now().UnixNano()
	callerBuf := append([]byte{}, valKey...)
	tokens := itokensjwt.ProvideITokens(callerBuf, clock)
	if cs.Val.Wipe {
		for i := range callerBuf {
			callerBuf[i] = 0
		}
		tagset["caller-wiped-its-secret-buffer"] = true
	}
	appTokens := payloads.ProvideIAppTokensFactory(tokens).New(parseApp(cs.Val.App))
	o1 := observe(func(p any) (istructs.GenericPayload, error) { return tokens.ValidateToken(tok, p) }, cs.Val.PType)
	o2 := observe(func(p any) (istructs.GenericPayload, error) { return appTokens.ValidateToken(tok, p) }, cs.Val.PType)
	auth := "None"
	authDesc := "skipped"
	if cs.Val.PType == "principal" {
		// Authenticate reaches IAppStructs only for accepted non-API tokens with a profile workspace; those are skipped
		safe := o2.code != "ok"
		if pp, ok := o2.pl.(*payloads.PrincipalPayload); ok && o2.code == "ok" {
			safe = pp.IsAPIToken || (pp.ProfileWSID == istructs.NullWSID && (pp.SubjectKind == istructs.SubjectKind_User || pp.SubjectKind == istructs.SubjectKind_Device))
		}
		if safe {
			code := 0
			func() {
				defer func() {
					if r := recover(); r != nil {
						code = 2
						authDesc = "panic: " + fmt.Sprint(r)
					}
				}()
				prns, _, aerr := authenticator.Authenticate(context.Background(), nil, appTokens, iauthnz.AuthnRequest{Host: "h", RequestWSID: 1, Token: tok})
				if aerr != nil {
					code = 1
					authDesc = "error: " + aerr.Error()
				} else {
					authDesc = "accepted with the principals of a token"
					for _, p := range prns {
						if p.Kind == iauthnz.PrincipalKind_User && p.WSID == istructs.GuestWSID && p.Name == istructs.SysGuestLogin {
							code = 3 // no token: the guest principals
							authDesc = "accepted as sys.Guest"
						}
					}
				}
			}()
			auth = fmt.Sprintf("(Some %d)", code)
			tagset[fmt.Sprintf("auth:%d", code)] = true
		}
	}
	cs.Obs = map[string]any{"itokens": o1.desc(), "iapptokens": o2.desc(), "authenticate": authDesc}

	coq = fmt.Sprintf("TVal (mkTrace %s %s %s %s %s %s %s %s %s %s %s)", kit.Bytes(hmacBlock(v.keyAlg(), valKey)), kit.Bytes(hmacBlock(v.keyAlg(), callerBuf)), kit.Bool(tok == ""), zc(nowAbs), bs(audOf(cs.Val.PType)), bs(cs.Val.App), v.coq(), origin, o1.coq(), o2.coq(), auth)

	tagset["tok:"+o1.tag()] = true
	tagset["apptok:"+o2.tag()] = true
	tagset["ptype:"+cs.Val.PType] = true
	tagset[fmt.Sprintf("keylen:%d", len(valKey))] = true
	signer := signedBy
	if cs.Issue != nil && resignedBy < 0 {
		signer = cs.Issue.Key
	}
	if signer >= 0 {
		rel := keyRelation(signer, cs.Val.Key, v.keyAlg())
		tagset[rel] = true
		if rel != "keys:same" && rel != "keys:hmac-equivalent" && (o1.code == "ok" || o2.code == "ok") {
			if cs.Val.Wipe && bytes.Equal(secret(signer), callerBuf) {
				tagset["C14-ALIAS:signed-under-the-callers-overwritten-buffer-accepted"] = true
			} else {
				tagset["accepted-under-"+rel[5:]] = true
			}
		}
		cs.Obs["issuer_secret_len"] = len(secret(signer))
	}
	cs.Obs["validator_secret_len"] = len(valKey)
	if cs.Issue != nil && tok == issued && hasIntAbove2p53(makePayload(cs.Issue.PType, cs.Issue.PVar)) {
		want := payloadDigest(makePayload(cs.Issue.PType, cs.Issue.PVar))
		if (o1.code == "ok" && o1.digest != want) || (o2.code == "ok" && o2.digest != want) {
			tagset["C14-INT53:issued-integer-above-2^53-came-back-changed"] = true
		}
		if cs.Issue.PType == cs.Val.PType && (o1.kind == "EDecode" || o2.kind == "EDecode") {
			tagset["issued-integer-above-2^53:token-not-decodable"] = true
		}
	}
	if cs.Val.PType == "principal" && tok != "" && strings.TrimSpace(tok) == "" {
		tagset["token:whitespace-only"] = true
	}
	if tok == "" {
		tagset["token:empty"] = true
	}
	if (strings.HasPrefix(auth, "(Some 0") && o2.code != "ok") || (strings.HasPrefix(auth, "(Some 3") && tok != "") {
		tagset["authenticated-although-the-validator-refuses"] = true
	}
	anyPanic := o1.code == "panic" || o2.code == "panic" || strings.HasPrefix(authDesc, "panic")
	if anyPanic {
		if v.lacksAssertedClaim() {
			tagset["F13:panic-on-unchecked-claim-assertion"] = true
		} else {
			tagset["panic:other"] = true
		}
	}
	if cs.Issue != nil && tok != issued && resignedBy < 0 && (o1.code == "ok" || o2.code == "ok") {
		iv, _ := viewOf(issued, cs.Val.PType)
		if iv != nil && iv.split && v.split && iv.segs[0] == v.segs[0] && iv.segs[1] == v.segs[1] && bytes.Equal(iv.sig, v.sig) {
			tagset["C14-SIGENC:other-encoding-of-the-signature-accepted"] = true
		} else {
			tagset["mutated-accepted:other"] = true
		}
	}
	shape := "nosplit"
	if v.split {
		shape = v.hdr + "/" + v.cl
		if v.hdr == "HObj" {
			shape += "/alg=" + v.alg
			nontrivial = true
		}
		shape += fmt.Sprintf("/sig=%v,%v,%v", v.sigB64, v.macKey != nil && bytes.Equal(v.macKey, hmacBlock(v.keyAlg(), valKey)), v.sigCanon)
	}
	for t := range tagset {
		tags = append(tags, t)
	}
	sort.Strings(tags)
	key = strings.Join(tags, ",") + "|" + shape + "|" + claimShape(v)
	return coq, tags, key, nontrivial, nil
}

// which of the claims the validator reads are present with which JSON type
func claimShape(v *tview) string {
	if v.claims == nil {
		return ""
	}
	var sb strings.Builder
	for _, k := range []string{"aud", "exp", "nbf", "Duration", "AppQName", "IssuedAt"} {
		x, ok := v.claims[k]
		if !ok {
			sb.WriteString(k + "-;")
			continue
		}
		fmt.Fprintf(&sb, "%s:%T;", k, x)
	}
	return sb.String()
}
