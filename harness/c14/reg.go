package c14

import (
	"verifharness/kit"

	"github.com/voedger/voedger/pkg/itokensjwt"
)

func init() {
	kit.Register("C14", kit.Runner{
		Generate: func(seed uint64, n int, tier, corpus string, shard int, out *kit.Out) error {
			return Generate(seed, n, tier, corpus, out)
		},
		Replay: Replay,
	})
}

// issueOnly returns the token IssueToken produces for the spec (used by the generator to place mutations)
func issueOnly(is *issueSpec) (string, error) {
	clock := kit.NewClock()
	clock.Advance(timeDur(is.T0))
	return itokensjwt.ProvideITokens(secret(is.Key), clock).IssueToken(parseApp(is.App), timeDur(is.Dur), makePayload(is.PType, is.PVar))
}
