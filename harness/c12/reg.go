package c12

import (
	"encoding/json"
	"fmt"
	"os"
	"path/filepath"
	"sort"
	"time"

	"verifharness/kit"
)

func init() {
	kit.Register("C12", kit.Runner{Generate: generate, Replay: replay})
}

func loadScenario(path string) (*scenario, error) {
	b, err := os.ReadFile(path)
	if err != nil {
		return nil, err
	}
	// a replay file written by bin/check wraps the case: {"case": {"desc": scenario}}
	var wrapped struct {
		Case struct {
			Desc *scenario `json:"desc"`
		} `json:"case"`
	}
	if json.Unmarshal(b, &wrapped) == nil && wrapped.Case.Desc != nil {
		return wrapped.Case.Desc, nil
	}
	sc := &scenario{}
	if err := json.Unmarshal(b, sc); err != nil {
		return nil, fmt.Errorf("%s: %w", path, err)
	}
	return sc, nil
}

func replay(path string, out *kit.Out) error {
	sc, err := loadScenario(path)
	if err != nil {
		return err
	}
	sc.Observed = nil
	c, err := runScenario(sc, nil, nil)
	if err != nil {
		return err
	}
	out.Emit(c)
	return nil
}

func generate(seed uint64, n int, tier, corpusDir string, shard int, out *kit.Out) error {
	stuck := 0
	if corpusDir != "" {
		files, _ := filepath.Glob(filepath.Join(corpusDir, "*.json"))
		sort.Strings(files)
		for _, f := range files {
			sc, err := loadScenario(f)
			if err != nil {
				return err
			}
			c, err := runScenario(sc, nil, nil)
			if err != nil {
				return fmt.Errorf("%s: %w", f, err)
			}
			c.Tags = append(c.Tags, "corpus:"+filepath.Base(f))
			for _, t := range c.Tags {
				if t == "stuck" {
					stuck++
				}
			}
			out.Emit(c)
		}
	}
	rng := kit.NewRng(seed + uint64(shard)*1000003)
	// a tree on which the instances get stuck must not cost minutes: each stuck scenario is
	// abandoned after a few seconds and reported as a rejected case; after a handful the run stops
	start := time.Now()
	budget := 150 * time.Second
	if tier != "quick" {
		budget = 40 * time.Minute
	}
	for i := 0; i < n && stuck < 4 && time.Since(start) < budget; i++ {
		r := rng.Fork()
		p := pickProfile(r)
		sc := &scenario{Backend: "mem", NP: p.np, Keys: p.keys}
		if r.Chance(1, 4) {
			sc.Backend = "bbolt"
		}
		c, err := runScenario(sc, &p, r)
		if err != nil {
			return err
		}
		c.Tags = append(c.Tags, "profile:"+p.name)
		for _, t := range c.Tags {
			if t == "stuck" {
				stuck++
			}
		}
		out.Emit(c)
	}
	return nil
}
