// Package c12: harness of property C12 (registers itself with kit.Register in an init function).
package c12
