package c12

import (
	"context"
	"fmt"
	"sort"
	"strconv"
	"strings"
	"time"

	"verifharness/kit"
)

// choice is one stimulus of the harness; a scenario is a list of them and replays exactly
type choice struct {
	C  string `json:"c"`              // acq | rel | cln | eff | ret | adv | advx (advance while storage calls are held) | ext
	P  int    `json:"p,omitempty"`    // participant (acq rel cln)
	K  uint32 `json:"k,omitempty"`    // key (acq rel ext)
	V  int    `json:"v,omitempty"`    // value (acq)
	D  int    `json:"d,omitempty"`    // leadership duration, seconds (acq)
	T  string `json:"t,omitempty"`    // thread: a<participant> | g<context> (eff ret)
	O  string `json:"o,omitempty"`    // outcome of the storage call: ok | errb | erra | false (eff)
	Ns int64  `json:"ns,omitempty"`   // clock advance, clipped to the next armed timer; 0 = to the next timer (adv, advx)
	Ov bool   `json:"over,omitempty"` // advx: do not clip: the clock overtakes due timers, which are then delivered late
}

type scenario struct {
	Backend string   `json:"backend"`
	NP      int      `json:"np"`
	Keys    []uint32 `json:"keys"`
	Script  []choice `json:"script"`
	// filled by the run
	Observed []string `json:"observed,omitempty"`
}

type liM struct {
	id, p int
	k     uint32
	v     string
	d     int
	ctx   context.Context
	gid   int64
	ph    string // wait cas casret retry cad cadret gone
	res   string
	last  int64 // observed: last successful insert / renewal
	cadOk bool  // observed: a CompareAndDelete issued for it returned true
	dl    int64 // retry deadline of the current renewal round (the timer armed last before the CompareAndSwap)
}

type apiM struct {
	ph string // idle ins insret relcad relcadret relwait clncad clncadret clnwait
	k  uint32
	v  string
	d  int
	j  int
}

type exec struct {
	r       *rig
	sc      *scenario
	lis     []*liM
	api     []*apiM
	seenG   map[int64]bool
	cur     []string // events of the current batch
	batches []string
	human   []string
	tags    map[string]bool
	gs      map[int64][2]string
	err     error
	nacts   int
	reacq   bool
	held    []map[uint32]bool // keys possibly in each participant's leadership map
	prev    map[uint32]string // storage view after the previous batch
	vals    map[int]map[string]bool
	extKeys map[uint32]bool
	slow    bool // the clock was advanced while a storage call was held (finding U3)
	unexpl  bool // a violation was observed that neither known finding explains
}

func vnum(v string) uint64 { n, _ := strconv.ParseUint(v, 10, 64); return n }

// sync.Map.Range visits keys in a random order: cleanup is only started while the participant
// holds at most one key, so that a scenario replays to the same trace
func (e *exec) heldKeys(p int) []uint32 {
	var ks []uint32
	for k := range e.held[p] {
		ks = append(ks, k)
	}
	sort.Slice(ks, func(i, j int) bool { return ks[i] < ks[j] })
	return ks
}

func gateTerm(pc *pcall) string {
	g := map[string]string{"ins": "GIns", "cas": "GCas", "cad": "GCad"}[pc.op]
	return fmt.Sprintf("OGate %s %d %d %s", g, pc.key, vnum(pc.val), kit.Z(int64(pc.ttl)))
}

func resTerm(res string) string {
	return map[string]string{"true": "ORes RTrue", "false": "ORes RFalse", "err": "ORes RErr"}[res]
}

func outcomeTerm(o string) string {
	return map[string]string{"ok": "ONormal", "errb": "OErrBefore", "erra": "OErrAfter", "false": "OForceFalse"}[o]
}

func (e *exec) emitGate(act string, pc *pcall) {
	if pc.op == "cad" {
		delete(e.held[pc.part], pc.key)
	}
	e.emit(act, gateTerm(pc))
}

func (e *exec) emit(act, out string) {
	e.cur = append(e.cur, fmt.Sprintf("(%s, %s)", act, out))
	e.human = append(e.human, act+" -> "+out)
	e.nacts++
	e.tags["act:"+strings.Fields(act)[0]] = true
}

func (e *exec) alive(gid int64) bool { _, ok := e.gs[gid]; return ok }

// thread lookup: "a<p>" or "g<i>"
func (e *exec) threadGid(t string) (int64, bool) {
	if len(t) < 2 {
		return 0, false
	}
	n, err := strconv.Atoi(t[1:])
	if err != nil || n < 0 {
		return 0, false
	}
	switch t[0] {
	case 'a':
		if n < len(e.r.parts) {
			return e.r.parts[n].gid, true
		}
	case 'g':
		if n < len(e.lis) && e.lis[n].gid != 0 {
			return e.lis[n].gid, true
		}
	}
	return 0, false
}

func (e *exec) liByGid(gid int64) *liM {
	for _, l := range e.lis {
		if l.gid == gid {
			return l
		}
	}
	return nil
}

// reconcile names what the threads did since the last stimulus, from where they are now
func (e *exec) reconcile() {
	for changed := true; changed; {
		changed = false
		// goroutines woken at the same instant ran concurrently: the one that found the map entry
		// (now at a gate) is linearised before the one that found nothing (returned)
		for pass := 0; pass < 3; pass++ {
			for _, l := range e.lis {
				k := 2 // returned or parked
				if pc := e.r.pend(l.gid); pc != nil && pc.op == "cas" {
					k = 0 // was live when it looked: before any release that may have cancelled it
				} else if pc != nil {
					k = 1
				}
				if k != pass {
					continue
				}
				for e.reconcileLi(l) {
					changed = true
				}
			}
		}
		for p := range e.api {
			for e.reconcileAPI(p) {
				changed = true
			}
		}
	}
}

func (e *exec) reconcileLi(l *liM) bool {
	pc := e.r.pend(l.gid)
	alive := e.alive(l.gid)
	switch l.ph {
	case "wait":
		if pc != nil && pc.op == "cas" {
			e.emitGate(fmt.Sprintf("Tick %d", l.id), pc)
			l.ph, l.dl = "cas", e.r.armed(l.gid)
			return true
		}
		if !alive {
			e.emit(fmt.Sprintf("Exit %d", l.id), "ONone")
			l.ph = "gone"
			return true
		}
	case "retry":
		if pc != nil && pc.op == "cas" {
			e.emitGate(fmt.Sprintf("Retry %d", l.id), pc)
			l.ph = "cas"
			return true
		}
		if pc != nil && pc.op == "cad" {
			e.emitGate(fmt.Sprintf("Deadline %d", l.id), pc)
			l.ph = "cad"
			return true
		}
		if !alive {
			// left the retry select and returned: through the deadline (release found nothing in
			// the map) when that is due, else through ctx.Done
			if e.r.nowNs() >= l.dl {
				e.emit(fmt.Sprintf("Deadline %d", l.id), "ONone")
			} else {
				e.emit(fmt.Sprintf("Exit %d", l.id), "ONone")
			}
			l.ph = "gone"
			return true
		}
	case "casreleased":
		switch {
		case l.res == "true":
			// back on the ticker (which may already be due) or, when cancelled, returned
			e.emit(fmt.Sprintf("CasRet %d", l.id), "ONone")
			if alive || pc != nil {
				l.ph = "wait"
			} else {
				l.ph = "gone"
			}
		case l.res == "err":
			// on the retry select; leaving it (ctx.Done, deadline, retry timer) is a separate action
			e.emit(fmt.Sprintf("CasRet %d", l.id), "ONone")
			l.ph = "retry"
		case pc != nil:
			e.emitGate(fmt.Sprintf("CasRet %d", l.id), pc)
			l.ph = "cad"
		default:
			e.emit(fmt.Sprintf("CasRet %d", l.id), "ONone")
			if alive {
				l.ph = "stuck"
			} else {
				l.ph = "gone"
			}
		}
		return true
	case "cadreleased":
		e.emit(fmt.Sprintf("GCadRet %d", l.id), "ONone")
		if alive {
			l.ph = "stuck"
			e.tags["goroutine-alive-after-release"] = true
		} else {
			l.ph = "gone"
		}
		return true
	}
	return false
}

func (e *exec) reconcileAPI(p int) bool {
	a := e.api[p]
	part := e.r.parts[p]
	pc := e.r.pend(part.gid)
	switch a.ph {
	case "relwait":
		if ret := part.takeRet(); ret != nil {
			e.emit(fmt.Sprintf("WaitDone %d", p), "ORetNil")
			a.ph = "idle"
			return true
		}
	case "clnwait":
		if pc != nil && pc.op == "cad" {
			e.emit(fmt.Sprintf("WaitDone %d", p), "ONone")
			e.emitGate(fmt.Sprintf("ClnPick %d (Some %d)", p, pc.key), pc)
			a.ph, a.k, a.v = "clncad", pc.key, pc.val
			return true
		}
		if ret := part.takeRet(); ret != nil {
			e.emit(fmt.Sprintf("WaitDone %d", p), "ONone")
			e.emit(fmt.Sprintf("ClnPick %d None", p), "ORetNil")
			a.ph = "idle"
			return true
		}
	}
	return false
}

// bindNew finds the maintainLeadership goroutine of a context that was just handed out
func (e *exec) bindNew(l *liM) {
	var ids []int64
	for id, s := range e.gs {
		if !e.seenG[id] && strings.Contains(s[1], "maintainLeadership") {
			ids = append(ids, id)
		}
	}
	sort.Slice(ids, func(i, j int) bool { return ids[i] < ids[j] })
	if len(ids) > 0 {
		l.gid = ids[len(ids)-1]
	}
	for _, id := range ids {
		e.seenG[id] = true
	}
}

func (e *exec) settle() bool {
	gs, err := e.r.settle()
	e.gs = gs
	if err != nil && e.err == nil {
		e.err = err
		e.tags["not-quiescent"] = true
		e.tags["stuck"] = true
		return false
	}
	return err == nil
}

func (e *exec) anyPending() bool {
	e.r.mu.Lock()
	defer e.r.mu.Unlock()
	return len(e.r.pending) > 0
}

func (e *exec) allIdle() bool {
	for _, a := range e.api {
		if a.ph != "idle" {
			return false
		}
	}
	return !e.anyPending()
}

// enabled reports whether the choice can be applied in the current state
func (e *exec) enabled(c choice) bool {
	switch c.C {
	case "acq", "rel":
		return c.P >= 0 && c.P < len(e.api) && e.api[c.P].ph == "idle"
	case "cln":
		return c.P >= 0 && c.P < len(e.api) && e.api[c.P].ph == "idle" && len(e.held[c.P]) <= 1
	case "eff":
		gid, ok := e.threadGid(c.T)
		if !ok {
			return false
		}
		pc := e.r.pend(gid)
		return pc != nil && !pc.done
	case "ret":
		gid, ok := e.threadGid(c.T)
		if !ok {
			return false
		}
		pc := e.r.pend(gid)
		return pc != nil && pc.done
	case "adv":
		return e.allIdle() && c.Ns >= 0
	case "advx":
		return c.Ns >= 0 && (c.Ov || !e.allIdle())
	case "ext":
		return true
	}
	return false
}

// watchdog: real time the harness waits for a thread it has just stimulated
const patience = 3 * time.Second

func (e *exec) stuck(what string) {
	if e.err == nil {
		e.err = fmt.Errorf("stuck: %s; %s", what, e.r.describePending())
		e.tags["stuck"] = true
	}
}

func (e *exec) send(part *participant, c apiCmd) bool {
	select {
	case part.cmds <- c:
		return true
	case <-time.After(patience):
		e.stuck(fmt.Sprintf("API caller of participant %d does not take its next call (%s)", part.idx, c.kind))
		return false
	}
}

func (e *exec) perform(pc *pcall, o string) bool {
	select {
	case pc.enter <- o:
	case <-time.After(patience):
		e.stuck("a held storage call does not take its outcome")
		return false
	}
	select {
	case pc.res = <-pc.result:
	case <-time.After(patience):
		e.stuck("the backend does not return from " + pc.op)
		return false
	}
	pc.done = true
	return true
}

// apply executes one stimulus and records the batch it caused; false = not enabled (skipped)
func (e *exec) apply(c choice) bool {
	if e.err != nil || !e.enabled(c) {
		return false
	}
	e.cur = nil
	switch c.C {
	case "acq":
		a, part := e.api[c.P], e.r.parts[c.P]
		vs := strconv.Itoa(c.V)
		if !e.send(part, apiCmd{kind: "acq", k: c.K, v: vs, d: c.D}) {
			break
		}
		if e.vals[c.P] == nil {
			e.vals[c.P] = map[string]bool{}
		}
		e.vals[c.P][vs] = true
		if !e.settle() {
			break
		}
		act := fmt.Sprintf("AcqCall %d %d %d %s", c.P, c.K, c.V, kit.Z(int64(c.D)))
		if pc := e.r.pend(part.gid); pc != nil {
			e.emitGate(act, pc)
			a.ph, a.k, a.v, a.d = "ins", c.K, vs, c.D
		} else if ret := part.takeRet(); ret != nil {
			e.emit(act, "ORetNil")
			if ret.ctx != nil {
				e.tags["context-without-storage-call"] = true
				e.emit(fmt.Sprintf("InsRet %d", c.P), "ORetCtx 999")
			}
		}
	case "rel":
		a, part := e.api[c.P], e.r.parts[c.P]
		if !e.send(part, apiCmd{kind: "rel", k: c.K}) {
			break
		}
		if !e.settle() {
			e.emit(fmt.Sprintf("RelCall %d %d", c.P, c.K), "ONone")
			a.ph = "calling-rel"
			break
		}
		act := fmt.Sprintf("RelCall %d %d", c.P, c.K)
		if pc := e.r.pend(part.gid); pc != nil {
			e.emitGate(act, pc)
			a.ph, a.k, a.v = "relcad", pc.key, pc.val
		} else if ret := part.takeRet(); ret != nil {
			e.emit(act, "ORetNil")
		} else {
			e.emit(act, "ONone") // blocked without a storage call: not a behaviour of the model
			a.ph = "relwait"
		}
	case "cln":
		a, part := e.api[c.P], e.r.parts[c.P]
		if !e.send(part, apiCmd{kind: "cln"}) {
			break
		}
		if !e.settle() {
			e.emit(fmt.Sprintf("ClnCall %d", c.P), "ONone")
			a.ph = "calling-cln"
			break
		}
		e.emit(fmt.Sprintf("ClnCall %d", c.P), "ONone")
		if pc := e.r.pend(part.gid); pc != nil {
			e.emitGate(fmt.Sprintf("ClnPick %d (Some %d)", c.P, pc.key), pc)
			a.ph, a.k, a.v = "clncad", pc.key, pc.val
		} else if ret := part.takeRet(); ret != nil {
			e.emit(fmt.Sprintf("ClnPick %d None", c.P), "ORetNil")
		} else {
			a.ph = "clnwait"
		}
	case "eff":
		gid, _ := e.threadGid(c.T)
		pc := e.r.pend(gid)
		if !e.perform(pc, c.O) {
			break
		}
		if !e.settle() {
			break
		}
		o := outcomeTerm(c.O)
		if c.T[0] == 'a' {
			p, _ := strconv.Atoi(c.T[1:])
			a := e.api[p]
			switch a.ph {
			case "ins":
				e.emit(fmt.Sprintf("InsEff %d %s", p, o), resTerm(pc.res))
				a.ph = "insret"
			case "relcad":
				e.emit(fmt.Sprintf("ApiCadEff %d %s", p, o), resTerm(pc.res))
				a.ph = "relcadret"
				e.noteCad(p, pc)
			case "clncad":
				e.emit(fmt.Sprintf("ApiCadEff %d %s", p, o), resTerm(pc.res))
				a.ph = "clncadret"
				e.noteCad(p, pc)
			default: // a storage call the model does not have at this point: named by its kind
				e.tags["unexpected-storage-call"] = true
				if pc.op == "ins" {
					e.emit(fmt.Sprintf("InsEff %d %s", p, o), resTerm(pc.res))
				} else {
					e.emit(fmt.Sprintf("ApiCadEff %d %s", p, o), resTerm(pc.res))
				}
				a.ph = "xret"
			}
		} else {
			l := e.liByGid(gid)
			switch l.ph {
			case "cas":
				e.emit(fmt.Sprintf("CasEff %d %s", l.id, o), resTerm(pc.res))
				l.ph, l.res = "casret", pc.res
				if pc.res == "true" {
					l.last = e.r.nowNs()
				}
			case "cad":
				e.emit(fmt.Sprintf("GCadEff %d %s", l.id, o), resTerm(pc.res))
				l.ph = "cadret"
				e.noteCad(l.p, pc)
			default:
				e.tags["unexpected-storage-call"] = true
				if pc.op == "cas" {
					e.emit(fmt.Sprintf("CasEff %d %s", l.id, o), resTerm(pc.res))
					l.ph, l.res = "casret", pc.res
				} else {
					e.emit(fmt.Sprintf("GCadEff %d %s", l.id, o), resTerm(pc.res))
					l.ph = "cadret"
				}
			}
		}
		e.tags["outcome:"+c.O] = true
		e.tags["res:"+pc.op+":"+pc.res] = true
	case "ret":
		gid, _ := e.threadGid(c.T)
		pc := e.r.pend(gid)
		e.r.mu.Lock()
		delete(e.r.pending, gid)
		e.r.mu.Unlock()
		close(pc.leave)
		if !e.settle() {
			break
		}
		if c.T[0] == 'a' {
			p, _ := strconv.Atoi(c.T[1:])
			a, part := e.api[p], e.r.parts[p]
			switch a.ph {
			case "insret":
				ret := part.takeRet()
				if pc2 := e.r.pend(part.gid); ret == nil && pc2 != nil {
					e.tags["unexpected-storage-call"] = true
					e.emitGate(fmt.Sprintf("InsRet %d", p), pc2)
					a.ph = "x"
					break
				}
				switch {
				case ret != nil && ret.ctx != nil:
					l := &liM{id: len(e.lis), p: p, k: a.k, v: a.v, d: a.d, ctx: ret.ctx, ph: "wait", last: e.r.nowNs()}
					for _, o := range e.lis {
						if o.p == p && o.k == a.k && o.ctx.Err() == nil {
							e.reacq = true // acquired a key for which this participant still holds a live context
						}
					}
					e.bindNew(l)
					e.held[p][a.k] = true
					e.lis = append(e.lis, l)
					e.emit(fmt.Sprintf("InsRet %d", p), fmt.Sprintf("ORetCtx %d", l.id))
				case ret != nil:
					e.emit(fmt.Sprintf("InsRet %d", p), "ORetNil")
				default:
					e.emit(fmt.Sprintf("InsRet %d", p), "ONone")
				}
				a.ph = "idle"
			case "xret":
				// after an unexpected call: another call, the return of the API call, or blocked
				ret := part.takeRet()
				switch pc2 := e.r.pend(part.gid); {
				case pc2 != nil:
					e.emitGate(fmt.Sprintf("ApiCadRet %d", p), pc2)
					a.ph = "x"
				case ret != nil && ret.ctx != nil:
					l := &liM{id: len(e.lis), p: p, k: a.k, v: a.v, d: a.d, ctx: ret.ctx, ph: "wait", last: e.r.nowNs()}
					e.bindNew(l)
					e.held[p][a.k] = true
					e.lis = append(e.lis, l)
					e.emit(fmt.Sprintf("ApiCadRet %d", p), "ONone")
					e.emit(fmt.Sprintf("InsRet %d", p), fmt.Sprintf("ORetCtx %d", l.id))
					a.ph = "idle"
				case ret != nil:
					e.emit(fmt.Sprintf("ApiCadRet %d", p), "ONone")
					e.emit(fmt.Sprintf("InsRet %d", p), "ORetNil")
					a.ph = "idle"
				default:
					e.emit(fmt.Sprintf("ApiCadRet %d", p), "ONone")
					a.ph = "relwait"
				}
			case "relcadret":
				e.emit(fmt.Sprintf("ApiCadRet %d", p), "ONone")
				a.ph = "relwait"
			case "clncadret":
				e.emit(fmt.Sprintf("ApiCadRet %d", p), "ONone")
				a.ph = "clnwait"
			}
		} else {
			l := e.liByGid(gid)
			switch l.ph {
			case "casret":
				l.ph = "casreleased"
			case "cadret":
				l.ph = "cadreleased"
			}
		}
	case "adv":
		dt := c.Ns
		if next, ok := e.r.clock.NextTimer(); ok && (dt == 0 || int64(next) < dt) {
			dt = int64(next)
		}
		if dt <= 0 {
			return false // nothing armed and no amount asked for
		}
		e.r.clock.Advance(nsDur(dt), func() { e.settle() })
		if !e.settle() {
			break
		}
		e.emit(fmt.Sprintf("Advance %d", dt), "ONone")
	case "advx":
		dt := c.Ns
		if next, ok := e.r.clock.NextTimer(); ok && (dt == 0 || (int64(next) < dt && !c.Ov)) {
			dt = int64(next)
		}
		if dt <= 0 {
			return false
		}
		e.r.clock.Advance(nsDur(dt), func() { e.settle() })
		if !e.settle() {
			break
		}
		e.emit(fmt.Sprintf("AdvanceInCall %d", dt), "ONone")
		e.slow = true
		e.tags["U3:clock-advanced-during-storage-call"] = true
	case "ext":
		e.r.extDelete(c.K)
		e.emit(fmt.Sprintf("ExtDelete %d", c.K), "ONone")
		e.tags["ext-delete"] = true
		e.extKeys[c.K] = true
	}
	if e.err != nil {
		if len(e.cur) > 0 {
			e.closeBatch() // what was seen of the call that never came to rest
		}
		return true
	}
	e.reconcile()
	e.closeBatch()
	return true
}

// noteCad remembers (observation only) that the CompareAndDelete of a release took effect: the
// releasing goroutine's own context, or for an API call the participant's latest context of that key
func (e *exec) noteCad(p int, pc *pcall) {
	// took effect = the record was there before the call and is gone now (also when the call
	// then reported an error)
	if _, still := e.r.readKey(pc.key); still || e.prev[pc.key] != pc.val {
		return
	}
	if l := e.liByGid(pc.gid); l != nil {
		l.cadOk = true
		return
	}
	for i := len(e.lis) - 1; i >= 0; i-- {
		if l := e.lis[i]; l.p == p && l.k == pc.key && l.v == pc.val {
			l.cadOk = true
			return
		}
	}
}

func (e *exec) closeBatch() {
	now := e.r.nowNs()
	var st, live []string
	var hs []string
	for _, k := range e.sc.Keys {
		if v, ok := e.r.readKey(k); ok {
			st = append(st, fmt.Sprintf("(%d, Some %d)", k, vnum(v)))
			hs = append(hs, fmt.Sprintf("%d=%s", k, v))
		} else {
			st = append(st, fmt.Sprintf("(%d, None)", k))
		}
	}
	cur := map[uint32]string{}
	for _, k := range e.sc.Keys {
		if v, ok := e.r.readKey(k); ok {
			cur[k] = v
		}
	}
	if len(e.cur) > 0 {
		first := strings.Fields(strings.TrimPrefix(e.cur[0], "("))
		actor := -1
		switch first[0] {
		case "ApiCadEff":
			fmt.Sscanf(first[1], "%d", &actor)
		case "GCadEff":
			var i int
			fmt.Sscanf(first[1], "%d", &i)
			if i < len(e.lis) {
				actor = e.lis[i].p
			}
		}
		if actor >= 0 {
			for k, v := range e.prev {
				if nv, ok := cur[k]; (!ok || nv != v) && !e.vals[actor][v] {
					e.unexpl = true
					e.tags["deleted-a-foreign-record"] = true
				}
			}
			for k, nv := range cur {
				if v, ok := e.prev[k]; !ok || v != nv {
					e.unexpl = true
				}
			}
		}
	}
	e.prev = cur
	for _, l := range e.lis {
		live = append(live, kit.Bool(l.ctx.Err() == nil))
	}
	e.batches = append(e.batches, fmt.Sprintf("mkB %s (mkObs %d %s %s)", kit.List(e.cur), now, kit.List(st), kit.List(live)))
	e.human = append(e.human, fmt.Sprintf("   @%dms store{%s} live%v", now/1e6, strings.Join(hs, ","), live))
	e.judge(now)
}

// judge computes the tags of the findings from the observed behaviour (not from the model).
// A finding's tag is kept only while every violation seen in the scenario is of that finding's
// kind, so that another defect in the same run is not attributed to a known one.
func (e *exec) judge(now int64) {
	leaked := func(l *liM) bool { return l.gid != 0 && !e.alive(l.gid) && e.reacq }
	for i, a := range e.lis {
		if a.ctx.Err() != nil {
			continue
		}
		if 2*(now-a.last) > int64(a.d)*1e9 && a.d > 0 {
			e.tags["bound-exceeded"] = true
			switch {
			case e.slow:
			case leaked(a):
				e.tags["LEAK:context-live-after-its-goroutine-returned"] = true
			default:
				e.unexpl = true
			}
		}
		for _, b := range e.lis[i+1:] {
			if b.ctx.Err() == nil && a.k == b.k && a.p != b.p && !e.extKeys[a.k] {
				e.tags["two-live-leaders"] = true
				switch {
				case e.slow:
				case a.cadOk || b.cadOk:
					e.tags["F17:acquired-while-releaser-context-live"] = true
				case leaked(a) || leaked(b):
				default:
					e.unexpl = true
				}
			}
		}
	}
}
