// Package c12: leader elections (pkg/ielections) driven thread by thread (property C12).
package c12

import (
	"bytes"
	"context"
	"errors"
	"fmt"
	"runtime"
	"sort"
	"strconv"
	"strings"
	"sync"
	"sync/atomic"
	"time"

	"verifharness/kit"

	"github.com/voedger/voedger/pkg/goutils/logger"
	"github.com/voedger/voedger/pkg/ielections"
	"github.com/voedger/voedger/pkg/istorage"
	vvmstorage "github.com/voedger/voedger/pkg/vvm/storage"
)

func init() { logger.SetLogLevel(logger.LogLevelNone) }

var errScripted = errors.New("scripted storage failure")

func goid() int64 {
	var buf [64]byte
	n := runtime.Stack(buf[:], false)
	f := bytes.Fields(buf[:n])
	id, _ := strconv.ParseInt(string(f[1]), 10, 64)
	return id
}

// pcall is one storage call of the election code, held at its entry and again at its return
type pcall struct {
	part   int
	gid    int64
	op     string // ins | cas | cad
	key    uint32
	val    string
	ttl    int
	enter  chan string // outcome: ok | errb | erra | false
	result chan string // true | false | err
	leave  chan struct{}
	res    string
	done   bool // effect performed, waiting at the return
}

type rig struct {
	clock   *stepClock
	backend istorage.IAppStorage
	cleanup func()
	mu      sync.Mutex
	pending map[int64]*pcall
	auto    atomic.Bool
	abort   chan struct{}
	parts   []*participant
	keyRaw  map[uint32][2][]byte // election key -> (pKey, cCols) as built by the vvm adapter
	curKey  uint32
	lastArm map[int64]int64 // goroutine -> instant (ns) of the timer it armed last
}

// scripted is the ITTLStorage one participant sees: the real vvm adapter over the real backend,
// every call gated by the harness
type scripted struct {
	r     *rig
	part  int
	inner ielections.ITTLStorage[vvmstorage.TTLStorageImplKey, string]
}

func (s *scripted) call(op string, key uint32, val string, ttl int, do func() (bool, error)) (bool, error) {
	r := s.r
	if r.auto.Load() {
		return do()
	}
	pc := &pcall{part: s.part, gid: goid(), op: op, key: key, val: val, ttl: ttl,
		enter: make(chan string), result: make(chan string), leave: make(chan struct{})}
	r.mu.Lock()
	r.pending[pc.gid] = pc
	r.mu.Unlock()
	var o string
	select {
	case o = <-pc.enter:
	case <-r.abort:
		return do()
	}
	var ok bool
	var err error
	switch o {
	case "ok":
		ok, err = do()
	case "errb":
		err = errScripted
	case "erra":
		do()
		ok, err = false, errScripted
	case "false":
		ok = false
	}
	res := "false"
	if err != nil {
		res = "err"
	} else if ok {
		res = "true"
	}
	select {
	case pc.result <- res:
	case <-r.abort:
		return ok, err
	}
	select {
	case <-pc.leave:
	case <-r.abort:
	}
	return ok, err
}

func (s *scripted) InsertIfNotExist(key vvmstorage.TTLStorageImplKey, val string, ttl int) (bool, error) {
	return s.call("ins", key, val, ttl, func() (bool, error) { s.r.curKey = key; return s.inner.InsertIfNotExist(key, val, ttl) })
}
func (s *scripted) CompareAndSwap(key vvmstorage.TTLStorageImplKey, o, n string, ttl int) (bool, error) {
	if o != n {
		panic("c12: CompareAndSwap with different old and new value")
	}
	return s.call("cas", key, o, ttl, func() (bool, error) { s.r.curKey = key; return s.inner.CompareAndSwap(key, o, n, ttl) })
}
func (s *scripted) CompareAndDelete(key vvmstorage.TTLStorageImplKey, val string) (bool, error) {
	return s.call("cad", key, val, 0, func() (bool, error) { s.r.curKey = key; return s.inner.CompareAndDelete(key, val) })
}
func (s *scripted) Get(key vvmstorage.TTLStorageImplKey) (bool, string, error) {
	return s.inner.Get(key)
}

type apiCmd struct {
	kind string // acq | rel | cln
	k    uint32
	v    string
	d    int
}

type participant struct {
	idx     int
	el      ielections.IElections[vvmstorage.TTLStorageImplKey, string]
	cleanup func()
	cmds    chan apiCmd
	gid     int64
	retMu   sync.Mutex
	ret     *apiRet // set when the running API call returned
}

type apiRet struct{ ctx context.Context }

func newRig(backend string, np int) (*rig, error) {
	r := &rig{clock: newStepClock(), pending: map[int64]*pcall{}, abort: make(chan struct{}), keyRaw: map[uint32][2][]byte{}, lastArm: map[int64]int64{}}
	r.clock.OnNewTimer = func(d time.Duration) {
		gid := goid()
		at := r.clock.Now().Sub(kit.Epoch).Nanoseconds() + d.Nanoseconds()
		r.mu.Lock()
		r.lastArm[gid] = at
		r.mu.Unlock()
	}
	st, cleanup, err := kit.NewBackend(backend, r.clock)
	if err != nil {
		return nil, err
	}
	if backend == "bbolt" { // its background cleaner arms its first timer asynchronously
		for dl := time.Now().Add(5 * time.Second); r.clock.PendingTimers() == 0 && time.Now().Before(dl); {
			time.Sleep(100 * time.Microsecond)
		}
	}
	r.cleanup = cleanup
	wrap := &kit.Wrap{Inner: st}
	wrap.Before = func(c *kit.Call) kit.Verdict {
		switch c.Op {
		case "InsertIfNotExists", "CompareAndSwap", "CompareAndDelete":
			if _, ok := r.keyRaw[r.curKey]; !ok {
				r.keyRaw[r.curKey] = [2][]byte{append([]byte{}, c.PKey...), append([]byte{}, c.CCols...)}
			}
		}
		return kit.Verdict{}
	}
	r.backend = wrap
	for i := 0; i < np; i++ {
		p := &participant{idx: i, cmds: make(chan apiCmd)}
		sc := &scripted{r: r, part: i, inner: vvmstorage.NewElectionsTTLStorage(r.backend)}
		p.el, p.cleanup = ielections.Provide[vvmstorage.TTLStorageImplKey, string](sc, r.clock)
		ready := make(chan struct{})
		go p.apiLoop(ready)
		<-ready
		r.parts = append(r.parts, p)
	}
	return r, nil
}

// apiLoop is the one API caller thread of a participant
func (p *participant) apiLoop(ready chan struct{}) {
	p.gid = goid()
	close(ready)
	for c := range p.cmds {
		var ctx context.Context
		switch c.kind {
		case "acq":
			ctx = p.el.AcquireLeadership(c.k, c.v, ielections.LeadershipDurationSeconds(c.d))
		case "rel":
			p.el.ReleaseLeadership(c.k)
		case "cln":
			p.cleanup()
		}
		p.retMu.Lock()
		p.ret = &apiRet{ctx: ctx}
		p.retMu.Unlock()
	}
}

func (p *participant) takeRet() *apiRet {
	p.retMu.Lock()
	defer p.retMu.Unlock()
	r := p.ret
	p.ret = nil
	return r
}

func (r *rig) pend(gid int64) *pcall {
	r.mu.Lock()
	defer r.mu.Unlock()
	return r.pending[gid]
}

// gstates: goroutine id -> (state, stack text) of every goroutine that runs election, backend
// or API-caller code
// abandoned: goroutines of instances that were given up as stuck (they may sit in a lock for
// ever); later scenarios do not wait for them
var abandoned = map[int64]bool{}

func gstates(self int64) map[int64][2]string {
	buf := stackBuf
	for {
		n := runtime.Stack(buf, true)
		if n < len(buf) {
			buf = buf[:n]
			break
		}
		stackBuf = make([]byte, 2*len(buf))
		buf = stackBuf
	}
	out := map[int64][2]string{}
	for _, blk := range strings.Split(string(buf), "\n\n") {
		if !strings.HasPrefix(blk, "goroutine ") {
			continue
		}
		hdr := blk[:strings.IndexByte(blk, '\n')+1]
		if hdr == "" {
			hdr = blk
		}
		f := strings.Fields(hdr)
		id, _ := strconv.ParseInt(f[1], 10, 64)
		if id == self || abandoned[id] {
			continue
		}
		if strings.Contains(blk, "stack unavailable") {
			out[id] = [2]string{"running", blk}
			continue
		}
		if !strings.Contains(blk, "pkg/ielections.") && !strings.Contains(blk, "verifharness/c12.") && !strings.Contains(blk, "pkg/istorage/bbolt.") {
			continue
		}
		st := hdr[strings.IndexByte(hdr, '[')+1:]
		if i := strings.IndexAny(st, ",]"); i >= 0 {
			st = st[:i]
		}
		out[id] = [2]string{st, blk}
	}
	return out
}

var stackBuf = make([]byte, 1<<18)

// frames names the innermost election/harness functions of a goroutine's stack
func frames(stack string) string {
	var fs []string
	for _, ln := range strings.Split(stack, "\n") {
		if strings.HasPrefix(ln, "\t") || strings.HasPrefix(ln, "goroutine ") || strings.HasPrefix(ln, "created by") {
			continue
		}
		if strings.Contains(ln, "pkg/ielections.") || strings.Contains(ln, "verifharness/c12.") {
			f := ln[strings.LastIndex(ln, "/")+1:]
			if i := strings.LastIndex(f, "("); i > 0 {
				f = f[:i]
			}
			fs = append(fs, f)
		}
		if len(fs) == 3 {
			break
		}
	}
	return strings.Join(fs, " < ")
}

func blockedState(st string) bool {
	switch st {
	case "select", "chan receive", "sync.WaitGroup.Wait", "select (no cases)",
		// waiting for a lock whose holder is itself parked (the dump is atomic: a holder that runs
		// makes the system non-quiescent anyway)
		"sync.Mutex.Lock", "sync.RWMutex.Lock", "sync.RWMutex.RLock", "sync.Cond.Wait":
		return true
	}
	return false
}

// settle waits until every thread of the system is parked: at a gate of the scripted storage,
// in a select / channel receive / WaitGroup.Wait, or gone.  The dump is taken with the world
// stopped, and a goroutine whose wake-up condition holds is runnable, not parked, so a parked
// system stays parked until the harness acts.
func (r *rig) settle() (map[int64][2]string, error) {
	self := goid()
	deadline := time.Now().Add(patience)
	for {
		gs := gstates(self)
		ok := true
		for _, s := range gs {
			if !blockedState(s[0]) {
				ok = false
				break
			}
		}
		if ok {
			return gs, nil
		}
		if time.Now().After(deadline) {
			var sb strings.Builder
			for id, s := range gs {
				if !blockedState(s[0]) {
					fmt.Fprintf(&sb, "goroutine %d [%s] in %s\n", id, s[0], frames(s[1]))
				}
			}
			return gs, fmt.Errorf("stuck: threads that never park: %s; %s", strings.ReplaceAll(strings.TrimSpace(sb.String()), "\n", ", "), r.describePending())
		}
		runtime.Gosched()
		time.Sleep(20 * time.Microsecond)
	}
}

func (r *rig) armed(gid int64) int64 {
	r.mu.Lock()
	defer r.mu.Unlock()
	return r.lastArm[gid]
}

// describePending lists the storage calls the election code is waiting in
func (r *rig) describePending() string {
	r.mu.Lock()
	defer r.mu.Unlock()
	var items []string
	for gid, pc := range r.pending {
		st := "held at its entry"
		if pc.done {
			st = "held at its return"
		}
		items = append(items, fmt.Sprintf("participant %d goroutine %d in %s(key %d, value %s) %s", pc.part, gid, pc.op, pc.key, pc.val, st))
	}
	sort.Strings(items)
	if len(items) == 0 {
		return "no storage call pending"
	}
	return "pending: " + strings.Join(items, "; ")
}

func (r *rig) nowNs() int64 { return r.clock.Now().Sub(kit.Epoch).Nanoseconds() }

// readKey is the TTL-aware view of a leadership record
func (r *rig) readKey(k uint32) (string, bool) {
	raw, ok := r.keyRaw[k]
	if !ok {
		return "", false
	}
	var data []byte
	found, err := r.backend.(*kit.Wrap).Inner.TTLGet(raw[0], raw[1], &data)
	if err != nil || !found {
		return "", false
	}
	return string(data), true
}

func (r *rig) extDelete(k uint32) {
	raw, ok := r.keyRaw[k]
	if !ok {
		return
	}
	var data []byte
	inner := r.backend.(*kit.Wrap).Inner
	if found, _ := inner.TTLGet(raw[0], raw[1], &data); found {
		inner.CompareAndDelete(raw[0], raw[1], data)
	}
}

// teardown lets every held call through, cleans every participant up and frees the backend
func (r *rig) teardown() {
	r.auto.Store(true)
	close(r.abort)
	for _, p := range r.parts {
		done := make(chan struct{})
		go func(p *participant) { p.cleanup(); close(done) }(p)
		select {
		case <-done:
		case <-time.After(time.Second):
		}
		close(p.cmds)
	}
	r.cleanup()
}

// describeThreads lists where every election / API-caller goroutine of the process is parked
func describeThreads() string {
	gs := gstates(goid())
	var ids []int64
	for id := range gs {
		ids = append(ids, id)
	}
	sort.Slice(ids, func(i, j int) bool { return ids[i] < ids[j] })
	var items []string
	for _, id := range ids {
		if f := frames(gs[id][1]); strings.Contains(f, "ielections.") {
			items = append(items, fmt.Sprintf("goroutine %d [%s] in %s", id, gs[id][0], f))
		}
	}
	return strings.Join(items, "; ")
}

// abandon gives the instance up: whatever election goroutine still exists is ignored from now on
func (r *rig) abandon() {
	time.Sleep(20 * time.Millisecond)
	for id := range gstates(goid()) {
		abandoned[id] = true
	}
}
