package c12

import (
	"crypto/sha1"
	"fmt"
	"sort"
	"strings"
	"time"

	"verifharness/kit"
)

func nsDur(ns int64) time.Duration { return time.Duration(ns) }

// profile: weights of the online generator
type profile struct {
	name                  string
	np                    int
	keys                  []uint32
	durs                  []int
	steps                 int
	wAcq, wRel, wCln      int
	wEff, wRet, wAdv      int
	wExt                  int
	oOk, oErrB, oErrA, oF int // outcome weights of a storage call
	sameVals              bool
	advPartial            int // chance (of 10) to advance less than to the next timer
}

var durChoices = []int{1, 2, 3, 4, 4, 5, 8, 8, 10, 10, 12, 20, 20, 30, 60, 3600, 7200}

func pickProfile(r *kit.Rng) profile {
	p := profile{np: 2 + r.Intn(2), keys: []uint32{1}, steps: 40 + r.Intn(80),
		wAcq: 6, wRel: 3, wCln: 1, wEff: 10, wRet: 10, wAdv: 12, oOk: 75, oErrB: 10, oErrA: 7, oF: 8, advPartial: 2}
	if r.Chance(1, 3) {
		p.keys = []uint32{1, 2}
	}
	switch r.Intn(14) {
	case 0, 1, 2:
		p.name = "contend"
	case 3, 4:
		p.name = "renew-faults" // long renewal runs with error patterns around the retry deadline
		p.wAcq, p.wRel, p.wCln, p.wAdv = 3, 1, 0, 20
		p.oOk, p.oErrB, p.oErrA, p.oF = 40, 35, 20, 5
		p.steps = 80 + r.Intn(120)
	case 5, 6:
		p.name = "release-races" // releases and cleanups whose storage calls are held while others act
		p.wRel, p.wCln, p.wRet, p.wAcq = 8, 3, 3, 10
		p.oOk, p.oErrB, p.oErrA, p.oF = 90, 4, 3, 3
	case 7:
		p.name = "expiry-extdelete"
		p.wExt = 3
		p.oOk, p.oErrB, p.oErrA, p.oF = 50, 30, 15, 5
	case 8:
		p.name = "clean-run" // no faults: plain elections, renewals, orderly hand-over
		p.oOk, p.oErrB, p.oErrA, p.oF = 100, 0, 0, 0
		p.wRet = 40
	case 9:
		p.name = "malformed" // non-positive durations, shared values, calls after cleanup
		p.durs = []int{0, -1, 1, 4}
		p.sameVals = true
		p.wCln = 3
		p.steps = 25 + r.Intn(30)
	case 10:
		// a renewal that errors for more than half of its retry window and succeeds on a late
		// retry, then a storage that fails for good, watched in fine clock steps past lastSuccess + D/2
		p.name = "late-retry"
		p.np, p.keys = 2, []uint32{1}
		p.durs = []int{kit.Pick(r, []int{10, 12, 20, 20, 30, 40, 40, 60})}
	case 11:
		// the leader calls AcquireLeadership again for the key it leads and the insert fails with a
		// storage error (before or after its effect); then another participant tries to acquire
		p.name = "reacquire-insert-error"
		p.np, p.keys = 2, []uint32{1}
		p.durs = []int{kit.Pick(r, []int{2, 4, 5, 8, 10, 20, 30, 40})}
	case 12:
		// a storage call of the leader (a renewal's CompareAndSwap, or the acquiring insert's return)
		// is held while the clock moves on, up to beyond D/2 and beyond the record's expiry (finding U3)
		p.name = "slow-call"
		p.np, p.keys = 2, []uint32{1}
		p.durs = []int{kit.Pick(r, []int{4, 5, 8, 10, 20, 40})}
	case 13:
		// cleanup / release starts while a renewal's CompareAndSwap is in flight, and that renewal then
		// reports a mismatch (the record went first) or an error up to the deadline: its goroutine
		// releases by itself while the API call waits for it
		p.name = "cleanup-during-renewal"
		p.np, p.keys = 2, []uint32{1}
		p.durs = []int{kit.Pick(r, []int{3, 4, 5, 8, 10, 20})}
	}
	if p.durs == nil {
		n := 1 + r.Intn(2)
		for i := 0; i < n; i++ {
			p.durs = append(p.durs, kit.Pick(r, durChoices))
		}
	}
	return p
}

type wchoice struct {
	c choice
	w int
}

// next draws the next stimulus among the enabled ones
func (p *profile) next(r *kit.Rng, e *exec) (choice, bool) {
	var ws []wchoice
	add := func(c choice, w int) {
		if w > 0 && e.enabled(c) {
			ws = append(ws, wchoice{c, w})
		}
	}
	for i := 0; i < p.np; i++ {
		v := 10 + i
		if p.sameVals {
			v = 10
		}
		add(choice{C: "acq", P: i, K: kit.Pick(r, p.keys), V: v, D: kit.Pick(r, p.durs)}, p.wAcq)
		add(choice{C: "rel", P: i, K: kit.Pick(r, p.keys)}, p.wRel)
		add(choice{C: "cln", P: i}, p.wCln)
	}
	var threads []string
	for i := range e.api {
		threads = append(threads, fmt.Sprintf("a%d", i))
	}
	for _, l := range e.lis {
		threads = append(threads, fmt.Sprintf("g%d", l.id))
	}
	for _, t := range threads {
		o := "ok"
		x := r.Intn(p.oOk + p.oErrB + p.oErrA + p.oF)
		switch {
		case x < p.oOk:
		case x < p.oOk+p.oErrB:
			o = "errb"
		case x < p.oOk+p.oErrB+p.oErrA:
			o = "erra"
		default:
			o = "false"
		}
		if t[0] == 'g' {
			// a goroutine with a non-positive duration that gets cancelled leaves the retry select through
			// ctx.Done or the (already due) deadline at random: keep such runs replayable
			var n int
			fmt.Sscanf(t[1:], "%d", &n)
			if l := e.lis[n]; l.d <= 0 && o != "false" {
				o = "ok"
			}
		}
		add(choice{C: "eff", T: t, O: o}, p.wEff)
		add(choice{C: "ret", T: t}, p.wRet)
	}
	adv := choice{C: "adv"}
	if r.Intn(10) < p.advPartial {
		adv.Ns = kit.Pick(r, []int64{1, 1e6, 250e6, 999999999, 1e9, 1e9 + 1, 3e9})
	}
	add(adv, p.wAdv)
	add(choice{C: "ext", K: kit.Pick(r, p.keys)}, p.wExt)
	tot := 0
	for _, w := range ws {
		tot += w.w
	}
	if tot == 0 {
		return choice{}, false
	}
	x := r.Intn(tot)
	for _, w := range ws {
		if x < w.w {
			return w.c, true
		}
		x -= w.w
	}
	return choice{}, false
}

// driveLateRetry scripts the late-retry family: acquire, some clean renewals, one renewal whose
// first attempt and retries fail until a retry later than half of the interval succeeds, then only
// failures, with the clock moved by at most one second at a time until well after the bound
func (p *profile) driveLateRetry(r *kit.Rng, e *exec, sc *scenario) {
	do := func(c choice) bool {
		if e.apply(c) {
			sc.Script = append(sc.Script, c)
			return true
		}
		return false
	}
	d := p.durs[0]
	interval := int64(d) * 1e9 / 4
	fail := func() string { return kit.Pick(r, []string{"errb", "errb", "erra"}) }
	step := func() { do(choice{C: "adv", Ns: kit.Pick(r, []int64{1e9, 1e9, 500e6, 250e6})}) }
	// serve lets the leader's pending storage call (if any) take effect with the outcome and return
	serve := func(o string) bool {
		if do(choice{C: "eff", T: "g0", O: o}) {
			do(choice{C: "ret", T: "g0"})
			return true
		}
		return false
	}
	if !do(choice{C: "acq", P: 0, K: 1, V: 10, D: d}) || !do(choice{C: "eff", T: "a0", O: "ok"}) || !do(choice{C: "ret", T: "a0"}) {
		return
	}
	if len(e.lis) == 0 {
		return
	}
	for n := r.Intn(3); n > 0; n-- { // clean renewals
		for i := 0; i < 100 && !e.enabled(choice{C: "eff", T: "g0", O: "ok"}); i++ {
			step()
		}
		serve("ok")
	}
	// the renewal with the late success: r seconds after the tick, interval/2 < r < interval
	secs := int(interval / 1e9)
	late := secs/2 + 1 + r.Intn(secs-secs/2-1)
	for i := 0; i < 100 && !e.enabled(choice{C: "eff", T: "g0", O: "ok"}); i++ {
		step()
	}
	t0 := e.r.nowNs()
	for n := 0; n < 200 && e.err == nil; n++ {
		if e.enabled(choice{C: "eff", T: "g0", O: "ok"}) {
			if e.r.nowNs()-t0 >= int64(late)*1e9 {
				serve("ok")
				break
			}
			serve(fail())
		} else {
			step()
		}
	}
	// a bystander tries to take over now and then; the storage fails for good
	end := e.r.nowNs() + int64(d)*1e9
	for n := 0; n < 400 && e.err == nil && e.r.nowNs() < end; n++ {
		switch {
		case serve(fail()):
		case r.Chance(1, 12) && do(choice{C: "acq", P: 1, K: 1, V: 11, D: d}):
			do(choice{C: "eff", T: "a1", O: "ok"})
			do(choice{C: "ret", T: "a1"})
		default:
			step()
		}
	}
}

// driveReacquire scripts the reacquire-insert-error family
func (p *profile) driveReacquire(r *kit.Rng, e *exec, sc *scenario) {
	do := func(c choice) bool {
		if e.apply(c) {
			sc.Script = append(sc.Script, c)
			return true
		}
		return false
	}
	// finish lets every storage call of a thread through until the thread has none left
	finish := func(t string) {
		for n := 0; n < 20 && (do(choice{C: "eff", T: t, O: "ok"}) || do(choice{C: "ret", T: t})); n++ {
		}
	}
	d := p.durs[0]
	if !do(choice{C: "acq", P: 0, K: 1, V: 10, D: d}) {
		return
	}
	finish("a0")
	for n := r.Intn(3); n > 0 && len(e.lis) > 0; n-- {
		do(choice{C: "adv"})
		finish("g0")
	}
	if r.Chance(1, 3) {
		do(choice{C: "adv", Ns: kit.Pick(r, []int64{1, 250e6, 1e9})})
	}
	// the failing re-acquisition
	if do(choice{C: "acq", P: 0, K: 1, V: 10, D: d}) {
		do(choice{C: "eff", T: "a0", O: kit.Pick(r, []string{"errb", "erra"})})
		do(choice{C: "ret", T: "a0"})
		finish("a0")
	}
	// the other participant
	if do(choice{C: "acq", P: 1, K: 1, V: 11, D: d}) {
		finish("a1")
	}
	for n := 0; n < 6 && e.err == nil; n++ {
		if !do(choice{C: "adv"}) {
			break
		}
		for _, l := range e.lis {
			finish(fmt.Sprintf("g%d", l.id))
		}
		if r.Chance(1, 3) && do(choice{C: "acq", P: 1, K: 1, V: 11, D: d}) {
			finish("a1")
		}
	}
}

// driveSlowCall scripts the slow-call family
func (p *profile) driveSlowCall(r *kit.Rng, e *exec, sc *scenario) {
	do := func(c choice) bool {
		if e.apply(c) {
			sc.Script = append(sc.Script, c)
			return true
		}
		return false
	}
	finish := func(t string) {
		for n := 0; n < 20 && (do(choice{C: "eff", T: t, O: "ok"}) || do(choice{C: "ret", T: t})); n++ {
		}
	}
	d := p.durs[0]
	total := kit.Pick(r, []int64{int64(d) * 1e9 / 8, int64(d)*1e9/2 + 1e9, int64(d)*1e9 + 1e9})
	slow := func() { // the clock moves by `total` while whatever is held stays held
		end := e.r.nowNs() + total
		for n := 0; n < 80 && e.err == nil && e.r.nowNs() < end; n++ {
			if !do(choice{C: "advx", Ns: end - e.r.nowNs()}) {
				break
			}
			if r.Chance(1, 6) && do(choice{C: "acq", P: 1, K: 1, V: 11, D: d}) {
				finish("a1")
			}
		}
	}
	if !do(choice{C: "acq", P: 0, K: 1, V: 10, D: d}) {
		return
	}
	if r.Chance(1, 4) { // the insert has taken effect, its return is slow
		do(choice{C: "eff", T: "a0", O: "ok"})
		slow()
	}
	finish("a0")
	if len(e.lis) == 0 {
		return
	}
	for n := r.Intn(2); n > 0; n-- {
		do(choice{C: "adv"})
		finish("g0")
	}
	if r.Chance(1, 3) {
		// late timer delivery instead of a slow call: one jump of the clock past the tick, then
		// failing renewals in one-second steps and a rival that tries at every step
		do(choice{C: "advx", Ns: total, Ov: true})
		for n := 0; n < 3*d && e.err == nil && e.lis[0].ctx.Err() == nil; n++ {
			if !do(choice{C: "eff", T: "g0", O: "errb"}) {
				do(choice{C: "adv", Ns: kit.Pick(r, []int64{1e9, 500e6})})
				if do(choice{C: "acq", P: 1, K: 1, V: 11, D: d}) {
					finish("a1")
				}
				continue
			}
			do(choice{C: "ret", T: "g0"})
		}
		return
	}
	do(choice{C: "adv"}) // the tick: the renewal's CompareAndSwap is at its entry
	if r.Bool() {
		do(choice{C: "eff", T: "g0", O: kit.Pick(r, []string{"ok", "errb", "erra"})}) // slow return instead of slow entry
	}
	slow()
	if do(choice{C: "acq", P: 1, K: 1, V: 11, D: d}) {
		finish("a1")
	}
	finish("g0")
	for n := 0; n < 4 && e.err == nil; n++ {
		if !do(choice{C: "adv"}) {
			break
		}
		for _, l := range e.lis {
			finish(fmt.Sprintf("g%d", l.id))
		}
	}
}

// driveCleanupDuringRenewal scripts the cleanup-during-renewal family
func (p *profile) driveCleanupDuringRenewal(r *kit.Rng, e *exec, sc *scenario) {
	do := func(c choice) bool {
		if e.apply(c) {
			sc.Script = append(sc.Script, c)
			return true
		}
		return false
	}
	finish := func(t string) {
		for n := 0; n < 20 && (do(choice{C: "eff", T: t, O: "ok"}) || do(choice{C: "ret", T: t})); n++ {
		}
	}
	d := p.durs[0]
	if !do(choice{C: "acq", P: 0, K: 1, V: 10, D: d}) {
		return
	}
	finish("a0")
	if len(e.lis) == 0 {
		return
	}
	for n := r.Intn(2); n > 0; n-- {
		do(choice{C: "adv"})
		finish("g0")
	}
	do(choice{C: "adv"}) // tick: the renewal is at the entry of CompareAndSwap
	call := choice{C: "cln", P: 0}
	if r.Bool() {
		call = choice{C: "rel", P: 0, K: 1}
	}
	switch r.Intn(3) {
	case 0: // the renewal takes effect first, returns after the call's delete
		do(choice{C: "eff", T: "g0", O: "ok"})
		do(call)
		finish("a0")
	case 1: // the call's delete lands first: the renewal reports a mismatch
		do(call)
		do(choice{C: "eff", T: "a0", O: "ok"})
		if r.Bool() {
			do(choice{C: "ret", T: "a0"})
		}
		do(choice{C: "eff", T: "g0", O: "ok"})
	default: // the renewal fails; a rival may take the key once the record is gone
		do(call)
		finish("a0")
		do(choice{C: "eff", T: "g0", O: kit.Pick(r, []string{"errb", "false"})})
		if do(choice{C: "acq", P: 1, K: 1, V: 11, D: d}) {
			finish("a1")
		}
	}
	finish("g0")
	finish("a0")
	finish("g0")
}

// epilogue: let every held call through, let time pass timer by timer, clean everybody up and
// let the longest leadership duration elapse, so that a context that is never cancelled shows
func (e *exec) epilogue() {
	drain := func() {
		for n := 0; n < 400 && e.err == nil; n++ {
			var names []string
			for i := range e.api {
				names = append(names, fmt.Sprintf("a%d", i))
			}
			for _, l := range e.lis {
				if l.d <= 0 && l.ctx.Err() == nil {
					continue // renews in a busy loop until it is cancelled: leave it at its gate
				}
				names = append(names, fmt.Sprintf("g%d", l.id))
			}
			done := true
			for _, t := range names {
				if e.apply(choice{C: "eff", T: t, O: "ok"}) || e.apply(choice{C: "ret", T: t}) {
					done = false
					break
				}
			}
			if done {
				return
			}
		}
	}
	drain()
	for n := 0; n < 6 && e.err == nil; n++ {
		if !e.apply(choice{C: "adv"}) {
			break
		}
		drain()
	}
	for p := range e.api {
		for ks := e.heldKeys(p); len(ks) > 1; ks = e.heldKeys(p) {
			if !e.apply(choice{C: "rel", P: p, K: ks[len(ks)-1]}) {
				break
			}
			delete(e.held[p], ks[len(ks)-1])
			drain()
		}
		if e.apply(choice{C: "cln", P: p}) {
			drain()
		} else {
			e.tags["hung-api-call"] = true
		}
	}
	maxD := int64(1)
	for _, l := range e.lis {
		if int64(l.d) > maxD {
			maxD = int64(l.d)
		}
	}
	target := e.r.nowNs() + maxD*1e9/2 + 1e6
	for n := 0; n < 150 && e.err == nil && e.r.nowNs() < target; n++ {
		if !e.apply(choice{C: "adv", Ns: target - e.r.nowNs()}) {
			break
		}
		drain()
	}
}

// runScenario executes a scenario against the real ielections; with a profile the script is drawn online
func runScenario(sc *scenario, p *profile, r *kit.Rng) (kit.Case, error) {
	rg, err := newRig(sc.Backend, sc.NP)
	if err != nil {
		return kit.Case{}, err
	}
	stuckEnd := false
	defer func() {
		rg.teardown()
		if stuckEnd {
			rg.abandon()
		}
	}()
	e := &exec{r: rg, sc: sc, seenG: map[int64]bool{}, tags: map[string]bool{}, prev: map[uint32]string{}, vals: map[int]map[string]bool{}, extKeys: map[uint32]bool{}}
	for range rg.parts {
		e.api = append(e.api, &apiM{ph: "idle"})
		e.held = append(e.held, map[uint32]bool{})
	}
	if !e.settle() { // leftovers of an earlier instance that never park: not this scenario's business
		for id, s := range e.gs {
			if !blockedState(s[0]) {
				abandoned[id] = true
			}
		}
		e.err = nil
		delete(e.tags, "stuck")
		delete(e.tags, "not-quiescent")
		e.settle()
		e.err = nil
	}
	for id, s := range e.gs { // goroutines left over from earlier scenarios
		if strings.Contains(s[1], "maintainLeadership") {
			e.seenG[id] = true
		}
	}
	if p != nil && p.name == "late-retry" {
		p.driveLateRetry(r, e, sc)
	} else if p != nil && p.name == "reacquire-insert-error" {
		p.driveReacquire(r, e, sc)
	} else if p != nil && p.name == "slow-call" {
		p.driveSlowCall(r, e, sc)
	} else if p != nil && p.name == "cleanup-during-renewal" {
		p.driveCleanupDuringRenewal(r, e, sc)
	} else if p != nil {
		for n := 0; n < p.steps && e.err == nil; n++ {
			c, ok := p.next(r, e)
			if !ok {
				break
			}
			if e.apply(c) {
				sc.Script = append(sc.Script, c)
			}
		}
	} else {
		for _, c := range sc.Script {
			e.apply(c)
		}
	}
	e.epilogue()
	if e.err != nil {
		stuckEnd = true
		e.human = append(e.human, "HARNESS: "+e.err.Error())
		for p, a := range e.api {
			switch a.ph {
			case "relwait", "relcad", "relcadret", "clnwait", "clncad", "clncadret", "calling-rel", "calling-cln":
				e.tags["release-or-cleanup-did-not-terminate"] = true
				e.human = append(e.human, fmt.Sprintf("ReleaseLeadership/cleanup of participant %d did not terminate", p))
			}
		}
	}
	if e.tags["hung-api-call"] && e.err == nil {
		// every thread is parked, nothing is held by the harness, and an API call has not returned
		stuckEnd = true
		for p, a := range e.api {
			if a.ph != "idle" {
				e.tags["release-or-cleanup-did-not-terminate"] = true
				e.human = append(e.human, fmt.Sprintf("API call of participant %d (%s) did not terminate: %s", p, a.ph, describeThreads()))
			}
		}
	}
	if e.reacq {
		e.tags["reacquired-while-local-leader"] = true
	}
	owner := map[string]int{}
	for p, vs := range e.vals {
		for v := range vs {
			if q, ok := owner[v]; ok && q != p {
				e.tags["shared-values"] = true
			}
			owner[v] = p
		}
	}
	if e.unexpl || e.tags["hung-api-call"] || e.err != nil {
		delete(e.tags, "F17:acquired-while-releaser-context-live")
		delete(e.tags, "LEAK:context-live-after-its-goroutine-returned")
		e.tags["violation-not-explained-by-a-known-finding"] = true
	}
	e.tags["backend:"+sc.Backend] = true
	e.tags[fmt.Sprintf("np:%d", sc.NP)] = true
	sc.Observed = e.human
	var tags []string
	for t := range e.tags {
		tags = append(tags, t)
	}
	sort.Strings(tags)
	var shape strings.Builder
	shape.WriteString(sc.Backend)
	for _, h := range e.human {
		if !strings.HasPrefix(h, "   @") {
			shape.WriteString(h)
		}
	}
	nontrivial := len(e.lis) > 0 && (e.tags["act:CasEff"] || e.tags["act:ApiCadEff"] || e.tags["act:GCadEff"]) && e.nacts >= 12
	coq := fmt.Sprintf("mkTrace %d %s", sc.NP, kit.List(e.batches))
	if e.err != nil {
		// a thread that never parks cannot be linearised: report it as a trace the model rejects
		coq = fmt.Sprintf("mkTrace %d %s", sc.NP, kit.List(append(e.batches, "mkB [(Exit 999, ONone)] (mkObs 0 [] [])")))
	}
	return kit.Case{Coq: coq, Key: fmt.Sprintf("%x", sha1.Sum([]byte(shape.String()))), Nontrivial: nontrivial, Desc: sc, Tags: tags}, nil
}
