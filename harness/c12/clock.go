package c12

import (
	"sort"
	"sync"
	"time"

	"verifharness/kit"
)

// stepClock is kit.Clock with one difference: the timers that become due by an advance are
// fired one at a time, and the caller lets the system park again after each. Goroutines woken
// at the same instant can cancel each other (a release cancels the leaderInfo found in the map),
// so firing them together would make the trace depend on the Go scheduler.
type stepClock struct {
	mu         sync.Mutex
	now        time.Time
	seq        int
	timers     []*stepTimer
	OnNewTimer func(d time.Duration)
}

type stepTimer struct {
	at  time.Time
	seq int
	c   chan time.Time
}

func newStepClock() *stepClock { return &stepClock{now: kit.Epoch} }

func (c *stepClock) Now() time.Time {
	c.mu.Lock()
	defer c.mu.Unlock()
	return c.now
}

func (c *stepClock) NewTimerChan(d time.Duration) <-chan time.Time {
	c.mu.Lock()
	c.seq++
	t := &stepTimer{at: c.now.Add(d), seq: c.seq, c: make(chan time.Time, 1)}
	if d <= 0 {
		t.c <- c.now
	} else {
		c.timers = append(c.timers, t)
	}
	cb := c.OnNewTimer
	c.mu.Unlock()
	if cb != nil {
		cb(d)
	}
	return t.c
}

func (c *stepClock) Sleep(d time.Duration) { c.Advance(d, func() {}) }

// Advance moves the clock and fires the due timers in the order (instant, arming), calling
// settle after each
func (c *stepClock) Advance(d time.Duration, settle func()) {
	c.mu.Lock()
	c.now = c.now.Add(d)
	now := c.now
	var due, rest []*stepTimer
	for _, t := range c.timers {
		if !t.at.After(now) {
			due = append(due, t)
		} else {
			rest = append(rest, t)
		}
	}
	c.timers = rest
	c.mu.Unlock()
	sort.Slice(due, func(i, j int) bool {
		if !due[i].at.Equal(due[j].at) {
			return due[i].at.Before(due[j].at)
		}
		return due[i].seq < due[j].seq
	})
	for _, t := range due {
		t.c <- now
		settle()
	}
}

func (c *stepClock) NextTimer() (time.Duration, bool) {
	c.mu.Lock()
	defer c.mu.Unlock()
	if len(c.timers) == 0 {
		return 0, false
	}
	best := c.timers[0].at
	for _, t := range c.timers[1:] {
		if t.at.Before(best) {
			best = t.at
		}
	}
	return best.Sub(c.now), true
}

func (c *stepClock) PendingTimers() int {
	c.mu.Lock()
	defer c.mu.Unlock()
	return len(c.timers)
}
