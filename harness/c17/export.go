package c17

import (
	"verifharness/kit"

	"github.com/voedger/voedger/pkg/appdef"
)

// Exports for the C16 harness, which reuses the generator, the renderer, the dump and the Coq
// printers of this package.

// SysVSQL is the fixed system package the generated applications are compiled with
func SysVSQL() string { return sysVSQL }

func CoqSchema(a Schema) string     { return cSchema(a) }
func CoqTexts(t []PkgText) string   { return cTexts(t) }
func CoqOutcome(o Observed) string  { return cOutcome(o) }
func CoqItems(items []DItem) string { return cList(items, cItem) }
func CoqBool(b bool) string         { return cBool(b) }

// DumpApp is the canonical dump of a built definition (types outside package sys)
func DumpApp(app appdef.IAppDef) Dump { return dumpApp(app) }

// Canon sorts what Go map order leaves unordered (for comparing two compilations)
func Canon(d Dump) Dump { return canon(d) }

// DumpType dumps one type
func DumpType(t appdef.IType) (DItem, bool) { return dumpType(t) }

// Mutations lists the kinds of the malformed stream; MutateKind applies one of them (false: not applicable)
func Mutations() []string                               { return mutations }
func MutateKind(r *kit.Rng, a Schema, kind string) bool { return apply(r, a, kind) }
