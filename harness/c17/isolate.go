package c17

import (
	"bufio"
	"bytes"
	"encoding/json"
	"fmt"
	"io"
	"os"
	"os/exec"
	"regexp"
	"slices"
	"strings"
	"sync"
	"time"
)

// The compiler under test runs in a child process: a fatal runtime error (stack overflow, out of
// memory, concurrent map write) cannot be recovered and would otherwise take the harness down
// without saying which input caused it. The parent sends one request at a time over a pipe, knows
// which case is in flight when the child dies or exceeds the deadline, records that for the case,
// restarts the child and goes on.
//
// The child is this same binary started with VERIF_WORKER=<owner>; the package named by <owner> runs
// the loop from its init function after the operations have been registered.

const workerEnv = "VERIF_WORKER"

type request struct {
	Op  string          `json:"op"`
	Arg json.RawMessage `json:"arg"`
}

var workerOps = map[string]func(json.RawMessage) any{}

// RegisterWorkerOp makes an operation available inside the worker process
func RegisterWorkerOp(name string, f func(json.RawMessage) any) { workerOps[name] = f }

// RunWorkerIfRequested never returns when this process was started as the worker of `owner`
func RunWorkerIfRequested(owner string) {
	if os.Getenv(workerEnv) != owner {
		return
	}
	dec := json.NewDecoder(bufio.NewReaderSize(os.Stdin, 1<<20))
	out := bufio.NewWriterSize(os.Stdout, 1<<20)
	enc := json.NewEncoder(out)
	for {
		var rq request
		if err := dec.Decode(&rq); err != nil {
			os.Exit(0)
		}
		f, ok := workerOps[rq.Op]
		if !ok {
			fmt.Fprintln(os.Stderr, "worker: unknown operation", rq.Op)
			os.Exit(3)
		}
		if err := enc.Encode(f(rq.Arg)); err != nil {
			os.Exit(4)
		}
		out.Flush()
	}
}

// Isolated is the parent's handle of one worker process
type Isolated struct {
	owner  string
	cmd    *exec.Cmd
	in     io.WriteCloser
	dec    *json.Decoder
	stderr *headBuffer
	Deaths int
}

var frameRe = regexp.MustCompile(`github\.com/(?:voedger/voedger|alecthomas/participle/v2)[\w/\-]*\.(?:\(\*?\w+\)\.)?[\w.]+`)

// headBuffer keeps the beginning of the child's stderr (a Go fatal error prints its reason first)
type headBuffer struct {
	mu  sync.Mutex
	buf bytes.Buffer
}

func (h *headBuffer) Write(p []byte) (int, error) {
	h.mu.Lock()
	defer h.mu.Unlock()
	if room := 4096 - h.buf.Len(); room > 0 {
		if len(p) < room {
			room = len(p)
		}
		h.buf.Write(p[:room])
	}
	return len(p), nil
}

func (h *headBuffer) reason() string {
	h.mu.Lock()
	defer h.mu.Unlock()
	// the innermost distinct frames of the code under test, when the trace got into the kept head
	frame := ""
	var frames []string
	for _, m := range frameRe.FindAllString(h.buf.String(), -1) {
		m = strings.TrimPrefix(m, "github.com/voedger/voedger/")
		if !slices.Contains(frames, m) && len(frames) < 6 {
			frames = append(frames, m)
		}
	}
	if len(frames) > 0 {
		frame = " [in " + strings.Join(frames, " < ") + "]"
	}
	for _, line := range strings.Split(h.buf.String(), "\n") {
		line = strings.TrimSpace(line)
		if strings.HasPrefix(line, "fatal error:") || strings.HasPrefix(line, "panic:") || strings.HasPrefix(line, "runtime:") {
			return line + frame
		}
	}
	if s := strings.TrimSpace(h.buf.String()); s != "" {
		return strings.SplitN(s, "\n", 2)[0]
	}
	return ""
}

func NewIsolated(owner string) *Isolated { return &Isolated{owner: owner} }

func (w *Isolated) start() error {
	exe, err := os.Executable()
	if err != nil {
		return err
	}
	w.cmd = exec.Command(exe, "worker")
	w.cmd.Env = append(os.Environ(), workerEnv+"="+w.owner)
	w.stderr = &headBuffer{}
	w.cmd.Stderr = w.stderr
	if w.in, err = w.cmd.StdinPipe(); err != nil {
		return err
	}
	out, err := w.cmd.StdoutPipe()
	if err != nil {
		return err
	}
	w.dec = json.NewDecoder(bufio.NewReaderSize(out, 1<<20))
	return w.cmd.Start()
}

func (w *Isolated) kill() {
	if w.cmd != nil {
		w.in.Close()
		w.cmd.Process.Kill()
		w.cmd.Wait()
		w.cmd = nil
	}
}

// Close ends the worker
func (w *Isolated) Close() { w.kill() }

// Call runs one operation in the worker. died != "" : the worker process died ("died: ...") or did
// not answer within the deadline ("hang: ...") while working on this request; it has been replaced.
func (w *Isolated) Call(op string, arg any, res any, deadline time.Duration) (died string) {
	if w.cmd == nil {
		if err := w.start(); err != nil {
			panic(fmt.Sprintf("cannot start the worker process: %v", err))
		}
	}
	raw, err := json.Marshal(arg)
	if err != nil {
		panic(err)
	}
	rq, _ := json.Marshal(request{Op: op, Arg: raw})
	done := make(chan error, 1)
	dec := w.dec
	go func() {
		if _, e := w.in.Write(append(rq, '\n')); e != nil {
			done <- e
			return
		}
		done <- dec.Decode(res)
	}()
	select {
	case e := <-done:
		if e == nil {
			return ""
		}
		// the pipe broke: the process is gone
		state := ""
		if w.cmd != nil {
			w.in.Close()
			if werr := w.cmd.Wait(); werr != nil {
				state = werr.Error()
			}
			w.cmd = nil
		}
		w.Deaths++
		return strings.TrimSpace("died: process ended (" + state + ") " + w.stderr.reason())
	case <-time.After(deadline):
		w.kill()
		w.Deaths++
		return "hang: no answer within " + deadline.String() + ", process killed"
	}
}

// ---- operations of this package ----

type compileArg struct {
	Pkgs []PkgText `json:"pkgs"`
}
type compileRes struct {
	Dump  Dump   `json:"dump"`
	Stage string `json:"stage"`
	Err   string `json:"err"`
}

func init() {
	RegisterWorkerOp("c17.compile", func(raw json.RawMessage) any {
		var a compileArg
		if err := json.Unmarshal(raw, &a); err != nil {
			return compileRes{Stage: "harness", Err: err.Error()}
		}
		d, stage, err := Compile(a.Pkgs)
		r := compileRes{Dump: d, Stage: stage}
		if err != nil {
			r.Err = err.Error()
		}
		return r
	})
	RunWorkerIfRequested("c17")
}

var c17worker = NewIsolated("c17")

// CompileIsolated = Compile in the worker process; stage "died" / "hang" when the process did not survive
func CompileIsolated(pkgs []PkgText) (Dump, string, error) {
	var r compileRes
	if died := c17worker.Call("c17.compile", compileArg{pkgs}, &r, 60*time.Second); died != "" {
		stage := "died"
		if strings.HasPrefix(died, "hang") {
			stage = "hang"
		}
		return Dump{}, stage, fmt.Errorf("%s", died)
	}
	if r.Stage != "ok" {
		return r.Dump, r.Stage, fmt.Errorf("%s", r.Err)
	}
	return r.Dump, r.Stage, nil
}
