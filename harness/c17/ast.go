// Package c17: generated VSQL schemas compiled by the real parser + appdef builder (property C17).
package c17

import (
	"fmt"
	"strings"
)

// The structural schema AST; mirrors coq/theories/C17_Compile/Model.v constructor for constructor.

type QRef struct {
	Pkg  string `json:"p,omitempty"`
	Name string `json:"n"`
}

type DType struct {
	K string  `json:"k"`           // varchar bytes int8 int16 int32 int64 float32 float64 timestamp currency bool blob qname
	N *uint64 `json:"n,omitempty"` // length of varchar / bytes
}

type Field struct {
	Name    string  `json:"name"`
	Type    DType   `json:"type"`
	NotNull bool    `json:"nn,omitempty"`
	Verif   bool    `json:"verif,omitempty"`
	Check   *string `json:"check,omitempty"`
}

type TItem struct {
	Field  *Field  `json:"field,omitempty"`
	Ref    *RefF   `json:"ref,omitempty"`
	Nested *Nested `json:"nested,omitempty"`
	Unique *Unique `json:"unique,omitempty"`
}
type RefF struct {
	Name    string `json:"name"`
	Refs    []QRef `json:"refs"`
	NotNull bool   `json:"nn,omitempty"`
}
type Nested struct {
	Cont  string `json:"cont"`
	Table *Table `json:"table"`
}
type Unique struct {
	CName  *string  `json:"cname,omitempty"`
	Fields []string `json:"fields"`
}
type Table struct {
	Name     string  `json:"name"`
	Abstract bool    `json:"abstract,omitempty"`
	Inh      *QRef   `json:"inh,omitempty"`
	Items    []TItem `json:"items"`
}

type YItem struct {
	Field *Field `json:"field,omitempty"`
	Cont  *YCont `json:"cont,omitempty"`
}
type YCont struct {
	Name    string `json:"name"`
	Type    QRef   `json:"type"`
	NotNull bool   `json:"nn,omitempty"`
}

type VItem struct {
	Name    string `json:"name"`
	Type    *DType `json:"type,omitempty"` // nil: ref field
	Refs    []QRef `json:"refs,omitempty"`
	NotNull bool   `json:"nn,omitempty"`
}
type View struct {
	Name  string   `json:"name"`
	Items []VItem  `json:"items"`
	PK    []string `json:"pk"`
	CC    []string `json:"cc"`
	Of    QRef     `json:"of"`
}

type Trig struct {
	Kind                 string `json:"kind"` // tab exec execparam
	Ins, Upd, Act, Deact bool   `json:",omitempty"`
	Targets              []QRef `json:"targets"`
}
type Proj struct {
	Name    string `json:"name"`
	Sync    bool   `json:"sync,omitempty"`
	Wasm    bool   `json:"wasm,omitempty"`
	Trigs   []Trig `json:"trigs"`
	Intents []QRef `json:"intents,omitempty"`
	Errors  bool   `json:"errors,omitempty"`
}

type FParam struct {
	K string `json:"k"` // none any void def
	Q *QRef  `json:"q,omitempty"`
}
type Func struct {
	Name     string `json:"name"`
	Cmd      bool   `json:"cmd,omitempty"`
	Wasm     bool   `json:"wasm,omitempty"`
	Param    FParam `json:"param"`
	Unlogged FParam `json:"unlogged"`
	Result   FParam `json:"result"`
}

type Rate struct {
	Name   string  `json:"name"`
	Count  uint64  `json:"count"`
	Amount *uint64 `json:"amount,omitempty"`
	Unit   string  `json:"unit"` // SECOND MINUTE HOUR DAY YEAR
	OScope *bool   `json:"oscope,omitempty"`
	SScope *bool   `json:"sscope,omitempty"`
}

type LFilter struct {
	Mode string `json:"mode"` // single all each
	Kind string `json:"kind"` // records command query view
	Q    *QRef  `json:"q,omitempty"`
}
type Limit struct {
	Name   string   `json:"name"`
	Acts   []string `json:"acts,omitempty"`
	Filter LFilter  `json:"filter"`
	Rate   QRef     `json:"rate"`
}

type GAct struct {
	Op   string   `json:"op"`
	Cols []string `json:"cols,omitempty"`
}
type GWhat struct {
	K    string   `json:"k"` // role cmd query view allcmds allqueries allviews alltables tableall table
	Q    *QRef    `json:"q,omitempty"`
	Cols []string `json:"cols,omitempty"`
	All  bool     `json:"all,omitempty"`  // alltables: ALL
	Ops  []string `json:"ops,omitempty"`  // alltables: operation list
	Acts []GAct   `json:"acts,omitempty"` // table
}
type Grant struct {
	Revoke bool  `json:"revoke,omitempty"`
	What   GWhat `json:"what"`
	Role   QRef  `json:"role"`
}

type WsItem struct {
	Table *Table  `json:"table,omitempty"`
	Type  *TypeD  `json:"type,omitempty"`
	View  *View   `json:"view,omitempty"`
	Proj  *Proj   `json:"proj,omitempty"`
	Func  *Func   `json:"func,omitempty"`
	Role  *Role   `json:"role,omitempty"`
	Rate  *Rate   `json:"rate,omitempty"`
	Limit *Limit  `json:"limit,omitempty"`
	Grant *Grant  `json:"grant,omitempty"`
	Use   *string `json:"use,omitempty"`
}
type TypeD struct {
	Name  string  `json:"name"`
	Items []YItem `json:"items"`
}
type Role struct {
	Name      string `json:"name"`
	Published bool   `json:"published,omitempty"`
}

type Ws struct {
	Name     string      `json:"name"`
	Abstract bool        `json:"abstract,omitempty"`
	Inh      []QRef      `json:"inh,omitempty"`
	Desc     *[]DescItem `json:"desc,omitempty"`
	Items    []WsItem    `json:"items"`
}

// DescItem: a member of a workspace descriptor - a plain field (the embedded Field, same JSON as before) or a
// reference field
type DescItem struct {
	Field
	Ref *RefF `json:"ref,omitempty"`
}

func (d DescItem) MemberName() string {
	if d.Ref != nil {
		return d.Ref.Name
	}
	return d.Name
}

type Pkg struct {
	Name  string `json:"name"`
	Files [][]Ws `json:"files"`
}
type Schema []Pkg

// ---------------------------------------------------------------- rendering (mirror of Model.v `render`)

func rNum(n uint64) string { return fmt.Sprintf("%d", n) }
func rQRef(q QRef) string {
	if q.Pkg == "" {
		return q.Name
	}
	return q.Pkg + "." + q.Name
}
func rLen(n *uint64) string {
	if n == nil {
		return ""
	}
	return "(" + rNum(*n) + ")"
}
func rDType(d DType) string {
	switch d.K {
	case "varchar", "bytes":
		return d.K + rLen(d.N)
	}
	return d.K
}
func rNN(b bool) string {
	if b {
		return " NOT NULL"
	}
	return ""
}
func rField(f Field) string {
	s := f.Name + " " + rDType(f.Type) + rNN(f.NotNull)
	if f.Verif {
		s += " VERIFIABLE"
	}
	if f.Check != nil {
		s += " CHECK '" + *f.Check + "'"
	}
	return s
}
func mapQ(l []QRef) []string {
	r := make([]string, len(l))
	for i, q := range l {
		r[i] = rQRef(q)
	}
	return r
}
func rRefs(l []QRef) string {
	if len(l) == 0 {
		return "ref"
	}
	return "ref(" + strings.Join(mapQ(l), ", ") + ")"
}
func rParen(l []string) string { return "(" + strings.Join(l, ", ") + ")" }

func rTable(t *Table) string {
	s := ""
	if t.Abstract {
		s += "ABSTRACT "
	}
	s += "TABLE " + t.Name
	if t.Inh != nil {
		s += " INHERITS " + rQRef(*t.Inh)
	}
	its := []string{}
	for _, it := range t.Items {
		switch {
		case it.Field != nil:
			its = append(its, rField(*it.Field))
		case it.Ref != nil:
			its = append(its, it.Ref.Name+" "+rRefs(it.Ref.Refs)+rNN(it.Ref.NotNull))
		case it.Nested != nil:
			its = append(its, it.Nested.Cont+" "+rTable(it.Nested.Table))
		case it.Unique != nil:
			c := ""
			if it.Unique.CName != nil {
				c = "CONSTRAINT " + *it.Unique.CName + " "
			}
			its = append(its, c+"UNIQUE "+rParen(it.Unique.Fields))
		}
	}
	return s + " " + rParen(its)
}

func rYItem(y YItem) string {
	if y.Field != nil {
		return rField(*y.Field)
	}
	return y.Cont.Name + " " + rQRef(y.Cont.Type) + rNN(y.Cont.NotNull)
}
func rVItem(v VItem) string {
	if v.Type != nil {
		return v.Name + " " + rDType(*v.Type) + rNN(v.NotNull)
	}
	return v.Name + " " + rRefs(v.Refs) + rNN(v.NotNull)
}
func rView(v *View) string {
	its := []string{}
	for _, i := range v.Items {
		its = append(its, rVItem(i))
	}
	pk := "PRIMARY KEY ("
	if len(v.PK) == 0 { // no partition key group
		pk += strings.Join(v.CC, ", ")
	} else {
		pk += rParen(v.PK)
		if len(v.CC) > 0 {
			pk += ", " + strings.Join(v.CC, ", ")
		}
	}
	pk += ")"
	its = append(its, pk)
	return "VIEW " + v.Name + " " + rParen(its) + " AS RESULT OF " + rQRef(v.Of)
}
func rEngine(wasm bool, s string) string {
	e := "BUILTIN"
	if wasm {
		e = "WASM"
	}
	return "EXTENSION ENGINE " + e + " ( " + s + "; )"
}
func rTargets(l []QRef) string {
	if len(l) == 1 {
		return rQRef(l[0])
	}
	return rParen(mapQ(l))
}
func rTrig(t Trig) string {
	switch t.Kind {
	case "tab":
		a := []string{}
		if t.Ins {
			a = append(a, "INSERT")
		}
		if t.Upd {
			a = append(a, "UPDATE")
		}
		if t.Act {
			a = append(a, "ACTIVATE")
		}
		if t.Deact {
			a = append(a, "DEACTIVATE")
		}
		return "AFTER " + strings.Join(a, " OR ") + " ON " + rTargets(t.Targets)
	case "exec":
		return "AFTER EXECUTE ON " + rTargets(t.Targets)
	}
	return "AFTER EXECUTE WITH PARAM ON " + rTargets(t.Targets)
}
func rProj(p *Proj) string {
	s := ""
	if p.Sync {
		s += "SYNC "
	}
	tt := []string{}
	for _, t := range p.Trigs {
		tt = append(tt, rTrig(t))
	}
	s += "PROJECTOR " + p.Name + " " + strings.Join(tt, " OR ")
	if len(p.Intents) > 0 {
		s += " INTENTS(sys.View" + rParen(mapQ(p.Intents)) + ")"
	}
	if p.Errors {
		s += " INCLUDING ERRORS"
	}
	return rEngine(p.Wasm, s)
}
func rFParam(x FParam) string {
	switch x.K {
	case "any", "void":
		return x.K
	case "def":
		return rQRef(*x.Q)
	}
	return ""
}
func rFunc(f *Func) string {
	s := "QUERY "
	if f.Cmd {
		s = "COMMAND "
	}
	s += f.Name
	if !(f.Param.K == "none" && f.Unlogged.K == "none") {
		s += "(" + rFParam(f.Param)
		if f.Unlogged.K != "none" {
			if f.Param.K != "none" {
				s += ", "
			}
			s += "UNLOGGED " + rFParam(f.Unlogged)
		}
		s += ")"
	}
	if f.Result.K != "none" {
		s += " RETURNS " + rFParam(f.Result)
	}
	return rEngine(f.Wasm, s)
}
func rRate(r *Rate) string {
	s := "RATE " + r.Name + " " + rNum(r.Count) + " PER "
	if r.Amount != nil {
		s += rNum(*r.Amount) + " "
	}
	s += r.Unit
	if r.OScope != nil {
		if *r.OScope {
			s += " PER APP PARTITION"
		} else {
			s += " PER WORKSPACE"
		}
	}
	if r.SScope != nil {
		if *r.SScope {
			s += " PER SUBJECT"
		} else {
			s += " PER IP"
		}
	}
	return s
}

var fk1 = map[string]string{"records": "TABLE", "command": "COMMAND", "query": "QUERY", "view": "VIEW"}
var fkn = map[string]string{"records": "TABLES", "command": "COMMANDS", "query": "QUERIES", "view": "VIEWS"}

func rLimit(l *Limit) string {
	s := "LIMIT " + l.Name + " "
	if len(l.Acts) > 0 {
		s += strings.Join(l.Acts, ", ") + " "
	}
	switch l.Filter.Mode {
	case "single":
		s += "ON " + fk1[l.Filter.Kind] + " " + rQRef(*l.Filter.Q)
	case "all":
		s += "ON ALL " + fkn[l.Filter.Kind]
	default:
		s += "ON EACH " + fk1[l.Filter.Kind]
	}
	return s + " WITH RATE " + rQRef(l.Rate)
}
func rCols(l []string) string {
	if len(l) == 0 {
		return ""
	}
	return rParen(l)
}
func rGWhat(g GWhat) string {
	switch g.K {
	case "role":
		return rQRef(*g.Q)
	case "cmd":
		return "EXECUTE ON COMMAND " + rQRef(*g.Q)
	case "query":
		return "EXECUTE ON QUERY " + rQRef(*g.Q)
	case "view":
		return "SELECT" + rCols(g.Cols) + " ON VIEW " + rQRef(*g.Q)
	case "allcmds":
		return "EXECUTE ON ALL COMMANDS"
	case "allqueries":
		return "EXECUTE ON ALL QUERIES"
	case "allviews":
		return "SELECT ON ALL VIEWS"
	case "alltables":
		if g.All {
			return "ALL ON ALL TABLES"
		}
		return strings.Join(g.Ops, ", ") + " ON ALL TABLES"
	case "tableall":
		return "ALL" + rCols(g.Cols) + " ON TABLE " + rQRef(*g.Q)
	}
	aa := []string{}
	for _, a := range g.Acts {
		aa = append(aa, a.Op+rCols(a.Cols))
	}
	return strings.Join(aa, ", ") + " ON TABLE " + rQRef(*g.Q)
}
func rGrant(g *Grant) string {
	if g.Revoke {
		return "REVOKE " + rGWhat(g.What) + " FROM " + rQRef(g.Role)
	}
	return "GRANT " + rGWhat(g.What) + " TO " + rQRef(g.Role)
}
func rWsItem(i WsItem) string {
	switch {
	case i.Table != nil:
		return rTable(i.Table)
	case i.Type != nil:
		ys := []string{}
		for _, y := range i.Type.Items {
			ys = append(ys, rYItem(y))
		}
		return "TYPE " + i.Type.Name + " " + rParen(ys)
	case i.View != nil:
		return rView(i.View)
	case i.Proj != nil:
		return rProj(i.Proj)
	case i.Func != nil:
		return rFunc(i.Func)
	case i.Role != nil:
		if i.Role.Published {
			return "PUBLISHED ROLE " + i.Role.Name
		}
		return "ROLE " + i.Role.Name
	case i.Rate != nil:
		return rRate(i.Rate)
	case i.Limit != nil:
		return rLimit(i.Limit)
	case i.Grant != nil:
		return rGrant(i.Grant)
	}
	return "USE WORKSPACE " + *i.Use
}
func rWs(w Ws) string {
	s := ""
	if w.Abstract {
		s += "ABSTRACT "
	}
	s += "WORKSPACE " + w.Name
	if len(w.Inh) > 0 {
		s += " INHERITS " + strings.Join(mapQ(w.Inh), ", ")
	}
	s += " (\n"
	if w.Desc != nil {
		fs := []string{}
		for _, f := range *w.Desc {
			if f.Ref != nil {
				fs = append(fs, f.Ref.Name+" "+rRefs(f.Ref.Refs)+rNN(f.Ref.NotNull))
			} else {
				fs = append(fs, rField(f.Field))
			}
		}
		s += "  DESCRIPTOR " + rParen(fs) + ";\n"
	}
	for _, i := range w.Items {
		s += "  " + rWsItem(i) + ";\n"
	}
	return s + ");\n"
}
func pkgPath(n string) string { return "github.com/verif/" + n }

// Render produces the packages handed to the compiler
func Render(a Schema) []PkgText {
	res := []PkgText{}
	for pi, p := range a {
		header := ""
		for _, q := range a[pi+1:] {
			header += "IMPORT SCHEMA '" + pkgPath(q.Name) + "';\n"
		}
		if pi == 0 {
			header += "APPLICATION " + p.Name + " ("
			for _, q := range a[1:] {
				header += " USE " + q.Name + ";"
			}
			header += " );\n"
		}
		files := p.Files
		if len(files) == 0 {
			files = [][]Ws{{}}
		}
		texts := []string{}
		for fi, f := range files {
			s := ""
			if fi == 0 {
				s = header
			}
			for _, w := range f {
				s += rWs(w)
			}
			texts = append(texts, s)
		}
		res = append(res, PkgText{Path: pkgPath(p.Name), Files: texts})
	}
	return res
}
