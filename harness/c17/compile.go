package c17

import (
	_ "embed"
	"encoding/json"
	"fmt"
	"sort"
	"strings"

	"github.com/voedger/voedger/pkg/appdef"
	"github.com/voedger/voedger/pkg/appdef/builder"
	"github.com/voedger/voedger/pkg/parser"
)

// the fixed system package every generated application is compiled with (a copy of the schema
// the parser's own tests use as `sys`); the property is judged on the user packages only, the
// compiled sys part is compared with the sys part of an empty application (`sys_unchanged`).
//
//go:embed sys.vsql
var sysVSQL string

// PkgText is one package as handed to the compiler: import path + the texts of its files
type PkgText struct {
	Path  string   `json:"path"`
	Files []string `json:"files"`
}

// ---- canonical dump of the compiled definition (user packages only) ----

type DField struct {
	Name     string   `json:"n"`
	Kind     string   `json:"k"`
	Required bool     `json:"req,omitempty"`
	Sys      bool     `json:"sys,omitempty"`
	Verify   bool     `json:"ver,omitempty"`
	MaxLen   int      `json:"max"` // -1: no MaxLen constraint on the field's data type
	Pattern  string   `json:"pat,omitempty"`
	Refs     []string `json:"refs"` // nil: not a reference field; empty: reference to anything
}

type DContainer struct {
	Name string `json:"n"`
	Type string `json:"t"`
	Min  int    `json:"min"`
	Max  int    `json:"max"`
}

type DUnique struct {
	Name   string   `json:"n"`
	Fields []string `json:"f"`
}

// DFilter: K = Q (qnames) | T (types) | WT (types of a workspace) | AND (types & one qname) | other
type DFilter struct {
	K string   `json:"k"`
	Q []string `json:"q,omitempty"`
	T string   `json:"t,omitempty"` // records | command | query | view | raw kind list
	W string   `json:"w,omitempty"`
	S string   `json:"s,omitempty"` // textual form when K = other
}

type DRule struct {
	Policy string   `json:"p"`
	Ops    []string `json:"ops"`
	Filter DFilter  `json:"flt"`
	Fields []string `json:"f,omitempty"`
	Role   string   `json:"role"`
}

type DItem struct {
	Class   string `json:"class"` // ws | struct | view | func | role | rate | limit | tag | proj
	Comment string `json:"cmt,omitempty"`
	QName   string `json:"q"`
	Kind    string `json:"kind,omitempty"`
	WS      string `json:"ws,omitempty"`
	// ws
	Abstract   bool     `json:"abstract,omitempty"`
	Ancestors  []string `json:"anc,omitempty"`        // ALL ancestors: the closure of IWorkspace.Ancestors() (sys.Workspace only when there is no other)
	DirectAnc  []string `json:"direct_anc,omitempty"` // IWorkspace.Ancestors() as enumerated
	Descriptor string   `json:"desc,omitempty"`
	Used       []string `json:"used,omitempty"`
	ACL        []DRule  `json:"acl,omitempty"`
	// struct
	Singleton   bool         `json:"singleton,omitempty"`
	Fields      []DField     `json:"fields,omitempty"`
	Containers  []DContainer `json:"conts,omitempty"`
	Uniques     []DUnique    `json:"uniq,omitempty"`
	UniqueField string       `json:"ufield,omitempty"`
	Tags        []string     `json:"tags,omitempty"`
	// view
	PartKey   []DField `json:"pk,omitempty"`
	ClustCols []DField `json:"cc,omitempty"`
	Value     []DField `json:"val,omitempty"`
	// func
	Param    string `json:"param,omitempty"`
	Unlogged string `json:"unlogged,omitempty"`
	Result   string `json:"result,omitempty"`
	Engine   string `json:"engine,omitempty"`
	// role
	Published bool `json:"published,omitempty"`
	// rate
	Count  uint32   `json:"count,omitempty"`
	Period int64    `json:"period_s,omitempty"`
	Scopes []string `json:"scopes,omitempty"`
	// limit
	Ops     []string `json:"ops,omitempty"`
	Option  string   `json:"opt,omitempty"`
	Filter  *DFilter `json:"flt,omitempty"`
	Feature string   `json:"feature,omitempty"`
	Rate    string   `json:"rate,omitempty"`
	// projector
	Sync    bool     `json:"sync,omitempty"`
	Events  []DRule  `json:"events,omitempty"`
	Intents []string `json:"intents,omitempty"`
	States  []string `json:"states,omitempty"`
}

type Dump struct {
	Items []DItem `json:"items"`
	// the same with the rules of every sys workspace sorted (Go map order of one statement's rules)
	SysDigestCanon string `json:"sys_digest_canon,omitempty"`
	// digest of IAppDef.ACL(): the application-wide rule list in its order
	AppACLDigest string `json:"app_acl_digest,omitempty"`
	// digest of everything in package sys (types, workspaces, ACL): must equal the digest of an
	// application that declares nothing
	SysDigest string `json:"sys_digest"`
}

func qn(q appdef.QName) string {
	if q == appdef.NullQName {
		return ""
	}
	return q.String()
}

func typeName(t appdef.IType) string {
	if t == nil || t == appdef.NullType {
		return ""
	}
	return t.QName().String()
}

func qnames(qq []appdef.QName) []string {
	r := make([]string, 0, len(qq))
	for _, q := range qq {
		r = append(r, q.String())
	}
	return r
}

func opsStr(ops []appdef.OperationKind) []string {
	r := make([]string, 0, len(ops))
	for _, o := range ops {
		r = append(r, o.TrimString())
	}
	return r
}

// filterStr renders a filter structurally (kind + arguments), never via its String()
func filterStr(f appdef.IFilter) string {
	if f == nil {
		return "nil"
	}
	switch f.Kind() {
	case appdef.FilterKind_QNames:
		return "Q(" + strings.Join(qnames(f.QNames()), ",") + ")"
	case appdef.FilterKind_Types:
		tt := []string{}
		for _, k := range f.Types() {
			tt = append(tt, k.TrimString())
		}
		if ws := f.WS(); ws != appdef.NullQName {
			return "WT(" + ws.String() + ";" + strings.Join(tt, ",") + ")"
		}
		return "T(" + strings.Join(tt, ",") + ")"
	case appdef.FilterKind_Tags:
		return "G(" + strings.Join(qnames(f.Tags()), ",") + ")"
	case appdef.FilterKind_And:
		ss := []string{}
		for _, c := range f.And() {
			ss = append(ss, filterStr(c))
		}
		return "AND(" + strings.Join(ss, "&") + ")"
	case appdef.FilterKind_Or:
		ss := []string{}
		for _, c := range f.Or() {
			ss = append(ss, filterStr(c))
		}
		return "OR(" + strings.Join(ss, "|") + ")"
	case appdef.FilterKind_Not:
		return "NOT(" + filterStr(f.Not()) + ")"
	case appdef.FilterKind_True:
		return "TRUE"
	}
	return fmt.Sprintf("?%d", f.Kind())
}

func kindsName(kk []appdef.TypeKind) string {
	tt := []string{}
	for _, k := range kk {
		tt = append(tt, k.TrimString())
	}
	switch s := strings.Join(tt, ","); s {
	case "GDoc,CDoc,ODoc,WDoc,GRecord,CRecord,ORecord,WRecord":
		return "records"
	case "Command":
		return "command"
	case "Query":
		return "query"
	case "ViewRecord":
		return "view"
	default:
		return s
	}
}

func dumpFilter(f appdef.IFilter) DFilter {
	if f == nil {
		return DFilter{K: "other", S: "nil"}
	}
	switch f.Kind() {
	case appdef.FilterKind_QNames:
		return DFilter{K: "Q", Q: qnames(f.QNames())}
	case appdef.FilterKind_Types:
		if ws := f.WS(); ws != appdef.NullQName {
			return DFilter{K: "WT", W: ws.String(), T: kindsName(f.Types())}
		}
		return DFilter{K: "T", T: kindsName(f.Types())}
	case appdef.FilterKind_And:
		cc := f.And()
		if len(cc) == 2 && cc[0].Kind() == appdef.FilterKind_Types && cc[0].WS() == appdef.NullQName &&
			cc[1].Kind() == appdef.FilterKind_QNames && len(cc[1].QNames()) == 1 {
			return DFilter{K: "AND", T: kindsName(cc[0].Types()), Q: qnames(cc[1].QNames())}
		}
	}
	return DFilter{K: "other", S: filterStr(f)}
}

func dumpField(f appdef.IField) DField {
	d := DField{Name: f.Name(), Kind: f.DataKind().TrimString(), Required: f.Required(), Sys: f.IsSys(), Verify: f.Verifiable(), MaxLen: -1}
	for k, c := range f.Constraints() {
		switch k {
		case appdef.ConstraintKind_MaxLen:
			d.MaxLen = int(c.Value().(uint16))
		case appdef.ConstraintKind_Pattern:
			d.Pattern = fmt.Sprint(c.Value())
		default:
			d.Pattern += fmt.Sprintf("?constraint%d", k)
		}
	}
	if rf, ok := f.(appdef.IRefField); ok {
		d.Refs = qnames(rf.Refs())
		if d.Refs == nil {
			d.Refs = []string{}
		}
	}
	return d
}

func dumpFields(ff []appdef.IField) []DField {
	r := make([]DField, 0, len(ff))
	for _, f := range ff {
		r = append(r, dumpField(f))
	}
	return r
}

func tagsOf(t appdef.IType) []string {
	r := []string{}
	for _, g := range t.Tags() {
		r = append(r, g.QName().String())
	}
	sort.Strings(r)
	return r
}

func storagesStr(s appdef.IStorages) []string {
	r := []string{}
	for _, n := range s.Names() {
		r = append(r, n.String()+"("+strings.Join(qnames(s.Storage(n).Names()), ",")+")")
	}
	return r
}

func dumpRule(r appdef.IACLRule) DRule {
	d := DRule{Policy: r.Policy().TrimString(), Ops: opsStr(r.Ops()), Filter: dumpFilter(r.Filter()), Role: r.Principal().QName().String()}
	if r.Filter().HasFields() {
		d.Fields = append([]string{}, r.Filter().Fields()...)
	}
	return d
}

func dumpType(t appdef.IType) (DItem, bool) {
	it := DItem{QName: t.QName().String(), Kind: t.Kind().TrimString()}
	if c := t.Comment(); len(c) > 0 {
		it.Comment = fmt.Sprint(c) // not part of the model; compared between compilations (determinism)
	}
	if w := t.Workspace(); w != nil {
		it.WS = w.QName().String()
	}
	switch v := t.(type) {
	case appdef.IWorkspace:
		it.Class = "ws"
		it.WS = ""
		it.Abstract = v.Abstract()
		for _, a := range v.Ancestors() {
			it.DirectAnc = append(it.DirectAnc, a.QName().String())
		}
		seen := map[string]bool{}
		var walk func(w appdef.IWorkspace)
		walk = func(w appdef.IWorkspace) {
			for _, a := range w.Ancestors() {
				if n := a.QName().String(); n != "sys.Workspace" && !seen[n] {
					seen[n] = true
					it.Ancestors = append(it.Ancestors, n)
					walk(a)
				}
			}
		}
		walk(v)
		sort.Strings(it.Ancestors)
		if len(it.Ancestors) == 0 {
			it.Ancestors = append([]string{}, it.DirectAnc...) // sys.Workspace, the default
		}
		it.Descriptor = qn(v.Descriptor())
		for _, u := range v.UsedWorkspaces() {
			it.Used = append(it.Used, u.QName().String())
		}
		rr := []DRule{}
		for _, r := range v.ACL() {
			rr = append(rr, dumpRule(r))
		}
		it.ACL = rr
	case appdef.IView:
		it.Class = "view"
		it.PartKey = dumpFields(v.Key().PartKey().Fields())
		it.ClustCols = dumpFields(v.Key().ClustCols().Fields())
		it.Value = dumpFields(v.Value().Fields())
		it.Tags = tagsOf(t)
	case appdef.IStructure:
		it.Class = "struct"
		it.Abstract = v.Abstract()
		if s, ok := t.(appdef.ISingleton); ok {
			it.Singleton = s.Singleton()
		}
		it.Fields = dumpFields(v.Fields())
		for _, c := range v.Containers() {
			it.Containers = append(it.Containers, DContainer{c.Name(), c.QName().String(), int(c.MinOccurs()), int(c.MaxOccurs())})
		}
		for n, u := range v.Uniques() {
			du := DUnique{Name: n.String()}
			for _, f := range u.Fields() {
				du.Fields = append(du.Fields, f.Name())
			}
			it.Uniques = append(it.Uniques, du)
		}
		sort.Slice(it.Uniques, func(a, b int) bool { return it.Uniques[a].Name < it.Uniques[b].Name })
		if f := v.UniqueField(); f != nil {
			it.UniqueField = f.Name()
		}
		it.Tags = tagsOf(t)
	case appdef.IProjector:
		it.Class = "proj"
		it.Sync = v.Sync()
		it.Engine = v.Engine().TrimString()
		for _, e := range v.Events() {
			it.Events = append(it.Events, DRule{Ops: opsStr(e.Ops()), Filter: dumpFilter(e.Filter())})
		}
		it.Intents = storagesStr(v.Intents())
		it.States = storagesStr(v.States())
		if v.WantErrors() {
			it.Option = "errors"
		}
	case appdef.IFunction:
		it.Class = "func"
		it.Param = typeName(v.Param())
		it.Result = typeName(v.Result())
		if c, ok := t.(appdef.ICommand); ok {
			it.Unlogged = typeName(c.UnloggedParam())
		}
		it.Engine = v.Engine().TrimString()
		it.Tags = tagsOf(t)
		it.Intents = storagesStr(v.Intents())
		it.States = storagesStr(v.States())
	case appdef.IRole:
		it.Class = "role"
		it.Published = v.Published()
	case appdef.IRate:
		it.Class = "rate"
		it.Count = v.Count()
		it.Period = int64(v.Period().Seconds())
		for _, s := range v.Scopes() {
			it.Scopes = append(it.Scopes, s.TrimString())
		}
	case appdef.ILimit:
		it.Class = "limit"
		it.Ops = opsStr(v.Ops())
		it.Option = v.Filter().Option().TrimString()
		f := dumpFilter(v.Filter())
		it.Filter = &f
		it.Rate = v.Rate().QName().String()
	case appdef.ITag:
		it.Class = "tag"
		it.Feature = v.Feature()
	default:
		it.Class = "other"
	}
	return it, true
}

func dumpApp(app appdef.IAppDef) Dump {
	d := Dump{Items: []DItem{}}
	var sys, sysCanon []string
	for _, t := range app.Types() {
		it, _ := dumpType(t)
		if t.QName().Pkg() == appdef.SysPackage {
			js, _ := json.Marshal(it) // not %+v: the item holds a pointer
			sys = append(sys, string(js))
			if len(it.ACL) > 1 {
				acl := append([]DRule{}, it.ACL...)
				sort.SliceStable(acl, func(i, j int) bool { return fmt.Sprint(acl[i]) < fmt.Sprint(acl[j]) })
				it.ACL = acl
				js, _ = json.Marshal(it)
			}
			sysCanon = append(sysCanon, string(js))
			continue
		}
		d.Items = append(d.Items, it)
	}
	// the application-level rule list is in creation order over all workspaces (Go map order over
	// packages); the order that matters is the one inside each workspace item
	sort.Strings(sys)
	sort.Strings(sysCanon)
	d.SysDigest = digest(strings.Join(sys, "\n"))
	d.SysDigestCanon = digest(strings.Join(sysCanon, "\n"))
	var all []string
	for _, r := range app.ACL() {
		js, _ := json.Marshal(dumpRule(r))
		all = append(all, r.Workspace().QName().String()+" "+string(js))
	}
	d.AppACLDigest = digest(strings.Join(all, "\n"))
	return d
}

func digest(s string) string {
	var h uint64 = 1469598103934665603
	for i := 0; i < len(s); i++ {
		h ^= uint64(s[i])
		h *= 1099511628211
	}
	return fmt.Sprintf("%016x", h)
}

// Compile runs the real pipeline: ParseFile per file, BuildPackageSchema per package,
// BuildAppSchema over sys + packages, BuildAppDefs into a fresh builder, builder.Build.
// A panic anywhere is reported as stage "panic".
func Compile(pkgs []PkgText) (d Dump, stage string, err error) {
	defer func() {
		if r := recover(); r != nil {
			stage, err = "panic", fmt.Errorf("panic: %v", r)
		}
	}()
	all := append([]PkgText{{Path: appdef.SysPackage, Files: []string{sysVSQL}}}, pkgs...)
	var asts []*parser.PackageSchemaAST
	for _, p := range all {
		var files []*parser.FileSchemaAST
		for i, txt := range p.Files {
			f, e := parser.ParseFile(fmt.Sprintf("f%d.vsql", i), txt)
			if e != nil {
				return d, "parse", e
			}
			files = append(files, f)
		}
		pa, e := parser.BuildPackageSchema(p.Path, files)
		if e != nil {
			return d, "package", e
		}
		asts = append(asts, pa)
	}
	app, e := parser.BuildAppSchema(asts)
	if e != nil {
		return d, "analyse", e
	}
	b := builder.New()
	if e := parser.BuildAppDefs(app, b); e != nil {
		return d, "build", e
	}
	def, e := b.Build()
	if e != nil {
		return d, "validate", e
	}
	return dumpApp(def), "ok", nil
}
