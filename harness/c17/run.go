package c17

import (
	"encoding/json"
	"fmt"
	"os"
	"path/filepath"
	"reflect"
	"sort"
	"strings"

	"verifharness/kit"
)

func init() {
	kit.Register("C17", kit.Runner{Generate: Generate, Replay: Replay})
}

type caseFile struct {
	Schema Schema `json:"schema"`
	Note   string `json:"note,omitempty"`
	Kind   string `json:"kind,omitempty"` // valid | malformed:<mutation>
}

var sysBaseline string

func baseline() string {
	if sysBaseline == "" {
		d, stage, err := CompileIsolated(Render(Schema{{Name: "app0", Files: [][]Ws{{}}}}))
		if stage != "ok" {
			panic(fmt.Sprintf("empty application does not compile: %s %v", stage, err))
		}
		sysBaseline = d.SysDigestCanon
	}
	return sysBaseline
}

func observe(texts []PkgText) Observed {
	d1, stage, err := CompileIsolated(texts)
	o := Observed{Stage: stage}
	if err != nil {
		o.Err = err.Error()
		if len(o.Err) > 600 {
			o.Err = o.Err[:600]
		}
	}
	if stage != "ok" {
		return o
	}
	d2, stage2, _ := CompileIsolated(texts)
	o.Dump = &d1
	o.Deterministic = stage2 == "ok" && reflect.DeepEqual(canon(d1), canon(d2))
	o.SysUnchanged = d1.SysDigestCanon == baseline()
	return o
}

// the order of the rules one statement expands to depends on Go map order: two compilations are
// compared with each ACL sorted
func canon(d Dump) Dump {
	c := Dump{SysDigest: d.SysDigestCanon, SysDigestCanon: d.SysDigestCanon, AppACLDigest: ""}
	for _, it := range d.Items {
		if len(it.ACL) > 0 {
			acl := append([]DRule{}, it.ACL...)
			sort.SliceStable(acl, func(i, j int) bool { return fmt.Sprint(acl[i]) < fmt.Sprint(acl[j]) })
			it.ACL = acl
		}
		c.Items = append(c.Items, it)
	}
	return c
}

// ---- tags computed from the observed behaviour ----

func allTables(a Schema, f func(p *Pkg, w *Ws, root *Table, t *Table, nested bool)) {
	for pi := range a {
		for fi := range a[pi].Files {
			for wi := range a[pi].Files[fi] {
				w := &a[pi].Files[fi][wi]
				for ii := range w.Items {
					if t := w.Items[ii].Table; t != nil {
						var walk func(x *Table, nested bool)
						walk = func(x *Table, nested bool) {
							f(&a[pi], w, t, x, nested)
							for k := range x.Items {
								if n := x.Items[k].Nested; n != nil {
									walk(n.Table, true)
								}
							}
						}
						walk(t, false)
					}
				}
			}
		}
	}
}

func findRoot(a Schema, pkg, name string) *Table {
	var res *Table
	allTables(a, func(p *Pkg, w *Ws, root, t *Table, nested bool) {
		if !nested && p.Name == pkg && t.Name == name {
			res = t
		}
	})
	return res
}

func findingTags(a Schema, o Observed) []string {
	var tags []string
	if o.Stage == "panic" && strings.Contains(o.Err, "already exists: unique") {
		tags = append(tags, "F23:unique-autoname-collision-panic")
	}
	if o.Stage == "ok" {
		// F24: a nested table that INHERITS a user table lacks a member its parent declares
		fields := map[string]map[string]bool{}
		for _, it := range o.Dump.Items {
			if it.Class == "struct" {
				m := map[string]bool{}
				for _, f := range it.Fields {
					m[f.Name] = true
				}
				for _, c := range it.Containers {
					m[c.Name] = true
				}
				fields[it.QName] = m
			}
		}
		hit := false
		allTables(a, func(p *Pkg, w *Ws, root, t *Table, nested bool) {
			if !nested || t.Inh == nil || t.Inh.Pkg == "sys" {
				return
			}
			pp := t.Inh.Pkg
			if pp == "" {
				pp = p.Name
			}
			parent := findRoot(a, pp, t.Inh.Name)
			got := fields[p.Name+"."+t.Name]
			if parent == nil || got == nil {
				return
			}
			for _, it := range parent.Items {
				switch {
				case it.Field != nil && !got[it.Field.Name], it.Ref != nil && !got[it.Ref.Name], it.Nested != nil && !got[it.Nested.Cont]:
					hit = true
				}
			}
		})
		if hit {
			tags = append(tags, "F24:nested-table-inherited-members-dropped")
		}
		// F25: a view reference field declared with targets was compiled without any
		refs := map[string]int{}
		for _, it := range o.Dump.Items {
			if it.Class == "view" {
				for _, l := range [][]DField{it.PartKey, it.ClustCols, it.Value} {
					for _, f := range l {
						refs[it.QName+"/"+f.Name] = len(f.Refs)
					}
				}
			}
		}
		lost := false
		for _, p := range a {
			for _, f := range p.Files {
				for _, w := range f {
					for _, i := range w.Items {
						if i.View != nil {
							for _, x := range i.View.Items {
								if n, ok := refs[p.Name+"."+i.View.Name+"/"+x.Name]; ok && x.Type == nil && len(x.Refs) > 0 && n == 0 {
									lost = true
								}
							}
						}
					}
				}
			}
		}
		if lost {
			tags = append(tags, "F25:view-ref-targets-dropped")
		}
		// F28: the ACL of a workspace is one block of rules repeated (the statements of an inherited
		// workspace were applied once more for every heir)
		for _, it := range o.Dump.Items {
			if n := len(it.ACL); it.Class == "ws" && n > 1 {
				for k := 2; k <= n; k++ {
					if n%k == 0 {
						rep := true
						for i := n / k; i < n && rep; i++ {
							rep = reflect.DeepEqual(it.ACL[i], it.ACL[i%(n/k)])
						}
						if rep && inheritedWithGrants(a, it.QName) {
							tags = append(tags, "F28:inherited-acl-block-repeated")
							break
						}
					}
				}
			}
		}
		// F29: a reference field of a descriptor declared with targets was compiled without any
		for _, x := range allWs(a) {
			if x.w.Desc == nil {
				continue
			}
			for _, it := range o.Dump.Items {
				if it.QName == x.p.Name+"."+x.w.Name+"Descriptor" {
					for _, d := range *x.w.Desc {
						for _, f := range it.Fields {
							if d.Ref != nil && len(d.Ref.Refs) > 0 && f.Name == d.Ref.Name && len(f.Refs) == 0 {
								tags = append(tags, "F29:descriptor-ref-targets-dropped")
							}
						}
					}
				}
			}
		}
	}
	// F26, F27: the shapes on which the old name resolution goes wrong (it refuses the schema or compiles
	// something else); whether it did is judged by the oracle
	if sameNameInTwoPackages(a) {
		tags = append(tags, "F26:entity-name-in-two-packages")
	}
	if o.Stage != "ok" && unqualifiedInherits(a) {
		tags = append(tags, "F27:unqualified-inherits-refused")
	}
	if descRefTargets(a) {
		tags = append(tags, "shape:descriptor-ref-targets")
	}
	if o.Stage == "ok" && !o.DirectAnc {
		tags = append(tags, "F33:indirect-ancestors-enumerated-as-direct")
	}
	// F30: a struct nobody declared, of the name of a nested table declared in another package
	if o.Stage == "ok" {
		declared := map[string]string{} // nested table name -> declaring package
		allTables(a, func(p *Pkg, w *Ws, root, t *Table, nested bool) {
			if nested {
				declared[t.Name] = p.Name
			}
		})
		have := map[string]bool{}
		allTables(a, func(p *Pkg, w *Ws, root, t *Table, nested bool) { have[p.Name+"."+t.Name] = true })
		for _, it := range o.Dump.Items {
			if i := strings.LastIndex(it.QName, "."); it.Class == "struct" && i > 0 && !have[it.QName] && !strings.HasSuffix(it.QName, "Descriptor") {
				if dp, ok := declared[it.QName[i+1:]]; ok && dp != it.QName[:i] {
					tags = append(tags, "F30:inherited-nested-table-renamed-to-heir-package")
				}
			}
		}
	}
	// F31, F32: refused with exactly these messages
	if o.Stage != "ok" && o.Err != "" {
		only := true
		for _, l := range strings.Split(strings.TrimSpace(o.Err), "\n") {
			only = only && strings.HasSuffix(l, "circular reference in INHERITS")
		}
		if only {
			tags = append(tags, "F31:diamond-below-heir-refused-as-circular")
		}
	}
	if o.Stage != "ok" && strings.Contains(o.Err, "undefined field") && grantsInheritedColumn(a) {
		tags = append(tags, "F32:grant-on-inherited-column-refused")
	}
	return uniqTags(tags)
}

func uniqTags(l []string) []string {
	seen := map[string]bool{}
	var res []string
	for _, t := range l {
		if !seen[t] {
			seen[t] = true
			res = append(res, t)
		}
	}
	return res
}

// is the workspace q inherited by another one, and does it hold grants or revokes?
func inheritedWithGrants(a Schema, q string) bool {
	for _, x := range allWs(a) {
		if x.p.Name+"."+x.w.Name != q {
			continue
		}
		grants := false
		for _, i := range x.w.Items {
			grants = grants || i.Grant != nil
		}
		if !grants {
			return false
		}
		for _, y := range allWs(a) {
			for _, inh := range y.w.Inh {
				pp := inh.Pkg
				if pp == "" {
					pp = y.p.Name
				}
				if pp+"."+inh.Name == q {
					return true
				}
			}
		}
	}
	return false
}

// names_distinct of Model.v, negated: an entity name (workspace, descriptor, table, nested table, type, view,
// function, projector, role, rate, limit) occurs in two packages
func sameNameInTwoPackages(a Schema) bool {
	owner := map[string]string{}
	clash := false
	add := func(pkg, n string) {
		if o, ok := owner[n]; ok && o != pkg {
			clash = true
		}
		owner[n] = pkg
	}
	for _, x := range allWs(a) {
		add(x.p.Name, x.w.Name)
		if !x.w.Abstract {
			add(x.p.Name, x.w.Name+"Descriptor")
		}
		for _, i := range x.w.Items {
			switch {
			case i.Type != nil:
				add(x.p.Name, i.Type.Name)
			case i.View != nil:
				add(x.p.Name, i.View.Name)
			case i.Proj != nil:
				add(x.p.Name, i.Proj.Name)
			case i.Func != nil:
				add(x.p.Name, i.Func.Name)
			case i.Role != nil:
				add(x.p.Name, i.Role.Name)
			case i.Rate != nil:
				add(x.p.Name, i.Rate.Name)
			case i.Limit != nil:
				add(x.p.Name, i.Limit.Name)
			}
		}
	}
	allTables(a, func(p *Pkg, w *Ws, root, t *Table, nested bool) { add(p.Name, t.Name) })
	return clash
}

// inherits_qualified of Model.v, negated
func unqualifiedInherits(a Schema) bool {
	res := false
	for _, x := range allWs(a) {
		for _, q := range x.w.Inh {
			res = res || q.Pkg == ""
		}
	}
	allTables(a, func(p *Pkg, w *Ws, root, t *Table, nested bool) { res = res || (t.Inh != nil && t.Inh.Pkg == "") })
	return res
}

func descRefTargets(a Schema) bool {
	for _, x := range allWs(a) {
		if x.w.Desc != nil {
			for _, d := range *x.w.Desc {
				if d.Ref != nil && len(d.Ref.Refs) > 0 {
					return true
				}
			}
		}
	}
	return false
}

func shape(a Schema) (key string, nontrivial bool, tags []string) {
	nws, nabs, ninh, ntab, nnested, nchild, nview, nfunc, nproj, ngrant, nlimit, maxf := 0, 0, 0, 0, 0, 0, 0, 0, 0, 0, 0, 0
	nfiles := 0
	for _, p := range a {
		nfiles += len(p.Files)
		for _, f := range p.Files {
			for _, w := range f {
				nws++
				if w.Abstract {
					nabs++
				}
				if len(w.Inh) > 0 {
					ninh++
				}
				for _, i := range w.Items {
					switch {
					case i.View != nil:
						nview++
					case i.Func != nil:
						nfunc++
					case i.Proj != nil:
						nproj++
					case i.Grant != nil:
						ngrant++
					case i.Limit != nil || i.Rate != nil:
						nlimit++
					}
				}
			}
		}
	}
	allTables(a, func(p *Pkg, w *Ws, root, t *Table, nested bool) {
		ntab++
		if nested {
			nnested++
		}
		if t.Inh != nil && t.Inh.Pkg != "sys" {
			nchild++
		}
		if len(t.Items) > maxf {
			maxf = len(t.Items)
		}
	})
	key = fmt.Sprintf("p%d f%d w%d a%d i%d t%d n%d c%d v%d fn%d pj%d g%d l%d m%d", len(a), nfiles, nws, nabs, ninh, ntab, nnested, nchild, nview, nfunc, nproj, ngrant, nlimit, maxf)
	nontrivial = ninh > 0 || nnested > 0 || nchild > 0 || len(a) > 1
	tags = []string{fmt.Sprintf("pkgs:%d", len(a))}
	flag := func(b bool, t string) {
		if b {
			tags = append(tags, t)
		}
	}
	flag(nfiles > len(a), "multi-file")
	flag(ninh > 0, "ws-inheritance")
	flag(nchild > 0, "table-inheritance")
	flag(nnested > 0, "nested-tables")
	flag(nview > 0, "views")
	flag(nproj > 0, "projectors")
	flag(nfunc > 0, "functions")
	flag(ngrant > 0, "grants")
	flag(nlimit > 0, "rates-limits")
	flag(maxf >= 7, "wide-table")
	return
}

// is every workspace's Ancestors() the list its INHERITS clause names (sys.Workspace when it names nothing)?
func directAncestorsShown(a Schema, d *Dump) bool {
	got := map[string][]string{}
	for _, it := range d.Items {
		if it.Class == "ws" {
			got[it.QName] = it.DirectAnc
		}
	}
	for _, x := range allWs(a) {
		want := map[string]bool{}
		for _, q := range x.w.Inh {
			pp := q.Pkg
			if pp == "" {
				pp = x.p.Name
			}
			want[pp+"."+q.Name] = true
		}
		if len(want) == 0 {
			want["sys.Workspace"] = true
		}
		g := got[x.p.Name+"."+x.w.Name]
		if len(g) != len(want) {
			return false
		}
		for _, n := range g {
			if !want[n] {
				return false
			}
		}
	}
	return true
}

func runCase(a Schema, kind string, out *kit.Out) {
	texts := Render(a)
	o := observe(texts)
	if o.Stage == "ok" {
		o.DirectAnc = directAncestorsShown(a, o.Dump)
	}
	key, nontrivial, tags := shape(a)
	tags = append(tags, kind, "outcome:"+o.Stage)
	tags = append(tags, findingTags(a, o)...)
	desc := map[string]any{"kind": kind, "schema": a, "texts": texts, "observed": o}
	out.Emit(kit.Case{Coq: cTrace(a, texts, o), Key: kind + " " + key, Nontrivial: nontrivial && o.Stage == "ok", Desc: desc, Tags: tags})
}

func loadCase(path string) (caseFile, error) {
	var c caseFile
	b, err := os.ReadFile(path)
	if err != nil {
		return c, err
	}
	// a replay file written by bin/check wraps the case: {"case": {"desc": {"schema": ...}}}
	var wrap struct {
		Case struct {
			Desc caseFile `json:"desc"`
		} `json:"case"`
	}
	if json.Unmarshal(b, &wrap) == nil && len(wrap.Case.Desc.Schema) > 0 {
		return wrap.Case.Desc, nil
	}
	err = json.Unmarshal(b, &c)
	if err == nil && len(c.Schema) == 0 {
		err = fmt.Errorf("%s: no schema", path)
	}
	return c, err
}

func Replay(path string, out *kit.Out) error {
	c, err := loadCase(path)
	if err != nil {
		return err
	}
	kind := c.Kind
	if kind == "" {
		kind = "valid"
	}
	runCase(c.Schema, kind, out)
	return nil
}

func Generate(seed uint64, n int, tier, corpusDir string, shard int, out *kit.Out) error {
	if corpusDir != "" {
		files, _ := filepath.Glob(filepath.Join(corpusDir, "*.json"))
		sort.Strings(files)
		for _, f := range files {
			c, err := loadCase(f)
			if err != nil {
				return err
			}
			kind := c.Kind
			if kind == "" {
				kind = "valid"
			}
			runCase(c.Schema, "corpus:"+kind, out)
		}
	}
	r := kit.NewRng(seed)
	for i := 0; i < n; i++ {
		cr := r.Fork()
		big := i%5 == 4
		a := GenSchema(cr, big)
		kind := "valid"
		if i%4 == 3 { // the malformed stream: one rule of the language broken in an otherwise valid schema
			if m, ok := Mutate(cr, a); ok {
				kind = "malformed:" + m
			}
		}
		runCase(a, kind, out)
	}
	return nil
}

// does a GRANT ... ON TABLE name a column the table does not declare itself?
func grantsInheritedColumn(a Schema) bool {
	own := map[string]map[string]bool{}
	allTables(a, func(p *Pkg, w *Ws, root, t *Table, nested bool) {
		m := map[string]bool{}
		for _, it := range t.Items {
			switch {
			case it.Field != nil:
				m[it.Field.Name] = true
			case it.Ref != nil:
				m[it.Ref.Name] = true
			}
		}
		own[p.Name+"."+t.Name] = m
	})
	for _, x := range allWs(a) {
		for _, i := range x.w.Items {
			if i.Grant == nil || i.Grant.What.Q == nil || (i.Grant.What.K != "table" && i.Grant.What.K != "tableall") {
				continue
			}
			pp := i.Grant.What.Q.Pkg
			if pp == "" {
				pp = x.p.Name
			}
			m := own[pp+"."+i.Grant.What.Q.Name]
			cols := append([]string{}, i.Grant.What.Cols...)
			for _, act := range i.Grant.What.Acts {
				cols = append(cols, act.Cols...)
			}
			for _, c := range cols {
				if m != nil && !m[c] && !strings.HasPrefix(c, "sys.") {
					return true
				}
			}
		}
	}
	return false
}
