package c17

import (
	"fmt"

	"verifharness/kit"
)

// ---- generator: structural model -> AST (valid by construction), then optional single mutation ----

type tabInfo struct {
	pkg, name string
	kind      string // CDoc ODoc WDoc CRecord ORecord WRecord
	abstract  bool
	root      bool
	members   []string // member names over the whole chain (abstract roots only)
	hasNested bool     // some list of the chain holds a nested table
	single    bool
	cols      []string // field / ref names over the whole chain (root tables)
}
type viewInfo struct {
	pkg, name string
	cols      []string
}
type named struct{ pkg, name string }

// what one workspace declares
type wsInfo struct {
	pkg     string
	ws      *Ws
	anc     []*wsInfo // direct ancestors
	tables  []*tabInfo
	types   []named
	views   []viewInfo
	cmds    []named
	queries []named
	projs   []named
	roles   []named
	rates   []named
	ownCols map[string][]string // table name -> own field/ref names
}

type gen struct {
	r       *kit.Rng
	counter map[string]int // per package name counter
	pkgs    []string
	wss     []*wsInfo // all generated workspaces
	big     bool
	// shapes on which the compiler went wrong before the repairs of F26, F27, F29; at most one of the
	// first two per schema, most schemas have none
	sharedNames bool // entity names are numbered per package: the same name occurs in several packages
	unqualInh   bool // INHERITS of the own package is mostly written without the package
	descRefs    bool // descriptors hold reference fields
	// three more shapes of the same kind (F30, F31 comes by itself, F32)
	foreignNested bool // a table may inherit an abstract table of another package whose items hold nested tables
	inhCols       bool // GRANT ... ON TABLE may name inherited columns
}

func (g *gen) name(pkg, prefix string) string {
	// one counter for the whole application (entity names distinct over all packages), or one per package
	k := ""
	if g.sharedNames {
		k = pkg
	}
	g.counter[k]++
	return fmt.Sprintf("%s%d", prefix, g.counter[k])
}

// all workspaces visible from w (itself, ancestors transitively)
func visible(w *wsInfo) []*wsInfo {
	seen := map[*wsInfo]bool{}
	var res []*wsInfo
	var walk func(x *wsInfo)
	walk = func(x *wsInfo) {
		if seen[x] {
			return
		}
		seen[x] = true
		res = append(res, x)
		for _, a := range x.anc {
			walk(a)
		}
	}
	walk(w)
	return res
}

// the name after INHERITS: package-qualified, or - own package, in a schema of the unqualInh shape - bare
func (g *gen) inhRef(from string, n named) *QRef {
	if g.unqualInh && n.pkg == from && g.r.Chance(2, 3) {
		return &QRef{Name: n.name}
	}
	return &QRef{Pkg: n.pkg, Name: n.name}
}

func (g *gen) ref(from string, n named) QRef {
	if n.pkg == from {
		if g.r.Chance(1, 8) {
			return QRef{Pkg: from, Name: n.name} // own package, qualified
		}
		return QRef{Name: n.name}
	}
	return QRef{Pkg: n.pkg, Name: n.name}
}

var scalarTypes = []string{"int8", "int16", "int32", "int64", "float32", "float64", "timestamp", "currency", "bool", "qname", "varchar", "bytes", "blob"}
var lens = []uint64{1, 2, 20, 255, 256, 1024, 65535}
var regexps = []string{"^[a-z]+$", "^[0-9]{2,4}$", "^a+b*$", ".+@.+"}

func (g *gen) dtype(allowBlob bool) DType {
	for {
		k := kit.Pick(g.r, scalarTypes)
		if k == "blob" && !allowBlob {
			continue
		}
		d := DType{K: k}
		if (k == "varchar" || k == "bytes") && g.r.Chance(2, 3) {
			n := kit.Pick(g.r, lens)
			d.N = &n
		}
		return d
	}
}

func (g *gen) field(name string, allowBlob bool) Field {
	f := Field{Name: name, Type: g.dtype(allowBlob), NotNull: g.r.Chance(1, 3), Verif: g.r.Chance(1, 10)}
	if f.Type.K == "varchar" && g.r.Chance(1, 4) {
		s := kit.Pick(g.r, regexps)
		f.Check = &s
	}
	return f
}

func fieldName(i int) string { return fmt.Sprintf("f%d", i) }

// fresh member name not in `used`
func (g *gen) member(used map[string]bool) string {
	for try := 0; ; try++ {
		n := fieldName(g.r.Intn(40))
		if try > 60 { // the small colliding alphabet is used up (long chains): widen it
			n = fieldName(40 + len(used) + try)
		}
		if !used[n] {
			used[n] = true
			return n
		}
	}
}

func refAllowed(from, to string) bool {
	isO := func(k string) bool { return k == "ODoc" || k == "ORecord" }
	isW := func(k string) bool { return k == "WDoc" || k == "WRecord" }
	isC := func(k string) bool { return k == "CDoc" || k == "CRecord" }
	if isO(from) {
		return true
	}
	if isO(to) {
		return false
	}
	if isC(from) {
		return !isW(to)
	}
	return true
}
func nestedKind(k string) string {
	switch k {
	case "CDoc", "CRecord":
		return "CRecord"
	case "ODoc", "ORecord":
		return "ORecord"
	}
	return "WRecord"
}

// concrete tables visible from w
func concreteTables(w *wsInfo) []*tabInfo {
	var res []*tabInfo
	for _, v := range visible(w) {
		for _, t := range v.tables {
			if !t.abstract {
				res = append(res, t)
			}
		}
	}
	return res
}

// items of one table body; `self` may be referenced (it is being declared)
func (g *gen) tableItems(w *wsInfo, pkg string, kind string, used map[string]bool, depth int, self *tabInfo, nfields int, cols *[]string) (items []TItem, nested []*tabInfo) {
	var fieldNames []string
	targets := concreteTables(w)
	if self != nil && !self.abstract {
		targets = append(targets, self)
	}
	for i := 0; i < nfields; i++ {
		n := g.member(used)
		switch {
		case g.r.Chance(1, 5):
			rf := &RefF{Name: n, NotNull: g.r.Chance(1, 4), Refs: []QRef{}}
			for k := g.r.Intn(3); k > 0 && len(targets) > 0; k-- {
				t := kit.Pick(g.r, targets)
				if refAllowed(kind, t.kind) {
					q := g.ref(pkg, named{t.pkg, t.name})
					dup := false
					for _, x := range rf.Refs {
						dup = dup || x == q
					}
					if !dup {
						rf.Refs = append(rf.Refs, q)
					}
				}
			}
			items = append(items, TItem{Ref: rf})
		default:
			f := g.field(n, true)
			items = append(items, TItem{Field: &f})
		}
		fieldNames = append(fieldNames, n)
	}
	*cols = append(*cols, fieldNames...)
	// nested tables
	if depth < 3 {
		for g.r.Chance(1, 3+2*depth) && len(nested) < 3 {
			nt, more := g.nestedTable(w, pkg, kind, depth+1)
			items = append(items, TItem{Nested: &Nested{Cont: g.member(used), Table: nt}})
			nested = append(nested, more...)
		}
	}
	if len(items) > 1 && g.r.Chance(1, 3) { // interleave declarations
		i, j := g.r.Intn(len(items)), g.r.Intn(len(items))
		items[i], items[j] = items[j], items[i]
	}
	// unique constraints over own fields (declared above them), disjoint
	avail := append([]string{}, fieldNames...)
	for u := 0; u < 2 && len(avail) > 0 && g.r.Chance(1, 4); u++ {
		k := 1 + g.r.Intn(2)
		if k > len(avail) {
			k = len(avail)
		}
		un := &Unique{Fields: append([]string{}, avail[:k]...)}
		avail = avail[k:]
		if g.r.Chance(1, 3) {
			c := g.name(pkg, "uq")
			un.CName = &c
		}
		items = append(items, TItem{Unique: un})
	}
	return items, nested
}

func (g *gen) nestedTable(w *wsInfo, pkg, rootKind string, depth int) (*Table, []*tabInfo) {
	nk := nestedKind(rootKind)
	t := &Table{Name: g.name(pkg, "Nt")}
	used := map[string]bool{}
	info := &tabInfo{pkg: pkg, name: t.Name, kind: nk}
	// INHERITS: the system record table, or (rarely) an abstract record table of the same kind
	if g.r.Chance(1, 4) {
		t.Inh = &QRef{Pkg: "sys", Name: nk}
	} else if g.r.Chance(1, 4) {
		for _, v := range visible(w) {
			for _, p := range v.tables {
				if p.abstract && p.root && p.kind == nk && (p.pkg == pkg || !p.hasNested || g.foreignNested) && t.Inh == nil {
					t.Inh = g.inhRef(pkg, named{p.pkg, p.name})
					for _, m := range p.members {
						used[m] = true
					}
				}
			}
		}
	}
	var cols []string
	items, nested := g.tableItems(w, pkg, rootKind, used, depth, nil, g.r.Intn(g.nf()), &cols)
	t.Items = items
	w.ownCols[t.Name] = cols
	return t, append([]*tabInfo{info}, nested...)
}

func (g *gen) nf() int {
	if g.big {
		return 12
	}
	return 6
}

var docBases = []string{"CDoc", "CDoc", "WDoc", "ODoc", "CRecord", "WRecord", "ORecord", "CSingleton", "WSingleton"}

func baseKind(b string) (string, bool) {
	switch b {
	case "CSingleton":
		return "CDoc", true
	case "WSingleton":
		return "WDoc", true
	}
	return b, false
}

func (g *gen) rootTable(w *wsInfo, abstract bool) {
	pkg := w.pkg
	t := &Table{Name: g.name(pkg, "Tb"), Abstract: abstract}
	info := &tabInfo{pkg: pkg, name: t.Name, abstract: abstract, root: true}
	used := map[string]bool{}
	// parent: an abstract table in scope (half of the time when one exists), else a system table
	var parents []*tabInfo
	for _, v := range visible(w) {
		for _, p := range v.tables {
			if p.abstract && p.root && (p.pkg == pkg || !p.hasNested || g.foreignNested) {
				parents = append(parents, p)
			}
		}
	}
	if len(parents) > 0 && g.r.Chance(1, 2) {
		p := kit.Pick(g.r, parents)
		t.Inh = g.inhRef(pkg, named{p.pkg, p.name})
		info.kind, info.single = p.kind, p.single
		info.hasNested = p.hasNested
		for _, m := range p.members {
			used[m] = true
		}
		info.members = append(info.members, p.members...)
		info.cols = append(info.cols, p.cols...)
	} else {
		b := kit.Pick(g.r, docBases)
		t.Inh = &QRef{Pkg: "sys", Name: b}
		info.kind, info.single = baseKind(b)
	}
	before := map[string]bool{}
	for k := range used {
		before[k] = true
	}
	var cols []string
	items, nested := g.tableItems(w, pkg, info.kind, used, 0, info, g.r.Intn(g.nf()+1), &cols)
	t.Items = items
	w.ownCols[t.Name] = cols
	info.cols = append(info.cols, cols...)
	for k := range used {
		if !before[k] {
			info.members = append(info.members, k)
		}
	}
	info.hasNested = info.hasNested || len(nested) > 0
	w.tables = append(w.tables, info)
	w.tables = append(w.tables, nested...)
	w.ws.Items = append(w.ws.Items, WsItem{Table: t})
}

func collect[T any](w *wsInfo, f func(*wsInfo) []T) []T {
	var res []T
	for _, v := range visible(w) {
		res = append(res, f(v)...)
	}
	return res
}

func (g *gen) typeDecl(w *wsInfo) {
	pkg := w.pkg
	td := &TypeD{Name: g.name(pkg, "Ty")}
	used := map[string]bool{}
	types := collect(w, func(v *wsInfo) []named { return v.types })
	for i := g.r.Intn(g.nf()); i > 0; i-- {
		if len(types) > 0 && g.r.Chance(1, 5) {
			td.Items = append(td.Items, YItem{Cont: &YCont{Name: g.member(used), Type: g.ref(pkg, kit.Pick(g.r, types)), NotNull: g.r.Bool()}})
		} else {
			f := g.field(g.member(used), false)
			td.Items = append(td.Items, YItem{Field: &f})
		}
	}
	if td.Items == nil {
		td.Items = []YItem{}
	}
	w.types = append(w.types, named{pkg, td.Name})
	w.ws.Items = append(w.ws.Items, WsItem{Type: td})
}

func (g *gen) fparam(w *wsInfo, allowODoc, allowAny, allowVoid bool) FParam {
	types := collect(w, func(v *wsInfo) []named { return v.types })
	var odocs []named
	if allowODoc {
		for _, t := range concreteTables(w) {
			if t.kind == "ODoc" {
				odocs = append(odocs, named{t.pkg, t.name})
			}
		}
	}
	switch x := g.r.Intn(10); {
	case x < 2:
		return FParam{K: "none"}
	case x < 3 && allowAny:
		return FParam{K: "any"}
	case x < 4 && allowVoid:
		return FParam{K: "void"}
	case x < 5 && len(odocs) > 0:
		q := g.ref(w.pkg, kit.Pick(g.r, odocs))
		return FParam{K: "def", Q: &q}
	case len(types) > 0:
		q := g.ref(w.pkg, kit.Pick(g.r, types))
		return FParam{K: "def", Q: &q}
	}
	return FParam{K: "none"}
}

func (g *gen) funcDecl(w *wsInfo, cmd bool) {
	f := &Func{Cmd: cmd, Wasm: g.r.Chance(1, 5), Unlogged: FParam{K: "none"}}
	if cmd {
		f.Name = g.name(w.pkg, "Cm")
		f.Param = g.fparam(w, true, true, true)
		if g.r.Chance(1, 3) {
			f.Unlogged = g.fparam(w, true, false, false)
		}
		f.Result = g.fparam(w, false, true, true)
		w.cmds = append(w.cmds, named{w.pkg, f.Name})
	} else {
		f.Name = g.name(w.pkg, "Qr")
		f.Param = g.fparam(w, false, true, false)
		f.Result = g.fparam(w, false, true, false)
		if f.Result.K == "none" {
			f.Result = FParam{K: "any"}
		}
		w.queries = append(w.queries, named{w.pkg, f.Name})
	}
	w.ws.Items = append(w.ws.Items, WsItem{Func: f})
}

var keyTypes = []string{"int8", "int16", "int32", "int64", "timestamp", "currency", "bool", "qname"}

func (g *gen) trigger(w *wsInfo) *Trig {
	var tabs []*tabInfo
	for _, t := range concreteTables(w) {
		if t.root {
			tabs = append(tabs, t)
		}
	}
	cmds := collect(w, func(v *wsInfo) []named { return v.cmds })
	types := collect(w, func(v *wsInfo) []named { return v.types })
	pickN := func(l []named) []QRef {
		res := []QRef{}
		for k := 1 + g.r.Intn(2); k > 0; k-- {
			q := g.ref(w.pkg, kit.Pick(g.r, l))
			dup := false
			for _, x := range res {
				dup = dup || x == q
			}
			if !dup {
				res = append(res, q)
			}
		}
		return res
	}
	for try := 0; try < 6; try++ {
		switch g.r.Intn(3) {
		case 0:
			if len(tabs) == 0 {
				continue
			}
			t := &Trig{Kind: "tab", Ins: g.r.Bool(), Upd: g.r.Bool(), Act: g.r.Chance(1, 4), Deact: g.r.Chance(1, 4)}
			odoc := false
			var l []named
			for k := 1 + g.r.Intn(2); k > 0; k-- {
				x := kit.Pick(g.r, tabs)
				odoc = odoc || x.kind == "ODoc" || x.kind == "ORecord"
				l = append(l, named{x.pkg, x.name})
			}
			if odoc {
				t.Ins, t.Upd, t.Act, t.Deact = true, false, false, false
			}
			if !(t.Ins || t.Upd || t.Act || t.Deact) {
				t.Ins = true
			}
			seen := map[QRef]bool{}
			for _, n := range l {
				q := g.ref(w.pkg, n)
				if !seen[q] {
					seen[q] = true
					t.Targets = append(t.Targets, q)
				}
			}
			return t
		case 1:
			if len(cmds) > 0 {
				return &Trig{Kind: "exec", Targets: pickN(cmds)}
			}
		default:
			if len(types) > 0 {
				return &Trig{Kind: "execparam", Targets: pickN(types)}
			}
		}
	}
	return nil
}

// a projector, optionally together with the views it fills
func (g *gen) projDecl(w *wsInfo) {
	pkg := w.pkg
	p := &Proj{Name: g.name(pkg, "Pj"), Sync: g.r.Chance(1, 3), Wasm: g.r.Chance(1, 6), Errors: g.r.Chance(1, 8)}
	for k := 1 + g.r.Intn(2); k > 0; k-- {
		if t := g.trigger(w); t != nil {
			p.Trigs = append(p.Trigs, *t)
		}
	}
	if len(p.Trigs) == 0 {
		return
	}
	var views []*View
	for k := g.r.Intn(3); k > 0; k-- {
		v := &View{Name: g.name(pkg, "Vw"), Of: g.ref(pkg, named{pkg, p.Name})}
		used := map[string]bool{}
		tabs := concreteTables(w)
		item := func(key, varlenOK bool) VItem {
			n := g.member(used)
			if len(tabs) > 0 && g.r.Chance(1, 5) {
				it := VItem{Name: n, NotNull: !key && g.r.Bool(), Refs: []QRef{}}
				if g.r.Chance(1, 2) {
					t := kit.Pick(g.r, tabs)
					it.Refs = []QRef{g.ref(pkg, named{t.pkg, t.name})}
				}
				return it
			}
			var d DType
			if key {
				d = DType{K: kit.Pick(g.r, keyTypes)}
				if varlenOK && g.r.Chance(1, 2) {
					d = DType{K: kit.Pick(g.r, []string{"varchar", "bytes"})}
					if g.r.Bool() {
						n := kit.Pick(g.r, lens)
						d.N = &n
					}
				}
			} else {
				d = g.dtype(false)
			}
			return VItem{Name: n, Type: &d, NotNull: !key && g.r.Bool()}
		}
		npk, ncc, nval := 1+g.r.Intn(2), 1+g.r.Intn(3), g.r.Intn(4)
		var pk, cc, val []VItem
		for i := 0; i < npk; i++ {
			pk = append(pk, item(true, false))
		}
		for i := 0; i < ncc; i++ {
			cc = append(cc, item(true, i == ncc-1))
		}
		for i := 0; i < nval; i++ {
			val = append(val, item(false, false))
		}
		for _, x := range pk {
			v.PK = append(v.PK, x.Name)
		}
		for _, x := range cc {
			v.CC = append(v.CC, x.Name)
		}
		// declaration order differs from key order
		all := append(append(append([]VItem{}, val...), cc...), pk...)
		for i := len(all) - 1; i > 0; i-- {
			j := g.r.Intn(i + 1)
			all[i], all[j] = all[j], all[i]
		}
		v.Items = all
		vi := viewInfo{pkg: pkg, name: v.Name}
		for _, x := range all {
			vi.cols = append(vi.cols, x.Name)
		}
		w.views = append(w.views, vi)
		p.Intents = append(p.Intents, g.ref(pkg, named{pkg, v.Name}))
		views = append(views, v)
	}
	w.projs = append(w.projs, named{pkg, p.Name})
	w.ws.Items = append(w.ws.Items, WsItem{Proj: p})
	for _, v := range views {
		w.ws.Items = append(w.ws.Items, WsItem{View: v})
	}
}

var units = []string{"SECOND", "MINUTE", "HOUR", "DAY", "YEAR"}

func (g *gen) rateDecl(w *wsInfo) {
	r := &Rate{Name: g.name(w.pkg, "Rt"), Count: kit.Pick(g.r, []uint64{1, 2, 10, 1000, 4294967295}), Unit: kit.Pick(g.r, units)}
	if g.r.Bool() {
		a := kit.Pick(g.r, []uint64{1, 2, 7, 60, 100})
		r.Amount = &a
	}
	if g.r.Bool() {
		b := g.r.Bool()
		r.OScope = &b
	}
	if g.r.Bool() {
		b := g.r.Bool()
		r.SScope = &b
	}
	w.rates = append(w.rates, named{w.pkg, r.Name})
	w.ws.Items = append(w.ws.Items, WsItem{Rate: r})
}

var recordOps = []string{"INSERT", "UPDATE", "ACTIVATE", "DEACTIVATE", "SELECT"}

func (g *gen) someOps(from []string) []string {
	res := []string{}
	for k := 1 + g.r.Intn(3); k > 0; k-- {
		res = append(res, kit.Pick(g.r, from)) // duplicates on purpose: the compiler keeps a set
	}
	return res
}

func (g *gen) limitDecl(w *wsInfo) {
	rates := collect(w, func(v *wsInfo) []named { return v.rates })
	if len(rates) == 0 {
		return
	}
	l := &Limit{Name: g.name(w.pkg, "Lm"), Rate: g.ref(w.pkg, kit.Pick(g.r, rates))}
	kind := kit.Pick(g.r, []string{"records", "command", "query", "view"})
	views := collect(w, func(v *wsInfo) []viewInfo { return v.views })
	if kind == "view" && len(views) == 0 {
		kind = "records"
	}
	allowed := map[string][]string{"records": recordOps, "command": {"EXECUTE"}, "query": {"EXECUTE"}, "view": {"SELECT"}}[kind]
	if g.r.Bool() {
		l.Acts = g.someOps(allowed)
	}
	mode := kit.Pick(g.r, []string{"single", "all", "each"})
	l.Filter = LFilter{Mode: mode, Kind: kind}
	if mode == "single" {
		var cands []named
		switch kind {
		case "records":
			for _, t := range concreteTables(w) {
				cands = append(cands, named{t.pkg, t.name})
			}
		case "command":
			cands = collect(w, func(v *wsInfo) []named { return v.cmds })
		case "query":
			cands = collect(w, func(v *wsInfo) []named { return v.queries })
		default:
			for _, v := range views {
				cands = append(cands, named{v.pkg, v.name})
			}
		}
		if len(cands) == 0 {
			l.Filter.Mode = "all"
			if kind == "view" {
				return
			}
		} else {
			q := g.ref(w.pkg, kit.Pick(g.r, cands))
			l.Filter.Q = &q
		}
	}
	w.ws.Items = append(w.ws.Items, WsItem{Limit: l})
}

func subset(r *kit.Rng, l []string, max int) []string {
	res := []string{}
	for _, x := range l {
		if len(res) < max && r.Chance(1, 2) {
			res = append(res, x)
		}
	}
	return res
}

func (g *gen) grantDecl(w *wsInfo, revoke bool) *Grant {
	roles := collect(w, func(v *wsInfo) []named { return v.roles })
	if len(roles) == 0 {
		return nil
	}
	gr := &Grant{Revoke: revoke, Role: g.ref(w.pkg, kit.Pick(g.r, roles))}
	pkg := w.pkg
	// all tables (incl. nested and abstract ones) in scope with their own columns
	type tc struct {
		n    named
		cols []string
	}
	var tabs []tc
	for _, v := range visible(w) {
		for _, t := range v.tables {
			cols := v.ownCols[t.name]
			if g.inhCols && t.root {
				cols = t.cols
			}
			tabs = append(tabs, tc{named{t.pkg, t.name}, cols})
		}
	}
	cmds := collect(w, func(v *wsInfo) []named { return v.cmds })
	queries := collect(w, func(v *wsInfo) []named { return v.queries })
	views := collect(w, func(v *wsInfo) []viewInfo { return v.views })
	for try := 0; try < 8; try++ {
		switch g.r.Intn(10) {
		case 0:
			if !revoke && len(roles) > 1 {
				x := kit.Pick(g.r, roles)
				if q := g.ref(pkg, x); x.name != gr.Role.Name {
					gr.What = GWhat{K: "role", Q: &q}
					return gr
				}
			}
		case 1:
			if len(cmds) > 0 {
				q := g.ref(pkg, kit.Pick(g.r, cmds))
				gr.What = GWhat{K: "cmd", Q: &q}
				return gr
			}
		case 2:
			if len(queries) > 0 {
				q := g.ref(pkg, kit.Pick(g.r, queries))
				gr.What = GWhat{K: "query", Q: &q}
				return gr
			}
		case 3:
			if len(views) > 0 {
				v := kit.Pick(g.r, views)
				q := g.ref(pkg, named{v.pkg, v.name})
				gr.What = GWhat{K: "view", Q: &q, Cols: subset(g.r, v.cols, 3)}
				return gr
			}
		case 4:
			if len(w.cmds) > 0 {
				gr.What = GWhat{K: "allcmds"}
				return gr
			}
			if len(w.queries) > 0 {
				gr.What = GWhat{K: "allqueries"}
				return gr
			}
			if len(w.views) > 0 {
				gr.What = GWhat{K: "allviews"}
				return gr
			}
		case 5:
			if !w.ws.Abstract || len(w.tables) > 0 {
				if g.r.Bool() {
					gr.What = GWhat{K: "alltables", All: true}
				} else {
					gr.What = GWhat{K: "alltables", Ops: g.someOps(recordOps)}
				}
				return gr
			}
		case 6:
			if len(tabs) > 0 {
				t := kit.Pick(g.r, tabs)
				q := g.ref(pkg, t.n)
				gr.What = GWhat{K: "tableall", Q: &q, Cols: subset(g.r, t.cols, 3)}
				return gr
			}
		default:
			if len(tabs) > 0 {
				t := kit.Pick(g.r, tabs)
				q := g.ref(pkg, t.n)
				var acts []GAct
				for k := 1 + g.r.Intn(3); k > 0; k-- {
					a := GAct{Op: kit.Pick(g.r, recordOps)}
					if g.r.Bool() {
						a.Cols = subset(g.r, t.cols, 3)
						if g.r.Chance(1, 4) {
							a.Cols = append(a.Cols, kit.Pick(g.r, []string{"sys.ID", "sys.QName"}))
						}
					}
					acts = append(acts, a)
				}
				gr.What = GWhat{K: "table", Q: &q, Acts: acts}
				return gr
			}
		}
	}
	return nil
}

func (g *gen) workspace(pkg string, forceAbstract bool) *wsInfo {
	w := &wsInfo{pkg: pkg, ownCols: map[string][]string{}}
	w.ws = &Ws{Name: g.name(pkg, "Ws"), Abstract: forceAbstract || g.r.Chance(1, 3), Items: []WsItem{}}
	// INHERITS abstract workspaces generated before (own package or a later package)
	var cands []*wsInfo
	for _, x := range g.wss {
		if x.ws.Abstract {
			cands = append(cands, x)
		}
	}
	for k := g.r.Intn(3); k > 0 && len(cands) > 0; k-- {
		x := kit.Pick(g.r, cands)
		dup := false
		for _, a := range w.anc {
			dup = dup || a == x
		}
		if !dup {
			w.anc = append(w.anc, x)
			w.ws.Inh = append(w.ws.Inh, *g.inhRef(pkg, named{x.pkg, x.ws.Name}))
		}
	}
	descUsed := map[string]bool{}
	if !w.ws.Abstract && g.r.Chance(1, 3) {
		fs := []DescItem{}
		for i := g.r.Intn(4); i > 0; i-- {
			fs = append(fs, DescItem{Field: g.field(g.member(descUsed), true)})
		}
		w.ws.Desc = &fs
	}
	n := func(k int) int { return g.r.Intn(k + 1) }
	for i := n(2); i > 0; i-- {
		role := &Role{Name: g.name(pkg, "Rl"), Published: g.r.Chance(1, 4)}
		w.roles = append(w.roles, named{pkg, role.Name})
		w.ws.Items = append(w.ws.Items, WsItem{Role: role})
	}
	for i := n(2); i > 0; i-- {
		g.typeDecl(w)
	}
	for i := n(2); i > 0; i-- {
		g.rootTable(w, true)
	}
	for i := n(3); i > 0; i-- {
		g.rootTable(w, false)
	}
	for i := n(2); i > 0; i-- {
		g.funcDecl(w, true)
	}
	for i := n(2); i > 0; i-- {
		g.funcDecl(w, false)
	}
	for i := n(2); i > 0; i-- {
		g.projDecl(w)
	}
	for i := n(2); i > 0; i-- {
		g.rateDecl(w)
	}
	for i := n(2); i > 0; i-- {
		g.limitDecl(w)
	}
	// declarations in any order (the compiler is order independent), then grants, then revokes
	for i := len(w.ws.Items) - 1; i > 0 && g.r.Chance(1, 2); i-- {
		j := g.r.Intn(i + 1)
		w.ws.Items[i], w.ws.Items[j] = w.ws.Items[j], w.ws.Items[i]
	}
	for i := n(4); i > 0; i-- {
		if gr := g.grantDecl(w, false); gr != nil {
			w.ws.Items = append(w.ws.Items, WsItem{Grant: gr})
		}
	}
	for i := n(2); i > 0; i-- {
		if gr := g.grantDecl(w, true); gr != nil {
			w.ws.Items = append(w.ws.Items, WsItem{Grant: gr})
		}
	}
	// USE WORKSPACE: non-abstract workspaces of the same package generated before
	for _, x := range g.wss {
		if x.pkg == pkg && !x.ws.Abstract && g.r.Chance(1, 4) {
			n := x.ws.Name
			w.ws.Items = append(w.ws.Items, WsItem{Use: &n})
		}
	}
	// reference fields of the descriptor: targets are concrete tables the workspace sees that a CDoc may refer to
	if w.ws.Desc != nil && g.descRefs {
		targets := concreteTables(w)
		for i := 1 + g.r.Intn(2); i > 0; i-- {
			rf := &RefF{Name: g.member(descUsed), NotNull: g.r.Chance(1, 4), Refs: []QRef{}}
			for k := g.r.Intn(3); k > 0 && len(targets) > 0; k-- {
				if t := kit.Pick(g.r, targets); refAllowed("CDoc", t.kind) {
					q := g.ref(pkg, named{t.pkg, t.name})
					dup := false
					for _, x := range rf.Refs {
						dup = dup || x == q
					}
					if !dup {
						rf.Refs = append(rf.Refs, q)
					}
				}
			}
			fs := append(*w.ws.Desc, DescItem{Ref: rf})
			if g.r.Chance(1, 2) && len(fs) > 1 { // not always last
				j := g.r.Intn(len(fs))
				fs[j], fs[len(fs)-1] = fs[len(fs)-1], fs[j]
			}
			w.ws.Desc = &fs
		}
	}
	g.wss = append(g.wss, w)
	return w
}

// GenSchema builds one valid schema
func GenSchema(r *kit.Rng, big bool) Schema {
	g := &gen{r: r, counter: map[string]int{}, big: big}
	npkg := 1
	switch x := r.Intn(10); {
	case x >= 9:
		npkg = 3
	case x >= 6:
		npkg = 2
	}
	switch r.Intn(8) {
	case 0:
		g.sharedNames = true
	case 1:
		g.unqualInh = true
	case 2:
		g.foreignNested = true
	case 3:
		g.inhCols = true
	}
	g.descRefs = r.Chance(1, 2)
	names := []string{"app1", "liba", "libb"}[:npkg]
	pkgs := make([]Pkg, npkg)
	// later packages first: earlier ones refer to them
	for pi := npkg - 1; pi >= 0; pi-- {
		pn := names[pi]
		nws := 1 + r.Intn(3)
		if big {
			nws = 2 + r.Intn(3)
		}
		var wss []Ws
		for i := 0; i < nws; i++ {
			w := g.workspace(pn, pi > 0 && i == 0)
			wss = append(wss, *w.ws)
		}
		// split over files
		files := [][]Ws{}
		cur := []Ws{}
		for _, w := range wss {
			cur = append(cur, w)
			if r.Chance(1, 3) {
				files = append(files, cur)
				cur = []Ws{}
			}
		}
		if len(cur) > 0 || len(files) == 0 {
			files = append(files, cur)
		}
		pkgs[pi] = Pkg{Name: pn, Files: files}
	}
	return pkgs
}
