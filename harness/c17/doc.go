// Package c17: harness of property C17 (registers itself with kit.Register in an init function).
package c17
