package c17

import (
	"strings"

	"verifharness/kit"
)

// Mutate breaks exactly one rule of the language in a valid schema (the malformed stream).
// Returns the name of the mutation applied.

type wsRef struct {
	p *Pkg
	w *Ws
}

func allWs(a Schema) []wsRef {
	var res []wsRef
	for pi := range a {
		for fi := range a[pi].Files {
			for wi := range a[pi].Files[fi] {
				res = append(res, wsRef{&a[pi], &a[pi].Files[fi][wi]})
			}
		}
	}
	return res
}

type tabRef struct {
	p      *Pkg
	w      *Ws
	t      *Table
	nested bool
}

func tabRefs(a Schema) []tabRef {
	var res []tabRef
	allTables(a, func(p *Pkg, w *Ws, root, t *Table, nested bool) { res = append(res, tabRef{p, w, t, nested}) })
	return res
}

var mutations = []string{"dup-name", "inherit-unknown", "inherit-concrete", "no-inherit", "ref-unknown", "ref-abstract", "ref-sibling",
	"nested-kind", "nested-abstract", "view-pk-undefined", "view-no-cc", "view-varchar-pk", "too-long", "grant-unknown-role", "grant-after-revoke",
	"param-unknown", "ws-inherit-concrete", "ws-inherit-unknown", "use-abstract", "use-unknown", "unique-undefined", "dup-member",
	"limit-unknown-rate", "blob-in-type", "query-no-result", "abstract-descriptor",
	// INHERITS cycles of every shape: self, 2, 3; alone, with an inheritor hanging on the cycle, with an
	// inheritor of an inheritor; a nested table on a cyclic base; the same for workspaces
	"tab-cycle-1", "tab-cycle-2", "tab-cycle-3", "tab-cycle-1-leaf", "tab-cycle-2-leaf", "tab-cycle-3-leaf",
	"tab-cycle-1-leaf2", "tab-cycle-2-leaf2", "tab-cycle-3-leaf2", "tab-cycle-1-nested", "tab-cycle-2-nested",
	"ws-cycle-1", "ws-cycle-2", "ws-cycle-3", "ws-cycle-1-leaf", "ws-cycle-2-leaf", "ws-cycle-3-leaf", "ws-cycle-2-leaf2",
	// accepted by the analyser, refused only by builder.Build() (before 55541a167 / 510061369)
	"view-no-partition-key", "grant-all-empty-class",
	// reference fields of a descriptor with a bad target (accepted before the repair of F29)
	"desc-ref-unknown", "desc-ref-abstract", "desc-ref-wdoc",
	// a command parameter that is a table but not an ODoc (accepted by the analyser, refused by Build(): C16-F12)
	"param-not-odoc"}

func Mutate(r *kit.Rng, a Schema) (string, bool) {
	start := r.Intn(len(mutations))
	for k := 0; k < len(mutations); k++ {
		m := mutations[(start+k)%len(mutations)]
		if apply(r, a, m) {
			return m, true
		}
	}
	return "", false
}

func apply(r *kit.Rng, a Schema, m string) bool {
	wss := allWs(a)
	tabs := tabRefs(a)
	pickTab := func(f func(tabRef) bool) *tabRef {
		var c []tabRef
		for _, t := range tabs {
			if f(t) {
				c = append(c, t)
			}
		}
		if len(c) == 0 {
			return nil
		}
		x := kit.Pick(r, c)
		return &x
	}
	type itemRef struct {
		w  wsRef
		it *WsItem
	}
	var items []itemRef
	for _, w := range wss {
		for i := range w.w.Items {
			items = append(items, itemRef{w, &w.w.Items[i]})
		}
	}
	pickItem := func(f func(*WsItem) bool) *itemRef {
		var c []itemRef
		for _, x := range items {
			if f(x.it) {
				c = append(c, x)
			}
		}
		if len(c) == 0 {
			return nil
		}
		x := kit.Pick(r, c)
		return &x
	}
	u := func(n uint64) *uint64 { return &n }
	if strings.HasPrefix(m, "tab-cycle-") || strings.HasPrefix(m, "ws-cycle-") {
		return cycle(a, m)
	}
	switch m {
	case "dup-name":
		// two statements of one package get the same name
		x := pickItem(func(i *WsItem) bool { return i.Role != nil })
		y := pickTab(func(t tabRef) bool { return x != nil && t.p == x.w.p })
		if x == nil || y == nil {
			return false
		}
		x.it.Role.Name = y.t.Name
		return true
	case "inherit-unknown":
		if t := pickTab(func(t tabRef) bool { return !t.nested }); t != nil {
			t.t.Inh = &QRef{Pkg: t.p.Name, Name: "NoSuchTable"}
			return true
		}
	case "inherit-concrete":
		t := pickTab(func(t tabRef) bool { return !t.nested })
		if t == nil {
			return false
		}
		for _, o := range tabs {
			if o.w == t.w && !o.nested && !o.t.Abstract && o.t != t.t {
				t.t.Inh = &QRef{Pkg: t.p.Name, Name: o.t.Name}
				return true
			}
		}
	case "no-inherit":
		if t := pickTab(func(t tabRef) bool { return !t.nested }); t != nil {
			t.t.Inh = nil
			return true
		}
	case "ref-unknown", "ref-abstract", "ref-sibling":
		t := pickTab(func(t tabRef) bool { return true })
		if t == nil {
			return false
		}
		target := QRef{Name: "NoSuchTable"}
		if m == "ref-abstract" {
			found := false
			for _, o := range tabs {
				if o.w == t.w && o.t.Abstract {
					target, found = QRef{Name: o.t.Name}, true
				}
			}
			if !found {
				return false
			}
		}
		if m == "ref-sibling" {
			// a table of a workspace that is neither this one nor inherited by it
			found := false
			for _, o := range tabs {
				if o.p == t.p && o.w != t.w && len(t.w.Inh) == 0 && !o.t.Abstract {
					target, found = QRef{Name: o.t.Name}, true
				}
			}
			if !found {
				return false
			}
		}
		t.t.Items = append([]TItem{{Ref: &RefF{Name: "zref", Refs: []QRef{target}}}}, t.t.Items...)
		return true
	case "nested-kind":
		if t := pickTab(func(t tabRef) bool { return t.nested }); t != nil {
			// the kind of a nested table is fixed by its root; name a record kind of another family
			wrong := map[string]string{"CRecord": "WRecord", "WRecord": "ORecord", "ORecord": "CRecord"}
			root := ""
			allTables(a, func(p *Pkg, w *Ws, rt, x *Table, nested bool) {
				if x == t.t {
					root = rootFamily(a, p, rt)
				}
			})
			if root == "" {
				return false
			}
			t.t.Inh = &QRef{Pkg: "sys", Name: wrong[root]}
			return true
		}
	case "desc-ref-unknown", "desc-ref-abstract", "desc-ref-wdoc":
		// a concrete workspace; give it a descriptor when it has none
		for _, w := range wss {
			if w.w.Abstract {
				continue
			}
			target := QRef{Name: "NoSuchTable"}
			switch m {
			case "desc-ref-abstract":
				found := false
				for _, o := range tabs {
					if o.w == w.w && o.t.Abstract && !o.nested {
						target, found = QRef{Name: o.t.Name}, true
					}
				}
				if !found {
					continue
				}
			case "desc-ref-wdoc":
				w.w.Items = append(w.w.Items, WsItem{Table: &Table{Name: "ZzWDoc", Inh: &QRef{Pkg: "sys", Name: "WDoc"}, Items: []TItem{}}})
				target = QRef{Name: "ZzWDoc"}
			}
			d := []DescItem{}
			if w.w.Desc != nil {
				d = *w.w.Desc
			}
			d = append(d, DescItem{Ref: &RefF{Name: "zdref", Refs: []QRef{target}}})
			w.w.Desc = &d
			return true
		}
	case "param-not-odoc":
		for _, w := range wss {
			for i := range w.w.Items {
				f := w.w.Items[i].Func
				if f == nil || !f.Cmd {
					continue
				}
				for _, o := range tabs {
					if o.w == w.w && !o.t.Abstract && !o.nested && o.t.Inh != nil && o.t.Inh.Pkg == "sys" && o.t.Inh.Name != "ODoc" {
						f.Param = FParam{K: "def", Q: &QRef{Name: o.t.Name}}
						return true
					}
				}
			}
		}
	case "nested-abstract":
		if t := pickTab(func(t tabRef) bool { return t.nested }); t != nil {
			t.t.Abstract = true
			return true
		}
	case "view-pk-undefined", "view-no-cc", "view-varchar-pk":
		x := pickItem(func(i *WsItem) bool { return i.View != nil })
		if x == nil {
			return false
		}
		v := x.it.View
		switch m {
		case "view-pk-undefined":
			v.PK = append(v.PK, "nosuchfield")
		case "view-no-cc":
			v.CC = nil
		default:
			v.Items = append(v.Items, VItem{Name: "zvar", Type: &DType{K: "varchar"}})
			v.PK = append(v.PK, "zvar")
		}
		return true
	case "too-long":
		if t := pickTab(func(t tabRef) bool { return true }); t != nil {
			t.t.Items = append(t.t.Items, TItem{Field: &Field{Name: "zlong", Type: DType{K: "varchar", N: u(65536)}}})
			return true
		}
	case "grant-unknown-role":
		if x := pickItem(func(i *WsItem) bool { return i.Grant != nil }); x != nil {
			x.it.Grant.Role = QRef{Name: "NoSuchRole"}
			return true
		}
	case "grant-after-revoke":
		for _, w := range wss {
			var g, rv *Grant
			for i := range w.w.Items {
				if x := w.w.Items[i].Grant; x != nil {
					if x.Revoke {
						rv = x
					} else {
						g = x
					}
				}
			}
			if g != nil && rv != nil {
				cp := *g
				w.w.Items = append(w.w.Items, WsItem{Grant: &cp})
				return true
			}
		}
	case "param-unknown":
		if x := pickItem(func(i *WsItem) bool { return i.Func != nil }); x != nil {
			x.it.Func.Param = FParam{K: "def", Q: &QRef{Name: "NoSuchType"}}
			return true
		}
	case "ws-inherit-concrete":
		for _, w := range wss {
			for _, o := range wss {
				if o.p == w.p && o.w != w.w && !o.w.Abstract && len(w.w.Inh) == 0 {
					w.w.Inh = []QRef{{Pkg: o.p.Name, Name: o.w.Name}}
					return true
				}
			}
		}
	case "ws-inherit-unknown":
		w := kit.Pick(r, wss)
		w.w.Inh = append(w.w.Inh, QRef{Pkg: w.p.Name, Name: "NoSuchWs"})
		return true
	case "use-abstract":
		for _, w := range wss {
			for _, o := range wss {
				if o.p == w.p && o.w.Abstract {
					n := o.w.Name
					w.w.Items = append(w.w.Items, WsItem{Use: &n})
					return true
				}
			}
		}
	case "use-unknown":
		w := kit.Pick(r, wss)
		n := "NoSuchWs"
		w.w.Items = append(w.w.Items, WsItem{Use: &n})
		return true
	case "unique-undefined":
		if t := pickTab(func(t tabRef) bool { return true }); t != nil {
			t.t.Items = append(t.t.Items, TItem{Unique: &Unique{Fields: []string{"nosuchfield"}}})
			return true
		}
	case "dup-member":
		if t := pickTab(func(t tabRef) bool {
			for _, it := range t.t.Items {
				if it.Field != nil {
					return true
				}
			}
			return false
		}); t != nil {
			for _, it := range t.t.Items {
				if it.Field != nil {
					cp := *it.Field
					t.t.Items = append(t.t.Items, TItem{Field: &cp})
					return true
				}
			}
		}
	case "limit-unknown-rate":
		if x := pickItem(func(i *WsItem) bool { return i.Limit != nil }); x != nil {
			x.it.Limit.Rate = QRef{Name: "NoSuchRate"}
			return true
		}
	case "blob-in-type":
		if x := pickItem(func(i *WsItem) bool { return i.Type != nil }); x != nil {
			x.it.Type.Items = append(x.it.Type.Items, YItem{Field: &Field{Name: "zblob", Type: DType{K: "blob"}}})
			return true
		}
	case "query-no-result":
		if x := pickItem(func(i *WsItem) bool { return i.Func != nil && !i.Func.Cmd }); x != nil {
			x.it.Func.Result = FParam{K: "none"}
			return true
		}
	case "view-no-partition-key":
		if x := pickItem(func(i *WsItem) bool { return i.View != nil && len(i.View.CC) > 0 }); x != nil {
			x.it.View.PK = nil
			return true
		}
	case "grant-all-empty-class":
		// GRANT ... ON ALL <class> in a workspace that declares nothing of the class
		for _, w := range wss {
			var role *QRef
			has := map[string]bool{}
			firstRevoke := len(w.w.Items)
			for i, it := range w.w.Items {
				switch {
				case it.Grant != nil:
					role = &it.Grant.Role
					if it.Grant.Revoke && i < firstRevoke {
						firstRevoke = i
					}
				case it.View != nil:
					has["allviews"] = true
				case it.Func != nil && it.Func.Cmd:
					has["allcmds"] = true
				case it.Func != nil:
					has["allqueries"] = true
				case it.Table != nil:
					has["alltables"] = true
				}
			}
			if !w.w.Abstract {
				has["alltables"] = true // the descriptor
			}
			if role == nil {
				continue
			}
			for _, k := range []string{"allviews", "allcmds", "allqueries", "alltables"} {
				if !has[k] {
					g := WsItem{Grant: &Grant{What: GWhat{K: k, All: k == "alltables"}, Role: *role}}
					w.w.Items = append(w.w.Items[:firstRevoke:firstRevoke], append([]WsItem{g}, w.w.Items[firstRevoke:]...)...)
					return true
				}
			}
		}
	case "abstract-descriptor":
		for _, w := range wss {
			if w.w.Abstract {
				w.w.Desc = &[]DescItem{}
				return true
			}
		}
	}
	return false
}

// family of the root table of a nested table: CRecord / WRecord / ORecord
func rootFamily(a Schema, p *Pkg, root *Table) string {
	t, pkg := root, p.Name
	for depth := 0; depth < 50 && t != nil && t.Inh != nil; depth++ {
		if t.Inh.Pkg == "sys" {
			switch t.Inh.Name {
			case "CDoc", "CRecord", "CSingleton":
				return "CRecord"
			case "WDoc", "WRecord", "WSingleton":
				return "WRecord"
			default:
				return "ORecord"
			}
		}
		if t.Inh.Pkg != "" {
			pkg = t.Inh.Pkg
		}
		t = findRoot(a, pkg, t.Inh.Name)
	}
	return ""
}

// cycle adds an INHERITS cycle of tables or workspaces to the first package (names are new)
func cycle(a Schema, m string) bool {
	p := &a[0]
	if len(p.Files) == 0 || len(p.Files[0]) == 0 {
		return false
	}
	parts := strings.Split(m, "-") // tab|ws cycle k [leaf|leaf2|nested]
	k := int(parts[2][0] - '0')
	outside := ""
	if len(parts) > 3 {
		outside = parts[3]
	}
	q := func(n string) *QRef { return &QRef{Pkg: p.Name, Name: n} }
	name := func(prefix string, i int) string { return prefix + string(rune('0'+i)) }
	if parts[0] == "tab" {
		ws := &p.Files[0][0]
		for i := 1; i <= k; i++ {
			ws.Items = append([]WsItem{{Table: &Table{Name: name("Cyc", i), Abstract: true, Inh: q(name("Cyc", i%k+1)), Items: []TItem{}}}}, ws.Items...)
		}
		switch outside {
		case "leaf":
			ws.Items = append([]WsItem{{Table: &Table{Name: "CycLeaf", Inh: q("Cyc1"), Items: []TItem{}}}}, ws.Items...)
		case "leaf2":
			ws.Items = append([]WsItem{{Table: &Table{Name: "CycLeaf", Inh: q("CycMid"), Items: []TItem{}}},
				{Table: &Table{Name: "CycMid", Abstract: true, Inh: q("Cyc1"), Items: []TItem{}}}}, ws.Items...)
		case "nested":
			ws.Items = append([]WsItem{{Table: &Table{Name: "CycDoc", Inh: &QRef{Pkg: "sys", Name: "CDoc"}, Items: []TItem{
				{Nested: &Nested{Cont: "cn", Table: &Table{Name: "CycNest", Inh: q("Cyc1"), Items: []TItem{}}}}}}}}, ws.Items...)
		}
		return true
	}
	var extra []Ws
	for i := 1; i <= k; i++ {
		extra = append(extra, Ws{Name: name("WCyc", i), Abstract: true, Inh: []QRef{*q(name("WCyc", i%k+1))}, Items: []WsItem{}})
	}
	switch outside {
	case "leaf":
		// several parents, one of which leads into the cycle
		inh := []QRef{}
		for _, w := range p.Files[0] {
			if w.Abstract && len(w.Inh) == 0 && len(inh) == 0 {
				inh = append(inh, *q(w.Name))
			}
		}
		extra = append(extra, Ws{Name: "WCycLeaf", Inh: append(inh, *q("WCyc1")), Items: []WsItem{}})
	case "leaf2":
		extra = append(extra, Ws{Name: "WCycMid", Abstract: true, Inh: []QRef{*q("WCyc1")}, Items: []WsItem{}},
			Ws{Name: "WCycLeaf", Inh: []QRef{*q("WCycMid")}, Items: []WsItem{}})
	}
	p.Files[0] = append(p.Files[0], extra...)
	return true
}
