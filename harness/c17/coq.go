package c17

import (
	"fmt"
	"strings"

	"verifharness/kit"
)

// Coq term printers: the AST as a `schema`, the observed dump as an `outcome` (Model.v).

func cStr(s string) string { return `"` + strings.ReplaceAll(s, `"`, `""`) + `"%string` }
func cBool(b bool) string  { return kit.Bool(b) }
func cN(n uint64) string   { return fmt.Sprintf("%d%%N", n) }
func cOpt(ok bool, s string) string {
	if ok {
		return "(Some " + s + ")"
	}
	return "None"
}
func cList[T any](l []T, f func(T) string) string {
	ss := make([]string, len(l))
	for i, x := range l {
		ss[i] = f(x)
	}
	return kit.List(ss)
}
func cStrs(l []string) string { return cList(l, cStr) }
func cQRef(q QRef) string     { return fmt.Sprintf("(QR %s %s)", cStr(q.Pkg), cStr(q.Name)) }
func cQRefs(l []QRef) string  { return cList(l, cQRef) }

var dtypeCoq = map[string]string{"int8": "DInt8", "int16": "DInt16", "int32": "DInt32", "int64": "DInt64", "float32": "DFloat32",
	"float64": "DFloat64", "timestamp": "DTimestamp", "currency": "DCurrency", "bool": "DBool", "blob": "DBlob", "qname": "DQName"}

func cDType(d DType) string {
	switch d.K {
	case "varchar":
		return "(DVarchar " + cOptN(d.N) + ")"
	case "bytes":
		return "(DBytes " + cOptN(d.N) + ")"
	}
	return dtypeCoq[d.K]
}
func cOptN(n *uint64) string {
	if n == nil {
		return "None"
	}
	return "(Some " + cN(*n) + ")"
}
func cOptS(s *string) string {
	if s == nil {
		return "None"
	}
	return "(Some " + cStr(*s) + ")"
}
func cOptB(b *bool) string {
	if b == nil {
		return "None"
	}
	return "(Some " + cBool(*b) + ")"
}
func cField(f Field) string {
	return fmt.Sprintf("(Fld %s %s %s %s %s)", cStr(f.Name), cDType(f.Type), cBool(f.NotNull), cBool(f.Verif), cOptS(f.Check))
}
func cTable(t *Table) string {
	inh := "None"
	if t.Inh != nil {
		inh = "(Some " + cQRef(*t.Inh) + ")"
	}
	return fmt.Sprintf("(Table %s %s %s %s)", cStr(t.Name), cBool(t.Abstract), inh, cList(t.Items, cTItem))
}
func cTItem(it TItem) string {
	switch {
	case it.Field != nil:
		return "(TField " + cField(*it.Field) + ")"
	case it.Ref != nil:
		return fmt.Sprintf("(TRef %s %s %s)", cStr(it.Ref.Name), cQRefs(it.Ref.Refs), cBool(it.Ref.NotNull))
	case it.Nested != nil:
		return fmt.Sprintf("(TNested %s %s)", cStr(it.Nested.Cont), cTable(it.Nested.Table))
	}
	return fmt.Sprintf("(TUnique %s %s)", cOptS(it.Unique.CName), cStrs(it.Unique.Fields))
}
func cYItem(y YItem) string {
	if y.Field != nil {
		return "(YField " + cField(*y.Field) + ")"
	}
	return fmt.Sprintf("(YCont %s %s %s)", cStr(y.Cont.Name), cQRef(y.Cont.Type), cBool(y.Cont.NotNull))
}
func cVItem(v VItem) string {
	if v.Type != nil {
		return fmt.Sprintf("(VField %s %s %s)", cStr(v.Name), cDType(*v.Type), cBool(v.NotNull))
	}
	return fmt.Sprintf("(VRef %s %s %s)", cStr(v.Name), cQRefs(v.Refs), cBool(v.NotNull))
}
func cTrig(t Trig) string {
	switch t.Kind {
	case "tab":
		return fmt.Sprintf("(TrTab %s %s %s %s %s)", cBool(t.Ins), cBool(t.Upd), cBool(t.Act), cBool(t.Deact), cQRefs(t.Targets))
	case "exec":
		return "(TrExec " + cQRefs(t.Targets) + ")"
	}
	return "(TrExecParam " + cQRefs(t.Targets) + ")"
}
func cFParam(x FParam) string {
	switch x.K {
	case "any":
		return "PAny"
	case "void":
		return "PVoid"
	case "def":
		return "(PDef " + cQRef(*x.Q) + ")"
	}
	return "PNone"
}

var opCoq = map[string]string{"INSERT": "OInsert", "UPDATE": "OUpdate", "ACTIVATE": "OActivate", "DEACTIVATE": "ODeactivate",
	"SELECT": "OSelect", "EXECUTE": "OExecute",
	"Insert": "OInsert", "Update": "OUpdate", "Activate": "OActivate", "Deactivate": "ODeactivate", "Select": "OSelect",
	"Execute": "OExecute", "ExecuteWithParam": "OExecParam", "Inherits": "OInherits"}
var fkCoq = map[string]string{"records": "FkRecords", "command": "FkCommand", "query": "FkQuery", "view": "FkView"}
var unitCoq = map[string]string{"SECOND": "USecond", "MINUTE": "UMinute", "HOUR": "UHour", "DAY": "UDay", "YEAR": "UYear"}

func cOps(l []string) string { return cList(l, func(s string) string { return opCoq[s] }) }

func cGWhat(g GWhat) string {
	switch g.K {
	case "role":
		return "(GRole " + cQRef(*g.Q) + ")"
	case "cmd":
		return "(GExecCmd " + cQRef(*g.Q) + ")"
	case "query":
		return "(GExecQuery " + cQRef(*g.Q) + ")"
	case "view":
		return fmt.Sprintf("(GSelectView %s %s)", cQRef(*g.Q), cStrs(g.Cols))
	case "allcmds":
		return "GAllCommands"
	case "allqueries":
		return "GAllQueries"
	case "allviews":
		return "GAllViews"
	case "alltables":
		if g.All {
			return "(GAllTables None)"
		}
		return "(GAllTables (Some " + cOps(g.Ops) + "))"
	case "tableall":
		return fmt.Sprintf("(GTableAll %s %s)", cQRef(*g.Q), cStrs(g.Cols))
	}
	return fmt.Sprintf("(GTable %s %s)", cQRef(*g.Q), cList(g.Acts, func(a GAct) string { return "(" + opCoq[a.Op] + ", " + cStrs(a.Cols) + ")" }))
}
func cWsItem(i WsItem) string {
	switch {
	case i.Table != nil:
		return "(ITable " + cTable(i.Table) + ")"
	case i.Type != nil:
		return fmt.Sprintf("(IType %s %s)", cStr(i.Type.Name), cList(i.Type.Items, cYItem))
	case i.View != nil:
		v := i.View
		return fmt.Sprintf("(IView (View %s %s %s %s %s))", cStr(v.Name), cList(v.Items, cVItem), cStrs(v.PK), cStrs(v.CC), cQRef(v.Of))
	case i.Proj != nil:
		p := i.Proj
		return fmt.Sprintf("(IProj (Proj %s %s %s %s %s %s))", cStr(p.Name), cBool(p.Sync), cBool(p.Wasm), cList(p.Trigs, cTrig), cQRefs(p.Intents), cBool(p.Errors))
	case i.Func != nil:
		f := i.Func
		return fmt.Sprintf("(IFunc (Func %s %s %s %s %s %s))", cStr(f.Name), cBool(f.Cmd), cBool(f.Wasm), cFParam(f.Param), cFParam(f.Unlogged), cFParam(f.Result))
	case i.Role != nil:
		return fmt.Sprintf("(IRole %s %s)", cStr(i.Role.Name), cBool(i.Role.Published))
	case i.Rate != nil:
		r := i.Rate
		return fmt.Sprintf("(IRate (Rate %s %s %s %s %s %s))", cStr(r.Name), cN(r.Count), cOptN(r.Amount), unitCoq[r.Unit], cOptB(r.OScope), cOptB(r.SScope))
	case i.Limit != nil:
		l := i.Limit
		var f string
		switch l.Filter.Mode {
		case "single":
			f = fmt.Sprintf("(LSingle %s %s)", fkCoq[l.Filter.Kind], cQRef(*l.Filter.Q))
		case "all":
			f = "(LAll " + fkCoq[l.Filter.Kind] + ")"
		default:
			f = "(LEach " + fkCoq[l.Filter.Kind] + ")"
		}
		return fmt.Sprintf("(ILimit (Limit %s %s %s %s))", cStr(l.Name), cOps(l.Acts), f, cQRef(l.Rate))
	case i.Grant != nil:
		g := i.Grant
		return fmt.Sprintf("(IGrant (Grant %s %s %s))", cBool(g.Revoke), cGWhat(g.What), cQRef(g.Role))
	}
	return "(IUse " + cStr(*i.Use) + ")"
}
func cWs(w Ws) string {
	d := "None"
	if w.Desc != nil {
		d = "(Some " + cList(*w.Desc, func(x DescItem) string {
			if x.Ref != nil {
				return fmt.Sprintf("(DRef %s %s %s)", cStr(x.Ref.Name), cQRefs(x.Ref.Refs), cBool(x.Ref.NotNull))
			}
			return "(DField " + cField(x.Field) + ")"
		}) + ")"
	}
	return fmt.Sprintf("(Ws %s %s %s %s %s)", cStr(w.Name), cBool(w.Abstract), cQRefs(w.Inh), d, cList(w.Items, cWsItem))
}
func cSchema(a Schema) string {
	return cList(a, func(p Pkg) string {
		return fmt.Sprintf("(Pkg %s %s)", cStr(p.Name), cList(p.Files, func(f []Ws) string { return cList(f, cWs) }))
	})
}
func cTexts(t []PkgText) string {
	return cList(t, func(p PkgText) string { return "(" + cStr(p.Path) + ", " + cStrs(p.Files) + ")" })
}

// ---- observed dump ----

func cQName(s string) string {
	i := strings.Index(s, ".")
	if i < 0 {
		return "(" + cStr("") + ", " + cStr(s) + ")"
	}
	return "(" + cStr(s[:i]) + ", " + cStr(s[i+1:]) + ")"
}
func cQNames(l []string) string { return cList(l, cQName) }
func cOptQ(s string) string {
	if s == "" {
		return "None"
	}
	return "(Some " + cQName(s) + ")"
}

var dkindCoq = map[string]string{"int8": "Kint8", "int16": "Kint16", "int32": "Kint32", "int64": "Kint64", "float32": "Kfloat32",
	"float64": "Kfloat64", "bytes": "Kbytes", "string": "Kstring", "QName": "KQName", "bool": "Kbool", "RecordID": "KRecordID"}
var tkindCoq = map[string]string{"CDoc": "KCDoc", "ODoc": "KODoc", "WDoc": "KWDoc", "CRecord": "KCRecord", "ORecord": "KORecord",
	"WRecord": "KWRecord", "Object": "KObject"}
var scopeCoq = map[string]string{"AppPartition": "ScAppPartition", "Workspace": "ScWorkspace", "User": "ScUser", "IP": "ScIP"}

type unrep struct{ why string }

func must(m map[string]string, k, what string) string {
	v, ok := m[k]
	if !ok {
		panic(unrep{what + " " + k})
	}
	return v
}
func cFDef(f DField) string {
	refs := "None"
	if f.Refs != nil {
		refs = "(Some " + cQNames(f.Refs) + ")"
	}
	mx := "None"
	if f.MaxLen >= 0 {
		mx = "(Some " + cN(uint64(f.MaxLen)) + ")"
	}
	pat := "None"
	if f.Pattern != "" {
		pat = "(Some " + cStr(f.Pattern) + ")"
	}
	return fmt.Sprintf("(FD %s %s %s %s %s %s %s %s)", cStr(f.Name), must(dkindCoq, f.Kind, "data kind"), cBool(f.Required), cBool(f.Sys),
		cBool(f.Verify), mx, pat, refs)
}
func cFDefs(l []DField) string { return cList(l, cFDef) }
func cFlt(f DFilter) string {
	switch f.K {
	case "Q":
		return "(FQ " + cQNames(f.Q) + ")"
	case "T":
		if k, ok := fkCoq[f.T]; ok {
			return "(FT " + k + ")"
		}
	case "WT":
		if k, ok := fkCoq[f.T]; ok {
			return "(FWT " + cQName(f.W) + " " + k + ")"
		}
	case "AND":
		if k, ok := fkCoq[f.T]; ok {
			return "(FAnd " + k + " " + cQName(f.Q[0]) + ")"
		}
	}
	return "(FOther " + cStr(fmt.Sprintf("%+v", f)) + ")"
}
func cOpsD(l []string) string {
	return cList(l, func(s string) string { return must(opCoq, s, "operation") })
}
func cRule(r DRule) string {
	return fmt.Sprintf("(Rule %s %s %s %s %s)", cBool(r.Policy == "Allow"), cOpsD(r.Ops), cFlt(r.Filter), cStrs(r.Fields), cQName(r.Role))
}

// storages are rendered "sys.View(a.V1,a.V2)"; only view intents are in the model
func viewIntents(l []string) ([]string, bool) {
	res := []string{}
	for _, s := range l {
		if !strings.HasPrefix(s, "sys.View(") || !strings.HasSuffix(s, ")") {
			return nil, false
		}
		in := s[len("sys.View(") : len(s)-1]
		if in != "" {
			res = append(res, strings.Split(in, ",")...)
		}
	}
	return res, true
}

func cItem(it DItem) (res string) {
	defer func() {
		if r := recover(); r != nil {
			u, ok := r.(unrep)
			if !ok {
				panic(r)
			}
			res = fmt.Sprintf("(ItOther %s %s)", cQName(it.QName), cStr(u.why))
		}
	}()
	other := func(why string) string { panic(unrep{why}) }
	q, w := cQName(it.QName), cQName(it.WS)
	switch it.Class {
	case "ws":
		return fmt.Sprintf("(ItWs %s %s %s %s %s %s)", q, cBool(it.Abstract), cQNames(it.Ancestors), cOptQ(it.Descriptor), cQNames(it.Used), cList(it.ACL, cRule))
	case "struct":
		if it.UniqueField != "" || len(it.Tags) > 0 {
			other("unique field / tags")
		}
		return fmt.Sprintf("(ItStruct %s %s %s %s %s %s %s %s)", q, must(tkindCoq, it.Kind, "type kind"), w, cBool(it.Abstract), cBool(it.Singleton),
			cFDefs(it.Fields),
			cList(it.Containers, func(c DContainer) string {
				return fmt.Sprintf("(CD %s %s %s %s)", cStr(c.Name), cQName(c.Type), cN(uint64(c.Min)), cN(uint64(c.Max)))
			}),
			cList(it.Uniques, func(u DUnique) string {
				n := u.Name
				if i := strings.LastIndex(n, "$"); i >= 0 {
					if !strings.HasPrefix(n, it.QName+"$uniques$") {
						other("unique name " + n)
					}
					n = n[i+1:]
				}
				return fmt.Sprintf("(UD %s %s)", cStr(n), cStrs(u.Fields))
			}))
	case "view":
		if len(it.Tags) > 0 {
			other("tags")
		}
		return fmt.Sprintf("(ItView %s %s %s %s %s)", q, w, cFDefs(it.PartKey), cFDefs(it.ClustCols), cFDefs(it.Value))
	case "func":
		if len(it.Tags) > 0 || len(it.Intents) > 0 || len(it.States) > 0 {
			other("tags / storages")
		}
		return fmt.Sprintf("(ItFunc %s %s %s %s %s %s %s)", q, w, cBool(it.Kind == "Command"), cBool(it.Engine == "WASM"), cOptQ(it.Param), cOptQ(it.Unlogged), cOptQ(it.Result))
	case "proj":
		vi, ok := viewIntents(it.Intents)
		if !ok || len(it.States) > 0 {
			other("storages")
		}
		return fmt.Sprintf("(ItProj %s %s %s %s %s %s %s)", q, w, cBool(it.Sync), cBool(it.Engine == "WASM"), cBool(it.Option == "errors"),
			cList(it.Events, func(e DRule) string { return "(" + cOpsD(e.Ops) + ", " + cFlt(e.Filter) + ")" }), cQNames(vi))
	case "role":
		return fmt.Sprintf("(ItRole %s %s %s)", q, w, cBool(it.Published))
	case "rate":
		return fmt.Sprintf("(ItRate %s %s %s %s %s)", q, w, cN(uint64(it.Count)), kit.Z(it.Period),
			cList(it.Scopes, func(s string) string { return must(scopeCoq, s, "scope") }))
	case "limit":
		return fmt.Sprintf("(ItLimit %s %s %s %s %s %s)", q, w, cOpsD(it.Ops), cBool(it.Option == "EACH"), cFlt(*it.Filter), cQName(it.Rate))
	}
	return other("class " + it.Class + " kind " + it.Kind)
}

// Observed is what one compilation (run twice) showed
type Observed struct {
	Stage         string `json:"stage"` // ok | parse | package | analyse | build | validate | panic
	Err           string `json:"err,omitempty"`
	Dump          *Dump  `json:"dump,omitempty"`
	SysUnchanged  bool   `json:"sys_unchanged"`
	DirectAnc     bool   `json:"direct_anc"` // every workspace's Ancestors() is exactly what its INHERITS names (or sys.Workspace)
	Deterministic bool   `json:"deterministic"`
}

func cOutcome(o Observed) string {
	if o.Stage != "ok" {
		return "(Rejected " + cBool(o.Stage == "panic" || o.Stage == "died" || o.Stage == "hang") + ")"
	}
	return fmt.Sprintf("(Compiled %s %s %s %s)", cList(o.Dump.Items, cItem), cBool(o.SysUnchanged), cBool(o.Deterministic), cBool(o.DirectAnc))
}

func cTrace(a Schema, texts []PkgText, o Observed) string {
	return fmt.Sprintf("(Trace %s %s %s)", cSchema(a), cTexts(texts), cOutcome(o))
}
