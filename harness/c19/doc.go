// Package c19: harness of property C19 (registers itself with kit.Register in an init function).
package c19
