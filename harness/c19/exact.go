package c19

import "math/big"

// Port of the exact-arithmetic model of coq/theories/C19_Rates/Model.v (x_allow, x_new, x_take,
// x_taken ...). Credit is counted in nanoseconds: one token = I ns of credit. The Coq side
// re-computes the number of observables that differ from this reference (`tr_xdiff`), so a wrong
// port shows up as a disagreement.

const (
	xInf = iota
	xZero
	xNorm
)

var maxD = big.NewInt(1<<63 - 1)

type xlim struct {
	kind  int
	burst *big.Int
	ival  *big.Int // refill interval, ns
	c     *big.Int // credit, ns
	last  *big.Int // ns since year 1
	frac  bool     // the credit was refilled by a fractional number of tokens (float rounding noise)
}

type xbucket struct {
	lim xlim
	st  stateSpec
}

type xsys struct {
	buckets  map[keySpec]*xbucket
	defaults map[int]stateSpec
}

func newXSys() *xsys {
	return &xsys{buckets: map[keySpec]*xbucket{}, defaults: map[int]stateSpec{}}
}

func bi(x int64) *big.Int { return big.NewInt(x) }

func minB(a, b *big.Int) *big.Int {
	if a.Cmp(b) <= 0 {
		return a
	}
	return b
}

func (l *xlim) avail(now *big.Int) (last, av *big.Int, frac bool) {
	last = minB(now, l.last)
	el := minB(new(big.Int).Sub(now, last), maxD)
	cap := new(big.Int).Mul(l.burst, l.ival)
	raw := new(big.Int).Add(l.c, el)
	av = minB(cap, raw)
	if cap.Cmp(raw) < 0 {
		frac = false
	} else {
		frac = l.frac || el.Sign() > 0
	}
	return
}

func (l *xlim) allow(coin bool, now *big.Int, n int64) bool {
	switch l.kind {
	case xInf:
		return true
	case xZero:
		if bi(n).Cmp(l.burst) <= 0 {
			l.burst = new(big.Int).Sub(l.burst, bi(n))
			return true
		}
		return false
	}
	last, c1, fr := l.avail(now)
	c2 := new(big.Int).Sub(c1, new(big.Int).Mul(bi(n), l.ival))
	if bi(n).Cmp(l.burst) <= 0 && (c2.Sign() >= 0 || (coin && fr && c2.Cmp(bi(-1)) == 0)) {
		l.c, l.last, l.frac = c2, now, fr
		return true
	}
	l.last = last
	return false
}

// xnew mirrors x_new_gen true true true true: interval Period/Count in whole ns, every interval <= 0
// is 1 ns (7348cd5bb, e448004d7); the limiter starts full (ca6594b47) and is primed with
// min(taken, count) (4e20ebf0e)
func xnew(s stateSpec, now *big.Int) *xbucket {
	l := xlim{kind: xZero, burst: bi(int64(s.Max)), ival: bi(0), c: bi(0), last: bi(0)}
	if s.Max > 0 {
		i := s.Period / int64(s.Max) // Go division truncates toward zero, like Z.quot
		if i <= 0 {
			i = 1
		}
		l.kind = xNorm
		l.ival = bi(i)
		l.c = new(big.Int).Mul(l.burst, l.ival)
	}
	b := &xbucket{lim: l, st: s}
	b.lim.allow(false, now, int64(min(s.Taken, s.Max)))
	return b
}

func (s *xsys) bucket(now *big.Int, k keySpec) *xbucket {
	if b, ok := s.buckets[k]; ok {
		return b
	}
	d, ok := s.defaults[k.Name]
	if !ok {
		return nil
	}
	b := xnew(d, now)
	s.buckets[k] = b
	return b
}

func (s *xsys) setDefault(name int, st stateSpec) { s.defaults[name] = st }

func (s *xsys) clone() *xsys {
	c := newXSys()
	for k, b := range s.buckets {
		bb := *b // big.Int values are never mutated in place
		c.buckets[k] = &bb
	}
	for k, d := range s.defaults {
		c.defaults[k] = d
	}
	return c
}

func (s *xsys) take(now *big.Int, coins []bool, keys []keySpec, n int64) (bool, int) {
	for i, k := range keys {
		b := s.bucket(now, k)
		if b == nil {
			continue
		}
		if !b.lim.allow(i < len(coins) && coins[i], now, n) {
			for _, g := range keys[:i] {
				if gb := s.bucket(now, g); gb != nil {
					gb.lim.allow(false, now, -n)
				}
			}
			return false, k.Name
		}
	}
	return true, 0
}

// candidates mirrors Model.v: all coin vectors for up to 3 keys (strict one first), else all-false, all-true
func candidates(n int) [][]bool {
	if n > 3 {
		return [][]bool{make([]bool, n), allTrue(n)}
	}
	res := [][]bool{{}}
	for i := 0; i < n; i++ {
		var next [][]bool
		for _, first := range []bool{false, true} {
			for _, v := range res {
				next = append(next, append([]bool{first}, v...))
			}
		}
		res = next
	}
	return res
}

func allTrue(n int) []bool {
	v := make([]bool, n)
	for i := range v {
		v[i] = true
	}
	return v
}

// follow: the state after the observed outcome if some coin vector explains it (explained = true),
// else the strict model's own outcome
func (s *xsys) follow(now *big.Int, keys []keySpec, n int64, ok bool, exc int) (ns *xsys, explained, early, xok bool, xexc int) {
	for i, c := range candidates(len(keys)) {
		t := s.clone()
		xok, xexc := t.take(now, c, keys, n)
		if xok == ok && xexc == exc {
			return t, true, i > 0, xok, xexc
		}
	}
	t := s.clone()
	xok, xexc = t.take(now, nil, keys, n)
	return t, false, false, xok, xexc
}

func (s *xsys) get(now *big.Int, k keySpec) (bool, stateSpec) {
	b := s.bucket(now, k)
	if b == nil {
		return false, stateSpec{}
	}
	l := &b.lim
	var taken *big.Int
	switch l.kind {
	case xInf:
		if now.Cmp(minB(now, l.last)) > 0 {
			taken = bi(0)
		} else {
			taken = l.burst
		}
	case xZero:
		taken = l.burst
	default: // rounded up (d872ef03d)
		_, av, _ := l.avail(now)
		taken = new(big.Int).Sub(new(big.Int).Mul(l.burst, l.ival), av)
		taken.Add(taken, l.ival).Sub(taken, bi(1)).Div(taken, l.ival)
	}
	taken = minB(taken, bi(1<<32-1)) // capped at MaxUint32
	st := b.st                       // the stored TakenTokens (input of the last override) is kept: nothing reads the recalculated one
	st.Taken = uint32(taken.Uint64())
	return true, st
}

func (s *xsys) set(now *big.Int, k keySpec, st stateSpec) bool {
	if s.bucket(now, k) == nil {
		return false
	}
	s.buckets[k] = xnew(st, now)
	return true
}

func (s *xsys) reset(now *big.Int, name int, st stateSpec) {
	if _, ok := s.defaults[name]; !ok {
		return
	}
	for k := range s.buckets {
		if k.Name == name {
			s.buckets[k] = xnew(st, now)
		}
	}
}
