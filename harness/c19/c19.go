// Package c19: token-bucket rate limits (property C19). Drives the real pkg/iratesce through
// irates.IBuckets on a deterministic clock and prints the observed history as a Coq `trace`.
package c19

import (
	"fmt"
	"math/big"
	"sort"
	"strings"
	"sync"
	"time"

	"verifharness/kit"

	"github.com/voedger/voedger/pkg/appdef"
	"github.com/voedger/voedger/pkg/irates"
	"github.com/voedger/voedger/pkg/iratesce"
	"github.com/voedger/voedger/pkg/istructs"
)

type stateSpec struct {
	Period int64  `json:"period_ns"`
	Max    uint32 `json:"max"`
	Taken  uint32 `json:"taken"`
}

type keySpec struct {
	Name int `json:"name"` // rate limit name id (1..)
	Rest int `json:"rest"` // which other BucketKey fields are set (0..3)
}

type obsSpec struct {
	AtNs  string     `json:"at_ns_since_year1"`
	OK    *bool      `json:"ok,omitempty"`
	Exc   *int       `json:"exc_limit,omitempty"`
	Found *bool      `json:"found,omitempty"`
	State *stateSpec `json:"state,omitempty"`
	// concurrent take: one result per goroutine, admitted first
	OKs  []bool `json:"oks,omitempty"`
	Excs []int  `json:"excs,omitempty"`
	// what the exact-arithmetic reference (port of Coq x_* functions) says, when different
	ExactDiff string `json:"exact_differs,omitempty"`
}

type opSpec struct {
	Dt    uint64     `json:"dt_ns"` // clock advance before the op
	Kind  string     `json:"kind"`  // default | take | ctake | get | rtrip (get + set of the reported state) | set | reset | exceeded | resetlimits
	Name  int        `json:"name,omitempty"`
	Key   *keySpec   `json:"key,omitempty"`
	Keys  []keySpec  `json:"keys,omitempty"`
	N     int64      `json:"n,omitempty"`
	G     int        `json:"goroutines,omitempty"`
	State *stateSpec `json:"state,omitempty"`
	Req   *reqSpec   `json:"request,omitempty"` // exceeded | resetlimits (through the limiter)
	Obs   *obsSpec   `json:"observed,omitempty"`
}

type scenario struct {
	Note   string      `json:"note,omitempty"`
	Limits []limitSpec `json:"limits,omitempty"` // non-empty: an application with these limits is deployed
	Ops    []*opSpec   `json:"ops"`
}

func qname(id int) appdef.QName { return appdef.NewQName("c19", fmt.Sprintf("limit%d", id)) }

func (k keySpec) bucketKey() irates.BucketKey {
	bk := irates.BucketKey{RateLimitName: qname(k.Name)}
	if k.Rest >= 1000000 { // keys as the limiter builds them: workspace, address, resource (0 = not set)
		x := k.Rest - 1000000
		if ws := x / 10000; ws != 0 {
			bk.Workspace = istructs.WSID(ws)
		}
		bk.RemoteAddr = addrString(x / 100 % 100)
		if res := x % 100; res != 0 {
			bk.QName = resQName(res)
		}
		return bk
	}
	switch k.Rest {
	case 1:
		bk.Workspace = istructs.WSID(7)
	case 2:
		bk.RemoteAddr = "10.0.0.1"
	case 3:
		bk.Workspace = istructs.WSID(7)
		bk.RemoteAddr = "10.0.0.1"
		bk.QName = appdef.NewQName("c19", "cmd")
	}
	return bk
}

func (k keySpec) coq() string { return fmt.Sprintf("(%d, %d)", k.Name, k.Rest) }

func (s stateSpec) coq() string {
	return fmt.Sprintf("(mkBS %s %d %d)", kit.Z(s.Period), s.Max, s.Taken)
}

func (s stateSpec) irates() irates.BucketState {
	return irates.BucketState{Period: appdef.RatePeriod(s.Period), MaxTokensPerPeriod: irates.NumTokensType(s.Max), TakenTokens: irates.NumTokensType(s.Taken)}
}

func fromIrates(s irates.BucketState) stateSpec {
	return stateSpec{Period: int64(s.Period), Max: uint32(s.MaxTokensPerPeriod), Taken: uint32(s.TakenTokens)}
}

// nanoseconds from Go's zero time.Time (year 1) to kit.Epoch
var epochNs = func() *big.Int {
	secs := kit.Epoch.Unix() + 62135596800
	return new(big.Int).Mul(big.NewInt(secs), big.NewInt(1_000_000_000))
}()

const maxOffset = uint64(1) << 62

func nameID(q appdef.QName) int {
	if q == appdef.NullQName {
		return 0
	}
	var id int
	if _, err := fmt.Sscanf(q.Entity(), "limit%d", &id); err != nil {
		return 999
	}
	return id
}

func keysCoq(ks []keySpec) string {
	items := make([]string, len(ks))
	for i, k := range ks {
		items[i] = k.coq()
	}
	return kit.List(items)
}

// run executes the scenario on a new IBuckets (behind the limiter of a deployed application when
// the scenario has limits) and returns the Coq trace and the tags
func run(sc *scenario) (coq string, tags []string, err error) {
	defer func() {
		if p := recover(); p != nil {
			err = fmt.Errorf("panic in iratesce/limiter: %v", p)
		}
	}()
	clock := kit.NewClock()
	var buckets irates.IBuckets
	var rig *limiterRig
	ref := newXSys()
	if len(sc.Limits) > 0 {
		if rig, err = deploy(sc.Limits, clock); err != nil {
			return "", nil, err
		}
		defer rig.close()
		buckets = rig.buckets
		for _, l := range sc.Limits {
			ref.setDefault(l.Name, l.defaultState())
		}
	} else {
		buckets = iratesce.Provide(clock)
	}
	var off uint64
	var evs []string
	tagset := map[string]bool{}
	xdiff := 0
	emit := func(at *big.Int, body string) {
		evs = append(evs, fmt.Sprintf("Ev %s (%s)", at.String(), body))
	}
	// the observed outcome of one TakeTokens, followed on the exact reference
	observeTake := func(o *opSpec, at *big.Int, keys []keySpec, n int64, ok bool, exc int) {
		nref, explained, early, xok, xexc := ref.follow(at, keys, n, ok, exc)
		if early {
			tagset["bridge:request-1ns-short-admitted-by-rounding"] = true
		}
		if !explained {
			xdiff++
			o.Obs.ExactDiff = fmt.Sprintf("exact model: ok=%v exc=%d", xok, xexc)
			tagset[diffTag(nref, keys)] = true
		}
		ref = nref
	}
	for _, o := range sc.Ops {
		if off+o.Dt < off || off+o.Dt > maxOffset {
			o.Dt = 0
		}
		off += o.Dt
		if o.Dt > 0 {
			clock.Advance(time.Duration(o.Dt))
		}
		at := new(big.Int).Add(epochNs, new(big.Int).SetUint64(off))
		o.Obs = &obsSpec{AtNs: at.String()}
		switch o.Kind {
		case "default":
			buckets.SetDefaultBucketState(qname(o.Name), o.State.irates())
			ref.setDefault(o.Name, *o.State)
			emit(at, fmt.Sprintf("OSetDefault %d %s", o.Name, o.State.coq()))
		case "take":
			bks := make([]irates.BucketKey, len(o.Keys))
			for i, k := range o.Keys {
				bks[i] = k.bucketKey()
			}
			ok, exc := buckets.TakeTokens(bks, int(o.N))
			e := nameID(exc)
			o.Obs.OK, o.Obs.Exc = &ok, &e
			observeTake(o, at, o.Keys, o.N, ok, e)
			emit(at, fmt.Sprintf("OTake %s %s %s %d", keysCoq(o.Keys), kit.Z(o.N), kit.Bool(ok), e))
		case "ctake":
			bks := make([]irates.BucketKey, len(o.Keys))
			for i, k := range o.Keys {
				bks[i] = k.bucketKey()
			}
			type res struct {
				ok  bool
				exc int
			}
			results := make([]res, o.G)
			var wg sync.WaitGroup
			start := make(chan struct{})
			for g := 0; g < o.G; g++ {
				wg.Add(1)
				go func(g int) {
					defer wg.Done()
					<-start
					ok, exc := buckets.TakeTokens(bks, int(o.N))
					results[g] = res{ok, nameID(exc)}
				}(g)
			}
			close(start)
			wg.Wait()
			// the only candidate linearization of identical requests at one instant: admitted first
			sort.SliceStable(results, func(i, j int) bool { return results[i].ok && !results[j].ok })
			for _, r := range results {
				o.Obs.OKs = append(o.Obs.OKs, r.ok)
				o.Obs.Excs = append(o.Obs.Excs, r.exc)
				observeTake(o, at, o.Keys, o.N, r.ok, r.exc)
				emit(at, fmt.Sprintf("OTake %s %s %s %d", keysCoq(o.Keys), kit.Z(o.N), kit.Bool(r.ok), r.exc))
			}
		case "exceeded":
			if rig == nil {
				return "", nil, fmt.Errorf("exceeded: the scenario has no limits")
			}
			q := *o.Req
			exceeded, excName := rig.part.IsLimitExceeded(resQName(q.Res), appdef.OperationKind(q.Op), istructs.WSID(q.WS), addrString(q.Addr))
			ok, e := !exceeded, nameID(excName)
			o.Obs.OK, o.Obs.Exc = &ok, &e
			keys, _ := reqKeys(sc.Limits, q)
			if len(keys) == 0 {
				if exceeded || e != 0 {
					xdiff++ // never equal on the Coq side either: `lowered` fails
					o.Obs.ExactDiff = "no limit applies to the request"
				}
			} else {
				observeTake(o, at, keys, 1, ok, e)
			}
			emit(at, fmt.Sprintf("OExceeded %s %s %d", q.coq(), kit.Bool(exceeded), e))
		case "resetlimits":
			if rig == nil {
				return "", nil, fmt.Errorf("resetlimits: the scenario has no limits")
			}
			q := *o.Req
			rig.part.ResetRateLimit(resQName(q.Res), appdef.OperationKind(q.Op), istructs.WSID(q.WS), addrString(q.Addr))
			_, applicable := reqKeys(sc.Limits, q)
			for _, l := range applicable {
				ref.set(at, l.keyOf(q), l.defaultState())
			}
			emit(at, fmt.Sprintf("OResetLimits %s", q.coq()))
		case "get", "rtrip":
			st, gerr := buckets.GetBucketState(o.Key.bucketKey())
			found := gerr == nil
			s := fromIrates(st)
			o.Obs.Found, o.Obs.State = &found, &s
			xfound, xs := ref.get(at, *o.Key)
			// +-1: float truncation of burst - tokens
			if xfound != found || xs.Period != s.Period || xs.Max != s.Max || absDiff(xs.Taken, s.Taken) > 1 {
				xdiff++
				o.Obs.ExactDiff = "exact model: another state"
				tagset[diffTag(ref, []keySpec{*o.Key})] = true
			}
			emit(at, fmt.Sprintf("OGet %s %s %s", o.Key.coq(), kit.Bool(found), s.coq()))
			if o.Kind == "rtrip" && found { // write the reported state back
				_ = buckets.SetBucketState(o.Key.bucketKey(), st)
				ref.set(at, *o.Key, s)
				emit(at, fmt.Sprintf("OSet %s %s true", o.Key.coq(), s.coq()))
			}
		case "set":
			serr := buckets.SetBucketState(o.Key.bucketKey(), o.State.irates())
			found := serr == nil
			o.Obs.Found = &found
			if ref.set(at, *o.Key, *o.State) != found {
				xdiff++
				o.Obs.ExactDiff = "exact model: found differs"
			}
			emit(at, fmt.Sprintf("OSet %s %s %s", o.Key.coq(), o.State.coq(), kit.Bool(found)))
		case "reset":
			buckets.ResetRateBuckets(qname(o.Name), o.State.irates())
			ref.reset(at, o.Name, *o.State)
			emit(at, fmt.Sprintf("OReset %d %s", o.Name, o.State.coq()))
		default:
			return "", nil, fmt.Errorf("unknown op kind %q", o.Kind)
		}
	}
	if xdiff == 0 {
		tagset["bridge:observed-is-a-behaviour-of-exact-model"] = true
	}
	for t := range scenarioTags(sc) {
		tagset[t] = true
	}
	for t := range tagset {
		tags = append(tags, t)
	}
	sort.Strings(tags)
	lims := make([]string, len(sc.Limits))
	for i, l := range sc.Limits {
		lims[i] = l.coq()
	}
	coq = fmt.Sprintf("(mkTrace %d %s [%s])", xdiff, kit.List(lims), strings.Join(evs, ";\n "))
	return coq, tags, nil
}

// an observable that no behaviour of the exact model explains is attributed to the configuration
// of the buckets involved: up to a period of 2^53 ns float rounding stays below one nanosecond of
// credit (the measured domain of the bridge); up to 2^62 ns (the domain of the theorems) it can
// move a decision by more without touching the statement (the code mis-decided beyond 2^62 ns until
// ca6594b47, F18)
func diffTag(ref *xsys, keys []keySpec) string {
	var worst int64
	for _, k := range keys {
		if b, ok := ref.buckets[k]; ok && b.st.Period > worst {
			worst = b.st.Period
		}
	}
	switch {
	case worst > f18Period:
		return "bridge:observed-outside-exact-model-period>2^62ns"
	case worst >= periodDomain:
		return "bridge:observed-outside-exact-model-period>=2^53ns"
	}
	return "bridge:observed-outside-exact-model-inside-domain"
}

func absDiff(a, b uint32) uint32 {
	if a > b {
		return a - b
	}
	return b - a
}

const (
	periodDomain = int64(1) << 53
	f18Period    = int64(1) << 62
)
