package c19

import (
	"context"
	"fmt"
	"sort"
	"strings"
	"time"

	"verifharness/kit"

	"github.com/voedger/voedger/pkg/appdef"
	"github.com/voedger/voedger/pkg/appdef/builder"
	"github.com/voedger/voedger/pkg/appdef/filter"
	"github.com/voedger/voedger/pkg/appparts"
	"github.com/voedger/voedger/pkg/irates"
	"github.com/voedger/voedger/pkg/iratesce"
	"github.com/voedger/voedger/pkg/isequencer"
	"github.com/voedger/voedger/pkg/istorage/mem"
	"github.com/voedger/voedger/pkg/istorage/provider"
	"github.com/voedger/voedger/pkg/istructs"
	"github.com/voedger/voedger/pkg/istructsmem"
	payloads "github.com/voedger/voedger/pkg/itokens-payloads"
	"github.com/voedger/voedger/pkg/itokensjwt"
)

// The limiter layer (pkg/appparts/internal/limiter) is driven through the public API:
// an application with real appdef rates/limits is deployed on appparts and requests go through
// IAppPartition.IsLimitExceeded / ResetRateLimit; the partition's IBuckets is the harness' own
// iratesce instance, so bucket states stay observable.

// resources of the generated application: id -> (name, kind)
type resource struct {
	id   int
	name string
	kind string // table | function | none (not part of the application)
}

var resources = []resource{
	{1, "doc1", "table"}, {2, "doc2", "table"}, {3, "doc3", "table"},
	{4, "cmd1", "function"}, {5, "cmd2", "function"}, {6, "qry1", "function"},
	{7, "WSDesc", "table"}, {9, "ghost", "none"},
}

const wsQName = "workspace"

func resQName(id int) appdef.QName {
	for _, r := range resources {
		if r.id == id {
			return appdef.NewQName("c19", r.name)
		}
	}
	return appdef.NullQName
}

type filterSpec struct {
	Kind string `json:"kind"` // qnames | tables | functions | all
	Res  []int  `json:"res,omitempty"`
}

type limitSpec struct {
	Name    int        `json:"name"` // c19.limit<Name>; the application lists limits in QName order
	Ops     []int      `json:"ops"`  // appdef.OperationKind values
	Each    bool       `json:"each"`
	ScopeWS bool       `json:"scope_workspace"`
	ScopeIP bool       `json:"scope_ip"`
	Extra   []int      `json:"other_scopes,omitempty"` // scopes that do not enter the bucket key
	Filter  filterSpec `json:"filter"`
	Count   uint32     `json:"count"`
	Period  int64      `json:"period_ns"`
}

type reqSpec struct {
	Res  int `json:"resource"`
	Op   int `json:"operation"`
	WS   int `json:"workspace"`
	Addr int `json:"addr"`
}

// matches by the generator's own knowledge of the application (cross-checked against appdef in deploy)
func (l limitSpec) matches() []int {
	var m []int
	for _, r := range resources {
		switch {
		case r.kind == "none":
		case l.Filter.Kind == "qnames":
			for _, x := range l.Filter.Res {
				if x == r.id {
					m = append(m, r.id)
				}
			}
		case l.Filter.Kind == "tables" && r.kind == "table",
			l.Filter.Kind == "functions" && r.kind == "function",
			l.Filter.Kind == "all":
			m = append(m, r.id)
		}
	}
	return m
}

func (l limitSpec) applies(q reqSpec) bool {
	hit := false
	for _, r := range l.matches() {
		hit = hit || r == q.Res
	}
	op := false
	for _, o := range l.Ops {
		op = op || o == q.Op
	}
	return hit && op
}

func restID(ws, addr, res int) int { return 1000000 + ws*10000 + addr*100 + res }

func (l limitSpec) keyOf(q reqSpec) keySpec {
	ws, addr, res := 0, 0, 0
	if l.ScopeWS {
		ws = q.WS
	}
	if l.ScopeIP {
		addr = q.Addr
	}
	if l.Each {
		res = q.Res
	}
	return keySpec{Name: l.Name, Rest: restID(ws, addr, res)}
}

func (l limitSpec) defaultState() stateSpec { return stateSpec{Period: l.Period, Max: l.Count} }

func reqKeys(limits []limitSpec, q reqSpec) (keys []keySpec, applicable []limitSpec) {
	for _, l := range limits {
		if l.applies(q) {
			keys = append(keys, l.keyOf(q))
			applicable = append(applicable, l)
		}
	}
	return
}

func addrString(a int) string {
	if a == 0 {
		return ""
	}
	return fmt.Sprintf("10.0.0.%d", a)
}

func nList(xs []int) string {
	items := make([]string, len(xs))
	for i, x := range xs {
		items[i] = fmt.Sprint(x)
	}
	return kit.List(items)
}

func (l limitSpec) coq() string {
	return fmt.Sprintf("(mkLimit %d %s %s %s %s %s %s %d)", l.Name, nList(l.Ops), kit.Bool(l.Each), kit.Bool(l.ScopeWS), kit.Bool(l.ScopeIP),
		nList(l.matches()), kit.Z(l.Period), l.Count)
}

func (q reqSpec) coq() string { return fmt.Sprintf("(mkReq %d %d %d %d)", q.Res, q.Op, q.WS, q.Addr) }

type limiterRig struct {
	part    appparts.IAppPartition
	buckets irates.IBuckets
	cleanup func()
}

func (r *limiterRig) close() {
	if r.part != nil {
		r.part.Release()
	}
	if r.cleanup != nil {
		r.cleanup()
	}
}

// deploy builds the application (3 tables, 2 commands, 1 query, the given rates and limits) and
// deploys it on appparts with one partition
func deploy(limits []limitSpec, clock *kit.Clock) (rig *limiterRig, err error) {
	defer func() {
		if p := recover(); p != nil {
			err = fmt.Errorf("building the application: %v", p)
		}
	}()
	sorted := append([]limitSpec(nil), limits...)
	sort.Slice(sorted, func(i, j int) bool { return qname(sorted[i].Name).String() < qname(sorted[j].Name).String() })
	for i := range sorted {
		if sorted[i].Name != limits[i].Name {
			return nil, fmt.Errorf("limits must be listed in QName order")
		}
	}
	adb := builder.New()
	adb.AddPackage("c19", "test.com/c19")
	ws := appdef.NewQName("c19", wsQName)
	wsb := adb.AddWorkspace(ws)
	wsb.AddCDoc(resQName(7))
	wsb.SetDescriptor(resQName(7))
	for _, id := range []int{1, 2, 3} {
		wsb.AddCDoc(resQName(id)).AddField("f", appdef.DataKind_int32, false)
	}
	wsb.AddCommand(resQName(4))
	wsb.AddCommand(resQName(5))
	wsb.AddQuery(resQName(6))
	for _, l := range limits {
		rate := appdef.NewQName("c19", fmt.Sprintf("rate%d", l.Name))
		var scopes []appdef.RateScope
		if l.ScopeWS {
			scopes = append(scopes, appdef.RateScope_Workspace)
		}
		if l.ScopeIP {
			scopes = append(scopes, appdef.RateScope_IP)
		}
		for _, s := range l.Extra {
			scopes = append(scopes, appdef.RateScope(s))
		}
		wsb.AddRate(rate, l.Count, time.Duration(l.Period), scopes)
		var flt appdef.IFilter
		switch l.Filter.Kind {
		case "qnames":
			var names []appdef.QName
			for _, r := range l.Filter.Res {
				names = append(names, resQName(r))
			}
			flt = filter.QNames(names...)
		case "tables":
			flt = filter.AllWSTables(ws)
		case "functions":
			flt = filter.AllWSFunctions(ws)
		default:
			flt = filter.Or(filter.AllWSTables(ws), filter.AllWSFunctions(ws))
		}
		var ops []appdef.OperationKind
		for _, o := range l.Ops {
			ops = append(ops, appdef.OperationKind(o))
		}
		opt := appdef.LimitFilterOption_ALL
		if l.Each {
			opt = appdef.LimitFilterOption_EACH
		}
		wsb.AddLimit(qname(l.Name), ops, opt, flt, rate)
	}
	appCfgs := istructsmem.AppConfigsType{}
	appCfgs.AddBuiltInAppConfig(istructs.AppQName_test1_app1, adb).SetNumAppWorkspaces(istructs.DefaultNumAppWorkspaces)
	app, berr := adb.Build()
	if berr != nil {
		return nil, berr
	}
	// the generator's idea of what each filter matches must be appdef's (else the model input is wrong)
	for _, l := range limits {
		lim := appdef.Limit(app.Type, qname(l.Name))
		var real []string
		for _, t := range app.Types() {
			if appdef.TypeKind_Limitables.Contains(t.Kind()) && lim.Filter().Match(t) {
				real = append(real, t.QName().String())
			}
		}
		var mine []string
		for _, r := range l.matches() {
			mine = append(mine, resQName(r).String())
		}
		sort.Strings(real)
		sort.Strings(mine)
		if strings.Join(real, ",") != strings.Join(mine, ",") {
			return nil, fmt.Errorf("limit %d: filter matches %v, generator assumed %v", l.Name, real, mine)
		}
	}
	asp := istructsmem.Provide(appCfgs, payloads.ProvideIAppTokensFactory(itokensjwt.TestTokensJWT()),
		provider.Provide(mem.Provide(clock), ""), isequencer.SequencesTrustLevel_0, nil)
	rig = &limiterRig{}
	factory := func() irates.IBuckets {
		rig.buckets = iratesce.Provide(clock)
		return rig.buckets
	}
	ctx, cancel := context.WithCancel(context.Background())
	parts, cleanup, perr := appparts.New2(ctx, asp, appparts.NullSyncActualizerFactory, appparts.NullActualizerRunner,
		appparts.NullSchedulerRunner, appparts.NullExtensionEngineFactories, factory)
	if perr != nil {
		cancel()
		return nil, perr
	}
	rig.cleanup = func() { cancel(); cleanup() }
	parts.DeployApp(istructs.AppQName_test1_app1, nil, app, 1, appparts.PoolSize(1, 1, 1, 1), istructs.DefaultNumAppWorkspaces)
	parts.DeployAppPartitions(istructs.AppQName_test1_app1, []istructs.PartitionID{1})
	part, borr := parts.Borrow(istructs.AppQName_test1_app1, 1, appparts.ProcessorKind_Command)
	if borr != nil {
		rig.close()
		return nil, borr
	}
	rig.part = part
	if rig.buckets == nil {
		rig.close()
		return nil, fmt.Errorf("the buckets factory was not used by the partition")
	}
	return rig, nil
}
