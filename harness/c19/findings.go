package c19

import "math/big"

// Signatures of the open findings, computed from the observed behaviour.

// negTracker mirrors what the oracle demands, at single instants, of a bucket of N >= 1 operations
// per negative period (finding NEGP: the code makes it unlimited): exactly max 0 (N - taken) at
// once when fresh, at most N at one instant, GetBucketState consistent with the admissions
type negTracker struct {
	at    string
	n     int64
	fresh int64 // tokens known exactly, -1: unknown
	sum   int64 // admitted at this instant
	got   bool
	g, m  int64 // last reported taken at this instant, admitted since
}

type negTrackers map[keySpec]*negTracker

func isNeg(st stateSpec) bool { return st.Max >= 1 && st.Period < 0 }

// sync creates/drops/advances the trackers of the given keys after an operation at instant `at`
func (ts negTrackers) sync(ref *xsys, at *big.Int, keys []keySpec, recreate bool) {
	for _, k := range keys {
		b, ok := ref.buckets[k]
		if !ok || !isNeg(b.st) {
			delete(ts, k)
			continue
		}
		t := ts[k]
		if t == nil || recreate {
			n := int64(b.st.Max)
			ts[k] = &negTracker{at: at.String(), n: n, fresh: max(0, n-int64(b.st.Taken))}
			continue
		}
		if t.at != at.String() {
			if t.fresh != t.n {
				t.fresh = -1
			}
			t.sum, t.got, t.at = 0, false, at.String()
		}
	}
}

func (t *negTracker) admit(n int64) (violates bool) {
	if n <= 0 {
		return false
	}
	t.sum += n
	violates = t.sum > t.n
	if t.fresh >= 0 {
		if n > t.fresh {
			violates = true
		}
		t.fresh = max(0, t.fresh-n)
	}
	if t.got {
		t.m += n
		violates = violates || t.m > t.n-t.g+1
	}
	return violates
}

func (t *negTracker) get(g int64) (violates bool) {
	if t.fresh >= 0 && g != t.n-t.fresh {
		violates = true
	}
	if t.got {
		if t.m == 0 {
			violates = violates || g != t.g
		} else if d := g - (t.g + t.m); d > 1 || d < -1 {
			violates = true
		}
	}
	t.got, t.g, t.m = true, g, 0
	return violates
}

const (
	tagNegPeriod = "NEGP:negative-period-bucket-is-unlimited"
	tagRoundTrip = "RTRIP:written-back-state-mints-the-truncated-fraction"
)

// takenExact: tokens taken as the exact model has them, quotient and remainder of credit by interval
func (s *xsys) takenExact(now *big.Int, k keySpec) (q int64, fractional, ok bool) {
	b, have := s.buckets[k]
	if !have || b.lim.kind != xNorm {
		return 0, false, false
	}
	_, av, _ := b.lim.avail(now)
	used := new(big.Int).Sub(new(big.Int).Mul(b.lim.burst, b.lim.ival), av)
	quo, rem := new(big.Int).QuoRem(used, b.lim.ival, new(big.Int))
	return quo.Int64(), rem.Sign() != 0, true
}
