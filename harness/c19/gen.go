package c19

import (
	"encoding/json"
	"fmt"
	"os"
	"slices"
	"sort"
	"strings"

	"verifharness/kit"
)

const (
	year = uint64(365 * 24 * 3600 * 1_000_000_000)
)

type limitCfg struct {
	name int
	st   stateSpec
	ival int64 // refill interval in ns as the code computes it (0: none / unlimited)
	keys []keySpec
}

func genCount(r *kit.Rng) uint32 {
	switch r.Intn(20) {
	case 0:
		return 0
	case 1:
		return 4294967295
	case 2:
		return 1000
	case 3, 4:
		return uint32(4 + r.Intn(12))
	default:
		return kit.Pick(r, []uint32{1, 1, 2, 2, 3, 3, 5, 10})
	}
}

var intervals = []int64{1, 1, 2, 3, 7, 10, 1000, 1_000_000, 1_000_000_000, 60_000_000_000, 3_600_000_000_000, 86_400_000_000_000, 1_000_000_000_000_000}

// period for a given count: mostly count*interval (+ a remainder that the integer division drops)
func genPeriod(r *kit.Rng, n uint32, class string) int64 {
	switch class {
	case "zero":
		return 0
	case "subcount": // P < N: the interval truncates to 0 ns and is clamped to 1 ns
		if n <= 1 {
			return 0
		}
		return int64(r.Intn(int(min(uint64(n), 1<<30))))
	case "negative":
		return -int64(1 + r.Intn(1_000_000_000))
	case "extreme": // >= 2^53 ns (104 days) up to MaxInt64
		switch r.Intn(4) {
		case 0:
			return 1<<63 - 1 - int64(r.Intn(3))
		case 1:
			return int64(1)<<uint(53+r.Intn(10)) + int64(r.Intn(1000))
		case 2:
			return int64(1)<<62 + int64(r.U64()>>3)
		default:
			return int64(1)<<53 + int64(r.U64()>>uint(2+r.Intn(9)))
		}
	}
	nn := int64(n)
	if nn == 0 {
		return kit.Pick(r, []int64{0, 1, 1_000_000_000, 3_600_000_000_000})
	}
	i := kit.Pick(r, intervals)
	if r.Chance(1, 6) {
		i = 1 + int64(r.Intn(5000))
	}
	for i > (int64(1)<<53-1)/nn { // stay inside the stated domain
		i /= 10
		if i == 0 {
			i = 1
			break
		}
	}
	p := nn * i
	switch r.Intn(4) {
	case 0:
		p += nn - 1
	case 1:
		p += int64(r.Intn(int(min(uint64(nn), 1<<30))))
	}
	if p >= 1<<53 {
		p = nn * i
	}
	return p
}

func ivalOf(s stateSpec) int64 {
	if s.Max == 0 {
		return 0
	}
	i := s.Period / int64(s.Max)
	if i < 0 {
		return 0
	}
	return i
}

func genLimit(r *kit.Rng, name int, class string) *limitCfg {
	n := genCount(r)
	if class == "extreme" && n == 0 {
		n = 1
	}
	if class == "extreme" && r.Chance(2, 3) {
		n = kit.Pick(r, []uint32{1, 1, 2, 3, 10})
	}
	st := stateSpec{Period: genPeriod(r, n, class), Max: n}
	return &limitCfg{name: name, st: st, ival: ivalOf(st)}
}

func genDt(r *kit.Rng, l *limitCfg, allowHuge bool) uint64 {
	i := uint64(l.ival)
	if i == 0 {
		i = 1000
	}
	p := uint64(l.st.Period)
	if l.st.Period <= 0 {
		p = i
	}
	sat := func(a, b uint64) uint64 {
		if b != 0 && a > maxOffset/b {
			return maxOffset / 64
		}
		return a * b
	}
	var d uint64
	switch r.Intn(16) {
	case 0, 1, 2, 3, 4:
		d = 0
	case 5:
		d = 1
	case 6:
		d = i - 1
	case 7, 8:
		d = i
	case 9:
		d = i + 1
	case 10:
		d = sat(i, uint64(2+r.Intn(4)))
	case 11:
		d = p
	case 12:
		d = p + 1
	case 13:
		d = r.U64() % (sat(i, 3) + 1)
	case 14:
		d = r.U64() % (p + 1)
	default:
		if allowHuge {
			d = kit.Pick(r, []uint64{year, 100 * year, 3 * 3600 * 1_000_000_000})
		} else {
			d = sat(i, uint64(1+r.Intn(20)))
		}
	}
	if d > maxOffset/64 {
		d = maxOffset / 64
	}
	return d
}

func genN(r *kit.Rng, l *limitCfg) int64 {
	n := int64(l.st.Max)
	switch r.Intn(14) {
	case 0:
		return 2
	case 1:
		return 3
	case 2:
		return n
	case 3:
		return n + 1
	case 4:
		if n > 1 {
			return n - 1
		}
		return 1
	case 5:
		if n > 100 {
			return n / 2
		}
		return 1
	default:
		return 1
	}
}

func cloneState(s stateSpec) *stateSpec { c := s; return &c }

// genScenario builds one history. kinds: single | multi | isolation | reset | concurrent | malformed | extreme
func genScenario(r *kit.Rng, kind, tier string) *scenario {
	sc := &scenario{Note: kind}
	nLimits := 1
	switch kind {
	case "multi", "reset":
		nLimits = 2 + r.Intn(2)
	case "isolation", "concurrent", "malformed":
		nLimits = 1 + r.Intn(2)
	case "extreme":
		nLimits = 1
	}
	var limits []*limitCfg
	for i := 0; i < nLimits; i++ {
		class := "normal"
		switch {
		case kind == "extreme":
			class = "extreme"
		case kind == "malformed" && r.Chance(1, 3):
			class = "negative"
		case r.Chance(1, 14):
			class = "subcount"
		case r.Chance(1, 25):
			class = "zero"
		}
		l := genLimit(r, i+1, class)
		if kind == "malformed" && r.Chance(1, 3) {
			l.st.Taken = l.st.Max + uint32(1+r.Intn(3))
		} else if r.Chance(1, 10) && l.st.Max > 0 && l.st.Max < 1<<31 {
			l.st.Taken = uint32(r.Intn(int(l.st.Max) + 1))
		}
		nk := 1
		if kind == "isolation" || r.Chance(1, 4) {
			nk = 2 + r.Intn(2)
		}
		rests := []int{0, 1, 2, 3}
		for j := 0; j < nk; j++ {
			x := r.Intn(len(rests))
			l.keys = append(l.keys, keySpec{Name: l.name, Rest: rests[x]})
			rests = append(rests[:x], rests[x+1:]...)
		}
		limits = append(limits, l)
	}
	undefined := keySpec{Name: 8, Rest: 0} // a limit name that never gets a default state
	lateDefault := -1
	for i, l := range limits {
		if i > 0 && r.Chance(1, 8) && lateDefault < 0 {
			lateDefault = i // registered in the middle of the history
			continue
		}
		sc.Ops = append(sc.Ops, &opSpec{Kind: "default", Name: l.name, State: cloneState(l.st)})
	}
	nOps := 14 + r.Intn(26)
	if tier == "thorough" {
		nOps += r.Intn(30)
	}
	var allKeys []keySpec
	for _, l := range limits {
		allKeys = append(allKeys, l.keys...)
	}
	limitOf := func(k keySpec) *limitCfg {
		for _, l := range limits {
			if l.name == k.Name {
				return l
			}
		}
		return limits[0]
	}
	// a request's key list: distinct keys (a set of limits), rarely a duplicate or a key of an undefined limit
	pickKeys := func() ([]keySpec, *limitCfg) {
		cnt := 1
		if kind == "multi" || kind == "reset" || (kind != "single" && kind != "extreme" && r.Chance(1, 3)) {
			cnt = 1 + r.Intn(3)
		}
		pool := append([]keySpec(nil), allKeys...)
		var ks []keySpec
		for len(ks) < cnt && len(pool) > 0 {
			x := r.Intn(len(pool))
			ks = append(ks, pool[x])
			pool = append(pool[:x], pool[x+1:]...)
		}
		if r.Chance(1, 20) {
			ks = append(ks, ks[r.Intn(len(ks))]) // duplicate key in one request
		}
		if r.Chance(1, 16) {
			ks = append(ks, undefined)
			r0 := r.Intn(len(ks))
			ks[len(ks)-1], ks[r0] = ks[r0], ks[len(ks)-1]
		}
		return ks, limitOf(ks[r.Intn(len(ks))])
	}
	for len(sc.Ops) < nOps {
		ks, l := pickKeys()
		dt := genDt(r, l, kind != "concurrent")
		x := r.Intn(100)
		switch {
		case lateDefault >= 0 && x < 6:
			ll := limits[lateDefault]
			sc.Ops = append(sc.Ops, &opSpec{Dt: dt, Kind: "default", Name: ll.name, State: cloneState(ll.st)})
			lateDefault = -1
		case x < 12: // burst at one instant through the capacity
			cnt := int(min(uint64(l.st.Max)+2, 9))
			n := int64(1)
			if l.st.Max > 100 {
				n = int64(l.st.Max)/3 + 1
				cnt = 5
			}
			for j := 0; j < cnt; j++ {
				d := uint64(0)
				if j == 0 {
					d = dt
				}
				sc.Ops = append(sc.Ops, &opSpec{Dt: d, Kind: "take", Keys: ks, N: n})
			}
		case x < 20 && len(ks) > 1: // multi-limit request framed by state reads at the same instant
			for j, k := range ks {
				d := uint64(0)
				if j == 0 {
					d = dt
				}
				kk := k
				sc.Ops = append(sc.Ops, &opSpec{Dt: d, Kind: "get", Key: &kk})
			}
			sc.Ops = append(sc.Ops, &opSpec{Kind: "take", Keys: ks, N: genN(r, l)})
			for _, k := range ks {
				kk := k
				sc.Ops = append(sc.Ops, &opSpec{Kind: "get", Key: &kk})
			}
		case x >= 20 && x < 23 && l.st.Max >= 1 && l.st.Max <= 16 && l.ival >= 10:
			// drain, then repeatedly: wait a fraction of the interval, write the reported state back, take one
			k := ks[0]
			for j := 0; j < int(l.st.Max)+1; j++ {
				d := uint64(0)
				if j == 0 {
					d = dt
				}
				sc.Ops = append(sc.Ops, &opSpec{Dt: d, Kind: "take", Keys: []keySpec{k}, N: 1})
			}
			frac := uint64(l.ival) - uint64(l.ival)/uint64(2+r.Intn(9))
			for j := 0; j < 12+r.Intn(8); j++ {
				kk := k
				sc.Ops = append(sc.Ops, &opSpec{Dt: frac, Kind: "rtrip", Key: &kk})
				sc.Ops = append(sc.Ops, &opSpec{Kind: "take", Keys: []keySpec{k}, N: 1})
			}
		case x < 30:
			k := ks[0]
			if r.Chance(1, 10) {
				k = undefined
			}
			kind := "get"
			if r.Chance(1, 4) {
				kind = "rtrip"
			}
			sc.Ops = append(sc.Ops, &opSpec{Dt: dt, Kind: kind, Key: &k})
		case x < 36 && (kind == "reset" || kind == "malformed" || r.Chance(1, 3)):
			k := ks[0]
			st := l.st
			switch r.Intn(4) {
			case 0: // another configuration for this bucket only
				nl := genLimit(r, l.name, "normal")
				st = nl.st
			case 1:
				if st.Max > 0 && st.Max < 1<<31 {
					st.Taken = uint32(r.Intn(int(st.Max) + 1))
				}
			}
			if kind == "malformed" && r.Chance(1, 3) {
				st.Taken = st.Max + 1
			}
			if r.Chance(1, 12) {
				k = undefined
			}
			sc.Ops = append(sc.Ops, &opSpec{Dt: dt, Kind: "set", Key: &k, State: &st})
		case x < 40 && (kind == "reset" || r.Chance(1, 4)):
			st := l.st
			if r.Bool() {
				st = genLimit(r, l.name, "normal").st
			}
			nm := l.name
			if r.Chance(1, 10) {
				nm = undefined.Name
			}
			sc.Ops = append(sc.Ops, &opSpec{Dt: dt, Kind: "reset", Name: nm, State: &st})
		case x < 43 && kind == "reset":
			st := genLimit(r, l.name, "normal").st
			sc.Ops = append(sc.Ops, &opSpec{Dt: dt, Kind: "default", Name: l.name, State: &st})
		case x < 52 && kind == "concurrent":
			g := 2 + r.Intn(7)
			sc.Ops = append(sc.Ops, &opSpec{Dt: dt, Kind: "ctake", Keys: ks, N: 1, G: g})
		case x < 46 && kind == "malformed":
			sc.Ops = append(sc.Ops, &opSpec{Dt: dt, Kind: "take", Keys: ks, N: -int64(1 + r.Intn(3))})
		case x < 48 && kind == "malformed":
			sc.Ops = append(sc.Ops, &opSpec{Dt: dt, Kind: "take", Keys: nil, N: 1})
		case x < 49:
			sc.Ops = append(sc.Ops, &opSpec{Dt: dt, Kind: "take", Keys: ks, N: 0})
		default:
			sc.Ops = append(sc.Ops, &opSpec{Dt: dt, Kind: "take", Keys: ks, N: genN(r, l)})
		}
	}
	return sc
}

// genLimiterScenario: an application with 2-5 limits (different operation sets on the same
// resources, ALL/EACH, workspace/IP scopes, QName and kind filters) and requests through
// IAppPartition.IsLimitExceeded / ResetRateLimit, framed by direct reads of the bucket states
func genLimiterScenario(r *kit.Rng, tier string) *scenario {
	sc := &scenario{Note: "limiter"}
	tableOps := [][]int{{5}, {1, 2}, {1}, {2, 5}, {1, 2, 3, 4, 5}, {3, 4}, {5, 1}}
	n := 2 + r.Intn(4)
	for i := 1; i <= n; i++ {
		l := limitSpec{Name: i, Each: r.Bool(), ScopeWS: r.Chance(2, 3), ScopeIP: r.Chance(1, 3)}
		if r.Chance(1, 3) {
			l.Extra = append(l.Extra, kit.Pick(r, []int{1, 3}))
		}
		switch x := r.Intn(10); {
		case i <= 2 || x < 4: // the hot table doc1 under several limits with different operation sets
			l.Ops = kit.Pick(r, tableOps)
			l.Filter = filterSpec{Kind: "qnames", Res: []int{1}}
			if r.Chance(1, 3) {
				l.Filter.Res = append(l.Filter.Res, kit.Pick(r, []int{2, 3}))
			}
		case x < 6:
			l.Ops = kit.Pick(r, tableOps)
			l.Filter = filterSpec{Kind: "tables"}
		case x < 8:
			l.Ops = []int{6}
			l.Filter = filterSpec{Kind: kit.Pick(r, []string{"functions", "qnames"}), Res: []int{4, 6}}
		case x < 9:
			l.Ops = []int{6}
			l.Filter = filterSpec{Kind: "all"}
		default:
			l.Ops = kit.Pick(r, tableOps)
			l.Filter = filterSpec{Kind: "all"}
		}
		if l.Filter.Kind != "qnames" {
			l.Filter.Res = nil
		}
		l.Count = kit.Pick(r, []uint32{1, 2, 3, 3, 5})
		l.Period = int64(l.Count) * kit.Pick(r, []int64{1000, 1_000_000_000, 60_000_000_000, 1_200_000_000_000})
		if l.Count > 1 && r.Chance(1, 12) {
			l.Period = int64(1 + r.Intn(int(l.Count)-1)) // more than one operation per ns: clamped interval
		}
		sc.Limits = append(sc.Limits, l)
	}
	opsUsed := []int{1, 2, 5, 6}
	for _, l := range sc.Limits {
		opsUsed = append(opsUsed, l.Ops...)
	}
	genReq := func() reqSpec {
		return reqSpec{Res: kit.Pick(r, []int{1, 1, 1, 1, 2, 3, 4, 6, 5, 7, 9}), Op: kit.Pick(r, opsUsed), WS: 1 + r.Intn(2), Addr: 1 + r.Intn(2)}
	}
	readAll := func(q reqSpec) {
		for _, l := range sc.Limits {
			k := l.keyOf(q)
			sc.Ops = append(sc.Ops, &opSpec{Kind: "get", Key: &k})
		}
	}
	nOps := 30 + r.Intn(40)
	if tier == "thorough" {
		nOps += r.Intn(60)
	}
	for len(sc.Ops) < nOps {
		q := genReq()
		l := kit.Pick(r, sc.Limits)
		ival := uint64(l.Period / int64(l.Count))
		dt := kit.Pick(r, []uint64{0, 0, 0, 1, ival - 1, ival, ival + 1, uint64(l.Period), 2 * uint64(l.Period), 1000})
		qq := q
		switch x := r.Intn(20); {
		case x < 5: // burst of one request through the capacity of its tightest limit
			for j := 0; j < 3+r.Intn(5); j++ {
				d := uint64(0)
				if j == 0 {
					d = dt
				}
				sc.Ops = append(sc.Ops, &opSpec{Dt: d, Kind: "exceeded", Req: &qq})
			}
		case x < 9: // a request framed by the states of the buckets of every limit, applicable or not
			sc.Ops = append(sc.Ops, &opSpec{Dt: dt, Kind: "get", Key: func() *keySpec { k := sc.Limits[0].keyOf(q); return &k }()})
			readAll(q)
			sc.Ops = append(sc.Ops, &opSpec{Kind: "exceeded", Req: &qq})
			readAll(q)
		case x < 11: // reset, then the same request again: its limits must be full
			sc.Ops = append(sc.Ops, &opSpec{Dt: dt, Kind: "resetlimits", Req: &qq})
			sc.Ops = append(sc.Ops, &opSpec{Kind: "exceeded", Req: &qq})
			readAll(q)
		default:
			sc.Ops = append(sc.Ops, &opSpec{Dt: dt, Kind: "exceeded", Req: &qq})
		}
	}
	return sc
}

var kinds = []string{"single", "multi", "limiter", "isolation", "reset", "limiter", "multi", "concurrent", "reset", "malformed", "limiter", "extreme", "single", "multi", "isolation", "limiter"}

func loadScenario(b []byte) (*scenario, error) {
	var wrapper struct {
		Case struct {
			Desc *scenario `json:"desc"`
		} `json:"case"`
		Desc *scenario `json:"desc"`
		Ops  []*opSpec `json:"ops"`
	}
	if err := json.Unmarshal(b, &wrapper); err != nil {
		return nil, err
	}
	var sc *scenario
	switch {
	case wrapper.Case.Desc != nil:
		sc = wrapper.Case.Desc
	case wrapper.Desc != nil:
		sc = wrapper.Desc
	default:
		sc = &scenario{}
		if err := json.Unmarshal(b, sc); err != nil {
			return nil, err
		}
	}
	if len(sc.Ops) == 0 {
		return nil, fmt.Errorf("no ops in scenario")
	}
	for _, o := range sc.Ops {
		o.Obs = nil
	}
	return sc, nil
}

func emitScenario(sc *scenario, out *kit.Out) error {
	coq, tags, err := run(sc)
	if err != nil {
		return err
	}
	out.Emit(kit.Case{Coq: coq, Key: shapeKey(sc), Nontrivial: nontrivial(sc), Desc: sc, Tags: tags})
	return nil
}

// Generate runs the corpus (shard 0) and then n generated histories.
func Generate(seed uint64, n int, tier string, corpusDir string, out *kit.Out) error {
	r := kit.NewRng(seed)
	if corpusDir != "" {
		entries, _ := os.ReadDir(corpusDir)
		var names []string
		for _, e := range entries {
			if strings.HasSuffix(e.Name(), ".json") {
				names = append(names, e.Name())
			}
		}
		sort.Strings(names)
		for _, nm := range names {
			b, err := os.ReadFile(corpusDir + "/" + nm)
			if err != nil {
				return err
			}
			sc, err := loadScenario(b)
			if err != nil {
				return fmt.Errorf("%s: %w", nm, err)
			}
			if err := emitScenario(sc, out); err != nil {
				return err
			}
		}
	}
	for i := 0; i < n; i++ {
		cr := r.Fork()
		kind := kinds[i%len(kinds)]
		sc := (*scenario)(nil)
		if kind == "limiter" {
			sc = genLimiterScenario(cr, tier)
		} else {
			sc = genScenario(cr, kind, tier)
		}
		if err := emitScenario(sc, out); err != nil {
			return err
		}
	}
	return nil
}

// Replay runs exactly the history stored in a replay/corpus file
func Replay(path string, out *kit.Out) error {
	b, err := os.ReadFile(path)
	if err != nil {
		return err
	}
	sc, err := loadScenario(b)
	if err != nil {
		return err
	}
	return emitScenario(sc, out)
}

// non-trivial: at least one admitted and one refused request, or a refused multi-limit request
func nontrivial(sc *scenario) bool {
	adm, ref := false, false
	for _, o := range sc.Ops {
		if o.Obs == nil {
			continue
		}
		if (o.Kind == "take" && o.N > 0 || o.Kind == "exceeded") && o.Obs.OK != nil {
			if *o.Obs.OK {
				adm = true
			} else {
				ref = true
			}
		}
		for _, ok := range o.Obs.OKs {
			if ok {
				adm = true
			} else {
				ref = true
			}
		}
	}
	return adm && ref
}

func shapeKey(sc *scenario) string {
	var sb strings.Builder
	for _, l := range sc.Limits {
		fmt.Fprintf(&sb, "L%v", l)
	}
	for _, o := range sc.Ops {
		switch o.Kind {
		case "default", "reset":
			fmt.Fprintf(&sb, "|%c%d:%d/%d/%d", o.Kind[0], o.Name, o.State.Max, o.State.Period, o.State.Taken)
		case "take", "ctake":
			fmt.Fprintf(&sb, "|%c+%d:%v*%d", o.Kind[0], o.Dt, o.Keys, o.N)
		case "exceeded", "resetlimits":
			fmt.Fprintf(&sb, "|%c+%d:%v", o.Kind[0], o.Dt, *o.Req)
		case "get", "rtrip":
			fmt.Fprintf(&sb, "|%c+%d:%v", o.Kind[0], o.Dt, *o.Key)
		case "set":
			fmt.Fprintf(&sb, "|s+%d:%v:%d/%d/%d", o.Dt, *o.Key, o.State.Max, o.State.Period, o.State.Taken)
		}
	}
	return sb.String()
}

// scenarioTags: input distribution for the evidence (configuration classes, op mix, outcomes)
func scenarioTags(sc *scenario) map[string]bool {
	t := map[string]bool{}
	if slices.Contains(kinds, sc.Note) {
		t["kind:"+sc.Note] = true
	} else {
		t["kind:corpus"] = true
	}
	cfg := func(s *stateSpec) {
		switch {
		case s.Max == 0:
			t["cfg:count-0"] = true
		case s.Period < 0:
			t["cfg:period-negative"] = true
		case s.Period/int64(s.Max) == 0:
			t["cfg:interval-below-1ns-clamped"] = true
		case s.Period >= periodDomain:
			t["cfg:period>=2^53ns"] = true
		case s.Period/int64(s.Max) == 1:
			t["cfg:interval-1ns"] = true
		case s.Period/int64(s.Max) < 1000:
			t["cfg:interval<1us"] = true
		case s.Period/int64(s.Max) < 1_000_000_000:
			t["cfg:interval<1s"] = true
		default:
			t["cfg:interval>=1s"] = true
		}
		if s.Max == 4294967295 {
			t["cfg:count-2^32-1"] = true
		}
		if s.Taken > s.Max {
			t["cfg:taken>count"] = true
		} else if s.Taken > 0 {
			t["cfg:taken>0"] = true
		}
	}
	for _, l := range sc.Limits {
		cfg(&stateSpec{Period: l.Period, Max: l.Count})
		if l.Each {
			t["lim:each"] = true
		} else {
			t["lim:all"] = true
		}
		if l.ScopeWS {
			t["lim:scope-workspace"] = true
		}
		if l.ScopeIP {
			t["lim:scope-ip"] = true
		}
		t["lim:filter-"+l.Filter.Kind] = true
	}
	var prevRefusedMulti bool
	for _, o := range sc.Ops {
		if o.Req != nil && o.Kind == "exceeded" {
			keys, app := reqKeys(sc.Limits, *o.Req)
			t[fmt.Sprintf("lim:%d-limits-apply", len(keys))] = true
			if len(app) > 0 {
				for _, l := range sc.Limits {
					if l.Name < app[len(app)-1].Name && !l.applies(*o.Req) {
						hit := false
						for _, m := range l.matches() {
							hit = hit || m == o.Req.Res
						}
						if hit {
							t["lim:limit-of-other-operations-listed-before-an-applicable-one"] = true
						}
					}
				}
			}
			if o.Obs != nil && o.Obs.OK != nil {
				if *o.Obs.OK {
					t["out:admitted"] = true
				} else {
					t["out:refused"] = true
					if len(keys) > 1 {
						t["out:refused-multi"] = true
					}
				}
			}
		}
		if o.State != nil {
			cfg(o.State)
		}
		t["op:"+o.Kind] = true
		if o.Dt == 0 {
			t["time:equal-timestamps"] = true
		} else if o.Dt >= year {
			t["time:gap>=1y"] = true
		}
		if o.Kind == "take" || o.Kind == "ctake" {
			switch {
			case o.N < 0:
				t["take:n<0"] = true
			case o.N == 0:
				t["take:n=0"] = true
			case o.N > 1:
				t["take:n>1"] = true
			}
			t[fmt.Sprintf("take:%d-keys", len(o.Keys))] = true
			seen := map[keySpec]bool{}
			for _, k := range o.Keys {
				if seen[k] {
					t["take:duplicate-key"] = true
				}
				seen[k] = true
			}
			if o.Obs != nil && o.Obs.OK != nil {
				if *o.Obs.OK {
					t["out:admitted"] = true
				} else {
					t["out:refused"] = true
					if len(o.Keys) > 1 {
						t["out:refused-multi"] = true
						if o.Keys[0].Name != *o.Obs.Exc {
							t["out:refused-multi-after-give-back"] = true
						}
					}
				}
			}
		}
		if o.Kind == "get" && prevRefusedMulti {
			t["op:get-after-refused-multi"] = true
		}
		if o.Kind != "get" {
			prevRefusedMulti = o.Kind == "take" && len(o.Keys) > 1 && o.Obs != nil && o.Obs.OK != nil && !*o.Obs.OK
		}
	}
	return t
}
