package kit

// Runner drives the real code for one property and emits observed traces.
type Runner struct {
	// Generate runs the corpus under corpusDir first (shard 0 only), then n generated cases.
	Generate func(seed uint64, n int, tier string, corpusDir string, shard int, out *Out) error
	// Replay re-executes exactly the case stored in a replay/corpus file.
	Replay func(path string, out *Out) error
}

var Registry = map[string]Runner{}

func Register(id string, r Runner) { Registry[id] = r }
