package kit

import (
	"fmt"
	"os"
	"time"

	"github.com/voedger/voedger/pkg/appdef"
	"github.com/voedger/voedger/pkg/goutils/timeu"
	"github.com/voedger/voedger/pkg/istorage"
	"github.com/voedger/voedger/pkg/istorage/bbolt"
	"github.com/voedger/voedger/pkg/istorage/mem"
)

var appQName = appdef.NewAppQName("verif", "app")

// NewBackend creates a fresh app storage of the named backend ("mem" | "bbolt").
// cleanup removes every file it created.
func NewBackend(name string, t timeu.ITime) (st istorage.IAppStorage, cleanup func(), err error) {
	var f istorage.IAppStorageFactory
	cleanup = func() {}
	switch name {
	case "mem":
		f = mem.Provide(t)
	case "bbolt":
		dir, e := os.MkdirTemp(ScratchDir(), "bbolt")
		if e != nil {
			return nil, cleanup, e
		}
		f = bbolt.Provide(bbolt.ParamsType{DBDir: dir}, t)
		cleanup = func() {
			f.StopGoroutines()
			os.RemoveAll(dir)
		}
	default:
		return nil, cleanup, fmt.Errorf("unknown backend %q", name)
	}
	san, e := istorage.NewSafeAppName(appQName, func(string) (bool, error) { return true, nil })
	if e != nil {
		return nil, cleanup, e
	}
	if e = f.Init(san); e != nil {
		cleanup()
		return nil, func() {}, e
	}
	st, e = f.AppStorage(san)
	if e != nil {
		cleanup()
		return nil, func() {}, e
	}
	if c, ok := t.(*Clock); ok && name == "bbolt" {
		// the background cleaner arms its first timer asynchronously: wait for it so that the
		// positions at which it runs are a function of the scripted clock only
		deadline := time.Now().Add(10 * time.Second)
		for c.PendingTimers() == 0 && time.Now().Before(deadline) {
			time.Sleep(100 * time.Microsecond)
		}
	}
	return st, cleanup, nil
}

// ScratchDir is the per-run scratch directory (VERIF_SCRATCH, set by bin/check; removed by it)
func ScratchDir() string {
	d := os.Getenv("VERIF_SCRATCH")
	if d == "" {
		d = os.TempDir()
	}
	return d
}
