package kit

import (
	"context"
	"sync"

	"github.com/voedger/voedger/pkg/istorage"
)

// Call describes one call into the wrapped IAppStorage.
type Call struct {
	Seq   int
	Op    string // Put PutBatch Get GetBatch Read InsertIfNotExists CompareAndSwap CompareAndDelete TTLGet TTLRead QueryTTL
	PKey  []byte
	CCols []byte
	Value []byte
	Old   []byte
	TTL   int
	Items []istorage.BatchItem
	// results (filled for After)
	Ok  bool
	Err error
}

// Verdict of a Before hook.
type Verdict struct {
	// FailBefore: return this error without touching the storage
	FailBefore error
	// FailAfter: perform the call, then report this error instead of its result
	FailAfter error
	// ForceNotOk: (conditional ops) do not perform the call and report ok=false ("exists")
	ForceNotOk bool
}

// Wrap is an IAppStorage decorator used for recording, fault injection and blocking.
type Wrap struct {
	Inner istorage.IAppStorage
	mu    sync.Mutex
	seq   int
	// Before is called before each call (may be nil); it may block to hold the call's entry
	Before func(c *Call) Verdict
	// After is called after the inner call returned, before the result is handed back;
	// it may block to hold the call's return
	After func(c *Call)
}

func copyB(b []byte) []byte {
	if b == nil {
		return nil
	}
	return append([]byte{}, b...)
}

func (w *Wrap) begin(c *Call) Verdict {
	w.mu.Lock()
	w.seq++
	c.Seq = w.seq
	w.mu.Unlock()
	if w.Before != nil {
		return w.Before(c)
	}
	return Verdict{}
}

func (w *Wrap) end(c *Call) {
	if w.After != nil {
		w.After(c)
	}
}

func (w *Wrap) Put(pKey, cCols, value []byte) error {
	c := &Call{Op: "Put", PKey: copyB(pKey), CCols: copyB(cCols), Value: copyB(value)}
	v := w.begin(c)
	if v.FailBefore != nil {
		return v.FailBefore
	}
	c.Err = w.Inner.Put(pKey, cCols, value)
	if v.FailAfter != nil {
		c.Err = v.FailAfter
	}
	w.end(c)
	return c.Err
}

func (w *Wrap) PutBatch(items []istorage.BatchItem) error {
	cp := make([]istorage.BatchItem, len(items))
	for i, it := range items {
		cp[i] = istorage.BatchItem{PKey: copyB(it.PKey), CCols: copyB(it.CCols), Value: copyB(it.Value)}
	}
	c := &Call{Op: "PutBatch", Items: cp}
	if len(cp) > 0 {
		c.PKey = cp[0].PKey
		c.CCols = cp[0].CCols
	}
	v := w.begin(c)
	if v.FailBefore != nil {
		return v.FailBefore
	}
	c.Err = w.Inner.PutBatch(items)
	if v.FailAfter != nil {
		c.Err = v.FailAfter
	}
	w.end(c)
	return c.Err
}

func (w *Wrap) Get(pKey, cCols []byte, data *[]byte) (bool, error) {
	c := &Call{Op: "Get", PKey: copyB(pKey), CCols: copyB(cCols)}
	v := w.begin(c)
	if v.FailBefore != nil {
		return false, v.FailBefore
	}
	c.Ok, c.Err = w.Inner.Get(pKey, cCols, data)
	if c.Ok {
		c.Value = copyB(*data)
	}
	if v.FailAfter != nil {
		c.Ok, c.Err = false, v.FailAfter
	}
	w.end(c)
	return c.Ok, c.Err
}

func (w *Wrap) GetBatch(pKey []byte, items []istorage.GetBatchItem) error {
	c := &Call{Op: "GetBatch", PKey: copyB(pKey)}
	v := w.begin(c)
	if v.FailBefore != nil {
		return v.FailBefore
	}
	c.Err = w.Inner.GetBatch(pKey, items)
	if v.FailAfter != nil {
		c.Err = v.FailAfter
	}
	w.end(c)
	return c.Err
}

func (w *Wrap) Read(ctx context.Context, pKey, start, finish []byte, cb istorage.ReadCallback) error {
	c := &Call{Op: "Read", PKey: copyB(pKey), CCols: copyB(start), Value: copyB(finish)}
	v := w.begin(c)
	if v.FailBefore != nil {
		return v.FailBefore
	}
	c.Err = w.Inner.Read(ctx, pKey, start, finish, cb)
	if v.FailAfter != nil {
		c.Err = v.FailAfter
	}
	w.end(c)
	return c.Err
}

func (w *Wrap) InsertIfNotExists(pKey, cCols, value []byte, ttl int) (bool, error) {
	c := &Call{Op: "InsertIfNotExists", PKey: copyB(pKey), CCols: copyB(cCols), Value: copyB(value), TTL: ttl}
	v := w.begin(c)
	if v.FailBefore != nil {
		return false, v.FailBefore
	}
	if v.ForceNotOk {
		w.end(c)
		return false, nil
	}
	c.Ok, c.Err = w.Inner.InsertIfNotExists(pKey, cCols, value, ttl)
	if v.FailAfter != nil {
		c.Ok, c.Err = false, v.FailAfter
	}
	w.end(c)
	return c.Ok, c.Err
}

func (w *Wrap) CompareAndSwap(pKey, cCols, oldValue, newValue []byte, ttl int) (bool, error) {
	c := &Call{Op: "CompareAndSwap", PKey: copyB(pKey), CCols: copyB(cCols), Value: copyB(newValue), Old: copyB(oldValue), TTL: ttl}
	v := w.begin(c)
	if v.FailBefore != nil {
		return false, v.FailBefore
	}
	if v.ForceNotOk {
		w.end(c)
		return false, nil
	}
	c.Ok, c.Err = w.Inner.CompareAndSwap(pKey, cCols, oldValue, newValue, ttl)
	if v.FailAfter != nil {
		c.Ok, c.Err = false, v.FailAfter
	}
	w.end(c)
	return c.Ok, c.Err
}

func (w *Wrap) CompareAndDelete(pKey, cCols, expected []byte) (bool, error) {
	c := &Call{Op: "CompareAndDelete", PKey: copyB(pKey), CCols: copyB(cCols), Old: copyB(expected)}
	v := w.begin(c)
	if v.FailBefore != nil {
		return false, v.FailBefore
	}
	if v.ForceNotOk {
		w.end(c)
		return false, nil
	}
	c.Ok, c.Err = w.Inner.CompareAndDelete(pKey, cCols, expected)
	if v.FailAfter != nil {
		c.Ok, c.Err = false, v.FailAfter
	}
	w.end(c)
	return c.Ok, c.Err
}

func (w *Wrap) TTLGet(pKey, cCols []byte, data *[]byte) (bool, error) {
	c := &Call{Op: "TTLGet", PKey: copyB(pKey), CCols: copyB(cCols)}
	v := w.begin(c)
	if v.FailBefore != nil {
		return false, v.FailBefore
	}
	c.Ok, c.Err = w.Inner.TTLGet(pKey, cCols, data)
	if c.Ok {
		c.Value = copyB(*data)
	}
	if v.FailAfter != nil {
		c.Ok, c.Err = false, v.FailAfter
	}
	w.end(c)
	return c.Ok, c.Err
}

func (w *Wrap) TTLRead(ctx context.Context, pKey, start, finish []byte, cb istorage.ReadCallback) error {
	c := &Call{Op: "TTLRead", PKey: copyB(pKey), CCols: copyB(start), Value: copyB(finish)}
	v := w.begin(c)
	if v.FailBefore != nil {
		return v.FailBefore
	}
	c.Err = w.Inner.TTLRead(ctx, pKey, start, finish, cb)
	if v.FailAfter != nil {
		c.Err = v.FailAfter
	}
	w.end(c)
	return c.Err
}

func (w *Wrap) QueryTTL(pKey, cCols []byte) (int, bool, error) {
	c := &Call{Op: "QueryTTL", PKey: copyB(pKey), CCols: copyB(cCols)}
	v := w.begin(c)
	if v.FailBefore != nil {
		return 0, false, v.FailBefore
	}
	ttl, ok, err := w.Inner.QueryTTL(pKey, cCols)
	c.TTL, c.Ok, c.Err = ttl, ok, err
	if v.FailAfter != nil {
		ttl, c.Ok, c.Err = 0, false, v.FailAfter
	}
	w.end(c)
	return ttl, c.Ok, c.Err
}

var _ istorage.IAppStorage = (*Wrap)(nil)
