package kit

import (
	"sort"
	"sync"
	"time"

	"github.com/voedger/voedger/pkg/goutils/timeu"
)

// Clock is a deterministic timeu.ITime: it starts at a fixed instant (whole millisecond) and
// moves only when the harness says so. Timers fire during Advance in expiry order.
type Clock struct {
	mu     sync.Mutex
	t0     time.Time
	now    time.Time
	timers []*clockTimer
	armed  int // number of NewTimerChan calls so far
	// OnNewTimer, if set, is called (outside the lock) whenever a timer is armed
	OnNewTimer func(d time.Duration)
}

type clockTimer struct {
	at time.Time
	c  chan time.Time
}

var Epoch = time.Date(2026, 1, 1, 0, 0, 0, 0, time.UTC)

func NewClock() *Clock { return &Clock{t0: Epoch, now: Epoch} }

func (c *Clock) Now() time.Time {
	c.mu.Lock()
	defer c.mu.Unlock()
	return c.now
}

// Ms is the model's clock: milliseconds since the epoch of the run
func (c *Clock) Ms() int64 {
	c.mu.Lock()
	defer c.mu.Unlock()
	return c.now.Sub(c.t0).Milliseconds()
}

func (c *Clock) NewTimerChan(d time.Duration) <-chan time.Time {
	c.mu.Lock()
	t := &clockTimer{at: c.now.Add(d), c: make(chan time.Time, 1)}
	c.armed++
	if d <= 0 {
		t.c <- c.now
	} else {
		c.timers = append(c.timers, t)
	}
	cb := c.OnNewTimer
	c.mu.Unlock()
	if cb != nil {
		cb(d)
	}
	return t.c
}

func (c *Clock) Sleep(d time.Duration) { c.Advance(d) }

// Advance moves the clock and fires every timer that became due, earliest first.
func (c *Clock) Advance(d time.Duration) { c.advance(d) }

// AdvanceSettle moves the clock and then waits until as many timers were re-armed as fired:
// for periodic background goroutines (bbolt's hourly cleaner) this means "the work triggered
// by this advance has completed", which makes their effect deterministic.
func (c *Clock) AdvanceSettle(d time.Duration) bool {
	c.mu.Lock()
	before := c.armed
	c.mu.Unlock()
	fired := c.advance(d)
	deadline := time.Now().Add(10 * time.Second)
	for {
		c.mu.Lock()
		ok := c.armed >= before+fired
		c.mu.Unlock()
		if ok {
			return true
		}
		if time.Now().After(deadline) {
			return false
		}
		time.Sleep(200 * time.Microsecond)
	}
}

func (c *Clock) advance(d time.Duration) int {
	c.mu.Lock()
	c.now = c.now.Add(d)
	var due, rest []*clockTimer
	for _, t := range c.timers {
		if !t.at.After(c.now) {
			due = append(due, t)
		} else {
			rest = append(rest, t)
		}
	}
	c.timers = rest
	now := c.now
	c.mu.Unlock()
	sort.SliceStable(due, func(i, j int) bool { return due[i].at.Before(due[j].at) })
	for _, t := range due {
		t.c <- now
	}
	return len(due)
}

// NextTimer reports the delay until the earliest armed timer
func (c *Clock) NextTimer() (time.Duration, bool) {
	c.mu.Lock()
	defer c.mu.Unlock()
	if len(c.timers) == 0 {
		return 0, false
	}
	best := c.timers[0].at
	for _, t := range c.timers[1:] {
		if t.at.Before(best) {
			best = t.at
		}
	}
	return best.Sub(c.now), true
}

// Armed is the number of timers armed so far (NewTimerChan calls)
func (c *Clock) Armed() int {
	c.mu.Lock()
	defer c.mu.Unlock()
	return c.armed
}

func (c *Clock) PendingTimers() int {
	c.mu.Lock()
	defer c.mu.Unlock()
	return len(c.timers)
}

var _ timeu.ITime = (*Clock)(nil)
