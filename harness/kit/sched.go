package kit

import (
	"bytes"
	"fmt"
	"runtime"
	"strconv"
	"sync"
	"time"
)

// Sched runs "processes" (goroutines) one step at a time: a process runs only between a Step
// call and its next Yield, so an interleaving is a list of process names and replays exactly.
type Sched struct {
	mu    sync.Mutex
	procs map[int64]*Proc
}

type Proc struct {
	Name   string
	gate   chan struct{}
	parked chan string
	Done   bool
	s      *Sched
}

func NewSched() *Sched { return &Sched{procs: map[int64]*Proc{}} }

func goid() int64 {
	var buf [64]byte
	n := runtime.Stack(buf[:], false)
	f := bytes.Fields(buf[:n])
	id, _ := strconv.ParseInt(string(f[1]), 10, 64)
	return id
}

// Go starts a process; its body begins to run at the first Step
func (s *Sched) Go(name string, body func(p *Proc)) *Proc {
	p := &Proc{Name: name, gate: make(chan struct{}), parked: make(chan string, 1), s: s}
	ready := make(chan struct{})
	go func() {
		s.mu.Lock()
		s.procs[goid()] = p
		s.mu.Unlock()
		close(ready)
		<-p.gate
		body(p)
		p.parked <- "done"
	}()
	<-ready
	return p
}

// Current returns the process of the calling goroutine (nil for unmanaged goroutines)
func (s *Sched) Current() *Proc {
	id := goid()
	s.mu.Lock()
	defer s.mu.Unlock()
	return s.procs[id]
}

// Yield parks the calling process at the named point until its next Step
func (p *Proc) Yield(point string) {
	p.parked <- point
	<-p.gate
}

// Step lets p run until it parks again; returns the point's name ("done" when the body returned)
func (p *Proc) Step() (string, error) {
	if p.Done {
		return "", fmt.Errorf("process %s already finished", p.Name)
	}
	p.gate <- struct{}{}
	select {
	case pt := <-p.parked:
		if pt == "done" {
			p.Done = true
		}
		return pt, nil
	case <-time.After(10 * time.Second):
		return "", fmt.Errorf("process %s did not reach a yield point within 10s", p.Name)
	}
}

// TryStep is Step with a short patience: used for must-not-arrive probes
func (p *Proc) TryStep(patience time.Duration) (string, bool) {
	p.gate <- struct{}{}
	select {
	case pt := <-p.parked:
		if pt == "done" {
			p.Done = true
		}
		return pt, true
	case <-time.After(patience):
		return "", false
	}
}
