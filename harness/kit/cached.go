package kit

import (
	"context"
	"sync"
	"time"

	"github.com/voedger/voedger/pkg/appdef"
	"github.com/voedger/voedger/pkg/goutils/timeu"
	"github.com/voedger/voedger/pkg/istorage"
	"github.com/voedger/voedger/pkg/istoragecache"
	imetrics "github.com/voedger/voedger/pkg/metrics"
)

// fixedProvider hands out one given storage for every app
type fixedProvider struct{ st istorage.IAppStorage }

func (p *fixedProvider) Prepare(any) error   { return nil }
func (p *fixedProvider) Run(context.Context) {}
func (p *fixedProvider) Stop()               {}
func (p *fixedProvider) AppStorage(appdef.AppQName) (istorage.IAppStorage, error) {
	return p.st, nil
}

// NewCached puts the real istoragecache (maxBytes large enough that nothing is evicted) in front of inner
func NewCached(inner istorage.IAppStorage, t timeu.ITime, maxBytes int) (istorage.IAppStorage, error) {
	p := istoragecache.Provide(maxBytes, &fixedProvider{st: inner}, imetrics.Provide(), "verif", t)
	return p.AppStorage(appQName)
}

// AppQName used by the harness storages
func AppQName() appdef.AppQName { return appQName }

// FixedProvider: an IAppStorageProvider that hands out st for every app (like the uncached provider of
// voedger, which returns one and the same storage per app)
func FixedProvider(st istorage.IAppStorage) istorage.IAppStorageProvider { return &fixedProvider{st: st} }

// holdingProvider hands out st for every app; its first AppStorage call is held until a second call arrives or
// wait has passed (a caching provider that serialises its callers never lets the second one through)
type holdingProvider struct {
	fixedProvider
	mu      sync.Mutex
	calls   int
	arrived chan struct{}
	wait    time.Duration
	Entered chan struct{} // closed when the first call is inside
}

func (p *holdingProvider) AppStorage(appdef.AppQName) (istorage.IAppStorage, error) {
	p.mu.Lock()
	p.calls++
	n := p.calls
	p.mu.Unlock()
	switch n {
	case 1:
		close(p.Entered)
		select {
		case <-p.arrived:
		case <-time.After(p.wait):
		}
	case 2:
		close(p.arrived)
	}
	return p.st, nil
}

// TwoHandlesConcurrently asks provide(underlying) - a caching provider over a holding provider - for the storage
// of the app from two goroutines: the second call starts once the first is inside the underlying provider, which
// lets it go when the second arrives there too, or after wait. Returns both results.
func TwoHandlesConcurrently(st istorage.IAppStorage, wait time.Duration, provide func(istorage.IAppStorageProvider) istorage.IAppStorageProvider) (h [2]istorage.IAppStorage, err error) {
	hp := &holdingProvider{fixedProvider: fixedProvider{st: st}, arrived: make(chan struct{}), wait: wait, Entered: make(chan struct{})}
	p := provide(hp)
	var wg sync.WaitGroup
	var errs [2]error
	call := func(i int) {
		defer wg.Done()
		h[i], errs[i] = p.AppStorage(appQName)
	}
	wg.Add(2)
	go call(0)
	<-hp.Entered
	go call(1)
	wg.Wait()
	for _, e := range errs {
		if e != nil {
			return h, e
		}
	}
	return h, nil
}
