package kit

import (
	"context"

	"github.com/voedger/voedger/pkg/appdef"
	"github.com/voedger/voedger/pkg/goutils/timeu"
	"github.com/voedger/voedger/pkg/istorage"
	"github.com/voedger/voedger/pkg/istoragecache"
	imetrics "github.com/voedger/voedger/pkg/metrics"
)

// fixedProvider hands out one given storage for every app
type fixedProvider struct{ st istorage.IAppStorage }

func (p *fixedProvider) Prepare(any) error   { return nil }
func (p *fixedProvider) Run(context.Context) {}
func (p *fixedProvider) Stop()               {}
func (p *fixedProvider) AppStorage(appdef.AppQName) (istorage.IAppStorage, error) {
	return p.st, nil
}

// NewCached puts the real istoragecache (maxBytes large enough that nothing is evicted) in front of inner
func NewCached(inner istorage.IAppStorage, t timeu.ITime, maxBytes int) (istorage.IAppStorage, error) {
	p := istoragecache.Provide(maxBytes, &fixedProvider{st: inner}, imetrics.Provide(), "verif", t)
	return p.AppStorage(appQName)
}

// AppQName used by the harness storages
func AppQName() appdef.AppQName { return appQName }

// FixedProvider: an IAppStorageProvider that hands out st for every app (like the uncached provider of
// voedger, which returns one and the same storage per app)
func FixedProvider(st istorage.IAppStorage) istorage.IAppStorageProvider { return &fixedProvider{st: st} }
