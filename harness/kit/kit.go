// Package kit: shared helpers of the verification harness (PRNG, Coq term printing, case output).
package kit

import (
	"bufio"
	"encoding/json"
	"fmt"
	"os"
	"strings"
)

// Rng is a splitmix64 generator: every random choice of a run derives from one seed, so a
// disagreement replays exactly.
type Rng struct{ s uint64 }

func NewRng(seed uint64) *Rng { return &Rng{s: seed*0x9E3779B97F4A7C15 + 0x1234567} }

func (r *Rng) U64() uint64 {
	r.s += 0x9E3779B97F4A7C15
	z := r.s
	z = (z ^ (z >> 30)) * 0xBF58476D1CE4E5B9
	z = (z ^ (z >> 27)) * 0x94D049BB133111EB
	return z ^ (z >> 31)
}

// Intn returns a value in [0,n)
func (r *Rng) Intn(n int) int {
	if n <= 0 {
		return 0
	}
	return int(r.U64() % uint64(n))
}

func (r *Rng) Bool() bool { return r.U64()&1 == 1 }

// Chance is true with probability num/den
func (r *Rng) Chance(num, den int) bool { return r.Intn(den) < num }

func Pick[T any](r *Rng, xs []T) T { return xs[r.Intn(len(xs))] }

// Fork derives an independent generator (for a case) so that cases can be replayed alone
func (r *Rng) Fork() *Rng { return NewRng(r.U64()) }

// ---- Coq term printing ----

// Bytes prints a byte string as a Coq `list N` literal
func Bytes(b []byte) string {
	if len(b) == 0 {
		return "[]"
	}
	var sb strings.Builder
	sb.WriteString("[")
	for i, x := range b {
		if i > 0 {
			sb.WriteString(";")
		}
		fmt.Fprintf(&sb, "%d", x)
	}
	sb.WriteString("]")
	return sb.String()
}

// Val prints a byte string like Bytes, except that a run of more than 64 equal bytes is printed as
// `(repeat B%N (N.to_nat LEN%N))` (the same list; `repeat` is Coq.Lists.List.repeat, which every case
// file imports), so that a 70000-byte value costs a few characters of case term instead of 200 KB
func Val(b []byte) string {
	if len(b) <= 64 {
		return Bytes(b)
	}
	for _, x := range b {
		if x != b[0] {
			return Bytes(b)
		}
	}
	return fmt.Sprintf("(repeat %d%%N (N.to_nat %d%%N))", b[0], len(b))
}

func N(x uint64) string { return fmt.Sprintf("%d", x) }

func Z(x int64) string {
	if x < 0 {
		return fmt.Sprintf("(%d)", x)
	}
	return fmt.Sprintf("%d", x)
}

func Bool(b bool) string {
	if b {
		return "true"
	}
	return "false"
}

func OptN(ok bool, x uint64) string {
	if ok {
		return fmt.Sprintf("(Some %d)", x)
	}
	return "None"
}

func List(items []string) string {
	if len(items) == 0 {
		return "[]"
	}
	return "[" + strings.Join(items, "; ") + "]"
}

func Hex(b []byte) string { return fmt.Sprintf("%x", b) }

// ---- case output ----

// Case is one trace handed to the Coq evaluation
type Case struct {
	// Coq term of the property's `trace` type
	Coq string `json:"coq"`
	// Key identifies the case's shape for the distinct-count in evidence
	Key string `json:"key"`
	// Nontrivial by the property's stated rule
	Nontrivial bool `json:"nontrivial"`
	// Desc is the human/replay description (inputs and observed outputs)
	Desc any `json:"desc"`
	// Tags used to match known findings and to print the input distribution
	Tags []string `json:"tags,omitempty"`
}

type Out struct {
	f *os.File
	w *bufio.Writer
	n int
}

func NewOut(path string) (*Out, error) {
	f, err := os.Create(path)
	if err != nil {
		return nil, err
	}
	return &Out{f: f, w: bufio.NewWriterSize(f, 1<<20)}, nil
}

func (o *Out) Emit(c Case) {
	b, err := json.Marshal(c)
	if err != nil {
		panic(err)
	}
	o.w.Write(b)
	o.w.WriteByte('\n')
	o.n++
}

func (o *Out) Count() int { return o.n }

func (o *Out) Close() error {
	if err := o.w.Flush(); err != nil {
		return err
	}
	return o.f.Close()
}
