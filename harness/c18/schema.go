// Package c18: appdefcompat backward-compatibility check on generated schemas x catalogue edits (property C18).
package c18

import (
	"encoding/json"
	"fmt"

	"github.com/voedger/voedger/pkg/appdef"
	"github.com/voedger/voedger/pkg/appdef/builder"
	"github.com/voedger/voedger/pkg/appdef/constraints"
)

const pkg = "app"

// Schema is the harness-side description a real IAppDef is built from (through appdef/builder).
type Field struct {
	N   string `json:"n"`
	K   uint8  `json:"k"`             // appdef.DataKind
	Max uint16 `json:"max,omitempty"` // MaxLen constraint (string / bytes only): the field gets an anonymous data type
	Req bool   `json:"req,omitempty"` // NOT NULL (table fields)
	Ref string `json:"ref,omitempty"` // ref(<table>) target of a RecordID table field
}

func (f Field) cons() []appdef.IConstraint {
	if f.Max > 0 && (f.K == 7 || f.K == 8) {
		return []appdef.IConstraint{constraints.MaxLen(f.Max)}
	}
	return nil
}

type Cont struct {
	N string `json:"n"`
	T string `json:"t"` // local name of the contained type
}

type Table struct {
	Pkg      string   `json:"pkg,omitempty"` // local package name; "" = app
	Name     string   `json:"name"`
	Kind     string   `json:"kind"` // cdoc wdoc odoc crecord wrecord orecord object
	Fields   []Field  `json:"fields,omitempty"`
	Conts    []Cont   `json:"conts,omitempty"`
	Unique   []string `json:"unique,omitempty"`
	Abstract bool     `json:"abstract,omitempty"`
	// Base: local name of an abstract table whose fields are the first fields of this one (what the VSQL
	// compiler makes of `TABLE t INHERITS base` / a field set: inherited fields come before the own fields)
	Base string `json:"base,omitempty"`
}

type View struct {
	Name string  `json:"name"`
	PK   []Field `json:"pk"`
	CC   []Field `json:"cc"`
	Val  []Field `json:"val,omitempty"`
}

type Fn struct {
	Name  string `json:"name"`
	Query bool   `json:"query,omitempty"`
	Param string `json:"param,omitempty"`
	Unl   string `json:"unl,omitempty"`
	Res   string `json:"res,omitempty"`
}

type WS struct {
	Name   string   `json:"name"`
	Tables []Table  `json:"tables,omitempty"`
	Views  []View   `json:"views,omitempty"`
	Fns    []Fn     `json:"fns,omitempty"`
	Uses   []string `json:"uses,omitempty"`
	Desc   string   `json:"desc,omitempty"`
}

type Schema struct {
	Pkgs []string `json:"pkgs,omitempty"` // extra packages (local name p, path test.com/p) besides app
	WSs  []WS     `json:"wss"`
}

func (t Table) q() appdef.QName {
	if t.Pkg != "" {
		return appdef.NewQName(t.Pkg, t.Name)
	}
	return q(t.Name)
}

func (s *Schema) clone() *Schema {
	b, _ := json.Marshal(s)
	var c Schema
	if err := json.Unmarshal(b, &c); err != nil {
		panic(err)
	}
	return &c
}

func q(local string) appdef.QName { return appdef.NewQName(pkg, local) }
func qs(local string) string      { return pkg + "." + local }

type fieldAdder interface {
	AddField(name appdef.FieldName, kind appdef.DataKind, required bool, constraints ...appdef.IConstraint) appdef.IFieldsBuilder
}

// Build makes the real IAppDef; builder panics (invalid schema) come back as errors.
func (s *Schema) Build() (app appdef.IAppDef, err error) {
	defer func() {
		if r := recover(); r != nil {
			app, err = nil, fmt.Errorf("builder panic: %v", r)
		}
	}()
	adb := builder.New()
	adb.AddPackage(pkg, "test.com/app")
	for _, p := range s.Pkgs {
		adb.AddPackage(p, "test.com/"+p)
	}
	wsbs := make([]appdef.IWorkspaceBuilder, len(s.WSs))
	for i, ws := range s.WSs {
		wsbs[i] = adb.AddWorkspace(q(ws.Name))
	}
	for i, ws := range s.WSs {
		wsb := wsbs[i]
		for _, t := range ws.Tables {
			var sb appdef.IStructureBuilder
			switch t.Kind {
			case "cdoc":
				sb = wsb.AddCDoc(t.q())
			case "wdoc":
				sb = wsb.AddWDoc(t.q())
			case "odoc":
				sb = wsb.AddODoc(t.q())
			case "crecord":
				sb = wsb.AddCRecord(t.q())
			case "wrecord":
				sb = wsb.AddWRecord(t.q())
			case "orecord":
				sb = wsb.AddORecord(t.q())
			case "object":
				sb = wsb.AddObject(t.q())
			default:
				return nil, fmt.Errorf("unknown table kind %q", t.Kind)
			}
			for _, f := range t.Fields {
				if f.Ref != "" && f.K == 11 {
					sb.AddRefField(f.N, f.Req, q(f.Ref))
				} else {
					sb.AddField(f.N, appdef.DataKind(f.K), f.Req, f.cons()...)
				}
			}
			for _, c := range t.Conts {
				sb.AddContainer(c.N, q(c.T), 0, appdef.Occurs_Unbounded)
			}
			if len(t.Unique) > 0 {
				sb.AddUnique(appdef.UniqueQName(t.q(), "u1"), t.Unique)
			}
			if t.Abstract {
				sb.SetAbstract()
			}
		}
		for _, v := range ws.Views {
			vb := wsb.AddView(q(v.Name))
			for _, f := range v.PK {
				vb.Key().PartKey().AddField(f.N, appdef.DataKind(f.K))
			}
			for _, f := range v.CC {
				vb.Key().ClustCols().AddField(f.N, appdef.DataKind(f.K), f.cons()...)
			}
			for _, f := range v.Val {
				vb.Value().AddField(f.N, appdef.DataKind(f.K), false, f.cons()...)
			}
		}
		for _, f := range ws.Fns {
			var fb appdef.IFunctionBuilder
			if f.Query {
				fb = wsb.AddQuery(q(f.Name))
			} else {
				cb := wsb.AddCommand(q(f.Name))
				if f.Unl != "" {
					cb.SetUnloggedParam(q(f.Unl))
				}
				fb = cb
			}
			if f.Param != "" {
				fb.SetParam(q(f.Param))
			}
			if f.Res != "" {
				fb.SetResult(q(f.Res))
			}
		}
		if ws.Desc != "" {
			wsb.SetDescriptor(q(ws.Desc))
		}
	}
	for i, ws := range s.WSs {
		for _, u := range ws.Uses {
			wsbs[i].UseWorkspace(q(u))
		}
	}
	return adb.Build()
}

// ---- lookups ----

func (s *Schema) table(ws int, name string) *Table {
	for i := range s.WSs[ws].Tables {
		if s.WSs[ws].Tables[i].Name == name {
			return &s.WSs[ws].Tables[i]
		}
	}
	return nil
}

func (s *Schema) names() map[string]bool {
	m := map[string]bool{}
	for _, ws := range s.WSs {
		m[ws.Name] = true
		for _, t := range ws.Tables {
			m[t.Name] = true
		}
		for _, v := range ws.Views {
			m[v.Name] = true
		}
		for _, f := range ws.Fns {
			m[f.Name] = true
		}
	}
	return m
}

// referenced reports whether a type name is used by a container, function or descriptor
func (s *Schema) referenced(name string) bool {
	for _, ws := range s.WSs {
		if ws.Desc == name {
			return true
		}
		for _, u := range ws.Uses {
			if u == name {
				return true
			}
		}
		for _, t := range ws.Tables {
			if t.Base == name {
				return true
			}
			for _, f := range t.Fields {
				if f.Ref == name {
					return true
				}
			}
			for _, c := range t.Conts {
				if c.T == name {
					return true
				}
			}
		}
		for _, f := range ws.Fns {
			if f.Param == name || f.Unl == name || f.Res == name {
				return true
			}
		}
	}
	return false
}

func typePath(local string, more ...string) []string {
	return append([]string{"AppDef", "Types", qs(local)}, more...)
}
