package c18

import (
	"fmt"
	"strings"

	ac "github.com/voedger/voedger/pkg/appdefcompat"
)

// Edit is one catalogue edit of a schema description (self-contained: replayable from JSON).
type Edit struct {
	Kind string `json:"kind"`
	WS   int    `json:"ws,omitempty"`
	Name string `json:"name,omitempty"` // table / view / function the edit applies to
	Part string `json:"part,omitempty"` // fields | val | pk | cc
	I    int    `json:"i,omitempty"`
	J    int    `json:"j,omitempty"`
	New  string `json:"new,omitempty"` // new field / type / container name
	K    uint8  `json:"k,omitempty"`   // new data kind
	To   string `json:"to,omitempty"`  // new referenced type ("" = none)
	TK   string `json:"tk,omitempty"`  // kind of an added table
	// set (void -> type) | clear (type -> void) | retype (type -> type): function edits; informative
	Trans string `json:"trans,omitempty"`
	Sub   []Edit `json:"sub,omitempty"` // multi
	// pair: compare with an unrelated schema
	Other *Schema `json:"other,omitempty"`
}

// Claim is what the edit asserts about the two compatibility trees (Coq type `claim`).
type Claim struct {
	Kind string   `json:"kind"` // none compat removed reordered value listchanged changed
	Path []string `json:"path,omitempty"`
}

func (c Claim) coq(p *printer) string {
	switch c.Kind {
	case "none":
		return "CNone"
	case "additive":
		return "CAdditive"
	case "compat":
		return "CCompat"
	case "removed":
		return "(CRemoved " + p.path(c.Path) + ")"
	case "reordered":
		return "(CReordered " + p.path(c.Path) + ")"
	case "value":
		return "(CValue " + p.path(c.Path) + ")"
	case "listchanged":
		return "(CListChanged " + p.path(c.Path) + ")"
	case "changed":
		return "(CChanged " + p.path(c.Path) + ")"
	}
	panic("unknown claim " + c.Kind)
}

var compat = Claim{Kind: "compat"}

func partNode(part string) string {
	switch part {
	case "pk":
		return ac.NodeNamePartKeyFields
	case "cc":
		return ac.NodeNameClustColsFields
	}
	return ac.NodeNameFields
}

func isKey(part string) bool { return part == "pk" || part == "cc" }

func (s *Schema) fieldList(ws int, name, part string) *[]Field {
	if ws < 0 || ws >= len(s.WSs) {
		return nil
	}
	if part == "fields" {
		if t := s.table(ws, name); t != nil {
			return &t.Fields
		}
		return nil
	}
	for i := range s.WSs[ws].Views {
		v := &s.WSs[ws].Views[i]
		if v.Name == name {
			switch part {
			case "pk":
				return &v.PK
			case "cc":
				return &v.CC
			case "val":
				return &v.Val
			}
		}
	}
	return nil
}

func (s *Schema) fn(ws int, name string) *Fn {
	if ws < 0 || ws >= len(s.WSs) {
		return nil
	}
	for i := range s.WSs[ws].Fns {
		if s.WSs[ws].Fns[i].Name == name {
			return &s.WSs[ws].Fns[i]
		}
	}
	return nil
}

var errNA = fmt.Errorf("edit not applicable")

// apply returns the edited copy and the tree-level claim of the edit.
func apply(s *Schema, e Edit) (*Schema, Claim, error) {
	n := s.clone()
	none := Claim{Kind: "none"}
	switch e.Kind {
	case "self":
		return n, compat, nil
	case "pair":
		if e.Other == nil {
			return nil, none, errNA
		}
		return e.Other.clone(), none, nil
	case "multi":
		all := true
		cur := n
		for _, se := range e.Sub {
			nx, cl, err := apply(cur, se)
			if err != nil {
				return nil, none, err
			}
			if cl.Kind != "compat" {
				all = false
			}
			cur = nx
		}
		if all {
			return cur, compat, nil
		}
		return cur, none, nil
	case "append_base_field":
		// VSQL: a field appended at the end of an abstract base table (or of a field set used before other
		// fields). For every derived table the new field stands in the MIDDLE of its field list (the stored
		// row layout follows the field order), so the derived table's displaced own fields must be reported.
		b := n.table(e.WS, e.Name)
		if b == nil {
			return nil, none, errNA
		}
		var displaced string
		at := len(b.Fields)
		for i := range n.WSs[e.WS].Tables {
			d := &n.WSs[e.WS].Tables[i]
			if d.Base == e.Name && len(d.Fields) > at {
				if displaced == "" {
					displaced = d.Name + "/" + d.Fields[at].N
				}
				nl := append([]Field{}, d.Fields[:at]...)
				nl = append(nl, Field{N: e.New, K: e.K})
				d.Fields = append(nl, d.Fields[at:]...)
			}
		}
		if displaced == "" {
			return nil, none, errNA
		}
		b.Fields = append(b.Fields, Field{N: e.New, K: e.K})
		parts := strings.SplitN(displaced, "/", 2)
		return n, Claim{"reordered", typePath(parts[0], ac.NodeNameFields, parts[1])}, nil
	case "toggle_required", "change_ref", "remove_unique":
		// NOT NULL, ref target, UNIQUE: value / write constraints, not in the property's catalogue: correspondence only
		t := n.table(e.WS, e.Name)
		if t == nil {
			return nil, none, errNA
		}
		switch e.Kind {
		case "remove_unique":
			if len(t.Unique) == 0 {
				return nil, none, errNA
			}
			t.Unique = nil
		case "toggle_required":
			if e.I < 0 || e.I >= len(t.Fields) {
				return nil, none, errNA
			}
			t.Fields[e.I].Req = !t.Fields[e.I].Req
		default:
			if e.I < 0 || e.I >= len(t.Fields) || t.Fields[e.I].K != 11 || t.Fields[e.I].Ref == e.To {
				return nil, none, errNA
			}
			t.Fields[e.I].Ref = e.To
		}
		return n, none, nil
	case "append_field", "insert_field", "remove_field", "swap_fields", "change_kind", "change_maxlen":
		fl := n.fieldList(e.WS, e.Name, e.Part)
		if fl == nil {
			return nil, none, errNA
		}
		base := typePath(e.Name, partNode(e.Part))
		l := *fl
		switch e.Kind {
		case "append_field":
			*fl = append(l, Field{N: e.New, K: e.K})
			if isKey(e.Part) {
				return n, Claim{"listchanged", base}, nil
			}
			return n, compat, nil
		case "insert_field":
			if e.I < 0 || e.I >= len(l) {
				return nil, none, errNA
			}
			displaced := l[e.I].N
			nl := append([]Field{}, l[:e.I]...)
			nl = append(nl, Field{N: e.New, K: e.K})
			*fl = append(nl, l[e.I:]...)
			if isKey(e.Part) {
				return n, Claim{"listchanged", base}, nil
			}
			return n, Claim{"reordered", append(base, displaced)}, nil
		case "remove_field":
			if e.I < 0 || e.I >= len(l) {
				return nil, none, errNA
			}
			gone := l[e.I].N
			*fl = append(append([]Field{}, l[:e.I]...), l[e.I+1:]...)
			if t := n.table(e.WS, e.Name); t != nil && e.Part == "fields" {
				var u []string
				for _, x := range t.Unique {
					if x != gone {
						u = append(u, x)
					}
				}
				t.Unique = u
			}
			return n, Claim{"removed", append(base, gone)}, nil
		case "swap_fields":
			if e.I < 0 || e.J <= e.I || e.J >= len(l) {
				return nil, none, errNA
			}
			l[e.I], l[e.J] = l[e.J], l[e.I]
			return n, Claim{"reordered", append(base, l[e.J].N)}, nil
		case "change_maxlen": // constraint only (README: write compatibility, not checked): correspondence only
			if e.I < 0 || e.I >= len(l) || (l[e.I].K != 7 && l[e.I].K != 8) || l[e.I].Max == uint16(e.J) {
				return nil, none, errNA
			}
			l[e.I].Max = uint16(e.J)
			return n, none, nil
		default: // change_kind; a MaxLen constraint stays when the new kind can carry it
			if e.I < 0 || e.I >= len(l) || l[e.I].K == e.K {
				return nil, none, errNA
			}
			l[e.I].K = e.K
			l[e.I].Ref = ""
			if e.K != 7 && e.K != 8 {
				l[e.I].Max = 0
			}
			return n, Claim{"value", append(base, l[e.I].N)}, nil
		}
	case "add_table":
		n.WSs[e.WS].Tables = append(n.WSs[e.WS].Tables, Table{Name: e.New, Kind: e.TK, Fields: []Field{{N: "a", K: 3}, {N: "b", K: 8}}})
		return n, compat, nil
	case "add_pkg_table":
		// a new type in a NEW package: "only appends new types"; compatible under the table since 73ee9ff73
		for _, p := range n.Pkgs {
			if p == e.To {
				return nil, none, errNA
			}
		}
		n.Pkgs = append(n.Pkgs, e.To)
		n.WSs[e.WS].Tables = append(n.WSs[e.WS].Tables, Table{Pkg: e.To, Name: e.New, Kind: "cdoc", Fields: []Field{{N: "a", K: 3}}})
		return n, compat, nil
	case "table_kind":
		// the same QName changes its kind (cdoc <-> wdoc ...): not in the property's catalogue, correspondence only
		t := n.table(e.WS, e.Name)
		if t == nil || t.Kind == e.TK {
			return nil, none, errNA
		}
		t.Kind = e.TK
		return n, none, nil
	case "table_to_view":
		// a table is replaced by a view of the same QName: correspondence only
		ws := &n.WSs[e.WS]
		for i := range ws.Tables {
			if ws.Tables[i].Name == e.Name && ws.Tables[i].Pkg == "" {
				ws.Tables = append(ws.Tables[:i], ws.Tables[i+1:]...)
				ws.Views = append(ws.Views, View{Name: e.Name, PK: []Field{{N: "p", K: 4}}, CC: []Field{{N: "c", K: 3}}, Val: []Field{{N: "a", K: 3}}})
				return n, none, nil
			}
		}
		return nil, none, errNA
	case "add_view":
		n.WSs[e.WS].Views = append(n.WSs[e.WS].Views, View{Name: e.New, PK: []Field{{N: "p", K: 4}}, CC: []Field{{N: "c", K: 8}}, Val: []Field{{N: "v", K: 3}}})
		return n, compat, nil
	case "add_fn":
		n.WSs[e.WS].Fns = append(n.WSs[e.WS].Fns, Fn{Name: e.New, Query: e.K == 1, Param: e.To})
		return n, compat, nil
	case "add_ws":
		n.WSs = append(n.WSs, WS{Name: e.New, Tables: []Table{{Name: e.New + "Doc", Kind: "cdoc", Fields: []Field{{N: "a", K: 3}}}}})
		return n, compat, nil
	case "use_ws":
		if e.WS >= len(n.WSs) {
			return nil, none, errNA
		}
		n.WSs[e.WS].Uses = append(n.WSs[e.WS].Uses, e.To)
		return n, compat, nil
	case "remove_type":
		ws := &n.WSs[e.WS]
		found := false
		for i := range ws.Tables {
			if ws.Tables[i].Name == e.Name {
				ws.Tables = append(ws.Tables[:i], ws.Tables[i+1:]...)
				found = true
				break
			}
		}
		for i := range ws.Views {
			if !found && ws.Views[i].Name == e.Name {
				ws.Views = append(ws.Views[:i], ws.Views[i+1:]...)
				found = true
				break
			}
		}
		for i := range ws.Fns {
			if !found && ws.Fns[i].Name == e.Name {
				ws.Fns = append(ws.Fns[:i], ws.Fns[i+1:]...)
				found = true
				break
			}
		}
		if !found {
			return nil, none, errNA
		}
		return n, Claim{"removed", typePath(e.Name)}, nil
	case "remove_container", "retarget_container", "add_container":
		t := n.table(e.WS, e.Name)
		if t == nil {
			return nil, none, errNA
		}
		base := typePath(e.Name, ac.NodeNameContainers)
		switch e.Kind {
		case "add_container":
			t.Conts = append(t.Conts, Cont{e.New, e.To})
			return n, none, nil // not named by the property either way: correspondence only
		case "remove_container":
			if e.I < 0 || e.I >= len(t.Conts) {
				return nil, none, errNA
			}
			gone := t.Conts[e.I].N
			t.Conts = append(append([]Cont{}, t.Conts[:e.I]...), t.Conts[e.I+1:]...)
			return n, Claim{"removed", append(base, gone)}, nil
		default:
			if e.I < 0 || e.I >= len(t.Conts) || t.Conts[e.I].T == e.To {
				return nil, none, errNA
			}
			t.Conts[e.I].T = e.To
			return n, Claim{"value", append(base, t.Conts[e.I].N)}, nil
		}
	case "cmd_param", "cmd_unl", "cmd_res", "query_param", "query_res":
		f := n.fn(e.WS, e.Name)
		if f == nil || f.Query != (e.Kind[0] == 'q') {
			return nil, none, errNA
		}
		var slot *string
		var node string
		switch e.Kind {
		case "cmd_param":
			slot, node = &f.Param, ac.NodeNameCommandArgs
		case "cmd_unl":
			slot, node = &f.Unl, ac.NodeNameUnloggedArgs
		case "cmd_res":
			slot, node = &f.Res, ac.NodeNameCommandResult
		case "query_param":
			slot, node = &f.Param, ac.NodeNameQueryArgs
		default:
			slot, node = &f.Res, ac.NodeNameQueryResult
		}
		if *slot == e.To {
			return nil, none, errNA
		}
		*slot = e.To
		if f.Query {
			return n, Claim{"changed", typePath(e.Name, node)}, nil
		}
		return n, Claim{"value", typePath(e.Name, node)}, nil
	}
	return nil, none, fmt.Errorf("unknown edit kind %q", e.Kind)
}
