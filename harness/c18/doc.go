// Package c18: harness of property C18 (registers itself with kit.Register in an init function).
package c18
