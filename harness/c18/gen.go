package c18

import (
	"encoding/json"
	"fmt"
	"os"
	"sort"
	"strings"

	"verifharness/kit"

	ac "github.com/voedger/voedger/pkg/appdefcompat"
)

var anyKinds = []uint8{1, 2, 3, 4, 5, 6, 7, 8, 9, 10, 11}
var fixedKinds = []uint8{3, 4, 5, 6, 9, 10, 11}
var fieldNames = []string{"a", "b", "c", "d", "e", "f", "g", "id", "name", "Fields", "Types"}

func genFields(r *kit.Rng, n int, kinds []uint8, varLast bool) []Field {
	var out []Field
	perm := append([]string{}, fieldNames...)
	for i := len(perm) - 1; i > 0; i-- {
		j := r.Intn(i + 1)
		perm[i], perm[j] = perm[j], perm[i]
	}
	for i := 0; i < n && i < len(perm); i++ {
		k := kit.Pick(r, kinds)
		if varLast && i == n-1 && r.Chance(1, 2) {
			k = kit.Pick(r, []uint8{7, 8})
		}
		f := Field{N: perm[i], K: k}
		if (k == 7 || k == 8) && r.Chance(1, 2) {
			f.Max = kit.Pick(r, []uint16{10, 100})
		}
		out = append(out, f)
	}
	return out
}

var contOf = map[string]string{"cdoc": "crecord", "crecord": "crecord", "wdoc": "wrecord", "wrecord": "wrecord", "odoc": "orecord", "orecord": "orecord", "object": "object"}

func genWS(r *kit.Rng, wi int, small bool) WS {
	p := string(rune('A' + wi))
	ws := WS{Name: "W" + p}
	kinds := []string{"cdoc", "cdoc", "wdoc", "odoc", "crecord", "crecord", "wrecord", "orecord", "object", "object"}
	nt := 2 + r.Intn(5)
	if small {
		nt = 1 + r.Intn(2)
	}
	for i := 0; i < nt; i++ {
		t := Table{Name: fmt.Sprintf("%sT%d", p, i), Kind: kit.Pick(r, kinds)}
		nf := kit.Pick(r, []int{0, 1, 2, 2, 3, 4, 6})
		t.Fields = genFields(r, nf, anyKinds, false)
		if (t.Kind == "cdoc" || t.Kind == "wdoc") && len(t.Fields) >= 2 && r.Chance(1, 3) {
			t.Unique = []string{t.Fields[0].N, t.Fields[1].N}
		}
		ws.Tables = append(ws.Tables, t)
	}
	// refs, NOT NULL
	for i := range ws.Tables {
		for j := range ws.Tables[i].Fields {
			f := &ws.Tables[i].Fields[j]
			if f.K == 11 && r.Chance(1, 2) {
				for _, o := range ws.Tables {
					if o.Kind == "cdoc" || o.Kind == "wdoc" {
						f.Ref = o.Name
						break
					}
				}
			}
			f.Req = r.Chance(1, 5)
		}
	}
	// an abstract base table and a table derived from it (inherited fields first, then own fields)
	if r.Chance(1, 2) {
		base := Table{Name: p + "Base", Kind: "cdoc", Abstract: true, Fields: []Field{{N: "bx", K: 3}, {N: "by", K: 8}}}
		der := Table{Name: p + "Der", Kind: "cdoc", Base: base.Name, Fields: append(append([]Field{}, base.Fields...), genFields(r, 1+r.Intn(3), anyKinds, false)...)}
		ws.Tables = append(ws.Tables, base, der)
	}
	// an object and an odoc are always there so that functions have argument candidates
	ws.Tables = append(ws.Tables,
		Table{Name: p + "Obj1", Kind: "object", Fields: []Field{{N: "x", K: 3}, {N: "y", K: 8}}},
		Table{Name: p + "Obj2", Kind: "object", Fields: genFields(r, 1+r.Intn(3), anyKinds, false)},
		Table{Name: p + "Obj3", Kind: "object", Fields: []Field{{N: "x", K: 3}, {N: "y", K: 8}}}, // same fields as Obj1
		Table{Name: p + "ODoc", Kind: "odoc", Fields: genFields(r, r.Intn(3), anyKinds, false)})
	// containers: parent -> a record type of the matching family
	for i := range ws.Tables {
		t := &ws.Tables[i]
		want := contOf[t.Kind]
		nc := 0
		for j := range ws.Tables {
			if j != i && ws.Tables[j].Kind == want && nc < 3 && r.Chance(1, 2) {
				t.Conts = append(t.Conts, Cont{fmt.Sprintf("c%d", nc), ws.Tables[j].Name})
				nc++
			}
		}
	}
	nv := r.Intn(3)
	for i := 0; i < nv; i++ {
		v := View{Name: fmt.Sprintf("%sV%d", p, i)}
		all := genFields(r, 9, fixedKinds, false)
		npk, ncc := 1+r.Intn(3), 1+r.Intn(3)
		v.PK = all[:npk]
		v.CC = all[npk : npk+ncc]
		if r.Chance(1, 2) {
			v.CC[ncc-1].K = kit.Pick(r, []uint8{7, 8})
		}
		v.Val = all[npk+ncc : npk+ncc+r.Intn(4)]
		for j := range v.Val {
			v.Val[j].K = kit.Pick(r, anyKinds)
		}
		ws.Views = append(ws.Views, v)
	}
	args := []string{"", p + "Obj1", p + "Obj2", p + "Obj3", p + "ODoc"}
	res := []string{"", p + "Obj1", p + "Obj2", p + "Obj3"}
	nc := r.Intn(3)
	if wi == 0 {
		nc = 1 + r.Intn(2) // the first workspace always has a command and a query
	}
	for i := 0; i < nc; i++ {
		ws.Fns = append(ws.Fns, Fn{Name: fmt.Sprintf("%sCmd%d", p, i), Param: kit.Pick(r, args), Unl: kit.Pick(r, res), Res: kit.Pick(r, res)})
	}
	nq := r.Intn(3)
	if wi == 0 {
		nq = 1 + r.Intn(2)
	}
	for i := 0; i < nq; i++ {
		ws.Fns = append(ws.Fns, Fn{Name: fmt.Sprintf("%sQry%d", p, i), Query: true, Param: kit.Pick(r, res), Res: kit.Pick(r, res)})
	}
	return ws
}

func genSchema(r *kit.Rng) *Schema {
	s := &Schema{}
	nws := 1 + r.Intn(2)
	small := r.Chance(1, 6)
	for i := 0; i < nws; i++ {
		s.WSs = append(s.WSs, genWS(r, i, small))
	}
	// sometimes a second application package with a type of its own
	if r.Chance(1, 3) {
		s.Pkgs = []string{"lib"}
		s.WSs[0].Tables = append(s.WSs[0].Tables, Table{Pkg: "lib", Name: "LibDoc", Kind: "cdoc", Fields: []Field{{N: "a", K: 3}, {N: "s", K: 8, Max: 100}}})
	}
	return s
}

func freshField(l []Field) string {
	used := map[string]bool{}
	for _, f := range l {
		used[f.N] = true
	}
	for _, c := range []string{"nf", "A", "zz", "nf2"} {
		if !used[c] {
			return c
		}
	}
	return "nf3"
}

func otherKind(r *kit.Rng, k uint8, pool []uint8) uint8 {
	for {
		c := kit.Pick(r, pool)
		if c != k {
			return c
		}
	}
}

// enumerate lists every catalogue edit at every applicable position of the schema.
func enumerate(r *kit.Rng, s *Schema) []Edit {
	out := []Edit{{Kind: "self"}}
	for wi, ws := range s.WSs {
		p := string(rune('A' + wi))
		lists := []struct {
			name, part string
			l          []Field
		}{}
		for _, t := range ws.Tables {
			if t.Pkg != "" || t.Base != "" || (t.Abstract && s.referenced(t.Name)) {
				continue
			}
			lists = append(lists, struct {
				name, part string
				l          []Field
			}{t.Name, "fields", t.Fields})
		}
		for _, v := range ws.Views {
			lists = append(lists, struct {
				name, part string
				l          []Field
			}{v.Name, "val", v.Val}, struct {
				name, part string
				l          []Field
			}{v.Name, "pk", v.PK}, struct {
				name, part string
				l          []Field
			}{v.Name, "cc", v.CC})
		}
		for _, fl := range lists {
			pool := anyKinds
			if fl.part == "pk" {
				pool = fixedKinds
			}
			nk := kit.Pick(r, pool)
			if fl.part == "cc" {
				nk = kit.Pick(r, fixedKinds)
			}
			// a variable-length clustering column must stay last
			if !(fl.part == "cc" && len(fl.l) > 0 && (fl.l[len(fl.l)-1].K == 7 || fl.l[len(fl.l)-1].K == 8)) {
				out = append(out, Edit{Kind: "append_field", WS: wi, Name: fl.name, Part: fl.part, New: freshField(fl.l), K: nk})
			}
			for i := range fl.l {
				ik := nk
				if fl.part == "cc" {
					ik = kit.Pick(r, fixedKinds)
				}
				out = append(out,
					Edit{Kind: "insert_field", WS: wi, Name: fl.name, Part: fl.part, I: i, New: freshField(fl.l), K: ik},
					Edit{Kind: "remove_field", WS: wi, Name: fl.name, Part: fl.part, I: i})
				ck := pool
				if fl.part == "cc" && i < len(fl.l)-1 {
					ck = fixedKinds
				}
				out = append(out, Edit{Kind: "change_kind", WS: wi, Name: fl.name, Part: fl.part, I: i, K: otherKind(r, fl.l[i].K, ck)})
				for j := i + 1; j < len(fl.l); j++ {
					out = append(out, Edit{Kind: "swap_fields", WS: wi, Name: fl.name, Part: fl.part, I: i, J: j})
				}
				// variable-length fields: kind change under a kept MaxLen constraint (anonymous data types on
				// both sides), and constraint-only changes
				if k := fl.l[i].K; (k == 7 || k == 8) && fl.part != "pk" {
					if fl.l[i].Max > 0 {
						out = append(out, Edit{Kind: "change_kind", WS: wi, Name: fl.name, Part: fl.part, I: i, K: 15 - k, Trans: "constrained"})
					}
					for _, m := range []int{0, 10, 100} {
						if uint16(m) != fl.l[i].Max {
							out = append(out, Edit{Kind: "change_maxlen", WS: wi, Name: fl.name, Part: fl.part, I: i, J: m})
						}
					}
				}
			}
		}
		// new types whose names sort before / between / after the existing ones
		for _, nm := range []string{"A0" + p, p + "T0a", "zz" + p} {
			out = append(out,
				Edit{Kind: "add_table", WS: wi, New: nm, TK: kit.Pick(r, []string{"cdoc", "wdoc", "object", "crecord"})},
				Edit{Kind: "add_view", WS: wi, New: nm},
				Edit{Kind: "add_fn", WS: wi, New: nm, K: uint8(r.Intn(2)), To: p + "Obj1"})
		}
		for _, t := range ws.Tables {
			if t.Pkg != "" {
				continue
			}
			if t.Abstract && s.referenced(t.Name) {
				out = append(out, Edit{Kind: "append_base_field", WS: wi, Name: t.Name, New: "bz", K: kit.Pick(r, anyKinds)})
			}
			if len(t.Unique) > 0 {
				out = append(out, Edit{Kind: "remove_unique", WS: wi, Name: t.Name})
			}
			for i, f := range t.Fields {
				if t.Base != "" || t.Abstract {
					break
				}
				if i == 0 || f.Req {
					out = append(out, Edit{Kind: "toggle_required", WS: wi, Name: t.Name, I: i})
				}
				if f.K == 11 {
					for _, o := range ws.Tables {
						if (o.Kind == "cdoc" || o.Kind == "wdoc") && o.Name != f.Ref && !o.Abstract {
							out = append(out, Edit{Kind: "change_ref", WS: wi, Name: t.Name, I: i, To: o.Name})
							break
						}
					}
				}
			}
		}
		for _, pn := range []string{"aaa", "zzz"} {
			out = append(out, Edit{Kind: "add_pkg_table", WS: wi, To: pn, New: "PDoc"})
		}
		for _, t := range ws.Tables {
			if t.Pkg != "" {
				continue
			}
			if !s.referenced(t.Name) {
				out = append(out, Edit{Kind: "remove_type", WS: wi, Name: t.Name})
				out = append(out, Edit{Kind: "table_to_view", WS: wi, Name: t.Name})
				if flip := map[string]string{"cdoc": "wdoc", "wdoc": "cdoc", "crecord": "wrecord", "wrecord": "crecord", "odoc": "cdoc"}[t.Kind]; flip != "" && len(t.Conts) == 0 {
					out = append(out, Edit{Kind: "table_kind", WS: wi, Name: t.Name, TK: flip})
				}
			}
			for i, c := range t.Conts {
				out = append(out, Edit{Kind: "remove_container", WS: wi, Name: t.Name, I: i})
				for _, o := range ws.Tables {
					if o.Kind == contOf[t.Kind] && o.Name != c.T && o.Name != t.Name {
						out = append(out, Edit{Kind: "retarget_container", WS: wi, Name: t.Name, I: i, To: o.Name})
						break
					}
				}
			}
			for _, o := range ws.Tables {
				if o.Kind == contOf[t.Kind] && o.Name != t.Name {
					out = append(out, Edit{Kind: "add_container", WS: wi, Name: t.Name, New: "cnew", To: o.Name})
					break
				}
			}
		}
		for _, v := range ws.Views {
			out = append(out, Edit{Kind: "remove_type", WS: wi, Name: v.Name})
		}
		for _, f := range ws.Fns {
			out = append(out, Edit{Kind: "remove_type", WS: wi, Name: f.Name})
			objs := []string{"", p + "Obj1", p + "Obj2", p + "Obj3"}
			// each slot is changed alone (the other slots keep their types): void -> type, type -> void, type -> type
			slot := func(kind, cur string) {
				for _, to := range objs {
					if to == cur {
						continue
					}
					tr := "retype"
					if cur == "" {
						tr = "set"
					} else if to == "" {
						tr = "clear"
					}
					out = append(out, Edit{Kind: kind, WS: wi, Name: f.Name, To: to, Trans: tr})
				}
			}
			if f.Query {
				slot("query_param", f.Param)
				slot("query_res", f.Res)
			} else {
				slot("cmd_param", f.Param)
				slot("cmd_unl", f.Unl)
				slot("cmd_res", f.Res)
			}
		}
		for wj, o := range s.WSs {
			if wj != wi {
				out = append(out, Edit{Kind: "use_ws", WS: wi, To: o.Name})
			}
		}
	}
	out = append(out, Edit{Kind: "add_ws", New: "WNew"}, Edit{Kind: "add_ws", New: "A0ws"})
	return out
}

func isCompatKind(k string) bool {
	switch k {
	case "self", "add_table", "add_view", "add_fn", "add_ws", "use_ws", "add_pkg_table":
		return true
	}
	return false
}

func perms(l []*Node) [][]*Node {
	if len(l) <= 1 {
		return [][]*Node{append([]*Node{}, l...)}
	}
	var out [][]*Node
	for i := range l {
		rest := append(append([]*Node{}, l[:i]...), l[i+1:]...)
		for _, p := range perms(rest) {
			out = append(out, append([]*Node{l[i]}, p...))
		}
	}
	return out
}

// ---- one case ----

type caseDesc struct {
	Schema *Schema `json:"schema"`
	Edit   Edit    `json:"edit"`
	Claim  *Claim  `json:"claim,omitempty"`
	// observed
	Errors   []string `json:"observed_errors"`
	Ignored  []string `json:"observed_after_ignore,omitempty"`
	TreeDiff []string `json:"real_tree_differs_from_transcription_at,omitempty"`
	OldNodes int      `json:"old_tree_nodes,omitempty"`
	NewNodes int      `json:"new_tree_nodes,omitempty"`
}

var etypes = map[ac.ErrorType]string{
	ac.ErrorTypeNodeRemoved: "NodeRemoved", ac.ErrorTypeOrderChanged: "OrderChanged", ac.ErrorTypeNodeInserted: "NodeInserted",
	ac.ErrorTypeValueChanged: "ValueChanged", ac.ErrorTypeNodeModified: "NodeModified",
}

// runCase builds both IAppDefs, runs the real checker and prints the trace. ok=false: the
// edited schema is not a valid schema (builder refused it) - not a case.
func runCase(s *Schema, e Edit) (c kit.Case, ok bool, err error) {
	oldApp, err := s.Build()
	if err != nil {
		return c, false, fmt.Errorf("generated schema does not build: %w", err)
	}
	ns, claim, aerr := apply(s, e)
	if aerr != nil {
		return c, false, nil
	}
	newApp, berr := ns.Build()
	if berr != nil {
		return c, false, nil
	}
	cerrs := ac.CheckBackwardCompatibility(oldApp, newApp)
	oldT, newT := realTree(oldApp), realTree(newApp)
	// cross-check of the real trees against the harness's own transcription of buildTree: a
	// difference is part of the trace (agrees = false), the run goes on
	var diffs [][]string
	for _, pair := range [][2]*Node{{oldT, transcribedTree(oldApp)}, {newT, transcribedTree(newApp)}} {
		if dp := pair[0].firstDiff(pair[1], nil); dp != nil {
			diffs = append(diffs, dp)
		}
	}

	d := &caseDesc{Schema: s, Edit: e, Claim: &claim, OldNodes: oldT.count(), NewNodes: newT.count()}
	var terms []string
	pr := newPrinter()
	var diffTerms []string
	for _, dp := range diffs {
		diffTerms = append(diffTerms, pr.path(dp))
		d.TreeDiff = append(d.TreeDiff, strings.Join(dp, "/"))
	}
	oldRef, newRef := oldT.ref(pr), newT.ref(pr)
	tagset := map[string]bool{"kind:" + e.Kind: true, "claim:" + claim.Kind: true}
	if e.Trans != "" {
		tagset["fn:"+e.Kind+":"+e.Trans] = true
	}
	if len(diffs) > 0 {
		tagset["treediff:real-tree-differs-from-transcription"] = true
	}
	if e.Part != "" {
		tagset["part:"+e.Part] = true
	}
	at, near := false, false
	for _, ce := range cerrs.Errors {
		et, known := etypes[ce.ErrorType]
		if !known {
			et = "OtherError"
		}
		terms = append(terms, fmt.Sprintf("mkerr %d %s %s", uint8(ce.Constraint), pr.path(ce.OldTreePath), et))
		d.Errors = append(d.Errors, fmt.Sprintf("%s %s (constraint %d)", ce.ErrorType, ce.Path(), uint8(ce.Constraint)))
		tagset["etype:"+et] = true
		if strings.Join(ce.OldTreePath, "/") == strings.Join(claim.Path, "/") {
			at, near = true, true
		}
		if len(ce.OldTreePath) > 0 && strings.Join(ce.OldTreePath[:len(ce.OldTreePath)-1], "/") == strings.Join(claim.Path, "/") {
			near = true
		}
	}
	switch {
	case len(cerrs.Errors) == 0:
		tagset["errors:0"] = true
	case len(cerrs.Errors) == 1:
		tagset["errors:1"] = true
	default:
		tagset["errors:2+"] = true
	}
	// tags only the F15 behaviour produces: the claimed element is a container / query arg / query
	// result node and nothing was reported there
	if len(claim.Path) >= 2 {
		switch {
		case claim.Kind == "removed" && claim.Path[len(claim.Path)-2] == ac.NodeNameContainers && !at:
			tagset["F15:container-removal-unreported"] = true
		case claim.Kind == "changed" && claim.Path[len(claim.Path)-1] == ac.NodeNameQueryArgs && !near:
			tagset["F15:query-arg-change-unreported"] = true
			tagset["F15:query-type-change-unreported"] = true
		case claim.Kind == "changed" && claim.Path[len(claim.Path)-1] == ac.NodeNameQueryResult && !near:
			tagset["F15:query-result-change-unreported"] = true
			tagset["F15:query-type-change-unreported"] = true
		}
	}
	// exported IgnoreCompatibilityErrors on the claimed path (no path: nothing to ignore)
	var ignPaths [][]string
	if len(claim.Path) > 0 {
		ignPaths = [][]string{claim.Path}
	}
	var ignTerms []string
	for _, ce := range ac.IgnoreCompatibilityErrors(cerrs, ignPaths).Errors {
		et, known := etypes[ce.ErrorType]
		if !known {
			et = "OtherError"
		}
		ignTerms = append(ignTerms, fmt.Sprintf("mkerr %d %s %s", uint8(ce.Constraint), pr.path(ce.OldTreePath), et))
		d.Ignored = append(d.Ignored, ce.Error())
	}
	// Packages children come from a Go map: the order the real call used is unknown. When the package
	// lists differ, the trace carries every ordering of both lists; `agrees` accepts the observed errors if the
	// model produces them for one of them.
	var orderTerms []string
	op, np := oldT.find([]string{ac.NodeNameAppDef, ac.NodeNamePackages}), newT.find([]string{ac.NodeNameAppDef, ac.NodeNamePackages})
	if op != nil && np != nil && op.firstDiff(np, nil) != nil && len(op.Props) <= 3 && len(np.Props) <= 4 {
		tagset["packages:changed"] = true
		for _, po := range perms(op.Props) {
			for _, pn := range perms(np.Props) {
				var a, b []string
				for _, x := range po {
					a = append(a, x.ref(pr))
				}
				for _, x := range pn {
					b = append(b, x.ref(pr))
				}
				orderTerms = append(orderTerms, "("+kit.List(a)+", "+kit.List(b)+")")
			}
		}
	}
	// tag only the C18-PKG behaviour produces: a purely additive edit whose only reports sit at AppDef/Packages
	if e.Kind == "add_pkg_table" && len(cerrs.Errors) > 0 {
		only := true
		for _, ce := range cerrs.Errors {
			if strings.Join(ce.OldTreePath, "/") != ac.NodeNameAppDef+"/"+ac.NodeNamePackages {
				only = false
			}
		}
		if only {
			tagset["C18-PKG:new-package-flagged"] = true
		}
	}
	var sb strings.Builder
	claimTerm := claim.coq(pr)
	sb.WriteString(strings.Join(pr.lets, " "))
	sb.WriteString(" mkTrace " + oldRef + " " + newRef + " " + claimTerm + " " + kit.List(terms) + " " + kit.List(ignTerms) + " " + kit.List(diffTerms) + " " + kit.List(orderTerms))
	var tags []string
	for t := range tagset {
		tags = append(tags, t)
	}
	sort.Strings(tags)
	pos := "-"
	if e.Part != "" || e.Kind == "remove_container" {
		pos = fmt.Sprintf("%d.%d", e.I, e.J)
	}
	nerr := len(cerrs.Errors)
	if e.Kind == "add_pkg_table" {
		nerr = 0 // NodeInserted appears or not with the map order: keep the shape key stable
	}
	key := fmt.Sprintf("%s|%s|%s|%s|o%d|n%d|e%d", e.Kind, e.Part+e.Trans, pos, claim.Kind, d.OldNodes, d.NewNodes, nerr)
	return kit.Case{Coq: sb.String(), Key: key, Nontrivial: e.Kind != "self", Desc: d, Tags: tags}, true, nil
}

// Generate: corpus first, then schemas x edits until n cases are written.
func Generate(seed uint64, n int, tier string, corpusDir string, out *kit.Out) error {
	// cases showing a listed known finding (tags F15:..., C18-PKG:...) are written after all others: when the
	// code is broken elsewhere and the model disagrees, bin/check no longer accepts them as known, and the first
	// violations it lists should be the genuine ones, not these look-alikes
	var deferred []kit.Case
	emit := func(c kit.Case) {
		for _, t := range c.Tags {
			if strings.HasPrefix(t, "F15:") || strings.HasPrefix(t, "C18-PKG:") {
				deferred = append(deferred, c)
				return
			}
		}
		out.Emit(c)
	}
	if corpusDir != "" {
		entries, _ := os.ReadDir(corpusDir)
		var names []string
		for _, e := range entries {
			if strings.HasSuffix(e.Name(), ".json") {
				names = append(names, e.Name())
			}
		}
		sort.Strings(names)
		for _, nm := range names {
			c, err := replayCase(corpusDir + "/" + nm)
			if err != nil {
				return fmt.Errorf("%s: %w", nm, err)
			}
			emit(c)
		}
	}
	r := kit.NewRng(seed)
	perSchema := 18
	if tier == "thorough" {
		perSchema = 1 << 30 // every applicable position of every edit kind
	}
	emitted := 0
	for emitted < n {
		cr := r.Fork()
		s := genSchema(cr)
		edits := enumerate(cr, s)
		// unrelated / malformed stream: other schema, empty schema, mixed and compatible multi-edits
		other := genSchema(cr)
		edits = append(edits, Edit{Kind: "pair", Other: other}, Edit{Kind: "pair", Other: &Schema{}})
		for k := 0; k < 3; k++ {
			m := Edit{Kind: "multi"}
			for j, cnt := 0, 2+cr.Intn(3); j < cnt; j++ {
				se := kit.Pick(cr, edits)
				if se.Kind == "multi" || se.Kind == "pair" || (k > 0 && !isCompatKind(se.Kind) && !(se.Kind == "append_field" && !isKey(se.Part))) {
					continue
				}
				m.Sub = append(m.Sub, se)
			}
			if len(m.Sub) >= 2 {
				edits = append(edits, m)
			}
		}
		// sample
		chosen := edits
		if len(edits) > perSchema {
			byKind := map[string][]Edit{}
			var kinds []string
			for _, e := range edits {
				k := e.Kind + "/" + e.Part + "/" + e.Trans
				if _, ok := byKind[k]; !ok {
					kinds = append(kinds, k)
				}
				byKind[k] = append(byKind[k], e)
			}
			chosen = nil
			// a random subset of the (kind, part, transition) classes, one edit of each
			for i := len(kinds) - 1; i > 0; i-- {
				j := cr.Intn(i + 1)
				kinds[i], kinds[j] = kinds[j], kinds[i]
			}
			for i := 0; i < len(kinds) && len(chosen) < perSchema; i++ {
				chosen = append(chosen, kit.Pick(cr, byKind[kinds[i]]))
			}
		}
		for _, e := range chosen {
			if emitted >= n {
				break
			}
			c, ok, err := runCase(s, e)
			if err != nil {
				return err
			}
			if !ok {
				continue
			}
			emitted++
			emit(c)
		}
	}
	for _, c := range deferred {
		out.Emit(c)
	}
	return nil
}

// Replay runs exactly the (schema, edit) stored in a corpus or replay file.
func Replay(path string, out *kit.Out) error {
	c, err := replayCase(path)
	if err != nil {
		return err
	}
	out.Emit(c)
	return nil
}

func replayCase(path string) (c kit.Case, err error) {
	b, err := os.ReadFile(path)
	if err != nil {
		return c, err
	}
	var w struct {
		Case *struct {
			Desc *caseDesc `json:"desc"`
		} `json:"case"`
		Desc   *caseDesc `json:"desc"`
		Schema *Schema   `json:"schema"`
		Edit   *Edit     `json:"edit"`
	}
	if err := json.Unmarshal(b, &w); err != nil {
		return c, err
	}
	var d *caseDesc
	switch {
	case w.Case != nil && w.Case.Desc != nil:
		d = w.Case.Desc
	case w.Desc != nil:
		d = w.Desc
	case w.Schema != nil && w.Edit != nil:
		d = &caseDesc{Schema: w.Schema, Edit: *w.Edit}
	default:
		return c, fmt.Errorf("%s: no (schema, edit) found", path)
	}
	c, ok, err := runCase(d.Schema, d.Edit)
	if err != nil {
		return c, err
	}
	if !ok {
		return c, fmt.Errorf("%s: the edit is not applicable or the edited schema does not build", path)
	}
	return c, nil
}
