package c18

import (
	"fmt"
	"sort"
	"strings"

	"github.com/voedger/voedger/pkg/appdef"
	ac "github.com/voedger/voedger/pkg/appdefcompat"
)

// Node is the harness copy of appdefcompat.CompatibilityTreeNode (without the parent pointer).
// The trees of a case come from the REAL builder (appdefcompat.VerifBuildTree, export_verif.go,
// build tag verif) through realTree. transcribedTree below is an independent transcription of
// buildTree (same type switches, exported accessors and NodeName constants) kept only as a
// cross-check: a difference is recorded in the trace (t_treediff, makes `agrees` false) and the
// run goes on - the observed errors are still judged by the oracle.
type Node struct {
	Name  string
	Val   any // nil | string | bool | appdef.DataKind
	Props []*Node
}

// realTree converts the tree appdefcompat builds. Children of the two map-ordered nodes
// (Packages: Go map iteration; Uniques: map of uniques) are put into name order so that a run
// is reproducible; their constraints (AppendOnly|OrderChangeOnly, none) ignore order.
func realTree(app appdef.IAppDef) *Node { return convert(ac.VerifBuildTree(app)) }

func convert(t *ac.CompatibilityTreeNode) *Node {
	n := &Node{Name: t.Name, Val: t.Value}
	for _, c := range t.Props {
		n.Props = append(n.Props, convert(c))
	}
	if t.Name == ac.NodeNamePackages || t.Name == ac.NodeNameUniques {
		sort.SliceStable(n.Props, func(i, j int) bool { return n.Props[i].Name < n.Props[j].Name })
	}
	return n
}

func (n *Node) same(o *Node) bool {
	return n.Name == o.Name && fmt.Sprintf("%T:%v", n.Val, n.Val) == fmt.Sprintf("%T:%v", o.Val, o.Val)
}

// firstDiff returns the path (root name first) of the first node at which the two trees differ
// in name, value (dynamic type and content) or number of children; nil when they are equal
func (n *Node) firstDiff(o *Node, at []string) []string {
	here := append(append([]string{}, at...), n.Name)
	if !n.same(o) || len(n.Props) != len(o.Props) {
		return here
	}
	for i := range n.Props {
		if d := n.Props[i].firstDiff(o.Props[i], here); d != nil {
			return d
		}
	}
	return nil
}

func nn(name string, val any, props ...*Node) *Node { return &Node{Name: name, Val: val, Props: props} }

func transcribedTree(app appdef.IAppDef) *Node {
	pk := nn(ac.NodeNamePackages, nil)
	for local, full := range app.Packages() {
		pk.Props = append(pk.Props, nn(full, local))
	}
	// Go map order: appdefcompat iterates the map in random order; the Packages constraint
	// ignores order, so the harness fixes one
	sort.Slice(pk.Props, func(i, j int) bool { return pk.Props[i].Name < pk.Props[j].Name })
	return nn(ac.NodeNameAppDef, nil, typesNode(app.Types(), false), pk)
}

func typesNode(types []appdef.IType, qnamesOnly bool) *Node {
	n := nn(ac.NodeNameTypes, nil)
	for _, t := range types {
		if qnamesOnly {
			n.Props = append(n.Props, qnameNode(t, t.QName().String(), true))
		} else {
			n.Props = append(n.Props, treeNode(t))
		}
	}
	return n
}

func treeNode(item any) *Node {
	switch t := item.(type) {
	case appdef.IWorkspace:
		return nn(t.QName().String(), nil,
			typesNode(t.Types(), true),
			nn(ac.NodeNameDescriptor, t.Descriptor().String()),
			abstractNode(t.(appdef.IWithAbstract)))
	case appdef.IView:
		return nn(t.QName().String(), nil,
			fieldsNode(t.Key().PartKey(), ac.NodeNamePartKeyFields),
			fieldsNode(t.Key().ClustCols(), ac.NodeNameClustColsFields),
			fieldsNode(t.Value(), ac.NodeNameFields))
	case appdef.IQuery:
		return nn(t.QName().String(), nil,
			fieldsNode(t.Param(), ac.NodeNameQueryArgs),
			fieldsNode(t.Result(), ac.NodeNameQueryResult))
	case appdef.ICommand:
		return nn(t.QName().String(), nil,
			qnameNode(t.Param(), ac.NodeNameCommandArgs, true),
			qnameNode(t.UnloggedParam(), ac.NodeNameUnloggedArgs, true),
			qnameNode(t.Result(), ac.NodeNameCommandResult, true))
	case appdef.IDoc:
		un := nn(ac.NodeNameUniques, nil)
		for _, u := range t.Uniques() {
			uf := nn(ac.NodeNameUniqueFields, nil)
			for _, f := range u.Fields() {
				uf.Props = append(uf.Props, nn(f.Name(), f.DataKind()))
			}
			un.Props = append(un.Props, nn(u.Name().String(), nil, uf))
		}
		sort.Slice(un.Props, func(i, j int) bool { return un.Props[i].Name < un.Props[j].Name })
		return nn(t.QName().String(), nil, un, fieldsNode(t, ac.NodeNameFields), containersNode(t), abstractNode(t))
	default:
		return qnameNode(item.(appdef.IType), item.(appdef.IType).QName().String(), false)
	}
}

func qnameNode(item appdef.IType, name string, qnameOnly bool) *Node {
	var v any
	if item != nil {
		v = item.QName().String()
	}
	n := nn(name, v)
	if !qnameOnly {
		if t, ok := item.(appdef.IWithAbstract); ok {
			n.Props = append(n.Props, abstractNode(t))
		}
		if t, ok := item.(appdef.IWithFields); ok {
			n.Props = append(n.Props, fieldsNode(t, ac.NodeNameFields))
		}
		if t, ok := item.(appdef.IWithContainers); ok {
			n.Props = append(n.Props, containersNode(t))
		}
	}
	return n
}

func abstractNode(t appdef.IWithAbstract) *Node { return nn(ac.NodeNameAbstract, t.Abstract()) }

// Go: `if item == nil` on an interface{} parameter: a nil IType stored in it is a nil interface
func fieldsNode(item any, name string) *Node {
	n := nn(name, nil)
	if item == nil {
		return n
	}
	if fo, ok := item.(appdef.IWithFields); ok {
		for _, f := range fo.Fields() {
			n.Props = append(n.Props, nn(f.Name(), f.DataKind()))
		}
	}
	return n
}

func containersNode(t appdef.IWithContainers) *Node {
	n := nn(ac.NodeNameContainers, nil)
	for _, c := range t.Containers() {
		n.Props = append(n.Props, nn(c.Name(), c.QName().String()))
	}
	return n
}

// ---- Coq printing ----

func cstr(s string) string { return `"` + strings.ReplaceAll(s, `"`, `""`) + `"` }

// printer with sharing: every string and every subtree that occurs more than once in a case is
// bound once by a `let` (Coq's string-literal interpretation dominates the evaluation time otherwise)
type printer struct {
	strs  map[string]string // literal -> bound name
	subs  map[string]string // canonical subtree text -> bound name
	count map[string]int
	lets  []string
}

func (n *Node) canon(p *printer) string {
	var sb strings.Builder
	sb.WriteString("Node " + p.str(n.Name))
	switch v := n.Val.(type) {
	case nil:
		sb.WriteString(" VNil ")
	case string:
		sb.WriteString(" (VStr " + p.str(v) + ") ")
	case bool:
		fmt.Fprintf(&sb, " (VBool %v) ", v)
	case appdef.DataKind:
		fmt.Fprintf(&sb, " (VKind %d) ", uint8(v))
	default:
		panic(fmt.Sprintf("unexpected node value %T", v))
	}
	items := make([]string, len(n.Props))
	for i, c := range n.Props {
		items[i] = c.ref(p)
	}
	sb.WriteString("[" + strings.Join(items, "; ") + "]")
	return sb.String()
}

func (p *printer) str(s string) string {
	if nm, ok := p.strs[s]; ok {
		return nm
	}
	nm := fmt.Sprintf("s%d", len(p.strs))
	p.strs[s] = nm
	p.lets = append(p.lets, fmt.Sprintf("let %s := %s in", nm, cstr(s)))
	return nm
}

// ref returns a term for the subtree: its bound name when the same subtree was printed before
func (n *Node) ref(p *printer) string {
	c := n.canon(p)
	if nm, ok := p.subs[c]; ok {
		return nm
	}
	nm := fmt.Sprintf("n%d", len(p.subs))
	p.subs[c] = nm
	p.lets = append(p.lets, fmt.Sprintf("let %s := %s in", nm, c))
	return nm
}

func newPrinter() *printer {
	return &printer{strs: map[string]string{}, subs: map[string]string{}, count: map[string]int{}}
}

func (p *printer) path(path []string) string {
	items := make([]string, len(path))
	for i, s := range path {
		items[i] = p.str(s)
	}
	return "[" + strings.Join(items, "; ") + "]"
}

func (n *Node) count() int {
	c := 1
	for _, p := range n.Props {
		c += p.count()
	}
	return c
}

// find follows a path (root name first); nil when absent
func (n *Node) find(path []string) *Node {
	if len(path) == 0 || n.Name != path[0] {
		return nil
	}
	cur := n
	for _, x := range path[1:] {
		var nxt *Node
		for _, c := range cur.Props {
			if c.Name == x {
				nxt = c
			}
		}
		if nxt == nil {
			return nil
		}
		cur = nxt
	}
	return cur
}
