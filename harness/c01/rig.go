// Package c01: fault-atomicity of the command processor pipeline (property C01).
//
// rig.go: an external replica of pkg/processors/command/impl_test.go:setUp. One test application
// (CDoc test.Doc with an int64 field V, three views test.Proj0..2 each filled by its own idempotent
// sync projector: row (ws, WLogOffset) -> event stamp) is served by the real istructsmem, the real sync actualizer
// and the real command processor over one in-memory app storage behind kit.Wrap. The storage
// survives "restarts" (processor only, or everything above the storage). Every storage write is
// classified by its logical target (PLog / Records / View / WLog, recognised by the key prefix) and
// can be failed before its effect, after its effect, or (conditional insert) forced to report
// "exists". A panic escaping the processor goroutine is caught and reported as the Crashed outcome.
package c01

import (
	"context"
	"encoding/binary"
	"encoding/json"
	"errors"
	"fmt"
	"strings"
	"sync"
	"time"

	"github.com/voedger/voedger/pkg/appdef"
	"github.com/voedger/voedger/pkg/appdef/builder"
	"github.com/voedger/voedger/pkg/appdef/constraints"
	"github.com/voedger/voedger/pkg/appdef/filter"
	"github.com/voedger/voedger/pkg/appparts"
	"github.com/voedger/voedger/pkg/bus"
	"github.com/voedger/voedger/pkg/coreutils"
	wsdescutil "github.com/voedger/voedger/pkg/coreutils/testwsdesc"
	"github.com/voedger/voedger/pkg/goutils/httpu"
	"github.com/voedger/voedger/pkg/goutils/logger"
	"github.com/voedger/voedger/pkg/goutils/timeu"
	"github.com/voedger/voedger/pkg/iauthnz"
	"github.com/voedger/voedger/pkg/iauthnzimpl"
	"github.com/voedger/voedger/pkg/iextengine"
	"github.com/voedger/voedger/pkg/in10n"
	"github.com/voedger/voedger/pkg/in10nmem"
	"github.com/voedger/voedger/pkg/iratesce"
	"github.com/voedger/voedger/pkg/isecretsimpl"
	"github.com/voedger/voedger/pkg/isequencer"
	"github.com/voedger/voedger/pkg/istorage"
	"github.com/voedger/voedger/pkg/istructs"
	"github.com/voedger/voedger/pkg/istructsmem"
	payloads "github.com/voedger/voedger/pkg/itokens-payloads"
	"github.com/voedger/voedger/pkg/itokensjwt"
	imetrics "github.com/voedger/voedger/pkg/metrics"
	"github.com/voedger/voedger/pkg/processors"
	"github.com/voedger/voedger/pkg/processors/actualizers"
	commandprocessor "github.com/voedger/voedger/pkg/processors/command"
	"github.com/voedger/voedger/pkg/sys"
	"github.com/voedger/voedger/pkg/sys/authnz"
	"github.com/voedger/voedger/pkg/vvm/engines"

	"verifharness/kit"
)

var (
	qnDoc    = appdef.NewQName("test", "Doc")
	// numProj sync projectors, each writing its own view (the sync actualizer keeps them in a Go
	// map: the order in which their intents are flushed is random per deployment)
	qnViews = []appdef.QName{appdef.NewQName("test", "Proj0"), appdef.NewQName("test", "Proj1"), appdef.NewQName("test", "Proj2")}
	qnProjs = []appdef.QName{appdef.NewQName("test", "Projector0"), appdef.NewQName("test", "Projector1"), appdef.NewQName("test", "Projector2")}
	// the other application variant: ONE sync projector, subscribed AFTER DEACTIVATE test.Doc only
	qnViewD = appdef.NewQName("test", "ProjD")
	qnProjD = appdef.NewQName("test", "ProjectorD")
	qnCUD    = istructs.QNameCommandCUD
	qnWS     = appdef.NewQName(appdef.SysPackage, "TestWS")
	qnWSKind = appdef.NewQName(appdef.SysPackage, "TestWSKind")
	testApp  = istructs.AppQName_untill_airs_bp
	partID   = istructs.PartitionID(1)
)

const (
	fldV       = "V"
	viewP      = "P"
	viewOff    = "Off"
	viewStamp  = "Stamp"
	numWS      = 3
	numProj    = 3
	firstUser  = uint64(istructs.FirstUserRecordID)
	sysRecords = 19 // consts.SysView_Records (istructsmem/internal/consts: 16 + 3)
	sysPLog    = 20 // consts.SysView_PLog
	sysWLog    = 21 // consts.SysView_WLog
)

// logical write targets
const (
	tPLog = iota
	tRecords
	tView
	tWLog
	nTargets
)

var targetName = []string{"plog", "records", "view", "wlog"}

// fault kinds
const (
	fBefore = iota // error, no effect
	fAfter         // effect, then error
	fExists        // conditional insert reports "exists" without effect (ignored by unconditional writes)
)

var kindName = []string{"before", "after", "exists"}

var errInjected = errors.New("injected storage fault")

// fault: fail the K-th (1-based) write to Target issued while the command is processed
type fault struct {
	Target int  `json:"target"`
	K      int  `json:"k"`
	Kind   int  `json:"kind"`
	Fired  bool `json:"fired"` // observed: the write was issued and the fault applied
}

func classify(pKey []byte) int {
	if len(pKey) < 2 {
		return -1
	}
	switch binary.BigEndian.Uint16(pKey) {
	case sysPLog:
		return tPLog
	case sysRecords:
		return tRecords
	case sysWLog:
		return tWLog
	}
	if binary.BigEndian.Uint16(pKey) >= 256 {
		return tView // application view (QNameID of test.Proj)
	}
	return -1
}

type fixedProvider struct{ st istorage.IAppStorage }

func (p *fixedProvider) Prepare(any) error   { return nil }
func (p *fixedProvider) Run(context.Context) {}
func (p *fixedProvider) Stop()               {}
func (p *fixedProvider) AppStorage(appdef.AppQName) (istorage.IAppStorage, error) {
	return p.st, nil
}

type rig struct {
	tl      int
	deact   bool // application variant with the single AFTER DEACTIVATE projector
	inner   istorage.IAppStorage
	wrap    *kit.Wrap
	clock   *kit.Clock
	life    *life
	cleanup func()

	mu      sync.Mutex
	armed   bool
	faults  []fault
	counts  [nTargets]int
	callLog []string // write calls of the current command (op@target), for descriptions
}

// life = everything above the storage for one process lifetime
type life struct {
	as        istructs.IAppStructs
	ctx       context.Context
	cancel    func()
	sender    bus.IRequestSender
	authHdr   map[string]string
	cleanups  []func()
	ch        commandprocessor.CommandChannel
	factory   commandprocessor.ServiceFactory
	procAlive bool
	runCancel func()
	done      chan struct{}
	crashed   chan string // receives the panic text when the processor goroutine dies
}

// views the sync projectors of the rig's application variant write, by projector number
func (r *rig) views() []appdef.QName {
	if r.deact {
		return []appdef.QName{qnViewD}
	}
	return qnViews
}

func newRig(tl int, deact bool) (*rig, error) {
	logger.SetLogLevel(logger.LogLevelNone)
	st, cleanup, err := kit.NewBackend("mem", timeu.NewITime())
	if err != nil {
		return nil, err
	}
	r := &rig{tl: tl, deact: deact, inner: st, cleanup: cleanup, clock: kit.NewClock()}
	r.wrap = &kit.Wrap{Inner: st, Before: r.before}
	if err := r.boot(); err != nil {
		cleanup()
		return nil, err
	}
	// workspace descriptors are put directly as records (singleton, registry ID below
	// FirstUserRecordID): the logs start empty, the descriptors are outside the model
	id, err := r.life.as.Records().GetSingletonID(appdef.QNameCDocWorkspaceDescriptor)
	if err != nil {
		r.close()
		return nil, err
	}
	for ws := 1; ws <= numWS; ws++ {
		err := r.life.as.Records().PutJSON(istructs.WSID(ws), map[appdef.FieldName]any{
			appdef.SystemField_QName: appdef.QNameCDocWorkspaceDescriptor.String(),
			appdef.SystemField_ID:    json.Number(fmt.Sprint(uint64(id))),
			authnz.Field_WSKind:      qnWSKind.String(),
			"Status":                 json.Number(fmt.Sprint(int32(authnz.WorkspaceStatus_Active))),
			"InitCompletedAtMs":      json.Number("1"),
			authnz.Field_WSName:      "stub workspace",
			"CreatedAtMs":            json.Number("1"),
		})
		if err != nil {
			r.close()
			return nil, err
		}
	}
	return r, nil
}

// before is the fault-injection hook of the storage wrapper
func (r *rig) before(c *kit.Call) kit.Verdict {
	switch c.Op {
	case "Put", "PutBatch", "InsertIfNotExists", "CompareAndSwap", "CompareAndDelete":
	default:
		return kit.Verdict{}
	}
	t := classify(c.PKey)
	r.mu.Lock()
	defer r.mu.Unlock()
	if !r.armed {
		return kit.Verdict{}
	}
	if t < 0 {
		r.callLog = append(r.callLog, fmt.Sprintf("%s@other(%x)", c.Op, c.PKey))
		return kit.Verdict{}
	}
	r.counts[t]++
	r.callLog = append(r.callLog, c.Op+"@"+targetName[t])
	for i := range r.faults {
		f := &r.faults[i]
		if f.Target != t || f.K != r.counts[t] {
			continue
		}
		// the first plan entry for this write decides
		switch f.Kind {
		case fBefore:
			f.Fired = true
			return kit.Verdict{FailBefore: errInjected}
		case fAfter:
			f.Fired = true
			return kit.Verdict{FailAfter: errInjected}
		case fExists:
			if c.Op == "InsertIfNotExists" {
				f.Fired = true
				return kit.Verdict{ForceNotOk: true}
			}
		}
		return kit.Verdict{}
	}
	return kit.Verdict{}
}

func (r *rig) arm(faults []fault) {
	r.mu.Lock()
	r.armed = true
	r.faults = append([]fault{}, faults...)
	r.counts = [nTargets]int{}
	r.callLog = nil
	r.mu.Unlock()
}

func (r *rig) disarm() (fired []fault, calls []string) {
	r.mu.Lock()
	defer r.mu.Unlock()
	r.armed = false
	return r.faults, r.callLog
}

// boot builds a fresh application (appdef, appstructs provider, app partitions) over the storage
func (r *rig) boot() error {
	adb := builder.New()
	adb.AddPackage("test", "test.com/test")
	wsb := adb.AddWorkspace(qnWS)
	wsb.AddCDoc(qnWSKind).SetSingleton()
	wsb.SetDescriptor(qnWSKind)
	wsdescutil.AddWorkspaceDescriptorStubDef(wsb)
	wsb.AddObject(istructs.QNameRaw).AddField(processors.Field_RawObject_Body, appdef.DataKind_string, true, constraints.MaxLen(appdef.MaxFieldLength))
	wsb.AddCDoc(qnDoc).AddField(fldV, appdef.DataKind_int64, false)
	for _, qn := range append(append([]appdef.QName{}, qnViews...), qnViewD) {
		view := wsb.AddView(qn)
		view.Key().PartKey().AddField(viewP, appdef.DataKind_int64)
		view.Key().ClustCols().AddField(viewOff, appdef.DataKind_int64)
		view.Value().AddField(viewStamp, appdef.DataKind_int64, true)
	}
	wsb.AddCommand(qnCUD)
	wsb.AddRole(iauthnz.QNameRoleAuthenticatedUser)
	wsb.AddRole(iauthnz.QNameRoleEveryone)
	wsb.AddRole(iauthnz.QNameRoleSystem)
	names, targets := qnProjs, qnViews
	if r.deact {
		names, targets = []appdef.QName{qnProjD}, []appdef.QName{qnViewD}
		prj := wsb.AddProjector(qnProjD)
		prj.SetSync(true).Events().Add([]appdef.OperationKind{appdef.OperationKind_Deactivate}, filter.QNames(qnDoc))
		prj.Intents().Add(sys.Storage_View, qnViewD)
	} else {
		for j := range qnProjs {
			prj := wsb.AddProjector(qnProjs[j])
			prj.SetSync(true).Events().Add([]appdef.OperationKind{appdef.OperationKind_Execute}, filter.QNames(qnCUD))
			prj.Intents().Add(sys.Storage_View, qnViews[j])
		}
	}

	cfgs := istructsmem.AppConfigsType{}
	cfg := cfgs.AddBuiltInAppConfig(testApp, adb)
	cfg.SetNumAppWorkspaces(istructs.DefaultNumAppWorkspaces)
	cfg.Resources.Add(istructsmem.NewCommandFunction(qnCUD, istructsmem.NullCommandExec))
	for j := range names {
		qnView := targets[j]
		cfg.AddSyncProjectors(istructs.Projector{
			Name: names[j],
			// idempotent: the row depends on the event only
			Func: func(event istructs.IPLogEvent, s istructs.IState, intents istructs.IIntents) error {
				kb, err := s.KeyBuilder(sys.Storage_View, qnView)
				if err != nil {
					return err
				}
				kb.PutInt64(viewP, 1)
				kb.PutInt64(viewOff, int64(event.WLogOffset()))
				vb, err := intents.NewValue(kb)
				if err != nil {
					return err
				}
				vb.PutInt64(viewStamp, int64(event.RegisteredAt()))
				return nil
			},
		})
	}
	appDef, err := adb.Build()
	if err != nil {
		return err
	}
	tokens := itokensjwt.TestTokensJWT()
	asp := istructsmem.Provide(cfgs, payloads.ProvideIAppTokensFactory(tokens), &fixedProvider{st: r.wrap}, isequencer.SequencesTrustLevel(r.tl), nil)
	as, err := asp.BuiltIn(testApp)
	if err != nil {
		return err
	}
	l := &life{as: as}
	l.ctx, l.cancel = context.WithCancel(context.Background())

	statelessResources := istructsmem.NewStatelessResources()
	secretReader := isecretsimpl.ProvideSecretReader()
	n10nBroker, n10nCleanup := in10nmem.NewN10nBroker(in10n.Quotas{Channels: 1000, ChannelsPerSubject: 10, Subscriptions: 1000, SubscriptionsPerSubject: 10}, timeu.NewITime())
	appParts, appPartsClean, err := appparts.New2(l.ctx, asp,
		actualizers.NewSyncActualizerFactoryFactory(actualizers.ProvideSyncActualizerFactory(), secretReader, n10nBroker, statelessResources),
		appparts.NullActualizerRunner, appparts.NullSchedulerRunner,
		engines.ProvideExtEngineFactories(engines.ExtEngineFactoriesConfig{AppConfigs: cfgs, StatelessResources: statelessResources,
			WASMConfig: iextengine.WASMFactoryConfig{Compile: false}}, "", imetrics.Provide()),
		iratesce.TestBucketsFactory)
	if err != nil {
		return err
	}
	appParts.DeployApp(testApp, nil, appDef, 1, [appparts.ProcessorKind_Count]uint{2, 2, 2, 0}, cfg.NumAppWorkspaces())
	appParts.DeployAppPartitions(testApp, []istructs.PartitionID{partID})
	l.cleanups = []func(){n10nCleanup, appPartsClean}

	l.ch = make(commandprocessor.CommandChannel)
	ch := l.ch
	l.sender = bus.NewIRequestSender(timeu.NewITime(), func(requestCtx context.Context, request bus.Request, responder bus.IResponder) {
		cmdQName, err := appdef.ParseQName(request.Resource[2:])
		if err != nil || appDef.Type(cmdQName).Kind() == appdef.TypeKind_null {
			bus.ReplyBadRequest(responder, "unknown function")
			return
		}
		token := strings.TrimPrefix(request.Header[httpu.Authorization], "Bearer ")
		msg := commandprocessor.NewCommandMessage(requestCtx, request.Body, request.AppQName, request.WSID, responder, partID, cmdQName, token, "", 0, 0, "", "")
		select {
		case ch <- msg:
		case <-requestCtx.Done(): // nobody serves the channel (processor dead)
		}
	})
	appTokens := payloads.ProvideIAppTokensFactory(tokens).New(testApp)
	sysToken, err := payloads.GetSystemPrincipalTokenApp(appTokens)
	if err != nil {
		return err
	}
	l.authHdr = map[string]string{httpu.Authorization: "Bearer " + sysToken}
	l.factory = commandprocessor.ProvideServiceFactory(appParts, r.clock, n10nBroker, imetrics.Provide(), "vvm",
		iauthnzimpl.NewDefaultAuthenticator(iauthnzimpl.TestSubjectRolesGetter, iauthnzimpl.TestIsDeviceAllowedFuncs), secretReader)
	r.life = l
	return nil
}

// startProc starts a command processor (partition state is recovered from the PLog on its first command)
func (l *life) startProc() {
	if l.procAlive {
		return
	}
	svc := l.factory(l.ch)
	runCtx, runCancel := context.WithCancel(l.ctx)
	l.done = make(chan struct{})
	l.crashed = make(chan string, 1)
	l.runCancel = runCancel
	done, crashed := l.done, l.crashed
	go func() {
		defer close(done)
		defer func() {
			if p := recover(); p != nil {
				crashed <- fmt.Sprint(p)
			}
		}()
		svc.Run(runCtx)
	}()
	l.procAlive = true
}

func (l *life) stopProc() {
	if l.procAlive {
		l.runCancel()
		<-l.done
		l.procAlive = false
	}
}

func (l *life) shutdown() {
	l.stopProc()
	l.cancel()
	for _, c := range l.cleanups {
		c()
	}
}

// restartProc: a new command processor instance over the same app structs (in-memory partition state lost)
func (r *rig) restartProc() { r.life.stopProc() }

// restartAll: everything above the storage is rebuilt (also istructsmem's PLog cache)
func (r *rig) restartAll() error {
	r.life.shutdown()
	return r.boot()
}

func (r *rig) close() {
	r.life.shutdown()
	r.cleanup()
}

type cmdReply struct {
	Status  int // 0 = no reply
	Body    map[string]any
	Raw     string
	Crashed string // panic text when the processor goroutine died while serving the command
}

// send posts a command and waits for the reply or for the death of the processor goroutine
func (l *life) send(ws uint64, body []byte) (cmdReply, error) {
	l.startProc()
	ctx, cancel := context.WithTimeout(l.ctx, 20*time.Second)
	defer cancel()
	type res struct {
		rep cmdReply
		err error
	}
	resCh := make(chan res, 1)
	go func() {
		respCh, respMeta, respErr, err := l.sender.SendRequest(ctx, bus.Request{WSID: istructs.WSID(ws), AppQName: testApp, Resource: "c.sys.CUD", Body: body, Header: l.authHdr})
		if err != nil {
			resCh <- res{err: err}
			return
		}
		rep := cmdReply{Status: respMeta.StatusCode, Body: map[string]any{}}
		for elem := range respCh {
			switch typed := elem.(type) {
			case string:
				rep.Raw = typed
			case coreutils.SysError:
				rep.Raw = typed.ToJSON_APIV1()
			default:
				rep.Raw = fmt.Sprint(elem)
			}
		}
		if *respErr != nil {
			resCh <- res{rep: rep, err: *respErr}
			return
		}
		if rep.Raw != "" {
			dec := json.NewDecoder(strings.NewReader(rep.Raw))
			dec.UseNumber()
			_ = dec.Decode(&rep.Body)
		}
		resCh <- res{rep: rep}
	}()
	select {
	case x := <-resCh:
		return x.rep, x.err
	case <-l.done:
		// the processor goroutine ended while the request was pending
		l.procAlive = false
		text := "processor stopped"
		select {
		case text = <-l.crashed:
		default:
		}
		// a reply may still have been sent just before the goroutine died
		select {
		case x := <-resCh:
			x.rep.Crashed = text
			return x.rep, x.err
		case <-time.After(50 * time.Millisecond):
		}
		cancel()
		<-resCh
		return cmdReply{Crashed: text}, nil
	}
}
