// Package c01: harness of property C01 (registers itself with kit.Register in an init function).
package c01
