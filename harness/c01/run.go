package c01

// run.go: executes one scenario (history + fault plans + restarts) on a fresh rig, reads the four
// stores back and prints the observation as a Coq `trace` term.

import (
	"context"
	"encoding/json"
	"fmt"
	"os"
	"sort"
	"strconv"
	"strings"
	"time"

	"github.com/voedger/voedger/pkg/appdef"
	"github.com/voedger/voedger/pkg/istructs"

	"verifharness/kit"
)

type opSpec struct {
	Op  string `json:"op"` // ins | upd | deact
	Raw uint64 `json:"raw,omitempty"`
	ID  uint64 `json:"id,omitempty"`
	V   uint64 `json:"v,omitempty"`
}

type stepSpec struct {
	Kind   string   `json:"kind"` // cmd | restart (new processor) | restart_all (everything above the storage)
	WS     uint64   `json:"ws,omitempty"`
	Bad    string   `json:"bad,omitempty"` // "" | json | badtype | mixed | norows
	Ops    []opSpec `json:"ops,omitempty"`
	Faults []fault  `json:"faults,omitempty"`
	// observed
	Reply string   `json:"reply,omitempty"`
	Calls []string `json:"calls,omitempty"`
}

type scenario struct {
	TL    int        `json:"tl"`
	Deact bool       `json:"deact_projector,omitempty"` // application variant: one sync projector, AFTER DEACTIVATE only
	Steps []stepSpec `json:"steps"`
	Note  string     `json:"note,omitempty"`
}

type obsReply struct {
	class string // ok | client | server | none
	woff  uint64
	ids   []uint64
	text  string
}

func (c stepSpec) body() []byte {
	switch c.Bad {
	case "json":
		return []byte(`{"cuds":[{"fields":`)
	case "norows":
		return []byte(`{"cuds":[]}`)
	}
	var rows []string
	for i, o := range c.Ops {
		switch o.Op {
		case "ins":
			if c.Bad == "badtype" && i == 0 {
				rows = append(rows, fmt.Sprintf(`{"fields":{"sys.ID":%d,"sys.QName":"test.Doc","V":"x"}}`, o.Raw))
				continue
			}
			rows = append(rows, fmt.Sprintf(`{"fields":{"sys.ID":%d,"sys.QName":"test.Doc","V":%d}}`, o.Raw, o.V))
		case "upd":
			extra := ""
			if c.Bad == "mixed" {
				extra = `,"sys.IsActive":false`
			}
			rows = append(rows, fmt.Sprintf(`{"sys.ID":%d,"fields":{"V":%d%s}}`, o.ID, o.V, extra))
		case "deact":
			rows = append(rows, fmt.Sprintf(`{"sys.ID":%d,"fields":{"sys.IsActive":false}}`, o.ID))
		}
	}
	return []byte(`{"cuds":[` + strings.Join(rows, ",") + `]}`)
}

type dumpT struct {
	plog []evT
	wlog map[uint64][]evT // by ws, ascending offset
	recs map[uint64][]recT
	proj []map[uint64][][2]uint64 // per projector, per ws: (WLog offset, stamp)
}

type evT struct {
	off  uint64 // key the event was read at
	tag  uint64
	ws   uint64
	woff uint64
	cuds []string // Coq terms
	ids  []uint64 // ids of all rows
}

type recT struct {
	id  uint64
	v   uint64
	act bool
}

func evOf(off uint64, ws uint64, woff uint64, e interface {
	RegisteredAt() istructs.UnixMilli
	CUDs(func(istructs.ICUDRow) bool)
}) evT {
	x := evT{off: off, ws: ws, woff: woff, tag: uint64(int64(e.RegisteredAt()) - kit.Epoch.UnixMilli())}
	// cudType.updates is a Go map: the updated rows come in random order (also in the stored
	// bytes and in the order of the per-record writes). Canonical form: new rows in their order,
	// then the updated rows by ascending ID.
	var rows []istructs.ICUDRow
	for row := range e.CUDs {
		rows = append(rows, row)
	}
	sort.SliceStable(rows, func(a, b int) bool {
		if rows[a].IsNew() || rows[b].IsNew() {
			return rows[a].IsNew() && !rows[b].IsNew()
		}
		return rows[a].ID() < rows[b].ID()
	})
	for _, row := range rows {
		id := uint64(row.ID())
		x.ids = append(x.ids, id)
		// a stored row: sys.IsActive as carried by the row, V only if the row specifies it
		hasV := false
		row.SpecifiedValues(func(f appdef.IField, _ any) bool {
			if f.Name() == fldV {
				hasV = true
			}
			return true
		})
		act := row.AsBool(appdef.SystemField_IsActive)
		switch {
		case row.IsNew():
			x.cuds = append(x.cuds, fmt.Sprintf("ENew %d %d", id, uint64(row.AsInt64(fldV))))
		case hasV:
			x.cuds = append(x.cuds, fmt.Sprintf("EUpd %d %d %s", id, uint64(row.AsInt64(fldV)), kit.Bool(act)))
		case !act:
			x.cuds = append(x.cuds, fmt.Sprintf("EDeact %d", id))
		default:
			x.cuds = append(x.cuds, fmt.Sprintf("EUpd %d 0 true", id)) // a row that changes nothing: not generated
		}
	}
	return x
}

// dump reads the four stores back through the istructs API (faults disarmed)
func (r *rig) dump(maxID uint64) (*dumpT, error) {
	as := r.life.as
	ctx := context.Background()
	d := &dumpT{wlog: map[uint64][]evT{}, recs: map[uint64][]recT{}}
	for range r.views() {
		d.proj = append(d.proj, map[uint64][][2]uint64{})
	}
	ids := map[uint64]map[uint64]bool{}
	err := as.Events().ReadPLog(ctx, partID, istructs.FirstOffset, istructs.ReadToTheEnd, func(off istructs.Offset, e istructs.IPLogEvent) error {
		x := evOf(uint64(off), uint64(e.Workspace()), uint64(e.WLogOffset()), e)
		d.plog = append(d.plog, x)
		return nil
	})
	if err != nil {
		return nil, fmt.Errorf("ReadPLog: %w", err)
	}
	for ws := uint64(1); ws <= numWS; ws++ {
		ids[ws] = map[uint64]bool{}
		for id := firstUser; id <= maxID; id++ {
			ids[ws][id] = true
		}
	}
	for _, x := range d.plog {
		if ids[x.ws] != nil {
			for _, id := range x.ids {
				ids[x.ws][id] = true
			}
		}
	}
	for ws := uint64(1); ws <= numWS; ws++ {
		err := as.Events().ReadWLog(ctx, istructs.WSID(ws), istructs.FirstOffset, istructs.ReadToTheEnd, func(off istructs.Offset, e istructs.IWLogEvent) error {
			// the WLog row holds the same bytes as the PLog row: its own workspace / offset fields
			// are not exposed by IWLogEvent, the key it was read at stands for them
			d.wlog[ws] = append(d.wlog[ws], evOf(uint64(off), ws, uint64(off), e))
			return nil
		})
		if err != nil {
			return nil, fmt.Errorf("ReadWLog: %w", err)
		}
		var sorted []uint64
		for id := range ids[ws] {
			sorted = append(sorted, id)
		}
		sort.Slice(sorted, func(a, b int) bool { return sorted[a] < sorted[b] })
		for _, id := range sorted {
			rec, err := as.Records().Get(istructs.WSID(ws), true, istructs.RecordID(id))
			if err != nil {
				return nil, fmt.Errorf("Records.Get: %w", err)
			}
			if rec.QName() == qnDoc {
				d.recs[ws] = append(d.recs[ws], recT{id, uint64(rec.AsInt64(fldV)), rec.AsBool("sys.IsActive")})
			}
		}
		for j, qn := range r.views() {
			kb := as.ViewRecords().KeyBuilder(qn)
			kb.PutInt64(viewP, 1)
			err = as.ViewRecords().Read(ctx, istructs.WSID(ws), kb, func(k istructs.IKey, v istructs.IValue) error {
				d.proj[j][ws] = append(d.proj[j][ws], [2]uint64{uint64(k.AsInt64(viewOff)), uint64(v.AsInt64(viewStamp) - kit.Epoch.UnixMilli())})
				return nil
			})
			if err != nil {
				return nil, fmt.Errorf("ViewRecords.Read: %w", err)
			}
			sort.Slice(d.proj[j][ws], func(a, b int) bool { return d.proj[j][ws][a][0] < d.proj[j][ws][b][0] })
		}
	}
	return d, nil
}

func classOf(rep cmdReply, err error) obsReply {
	if rep.Crashed != "" && rep.Status == 0 {
		return obsReply{class: "none", text: "processor died: " + rep.Crashed}
	}
	if err != nil {
		return obsReply{class: "none", text: "no reply: " + err.Error()}
	}
	// the errors of the two fork branches are joined in completion order: sort the parts
	msg := rep.Raw
	if se, ok := rep.Body["sys.Error"].(map[string]any); ok {
		parts := strings.Split(fmt.Sprint(se["Message"]), ",")
		sort.Strings(parts)
		msg = strings.Join(parts, ",")
	}
	o := obsReply{text: fmt.Sprintf("%d %.160s", rep.Status, msg)}
	switch {
	case rep.Status >= 200 && rep.Status < 300:
		o.class = "ok"
		o.woff, _ = strconv.ParseUint(fmt.Sprint(rep.Body["CurrentWLogOffset"]), 10, 64)
	case rep.Status >= 400 && rep.Status < 500:
		o.class = "client"
	default:
		o.class = "server"
	}
	return o
}

type result struct {
	sc      scenario
	replies []obsReply // per command step
	calls   [][]string
	dump    *dumpT
	crashes int
}

// execute runs the scenario on a fresh rig
func execute(sc scenario) (*result, error) {
	r, err := newRig(sc.TL, sc.Deact)
	if err != nil {
		return nil, err
	}
	defer r.close()
	res := &result{sc: scenario{TL: sc.TL, Deact: sc.Deact, Note: sc.Note}}
	nIns := uint64(0)
	for _, st := range sc.Steps {
		st.Faults = append([]fault{}, st.Faults...)
		st.Ops = normalizeOps(st.Ops)
		switch st.Kind {
		case "restart":
			r.restartProc()
		case "restart_all":
			if err := r.restartAll(); err != nil {
				return nil, err
			}
		case "cmd":
			r.clock.Advance(time.Millisecond)
			r.arm(st.Faults)
			rep, err := r.life.send(st.WS, st.body())
			fired, calls := r.disarm()
			st.Faults = fired
			o := classOf(rep, err)
			if o.class == "ok" {
				m, _ := rep.Body["NewIDs"].(map[string]any)
				n := 0
				for _, op := range st.Ops {
					if op.Op == "ins" {
						id, _ := strconv.ParseUint(fmt.Sprint(m[strconv.FormatUint(op.Raw, 10)]), 10, 64)
						o.ids = append(o.ids, id)
						n++
					}
				}
				if len(m) != n {
					o.ids = append(o.ids, 0) // the reply names raw IDs the command did not send
				}
			}
			if o.class == "none" {
				res.crashes++
			}
			for _, op := range st.Ops {
				if op.Op == "ins" {
					nIns++
				}
			}
			// canonical description: the two branches of the fork run concurrently (view row first here),
			// the NewIDs map of the raw reply comes in Go map order (rendered from the parsed values)
			for i := 0; i < len(calls); {
				j := i
				for j < len(calls) && (strings.HasSuffix(calls[j], "@wlog") || strings.HasSuffix(calls[j], "@view")) {
					j++
				}
				if j == i {
					i++
					continue
				}
				sort.SliceStable(calls[i:j], func(a, b int) bool {
					return strings.HasSuffix(calls[i+a], "@view") && strings.HasSuffix(calls[i+b], "@wlog")
				})
				i = j
			}
			if o.class == "ok" {
				o.text = fmt.Sprintf("%d CurrentWLogOffset=%d NewIDs=%v", rep.Status, o.woff, o.ids)
			}
			st.Reply = o.class + " " + o.text
			st.Calls = calls
			res.replies = append(res.replies, o)
			res.calls = append(res.calls, calls)
		default:
			return nil, fmt.Errorf("unknown step kind %q", st.Kind)
		}
		res.sc.Steps = append(res.sc.Steps, st)
	}
	if res.dump, err = r.dump(firstUser + nIns + 2); err != nil {
		return nil, err
	}
	return res, nil
}

// normalizeOps puts the update / deactivate rows of a command in ascending ID order (inserts keep
// their places): the real code keeps them in a map, so their order carries no information
func normalizeOps(ops []opSpec) []opSpec {
	var upd []opSpec
	for _, o := range ops {
		if o.Op != "ins" {
			upd = append(upd, o)
		}
	}
	sort.SliceStable(upd, func(a, b int) bool { return upd[a].ID < upd[b].ID })
	res := make([]opSpec, 0, len(ops))
	k := 0
	for _, o := range ops {
		if o.Op == "ins" {
			res = append(res, o)
		} else {
			res = append(res, upd[k])
			k++
		}
	}
	return res
}

// ---- Coq term ----

var targetCoq = []string{"TPLog", "TRec", "TView", "TWLog"}
var kindCoq = []string{"FBefore", "FAfter", "FExists"}
var opCode = map[string]int{"Put": 0, "PutBatch": 1, "InsertIfNotExists": 2}

func evCoq(x evT) string {
	return fmt.Sprintf("mkEvent %d %d %d %s", x.tag, x.ws, x.woff, kit.List(x.cuds))
}

func (res *result) coq(lenient bool) string {
	var steps []string
	ci := 0
	for _, st := range res.sc.Steps {
		if st.Kind != "cmd" {
			steps = append(steps, "ORestart")
			continue
		}
		var ops, plan, fired, calls []string
		for _, o := range st.Ops {
			switch o.Op {
			case "ins":
				ops = append(ops, fmt.Sprintf("Ins %d %d", o.Raw, o.V))
			case "upd":
				ops = append(ops, fmt.Sprintf("Upd %d %d", o.ID, o.V))
			case "deact":
				ops = append(ops, fmt.Sprintf("Deact %d", o.ID))
			}
		}
		if st.Bad == "norows" {
			ops = nil
		}
		for _, f := range st.Faults {
			plan = append(plan, fmt.Sprintf("(%s, %d, %s)", targetCoq[f.Target], f.K, kindCoq[f.Kind]))
			fired = append(fired, kit.Bool(f.Fired))
		}
		for _, c := range res.calls[ci] {
			p := strings.SplitN(c, "@", 2)
			t := -1
			for i, n := range targetName {
				if n == p[1] {
					t = i
				}
			}
			code, known := opCode[p[0]]
			if t < 0 || !known {
				calls = append(calls, "(TPLog, 99)") // a write the model does not know: shows up as a disagreement
				continue
			}
			calls = append(calls, fmt.Sprintf("(%s, %d)", targetCoq[t], code))
		}
		o := res.replies[ci]
		rep := map[string]string{"client": "RClient", "server": "RServer", "none": "RNone"}[o.class]
		if o.class == "ok" {
			var ids []string
			for _, id := range o.ids {
				ids = append(ids, kit.N(id))
			}
			rep = fmt.Sprintf("(ROk %d %s)", o.woff, kit.List(ids))
		}
		bad := st.Bad != "" && st.Bad != "norows"
		steps = append(steps, fmt.Sprintf("OCmd (mkCmd %d %s %s) %s %s %s %s", st.WS, kit.Bool(bad), kit.List(ops), kit.List(plan), kit.List(fired), rep, kit.List(calls)))
		ci++
	}
	d := res.dump
	var plog []string
	for _, x := range d.plog {
		plog = append(plog, fmt.Sprintf("(%d, %s)", x.off, evCoq(x)))
	}
	by := func(f func(ws uint64) []string) string {
		var outer []string
		for ws := uint64(1); ws <= numWS; ws++ {
			if items := f(ws); len(items) > 0 {
				outer = append(outer, fmt.Sprintf("(%d, %s)", ws, kit.List(items)))
			}
		}
		return kit.List(outer)
	}
	wlog := by(func(ws uint64) (l []string) {
		for _, x := range d.wlog[ws] {
			l = append(l, fmt.Sprintf("(%d, %s)", x.off, evCoq(x)))
		}
		return
	})
	recs := by(func(ws uint64) (l []string) {
		for _, x := range d.recs[ws] {
			l = append(l, fmt.Sprintf("(%d, mkRec %d %s)", x.id, x.v, kit.Bool(x.act)))
		}
		return
	})
	var projs []string
	for j := range d.proj {
		one := by(func(ws uint64) (l []string) {
			for _, x := range d.proj[j][ws] {
				l = append(l, fmt.Sprintf("(%d, %d)", x[0], x[1]))
			}
			return
		})
		if one != "[]" {
			projs = append(projs, fmt.Sprintf("(%d, %s)", j, one))
		}
	}
	return fmt.Sprintf("mkTrace %d %d %s %s %s %s %s %s %s", res.sc.TL, len(d.proj), kit.Bool(res.sc.Deact), kit.Bool(lenient), kit.List(steps), kit.List(plog), wlog, recs, kit.List(projs))
}

// ---- cases ----

type descT struct {
	Scenario scenario `json:"scenario"` // with observed replies, fired faults and storage calls
	PLog     []string `json:"plog"`
	WLog     []string `json:"wlog"`
	Records  []string `json:"records"`
	Proj     []string `json:"projection"`
	Lenient  bool     `json:"lenient,omitempty"`
}

func (res *result) desc(lenient bool) descT {
	d := descT{Scenario: res.sc, Lenient: lenient}
	for _, x := range res.dump.plog {
		d.PLog = append(d.PLog, fmt.Sprintf("%d: stamp=%d ws=%d woff=%d %v", x.off, x.tag, x.ws, x.woff, x.cuds))
	}
	for ws := uint64(1); ws <= numWS; ws++ {
		for _, x := range res.dump.wlog[ws] {
			d.WLog = append(d.WLog, fmt.Sprintf("ws%d/%d: stamp=%d %v", ws, x.off, x.tag, x.cuds))
		}
		for _, x := range res.dump.recs[ws] {
			d.Records = append(d.Records, fmt.Sprintf("ws%d/%d: V=%d active=%v", ws, x.id, x.v, x.act))
		}
		for j := range res.dump.proj {
			for _, x := range res.dump.proj[j][ws] {
				d.Proj = append(d.Proj, fmt.Sprintf("proj%d ws%d/%d: stamp=%d", j, ws, x[0], x[1]))
			}
		}
	}
	return d
}

// emit writes the case (twice when it shows a recorded finding - the processor died, or a PLog write
// that failed after its effect was answered 5xx and applied: the second, lenient copy is judged on
// everything but that finding's clause, so that a known finding cannot hide another violation)
func (res *result) emit(out *kit.Out) {
	tags := []string{fmt.Sprintf("tl:%d", res.sc.TL)}
	seen := map[string]bool{}
	add := func(t string) {
		if !seen[t] {
			seen[t] = true
			tags = append(tags, t)
		}
	}
	var key strings.Builder
	fmt.Fprintf(&key, "tl%d", res.sc.TL)
	if res.sc.Deact {
		key.WriteString("D")
	}
	ci, firedAny, plogFaultOnEveryCrash := 0, false, true
	for _, st := range res.sc.Steps {
		if st.Kind != "cmd" {
			add("step:" + st.Kind)
			key.WriteString("|" + st.Kind)
			continue
		}
		o := res.replies[ci]
		add("reply:" + o.class)
		if st.Bad != "" {
			add("bad:" + st.Bad)
		}
		fmt.Fprintf(&key, "|w%d%s:", st.WS, st.Bad)
		for _, op := range st.Ops {
			key.WriteString(op.Op[:1])
		}
		plogFired := false
		for _, f := range st.Faults {
			if f.Fired {
				firedAny = true
				add("fault:" + targetName[f.Target] + "-" + kindName[f.Kind])
				fmt.Fprintf(&key, "!%d.%d.%d", f.Target, f.K, f.Kind)
				if f.Target == tPLog {
					plogFired = true
				}
			} else {
				add("fault:not-reached")
			}
		}
		if len(res.calls[ci]) > 0 && strings.HasSuffix(res.calls[ci][0], "@records") && strings.HasPrefix(res.calls[ci][0], "PutBatch") || recoveryIn(res.calls[ci]) {
			add("recovery:reapply")
		}
		if o.class == "none" && !plogFired {
			plogFaultOnEveryCrash = false
		}
		key.WriteString(">" + o.class)
		ci++
	}
	nf := 0
	for _, st := range res.sc.Steps {
		nf += len(st.Faults)
	}
	add(fmt.Sprintf("faults:%d", nf))
	add(fmt.Sprintf("commands:%d", ci))
	if res.crashes > 0 {
		if plogFaultOnEveryCrash {
			// signature of F11: the processor goroutine died exactly on commands whose PLog write was failed
			add("F11:putplog-error-kills-processor")
		} else {
			add("crash:without-plog-fault")
		}
	}
	// signature of C01-F2: a command whose PLog write reported an error after taking effect was answered
	// with an error and is nevertheless in the partition log read back at the end
	inLog := map[uint64]bool{}
	for _, x := range res.dump.plog {
		inLog[x.tag] = true
	}
	f2, stamp := false, uint64(0)
	for _, st := range res.sc.Steps {
		if st.Kind != "cmd" {
			continue
		}
		stamp++
		for _, f := range st.Faults {
			if f.Fired && f.Target == tPLog && f.Kind == fAfter && res.replies[stamp-1].class != "ok" && inLog[stamp] {
				f2 = true
			}
		}
	}
	if f2 {
		add("C01-F2:plog-error-after-effect-answered-5xx-yet-applied")
	}
	// signature of C01-F3: (variant with the AFTER DEACTIVATE projector) an event of the partition log
	// deactivates a record and the projector's view has no row for it
	f3 := false
	if res.sc.Deact {
		add("variant:after-deactivate-projector")
		for _, x := range res.dump.plog {
			deact := false
			for _, c := range x.cuds {
				if strings.HasPrefix(c, "EDeact") {
					deact = true
				}
			}
			if !deact {
				continue
			}
			found := false
			for _, row := range res.dump.proj[0][x.ws] {
				if row[0] == x.woff {
					found = true
				}
			}
			if !found {
				f3 = true
			}
		}
	}
	if f3 {
		add("C01-F3:deactivation-missing-from-after-deactivate-projection")
	}
	out.Emit(kit.Case{Coq: res.coq(false), Key: key.String(), Nontrivial: firedAny, Desc: res.desc(false), Tags: tags})
	if res.crashes > 0 || f2 || f3 {
		lt := []string{}
		for _, t := range tags {
			if !strings.HasPrefix(t, "F11:") && !strings.HasPrefix(t, "C01-F2:") && !strings.HasPrefix(t, "C01-F3:") {
				lt = append(lt, t)
			}
		}
		lt = append(lt, "lenient-copy")
		out.Emit(kit.Case{Coq: res.coq(true), Key: key.String() + "/lenient", Nontrivial: firedAny, Desc: res.desc(true), Tags: lt})
	}
}

// recoveryIn: the command's writes contain a re-apply (Put@wlog only happens through the re-applier
// below trust level 2; a PutBatch@records before the PLog write at any level)
func recoveryIn(calls []string) bool {
	for _, c := range calls {
		if strings.HasSuffix(c, "@plog") {
			return false
		}
		if strings.HasSuffix(c, "@records") || strings.HasSuffix(c, "@wlog") || strings.HasSuffix(c, "@view") {
			return true
		}
	}
	return false
}

func runScenario(sc scenario, out *kit.Out) error {
	res, err := execute(sc)
	if err != nil {
		return err
	}
	res.emit(out)
	return nil
}

// Replay re-executes the scenario stored in a replay / corpus file
func Replay(path string, out *kit.Out) error {
	sc, err := loadScenario(path)
	if err != nil {
		return err
	}
	return runScenario(sc, out)
}

func loadScenario(path string) (scenario, error) {
	var sc scenario
	b, err := os.ReadFile(path)
	if err != nil {
		return sc, err
	}
	// accepted shapes: a scenario, {"scenario": ...}, or a replay file {"case": {"desc": {"scenario": ...}}}
	var wrap struct {
		Scenario *scenario `json:"scenario"`
		Case     *struct {
			Desc struct {
				Scenario *scenario `json:"scenario"`
			} `json:"desc"`
		} `json:"case"`
	}
	if err := json.Unmarshal(b, &wrap); err != nil {
		return sc, err
	}
	switch {
	case wrap.Case != nil && wrap.Case.Desc.Scenario != nil:
		sc = *wrap.Case.Desc.Scenario
	case wrap.Scenario != nil:
		sc = *wrap.Scenario
	default:
		if err := json.Unmarshal(b, &sc); err != nil {
			return sc, err
		}
	}
	for i := range sc.Steps {
		for j := range sc.Steps[i].Faults {
			sc.Steps[i].Faults[j].Fired = false
		}
		sc.Steps[i].Reply, sc.Steps[i].Calls = "", nil
	}
	return sc, nil
}
