package c01

// gen.go: scenario generator. A scenario is a history of CUD commands (inserts, updates,
// deactivations over three workspaces of one partition, a few refused ones), processor restarts
// at command boundaries, a fault plan per command, and one final fault-free insert (it forces the
// recovery of a dropped partition and shows that the processor still serves).
// Quick tier: every single fault on a fixed three-command history at trust level 0, the faults of
// its richest command at levels 1 and 2, "fault, then fault during the next recovery" pairs, restarts
// at command boundaries with a fault in the recovery or in the writes after it, then random
// histories with 0-3 faults.
// Thorough tier: per shard one history x trust level with every single and every double fault
// (the whole plan space of the history), then random scenarios.

import (
	"fmt"
	"path/filepath"
	"sort"

	"verifharness/kit"
)

type slot struct{ cmd, target, k int }

// slots of a history: every write a command can issue, including the re-apply of a recovery that
// an earlier fault makes it run (one PutBatch@records, one view row, one Put@wlog more)
func slotsOf(steps []stepSpec) []slot {
	var res []slot
	for i, st := range steps {
		if st.Kind != "cmd" {
			continue
		}
		res = append(res, slot{i, tPLog, 1})
		for k := 1; k <= len(st.Ops)+1; k++ {
			res = append(res, slot{i, tRecords, k})
		}
		for k := 1; k <= 2; k++ {
			res = append(res, slot{i, tWLog, k})
		}
		for k := 1; k <= 2*numProj; k++ { // one view write per sync projector, and as many in a recovery
			res = append(res, slot{i, tView, k})
		}
	}
	return res
}

func withFaults(base []stepSpec, fs ...struct {
	s    slot
	kind int
}) []stepSpec {
	steps := make([]stepSpec, len(base))
	copy(steps, base)
	for _, f := range fs {
		st := steps[f.s.cmd]
		st.Faults = append(append([]fault{}, st.Faults...), fault{Target: f.s.target, K: f.s.k, Kind: f.kind})
		steps[f.s.cmd] = st
	}
	return steps
}

func finalStep() stepSpec {
	return stepSpec{Kind: "cmd", WS: 1, Ops: []opSpec{{Op: "ins", Raw: 1, V: 99}}}
}

// fixed histories (IDs as a fault-free run assigns them)
func fixedHistory(i int) []stepSpec {
	ins := func(raw, v uint64) opSpec { return opSpec{Op: "ins", Raw: raw, V: v} }
	upd := func(id, v uint64) opSpec { return opSpec{Op: "upd", ID: id, V: v} }
	deact := func(id uint64) opSpec { return opSpec{Op: "deact", ID: id} }
	cmd := func(ws uint64, ops ...opSpec) stepSpec { return stepSpec{Kind: "cmd", WS: ws, Ops: ops} }
	f := firstUser
	switch i % 4 {
	case 0:
		return []stepSpec{cmd(1, ins(1, 5), ins(2, 6)), cmd(1, ins(1, 7), upd(f, 8), deact(f+1)), cmd(2, ins(1, 9))}
	case 1:
		return []stepSpec{cmd(1, ins(1, 1)), cmd(2, ins(1, 2), ins(2, 3)), cmd(1, upd(f, 4)), cmd(2, deact(f), upd(f+1, 5))}
	case 2:
		return []stepSpec{cmd(3, ins(7, 0)), {Kind: "restart"}, cmd(3, upd(f, 1), ins(1, 2)), cmd(1, ins(1, 3)), cmd(3, deact(f+1), deact(f))}
	default:
		return []stepSpec{cmd(1, ins(1, 1), ins(2, 2), ins(3, 3)), cmd(1, upd(f+2, 4), upd(f, 5)), {Kind: "restart_all"}, cmd(2, ins(1, 6)), cmd(1, deact(f+1), ins(1, 7))}
	}
}

func randomHistory(r *kit.Rng) []stepSpec {
	n := 1 + r.Intn(4)
	type wsSim struct {
		ids  []uint64
		next uint64
	}
	sim := map[uint64]*wsSim{}
	for ws := uint64(1); ws <= numWS; ws++ {
		sim[ws] = &wsSim{next: firstUser}
	}
	var steps []stepSpec
	for i := 0; i < n; i++ {
		if r.Chance(1, 6) {
			steps = append(steps, stepSpec{Kind: kit.Pick(r, []string{"restart", "restart", "restart_all"})})
		}
		ws := kit.Pick(r, []uint64{1, 1, 1, 2, 2, 3})
		w := sim[ws]
		st := stepSpec{Kind: "cmd", WS: ws}
		nops := 1 + r.Intn(3)
		used := map[uint64]bool{}
		raw := uint64(0)
		created := 0
		for j := 0; j < nops; j++ {
			var cand []uint64
			for _, id := range w.ids {
				if !used[id] {
					cand = append(cand, id)
				}
			}
			switch c := r.Intn(10); {
			case c < 5 || len(cand) == 0:
				raw++
				rid := raw
				if r.Chance(1, 8) {
					rid = 65535 - raw // boundary: the largest raw IDs
				}
				st.Ops = append(st.Ops, opSpec{Op: "ins", Raw: rid, V: kit.Pick(r, []uint64{0, 1, 2, 7, 1000000})})
				created++
			case c < 8:
				id := kit.Pick(r, cand)
				used[id] = true
				st.Ops = append(st.Ops, opSpec{Op: "upd", ID: id, V: uint64(10 + r.Intn(5))})
			default:
				id := kit.Pick(r, cand)
				used[id] = true
				st.Ops = append(st.Ops, opSpec{Op: "deact", ID: id})
			}
		}
		// separate stream of refused commands
		if r.Chance(1, 7) {
			switch r.Intn(6) {
			case 0:
				st.Bad = "json"
			case 1:
				st.Bad = "norows"
				st.Ops = nil
			case 2:
				st.Bad = "badtype"
				st.Ops = append([]opSpec{{Op: "ins", Raw: 60001, V: 1}}, st.Ops...)
			case 3:
				st.Bad = "mixed"
				st.Ops = []opSpec{{Op: "upd", ID: firstUser, V: 3}}
			case 4: // unknown record (also: a record of another workspace)
				st.Ops = append(st.Ops, opSpec{Op: "upd", ID: w.next + uint64(2+r.Intn(3)), V: 1})
			default: // duplicate raw IDs
				st.Ops = append(st.Ops, opSpec{Op: "ins", Raw: 7, V: 1}, opSpec{Op: "ins", Raw: 7, V: 2})
			}
			created = 0
		}
		for k := 0; k < created; k++ {
			w.ids = append(w.ids, w.next)
			w.next++
		}
		steps = append(steps, st)
	}
	if r.Chance(1, 8) {
		steps = append(steps, stepSpec{Kind: "restart"})
	}
	return steps
}

func randomPlan(r *kit.Rng, steps []stepSpec) []stepSpec {
	sl := slotsOf(steps)
	nf := kit.Pick(r, []int{0, 1, 1, 1, 2, 2, 3})
	seen := map[slot]bool{}
	for i := 0; i < nf && len(sl) > 0; i++ {
		s := kit.Pick(r, sl)
		if r.Chance(1, 2) { // low write numbers are the ones that exist
			s.k = 1
		}
		if seen[s] {
			continue
		}
		seen[s] = true
		steps = withFaults(steps, struct {
			s    slot
			kind int
		}{s, kit.Pick(r, []int{fBefore, fBefore, fAfter, fAfter, fExists})})
	}
	return steps
}

func corpusFiles(dir string) []string {
	if dir == "" {
		return nil
	}
	fs, _ := filepath.Glob(filepath.Join(dir, "*.json"))
	sort.Strings(fs)
	return fs
}

func Generate(seed uint64, n int, tier, corpusDir string, shard int, out *kit.Out) error {
	if shard == 0 {
		for _, f := range corpusFiles(corpusDir) {
			sc, err := loadScenario(f)
			if err != nil {
				return fmt.Errorf("corpus %s: %w", f, err)
			}
			if err := runScenario(sc, out); err != nil {
				return fmt.Errorf("corpus %s: %w", f, err)
			}
		}
	}
	rng := kit.NewRng(seed).Fork() // consecutive seeds give shifted streams of the base generator
	budget := n
	deactVariant := false // application variant: one sync projector, AFTER DEACTIVATE only
	run := func(tl int, steps []stepSpec, note string) error {
		if budget <= 0 {
			return nil
		}
		budget--
		return runScenario(scenario{TL: tl, Deact: deactVariant, Steps: append(append([]stepSpec{}, steps...), finalStep()), Note: note}, out)
	}
	type fk = struct {
		s    slot
		kind int
	}
	// can the slot's write be issued when this is the only fault (no recovery unless a restart precedes)?
	reachable := func(tl int, base []stepSpec, s slot) bool {
		own, rec := 1, 1
		switch {
		case s.target == tRecords && tl == 0:
			own = len(base[s.cmd].Ops)
		case s.target == tView:
			own, rec = numProj, numProj
		case s.target == tPLog:
			rec = 0
		}
		if s.cmd > 0 && base[s.cmd-1].Kind != "cmd" && s.cmd > 1 {
			own += rec // re-apply of the last event by the new processor
		}
		return s.k <= own
	}
	singles := func(tl int, base []stepSpec, only int) error {
		for _, s := range slotsOf(base) {
			if only >= 0 && s.cmd != only {
				continue
			}
			if tier != "thorough" && !reachable(tl, base, s) {
				continue
			}
			for kind := 0; kind < 3; kind++ {
				if err := run(tl, withFaults(base, fk{s, kind}), "single fault"); err != nil {
					return err
				}
			}
		}
		return nil
	}
	if tier == "thorough" {
		// the whole plan space (no fault, singles, doubles) of one history at one trust level per shard
		base := fixedHistory(shard)
		tl := (shard / 4) % 3
		if err := run(tl, base, "no fault"); err != nil {
			return err
		}
		if err := singles(tl, base, -1); err != nil {
			return err
		}
		sl := slotsOf(base)
		for a := 0; a < len(sl); a++ {
			for b := a + 1; b < len(sl); b++ {
				for ka := 0; ka < 3; ka++ {
					for kb := 0; kb < 3; kb++ {
						if budget <= n/10 { // keep a tenth for random scenarios
							goto random
						}
						if err := run(tl, withFaults(base, fk{sl[a], ka}, fk{sl[b], kb}), "double fault"); err != nil {
							return err
						}
					}
				}
			}
		}
	} else {
		base := fixedHistory(0)
		if err := run(0, base, "no fault"); err != nil {
			return err
		}
		if err := singles(0, base, -1); err != nil {
			return err
		}
		for tl := 1; tl <= 2; tl++ {
			if err := singles(tl, base, 1); err != nil {
				return err
			}
		}
		// a fault that drops the partition state, then a fault inside the recovery the next command runs
		firsts := []fk{{slot{0, tRecords, 2}, fAfter}, {slot{1, tRecords, 2}, fBefore}, {slot{1, tView, 1}, fBefore},
			{slot{1, tView, 2}, fAfter}, {slot{1, tView, 3}, fBefore}, {slot{1, tWLog, 1}, fAfter}, {slot{1, tPLog, 1}, fAfter}}
		maxK := func(t int) int {
			if t == tView {
				return numProj
			}
			return 1
		}
		for _, f1 := range firsts {
			for _, t := range []int{tRecords, tView, tWLog} {
				for k := 1; k <= maxK(t); k++ {
					for _, kind := range []int{fBefore, fAfter} {
						if err := run(0, withFaults(base, f1, fk{slot{f1.s.cmd + 1, t, k}, kind}), "fault, then fault during recovery"); err != nil {
							return err
						}
					}
				}
			}
		}
		// a restart at a command boundary: the new processor re-applies a complete last event; faults in
		// that recovery and in the command's own writes after it
		for _, rk := range []string{"restart", "restart_all"} {
			for pos := 1; pos <= 2; pos++ {
				h := append(append(append([]stepSpec{}, base[:pos]...), stepSpec{Kind: rk}), base[pos:]...)
				for _, t := range []int{tRecords, tView, tWLog} {
					for k := 1; k <= 2*maxK(t); k++ {
						for _, kind := range []int{fBefore, fAfter} {
							if err := run(pos%3, withFaults(h, fk{slot{pos + 1, t, k}, kind}), "restart, then fault"); err != nil {
								return err
							}
						}
					}
				}
			}
		}
	}
random:
	if tier != "thorough" || shard%4 == 0 {
		// the variant with the AFTER DEACTIVATE projector: every single fault on the commands of a
		// history with deactivations, and a restart before them
		deactVariant = true
		f := firstUser
		hd := []stepSpec{
			{Kind: "cmd", WS: 1, Ops: []opSpec{{Op: "ins", Raw: 1, V: 5}, {Op: "ins", Raw: 2, V: 6}}},
			{Kind: "cmd", WS: 1, Ops: []opSpec{{Op: "deact", ID: f}, {Op: "upd", ID: f + 1, V: 7}}},
			{Kind: "cmd", WS: 2, Ops: []opSpec{{Op: "ins", Raw: 1, V: 8}}},
			{Kind: "cmd", WS: 1, Ops: []opSpec{{Op: "upd", ID: f, V: 9}, {Op: "deact", ID: f + 1}}},
		}
		if err := run(0, hd, "no fault"); err != nil {
			return err
		}
		for _, ci := range []int{1, 3} {
			for _, sl := range []slot{{ci, tPLog, 1}, {ci, tRecords, 1}, {ci, tRecords, 2}, {ci, tView, 1}, {ci, tWLog, 1}} {
				for kind := 0; kind < 3; kind++ {
					if err := run(ci/2, withFaults(hd, fk{sl, kind}), "single fault"); err != nil {
						return err
					}
				}
			}
		}
		hr := append(append(append([]stepSpec{}, hd[:2]...), stepSpec{Kind: "restart"}), hd[2:]...)
		for _, sl := range []slot{{3, tRecords, 1}, {3, tView, 1}, {3, tWLog, 1}, {4, tView, 1}, {4, tView, 2}} {
			for _, kind := range []int{fBefore, fAfter} {
				if err := run(0, withFaults(hr, fk{sl, kind}), "restart, then fault"); err != nil {
					return err
				}
			}
		}
		deactVariant = false
	}
	for budget > 0 {
		r := rng.Fork()
		deactVariant = r.Chance(1, 6)
		tl := kit.Pick(r, []int{0, 0, 0, 1, 2})
		if err := run(tl, randomPlan(r, randomHistory(r)), "random"); err != nil {
			return err
		}
	}
	return nil
}
