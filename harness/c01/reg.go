package c01

import "verifharness/kit"

func init() {
	kit.Register("C01", kit.Runner{Generate: Generate, Replay: Replay})
}
