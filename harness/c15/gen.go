package c15

import (
	"encoding/json"
	"fmt"
	"os"
	"sort"
	"strings"
	"time"

	"verifharness/kit"
)

func msDur(ms int64) time.Duration { return time.Duration(ms) * time.Millisecond }

var smallSizes = []int{0, 1, 2, 255, 256, 257, 300, 1000, chunkSize - 1, chunkSize, chunkSize + 1, 2 * chunkSize, 2*chunkSize + 1, 3*chunkSize - 1}
var bigSizes = []int{bucketBytes - 1, bucketBytes, bucketBytes + 1, bucketBytes + chunkSize + 1, 2*bucketBytes + 1, 3*bucketBytes - 7}

// workspace ids: small ones, and ids that differ from them (and from each other) in the cluster bits only
// (bit 47 and above): the same base workspace in clusters 0, 1 and 2 are three different BLOB owners
var wsPool = []uint64{1, 2, 255, 256, 131072, 1<<47 + 1, 2<<47 + 1, 1<<47 + 131072, 2<<47 + 131072, 65535<<47 + 256}

func genKey(r *kit.Rng, used map[string]bool) keySpec {
	for {
		var k keySpec
		if r.Chance(3, 5) {
			k = keySpec{Persistent: true, App: uint32(1 + r.Intn(3)), WS: kit.Pick(r, wsPool), ID: kit.Pick(r, []uint64{1, 2, 256, 65536, 200001})}
		} else {
			// SUUIDs that are prefixes of each other and that end in bytes looking like bucket numbers
			k = keySpec{App: uint32(1 + r.Intn(3)), WS: kit.Pick(r, wsPool), SUUID: kit.Pick(r, []string{"a", "ab", "abc", "a\x01\x00\x00\x00\x00\x00\x00\x00", "a\x00\x00\x00\x00\x00\x00\x00\x00", "zz", "\x01"})}
		}
		s := k.coq()
		if !used[s] {
			used[s] = true
			return k
		}
	}
}

// twinKey: the key k in another cluster - same application, base workspace and BLOB id / SUUID,
// different cluster bits of the workspace id. ok=false when every twin tried is taken.
func twinKey(r *kit.Rng, k keySpec, used map[string]bool) (keySpec, bool) {
	for i := 0; i < 8; i++ {
		t := k
		t.WS = k.WS&(1<<47-1) | uint64(kit.Pick(r, []uint64{0, 1, 2, 3, 65535}))<<47
		if s := t.coq(); !used[s] {
			used[s] = true
			return t, true
		}
	}
	return k, false
}

func genWrite(r *kit.Rng, k keySpec, at int64, tier string, allowBig bool) *writeSpec {
	w := &writeSpec{AtMs: at, Key: k, Descr: 1 + r.Intn(5), Quota: -1, Seed: r.U64() % 1000, Ending: "eof"}
	if !k.Persistent {
		w.Dur = 1 + r.Intn(2)
	}
	w.Size = kit.Pick(r, smallSizes)
	w.Chunking = kit.Pick(r, []string{"full", "full", "irregular", "small", "one"})
	if allowBig && r.Chance(1, 2) {
		w.Size = kit.Pick(r, bigSizes)
		w.Chunking = kit.Pick(r, []string{"full", "irregular", "odd", "odd"})
	}
	if (w.Chunking == "small" || w.Chunking == "one") && w.Size > 2000 {
		w.Size = kit.Pick(r, []int{255, 256, 257, 258, 300, 513, 700, 1025})
	}
	w.Reads = planReads(r, w.Size, w.Chunking)
	if r.Chance(1, 3) {
		w.Via = "blobber"
	}
	switch r.Intn(10) {
	case 0:
		w.Quota = int64(w.Size) - 1
	case 1:
		w.Quota = int64(w.Size)
	case 2:
		w.Quota = int64(w.Size) + 1
	case 3:
		w.Ending = "err"
	case 4:
		w.Ending = "cancel"
	case 5:
		// interrupted in the middle: drop the tail of the planned reads
		if len(w.Reads) > 1 {
			w.Reads = w.Reads[:1+r.Intn(len(w.Reads)-1)]
			w.Ending = kit.Pick(r, []string{"err", "cancel"})
		}
	}
	if w.Quota < -1 {
		w.Quota = 0
	}
	if w.Ending == "err" && r.Bool() {
		w.ErrKind = "ueof" // what net/http's body returns when the client declared more bytes than it sent
	}
	if len(w.Reads) > 0 && r.Chance(1, 4) {
		w.EndWithData = true
	}
	return w
}

func genScenario(r *kit.Rng, backend, tier string, allowBig bool) *scenario {
	sc := &scenario{Backend: backend}
	used := map[string]bool{}
	var keys []keySpec
	at := int64(0)
	nw := 1 + r.Intn(3)
	for i := 0; i < nw; i++ {
		k := genKey(r, used)
		if i > 0 && r.Chance(1, 3) {
			if t, ok := twinKey(r, keys[0], used); ok {
				k = t
			}
		}
		keys = append(keys, k)
		at += int64(r.Intn(3)) * 1000
		w := genWrite(r, k, at, tier, allowBig && i == 0)
		if r.Chance(1, 6) && w.Size < 2*bucketBytes {
			// the process dies after the state row, after some chunk rows, or just before the final
			// state update (first write on this key only)
			w.CrashAfter = kit.Pick(r, []int{1, 1, 2, 1 + len(w.Reads)/2, 1 + len(w.Reads)})
			if w.CrashAfter < 1 {
				w.CrashAfter = 1
			}
		}
		sc.Ops = append(sc.Ops, &op{W: w})
		if w.CrashAfter > 0 || r.Chance(1, 3) {
			sc.Ops = append(sc.Ops, &op{R: &readSpec{AtMs: at, Key: k}})
		}
	}
	// a second write on a temporary key: refused while alive, accepted after expiry
	for _, k := range keys {
		if !k.Persistent && r.Chance(1, 2) {
			if r.Bool() {
				at += 3 * 86400 * 1000
			}
			sc.Ops = append(sc.Ops, &op{W: genWrite(r, k, at, tier, false)})
		}
	}
	never := genKey(r, used)
	if r.Bool() {
		// never written, but its twin in another cluster is
		if t, ok := twinKey(r, kit.Pick(r, keys), used); ok {
			never = t
		}
	}
	for _, k := range append(keys, never) {
		sc.Ops = append(sc.Ops, &op{R: &readSpec{AtMs: at, Key: k}})
	}
	// temporary BLOBs around their expiry
	for _, k := range keys {
		if !k.Persistent {
			for _, d := range []int64{86400*1000 - 1 - at%1000, 1, 86400 * 1000, 86400 * 1000} {
				at += d
				sc.Ops = append(sc.Ops, &op{R: &readSpec{AtMs: at, Key: k}})
			}
			break
		}
	}
	return sc
}

// Generate runs n scenarios (corpus first) and writes the cases.
func Generate(seed uint64, n int, tier string, corpusDir string, out *kit.Out) error {
	r := kit.NewRng(seed)
	var scs []*scenario
	if corpusDir != "" {
		entries, _ := os.ReadDir(corpusDir)
		var names []string
		for _, e := range entries {
			if strings.HasSuffix(e.Name(), ".json") {
				names = append(names, e.Name())
			}
		}
		sort.Strings(names)
		for _, nm := range names {
			b, err := os.ReadFile(corpusDir + "/" + nm)
			if err != nil {
				return err
			}
			var sc scenario
			if err := json.Unmarshal(b, &sc); err != nil {
				return fmt.Errorf("%s: %w", nm, err)
			}
			for _, o := range sc.Ops {
				o.Obs = nil
			}
			scs = append(scs, &sc)
		}
	}
	bigEvery := 12
	if tier == "thorough" {
		bigEvery = 6
	}
	for i := 0; i < n; i++ {
		cr := r.Fork()
		backend := "mem"
		if i%3 == 2 {
			backend = "bbolt"
		}
		scs = append(scs, genScenario(cr, backend, tier, i%bigEvery == bigEvery-1))
	}
	for _, sc := range scs {
		coq, tags, err := run(sc)
		if err != nil {
			return err
		}
		sort.Strings(tags)
		key := shapeKey(sc)
		out.Emit(kit.Case{Coq: coq, Key: key, Nontrivial: nontrivial(sc), Desc: sc, Tags: tags})
	}
	return nil
}

// Replay runs exactly the scenario stored in a replay/corpus file
func Replay(path string, out *kit.Out) error {
	b, err := os.ReadFile(path)
	if err != nil {
		return err
	}
	var wrapper struct {
		Case struct {
			Desc scenario `json:"desc"`
		} `json:"case"`
		Desc *scenario `json:"desc"`
	}
	var sc scenario
	if err := json.Unmarshal(b, &wrapper); err == nil && wrapper.Desc != nil {
		sc = *wrapper.Desc
	} else if err == nil && len(wrapper.Case.Desc.Ops) > 0 {
		sc = wrapper.Case.Desc
	} else if err := json.Unmarshal(b, &sc); err != nil {
		return err
	}
	for _, o := range sc.Ops {
		o.Obs = nil
	}
	coq, tags, err := run(&sc)
	if err != nil {
		return err
	}
	out.Emit(kit.Case{Coq: coq, Key: shapeKey(&sc), Nontrivial: nontrivial(&sc), Desc: &sc, Tags: tags})
	return nil
}

// a scenario is non-trivial when it wrote at least one BLOB of more than one chunk or
// exercised a refusal/interruption/expiry; distinctness = backend + per-write shape
func nontrivial(sc *scenario) bool {
	for _, o := range sc.Ops {
		if o.W != nil && (len(o.W.Reads) > 1 || o.W.Quota >= 0 || o.W.Ending != "eof") {
			return true
		}
	}
	return false
}

func shapeKey(sc *scenario) string {
	var sb strings.Builder
	sb.WriteString(sc.Backend)
	for _, o := range sc.Ops {
		if o.W != nil {
			fmt.Fprintf(&sb, "|W%v:%d:%s:%d:%d:%s", o.W.Key.Persistent, o.W.Size, o.W.Chunking, len(o.W.Reads), o.W.Quota, o.W.Ending)
		} else {
			fmt.Fprintf(&sb, "|R%d", o.R.AtMs)
		}
	}
	return sb.String()
}
