// Package c15: BLOB storage round-trip scenarios (property C15).
package c15

import (
	"bytes"
	"context"
	"errors"
	"fmt"
	"hash/crc32"
	"io"
	"strings"
	"time"

	"verifharness/kit"

	"github.com/voedger/voedger/pkg/appdef"
	"github.com/voedger/voedger/pkg/iblobstorage"
	"github.com/voedger/voedger/pkg/iblobstoragestg"
	"github.com/voedger/voedger/pkg/istorage"
	"github.com/voedger/voedger/pkg/istructs"
	blobprocessor "github.com/voedger/voedger/pkg/processors/blobber"
)

const chunkSize = 102400 // only used to pick interesting sizes; the model takes the real constant from Params.v
const bucketBytes = chunkSize * 100

type keySpec struct {
	Persistent bool   `json:"persistent"`
	App        uint32 `json:"app"`
	WS         uint64 `json:"ws"`
	ID         uint64 `json:"id,omitempty"`
	SUUID      string `json:"suuid,omitempty"`
}

func (k keySpec) coq() string {
	if k.Persistent {
		return fmt.Sprintf("(KPersistent %d %d %d)", k.App, k.WS, k.ID)
	}
	return fmt.Sprintf("(KTemp %d %d %s)", k.App, k.WS, kit.Bytes([]byte(k.SUUID)))
}

func (k keySpec) key() iblobstorage.IBLOBKey {
	if k.Persistent {
		return &iblobstorage.PersistentBLOBKeyType{ClusterAppID: k.App, WSID: istructs.WSID(k.WS), BlobID: istructs.RecordID(k.ID)}
	}
	return &iblobstorage.TempBLOBKeyType{ClusterAppID: k.App, WSID: istructs.WSID(k.WS), SUUID: iblobstorage.SUUID(k.SUUID)}
}

type writeSpec struct {
	AtMs     int64   `json:"at_ms"`
	Key      keySpec `json:"key"`
	Descr    int     `json:"descr"`
	Dur      int     `json:"dur_days"`
	Quota    int64   `json:"quota"` // <0: none
	Size     int     `json:"size"`
	Seed     uint64  `json:"content_seed"`
	Chunking string  `json:"chunking"`
	Reads    []int   `json:"reads"`              // sizes the reader returns, in order
	Ending   string  `json:"ending"`             // eof | err | cancel
	ErrKind  string  `json:"err_kind,omitempty"` // what an "err" ending returns: "" = a private error | ueof = io.ErrUnexpectedEOF (a request body cut short)
	Via      string  `json:"via,omitempty"`      // "" = IBLOBStorage directly | blobber = through the write step of the BLOB processor
	// the last Read result comes together with the ending (n > 0 and io.EOF / the error / the cancel),
	// as io.Reader allows; after an error delivered this way the reader answers (0, io.EOF)
	EndWithData bool `json:"ending_with_data,omitempty"`
	// > 0: the process "dies" after that many storage calls of this write: the calls after them
	// have no effect (the storage refuses them), so nothing records how the write ended
	CrashAfter int `json:"crash_after_calls,omitempty"`
}

type readSpec struct {
	AtMs int64   `json:"at_ms"`
	Key  keySpec `json:"key"`
}

type op struct {
	W *writeSpec `json:"write,omitempty"`
	R *readSpec  `json:"read,omitempty"`
	// observed
	Obs map[string]any `json:"observed,omitempty"`
}

type scenario struct {
	Backend string `json:"backend"`
	Ops     []*op  `json:"ops"`
}

// position-dependent content so that any reordering / duplication / loss changes the bytes
func content(seed uint64, size int) []byte {
	b := make([]byte, size)
	for i := range b {
		b[i] = byte((uint64(i)*7 + seed + uint64(i/251)*13) % 251)
	}
	return b
}

// scriptedReader returns exactly the scripted read sizes, then the scripted ending
type scriptedReader struct {
	data      []byte
	reads     []int
	i         int
	pos       int
	ending    string
	errKind   string
	withData  bool
	ended     bool
	cancelled bool
	cancel    context.CancelFunc
	got       [][2]uint64 // (len, crc) per Read result
}

var errReader = errors.New("scripted reader failure")
var errCrashed = errors.New("the process is gone")

func (r *scriptedReader) readErr() error {
	if r.errKind == "ueof" {
		return io.ErrUnexpectedEOF
	}
	return errReader
}

func (r *scriptedReader) Read(p []byte) (int, error) {
	if r.cancelled {
		// a request body read after its context was cancelled fails; answering (0, nil) for ever would
		// hang any reader loop that does not look at the context itself
		return 0, context.Canceled
	}
	if r.ended {
		return 0, io.EOF
	}
	if r.i >= len(r.reads) {
		switch r.ending {
		case "err":
			return 0, r.readErr()
		case "cancel":
			r.cancel()
			r.cancelled = true
			return 0, nil
		}
		return 0, io.EOF
	}
	n := r.reads[r.i]
	if n > len(p) {
		n = len(p)
	}
	r.i++
	copy(p, r.data[r.pos:r.pos+n])
	r.got = append(r.got, [2]uint64{uint64(n), uint64(crc32.ChecksumIEEE(r.data[r.pos : r.pos+n]))})
	r.pos += n
	if r.withData && r.i == len(r.reads) {
		r.ended = true
		switch r.ending {
		case "err":
			return n, r.readErr()
		case "cancel":
			r.cancel()
			r.cancelled = true
			return n, nil
		}
		return n, io.EOF
	}
	return n, nil
}

type recWriter struct {
	rows [][2]uint64
	all  bytes.Buffer
}

func (w *recWriter) Write(p []byte) (int, error) {
	w.rows = append(w.rows, [2]uint64{uint64(len(p)), uint64(crc32.ChecksumIEEE(p))})
	w.all.Write(p)
	return len(p), nil
}

func chunkList(rows [][2]uint64) string {
	items := make([]string, len(rows))
	for i, r := range rows {
		items[i] = fmt.Sprintf("mkChunk %d %d", r[0], r[1])
	}
	return kit.List(items)
}

func descrOf(i int) iblobstorage.DescrType {
	return iblobstorage.DescrType{Name: fmt.Sprintf("n%d", i), ContentType: "application/x-verif", OwnerRecord: appdef.NewQName("verif", "Owner"), OwnerRecordField: "f"}
}

func descrIdx(d iblobstorage.DescrType) uint64 {
	var i uint64
	fmt.Sscanf(d.Name, "n%d", &i)
	return i
}

func planReads(r *kit.Rng, size int, chunking string) []int {
	var out []int
	rem := size
	// "odd": one fixed portion size that does not tile a bucket (network-like short reads)
	odd := kit.Pick(r, []int{70000, chunkSize - 1, chunkSize/3 + 1, 99999})
	next := func() int {
		switch chunking {
		case "odd":
			return odd
		case "one":
			return 1
		case "full":
			return chunkSize
		case "small":
			return 1 + r.Intn(7)
		case "irregular":
			switch r.Intn(4) {
			case 0:
				return 1 + r.Intn(5)
			case 1:
				return chunkSize
			case 2:
				return chunkSize - r.Intn(3)
			default:
				return 1 + r.Intn(chunkSize)
			}
		case "big": // reader offers more than a chunk: writeBLOB's buffer caps it
			return chunkSize
		}
		return chunkSize
	}
	for rem > 0 {
		n := next()
		if n > rem {
			n = rem
		}
		out = append(out, n)
		rem -= n
	}
	return out
}

// Run executes one scenario against the real iblobstoragestg on the given backend and fills
// in the observations; it returns the Coq trace term.
func run(sc *scenario) (coq string, tags []string, err error) {
	clock := kit.NewClock()
	inner, cleanup, err := kit.NewBackend(sc.Backend, clock)
	if err != nil {
		return "", nil, err
	}
	defer cleanup()
	var calls []string
	crashAfter, writeCalls := 0, 0
	wrap := &kit.Wrap{Inner: inner}
	wrap.Before = func(c *kit.Call) kit.Verdict {
		if crashAfter > 0 && (c.Op == "Put" || c.Op == "InsertIfNotExists" || c.Op == "CompareAndSwap") {
			writeCalls++
			if writeCalls > crashAfter {
				return kit.Verdict{FailBefore: errCrashed}
			}
		}
		switch c.Op {
		case "Put":
			calls = append(calls, fmt.Sprintf("SPut %s %s %d", kit.Bytes(c.PKey), kit.Bytes(c.CCols), len(c.Value)))
		case "InsertIfNotExists":
			calls = append(calls, fmt.Sprintf("SIns %s %s %d %d", kit.Bytes(c.PKey), kit.Bytes(c.CCols), len(c.Value), c.TTL))
		case "CompareAndSwap":
			calls = append(calls, fmt.Sprintf("SCas %s %s %d", kit.Bytes(c.PKey), kit.Bytes(c.CCols), c.TTL))
		}
		return kit.Verdict{}
	}
	var as istorage.IAppStorage = wrap
	bs := iblobstoragestg.Provide(&as, clock)
	tagset := map[string]bool{sc.Backend: true}
	var terms []string
	for _, o := range sc.Ops {
		if o.W != nil {
			w := o.W
			if d := w.AtMs - clock.Ms(); d > 0 {
				clock.AdvanceSettle(msDur(d))
			}
			data := content(w.Seed, w.Size)
			ctx, cancel := context.WithCancel(context.Background())
			rd := &scriptedReader{data: data, reads: w.Reads, ending: w.Ending, errKind: w.ErrKind, withData: w.EndWithData, cancel: cancel}
			var lim iblobstorage.WLimiterType = func(uint64) error { return nil }
			if w.Quota >= 0 {
				lim = iblobstoragestg.NewWLimiter_Size(iblobstorage.BLOBMaxSizeType(w.Quota))
			}
			calls = nil
			crashAfter, writeCalls = w.CrashAfter, 0
			var size uint64
			var werr error
			// the write runs under a watchdog: a write that does not come back is an outcome of this case
			// (code 9, scenario ended), not a dead harness
			type wres struct {
				size uint64
				err  error
			}
			done := make(chan wres, 1)
			go func() {
				var r wres
				if w.Via == "blobber" {
					// the write step of the BLOB processor: what an upload goes through above IBLOBStorage
					r.size, r.err = blobprocessor.VerifWriteBLOB(ctx, bs, func() iblobstorage.WLimiterType { return lim }, w.Key.key(),
						descrOf(w.Descr), io.NopCloser(rd), iblobstorage.DurationType(w.Dur))
				} else if w.Key.Persistent {
					r.size, r.err = bs.WriteBLOB(ctx, *(w.Key.key().(*iblobstorage.PersistentBLOBKeyType)), descrOf(w.Descr), rd, lim)
				} else {
					r.size, r.err = bs.WriteTempBLOB(ctx, *(w.Key.key().(*iblobstorage.TempBLOBKeyType)), descrOf(w.Descr), rd, lim, iblobstorage.DurationType(w.Dur))
				}
				done <- r
			}()
			if w.Via == "blobber" {
				tagset["via:blobber"] = true
			}
			hung := false
			select {
			case r := <-done:
				size, werr = r.size, r.err
			case <-time.After(60 * time.Second):
				hung = true
				werr = errors.New("the write did not return within 60 s")
				tagset["write-hung"] = true
			}
			cancel()
			crashed := w.CrashAfter > 0 && writeCalls > w.CrashAfter // a call was refused: the write did not run to its end
			crashAfter = 0
			if crashed {
				done := w.CrashAfter
				quota := "None"
				if w.Quota >= 0 {
					quota = fmt.Sprintf("(Some %d)", w.Quota)
				}
				dur := w.Dur
				if w.Key.Persistent {
					dur = 0
				}
				o.Obs = map[string]any{"crashed_after_calls": done, "err": fmt.Sprint(werr)}
				terms = append(terms, fmt.Sprintf("BCrash %d %s %d %d %s %s %d", clock.Ms(), w.Key.coq(), w.Descr, dur, quota, chunkList(rd.got), done))
				tagset["crashed-write"] = true
				continue
			}
			code := 0
			switch {
			case werr == nil:
			case errors.Is(werr, iblobstorage.ErrBLOBSizeQuotaExceeded), strings.Contains(werr.Error(), iblobstorage.ErrBLOBSizeQuotaExceeded.Error()):
				code = 1 // the BLOB processor answers it as an HTTP 413 carrying the text
			case errors.Is(werr, errReader), w.Ending == "err" && errors.Is(werr, io.ErrUnexpectedEOF):
				code = 3
			case errors.Is(werr, context.Canceled):
				code = 4
			case strings.Contains(werr.Error(), "InsertIfNotExists false") || strings.Contains(werr.Error(), "CompareAndSwap false"):
				code = 2
			default:
				code = 9
			}
			fed := rd.pos
			o.Obs = map[string]any{"code": code, "size": size, "err": fmt.Sprint(werr), "calls": len(calls), "bytes_fed": fed}
			quota := "None"
			if w.Quota >= 0 {
				quota = fmt.Sprintf("(Some %d)", w.Quota)
			}
			ending := map[string]string{"eof": "EndEOF", "err": "EndErr", "cancel": "EndCancel"}[w.Ending]
			dur := w.Dur
			if w.Key.Persistent {
				dur = 0
			}
			terms = append(terms, fmt.Sprintf("BWrite %d %s %d %d %s %s %s %d %d %s (mkWobs %d %d)",
				clock.Ms(), w.Key.coq(), w.Descr, dur, quota, chunkList(rd.got), ending,
				fed, crc32.ChecksumIEEE(data[:fed]), kit.List(calls), code, size))
			tagset["chunking:"+w.Chunking] = true
			tagset["ending:"+w.Ending] = true
			tagset[fmt.Sprintf("wcode:%d", code)] = true
			if len(rd.got) > 256 {
				tagset["chunks>256"] = true
			}
			if w.Size > bucketBytes {
				tagset["multibucket"] = true
			}
			if hung {
				break // the write may still be running against the storage: nothing more can be judged here
			}
		}
		if o.R != nil {
			r := o.R
			if d := r.AtMs - clock.Ms(); d > 0 {
				clock.AdvanceSettle(msDur(d))
			}
			wr := &recWriter{}
			var st iblobstorage.BLOBState
			rerr := bs.ReadBLOB(context.Background(), r.Key.key(), func(s iblobstorage.BLOBState) error { st = s; return nil }, wr, iblobstoragestg.RLimiter_Null)
			code := 0
			switch {
			case rerr == nil:
			case errors.Is(rerr, iblobstorage.ErrBLOBNotFound):
				code = 1
			case errors.Is(rerr, iblobstorage.ErrBLOBCorrupted):
				code = 2
			default:
				code = 9
			}
			o.Obs = map[string]any{"code": code, "err": fmt.Sprint(rerr), "state_size": st.Size, "state_status": st.Status, "rows": len(wr.rows), "len": wr.all.Len()}
			terms = append(terms, fmt.Sprintf("BRead %d %s (mkRobs %d %d %d %s %d %s %d %d)",
				clock.Ms(), r.Key.coq(), code, st.Size, st.Status, kit.Bool(st.Error != ""), descrIdx(st.Descr),
				chunkList(wr.rows), wr.all.Len(), crc32.ChecksumIEEE(wr.all.Bytes())))
			tagset[fmt.Sprintf("rcode:%d", code)] = true
		}
	}
	for t := range tagset {
		tags = append(tags, t)
	}
	return kit.List(terms), tags, nil
}
