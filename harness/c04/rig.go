// Package c04: record-ID generation / raw-ID substitution scenarios (property C04).
//
// rig.go: a test application (documents, records, singleton, ODoc argument tree) served by the real
// istructsmem and the real command processor over one in-memory app storage that survives
// "restarts" (everything above the storage is rebuilt, so the partition state of the command
// processor is recovered from the PLog by the real recovery code).
package c04

import (
	"context"
	"encoding/json"
	"fmt"
	"strings"
	"time"

	"github.com/voedger/voedger/pkg/appdef"
	"github.com/voedger/voedger/pkg/appdef/builder"
	"github.com/voedger/voedger/pkg/appdef/constraints"
	"github.com/voedger/voedger/pkg/appparts"
	"github.com/voedger/voedger/pkg/bus"
	"github.com/voedger/voedger/pkg/coreutils"
	wsdescutil "github.com/voedger/voedger/pkg/coreutils/testwsdesc"
	"github.com/voedger/voedger/pkg/goutils/httpu"
	"github.com/voedger/voedger/pkg/goutils/logger"
	"github.com/voedger/voedger/pkg/goutils/timeu"
	"github.com/voedger/voedger/pkg/iauthnz"
	"github.com/voedger/voedger/pkg/iauthnzimpl"
	"github.com/voedger/voedger/pkg/iextengine"
	"github.com/voedger/voedger/pkg/in10n"
	"github.com/voedger/voedger/pkg/in10nmem"
	"github.com/voedger/voedger/pkg/iratesce"
	"github.com/voedger/voedger/pkg/isecretsimpl"
	"github.com/voedger/voedger/pkg/isequencer"
	"github.com/voedger/voedger/pkg/istorage"
	"github.com/voedger/voedger/pkg/istorage/mem"
	istorageimpl "github.com/voedger/voedger/pkg/istorage/provider"
	"github.com/voedger/voedger/pkg/istructs"
	"github.com/voedger/voedger/pkg/istructsmem"
	payloads "github.com/voedger/voedger/pkg/itokens-payloads"
	"github.com/voedger/voedger/pkg/itokensjwt"
	imetrics "github.com/voedger/voedger/pkg/metrics"
	"github.com/voedger/voedger/pkg/processors"
	"github.com/voedger/voedger/pkg/processors/actualizers"
	commandprocessor "github.com/voedger/voedger/pkg/processors/command"
	"github.com/voedger/voedger/pkg/sys/builtin"
	"github.com/voedger/voedger/pkg/vvm/engines"
)

// row kinds of the test schema (index = `kind` in scenario files)
const (
	kDoc    = iota // CDoc test.Doc        containers: Rec -> test.Rec
	kRec           // CRecord test.Rec     containers: Sub -> test.Sub
	kSub           // CRecord test.Sub
	kWDoc          // WDoc test.WDoc
	kSingle        // CDoc test.Single (singleton)
	kODoc          // ODoc test.ODoc       containers: Item -> test.OItem
	kOItem         // ORecord test.OItem   containers: Sub -> test.OSub
	kOSub          // ORecord test.OSub
)

var kindQName = []appdef.QName{
	appdef.NewQName("test", "Doc"), appdef.NewQName("test", "Rec"), appdef.NewQName("test", "Sub"),
	appdef.NewQName("test", "WDoc"), appdef.NewQName("test", "Single"),
	appdef.NewQName("test", "ODoc"), appdef.NewQName("test", "OItem"), appdef.NewQName("test", "OSub"),
}

// container in which a row of the kind lives under its parent ("" = top-level document)
var kindContainer = []string{"", "Rec", "Sub", "", "", "", "Item", "Sub"}

var (
	qnCmdODoc  = appdef.NewQName("test", "CmdODoc")
	qnCUD      = istructs.QNameCommandCUD
	qnWS       = appdef.NewQName(appdef.SysPackage, "TestWS")
	qnWSKind   = appdef.NewQName(appdef.SysPackage, "TestWSKind")
	testApp    = istructs.AppQName_untill_airs_bp
	partID     = istructs.PartitionID(1)
	refFields  = []string{"R1", "R2", "P"} // two reference fields and one plain RecordID field per row type
	workspaces = []istructs.WSID{1, 2}
)

type rig struct {
	storage  istorage.IAppStorageProvider
	life     *life
	plogNext istructs.Offset
	wlogNext map[istructs.WSID]istructs.Offset
}

// life = everything above the storage for one process lifetime
type life struct {
	as        istructs.IAppStructs
	appDef    appdef.IAppDef
	ctx       context.Context
	cancel    func()
	done      chan struct{}
	sender    bus.IRequestSender
	authHdr   map[string]string
	procAlive bool
	cleanups  []func()
	ch        commandprocessor.CommandChannel
	factory   commandprocessor.ServiceFactory
	runCancel func()
}

func newRig() (*rig, error) {
	logger.SetLogLevel(logger.LogLevelNone)
	r := &rig{storage: istorageimpl.Provide(mem.Provide(timeu.NewITime())), wlogNext: map[istructs.WSID]istructs.Offset{}}
	if err := r.boot(); err != nil {
		return nil, err
	}
	// workspace descriptors (singletons: registry IDs, below FirstUserRecordID)
	r.plogNext = 1
	for _, ws := range workspaces {
		if err := wsdescutil.CreateCDocWorkspaceDescriptorStub(r.life.as, partID, ws, qnWSKind, r.plogNext, 1); err != nil {
			return nil, err
		}
		r.plogNext++
		r.wlogNext[ws] = 2
	}
	return r, nil
}

// boot builds a fresh application (appdef, appstructs provider, app partitions) over the storage
func (r *rig) boot() error {
	adb := builder.New()
	adb.AddPackage("test", "test.com/test")
	wsb := adb.AddWorkspace(qnWS)
	wsb.AddCDoc(qnWSKind).SetSingleton()
	wsb.SetDescriptor(qnWSKind)
	wsdescutil.AddWorkspaceDescriptorStubDef(wsb)
	wsb.AddObject(istructs.QNameRaw).AddField(processors.Field_RawObject_Body, appdef.DataKind_string, true, constraints.MaxLen(appdef.MaxFieldLength))

	addRefs := func(f appdef.IFieldsBuilder) {
		for i, n := range refFields {
			if i < 2 {
				f.AddRefField(n, false)
			} else {
				f.AddField(n, appdef.DataKind_RecordID, false)
			}
		}
	}
	sub := wsb.AddCRecord(kindQName[kSub])
	addRefs(sub)
	rec := wsb.AddCRecord(kindQName[kRec])
	addRefs(rec)
	rec.AddContainer("Sub", kindQName[kSub], 0, appdef.Occurs_Unbounded)
	doc := wsb.AddCDoc(kindQName[kDoc])
	addRefs(doc)
	doc.AddContainer("Rec", kindQName[kRec], 0, appdef.Occurs_Unbounded)
	addRefs(wsb.AddWDoc(kindQName[kWDoc]))
	single := wsb.AddCDoc(kindQName[kSingle])
	addRefs(single)
	single.SetSingleton()
	osub := wsb.AddORecord(kindQName[kOSub])
	addRefs(osub)
	oitem := wsb.AddORecord(kindQName[kOItem])
	addRefs(oitem)
	oitem.AddContainer("Sub", kindQName[kOSub], 0, appdef.Occurs_Unbounded)
	odoc := wsb.AddODoc(kindQName[kODoc])
	addRefs(odoc)
	odoc.AddContainer("Item", kindQName[kOItem], 0, appdef.Occurs_Unbounded)
	wsb.AddCommand(qnCmdODoc).SetParam(kindQName[kODoc])
	wsb.AddCommand(qnCUD)
	wsb.AddCommand(builtin.QNameCommandInit) // nolint SA1019: the one command for which the processor builds a synced event
	wsb.AddRole(iauthnz.QNameRoleAuthenticatedUser)
	wsb.AddRole(iauthnz.QNameRoleEveryone)
	wsb.AddRole(iauthnz.QNameRoleSystem)

	cfgs := istructsmem.AppConfigsType{}
	cfg := cfgs.AddBuiltInAppConfig(testApp, adb)
	cfg.SetNumAppWorkspaces(istructs.DefaultNumAppWorkspaces)
	cfg.Resources.Add(istructsmem.NewCommandFunction(qnCUD, istructsmem.NullCommandExec))
	cfg.Resources.Add(istructsmem.NewCommandFunction(builtin.QNameCommandInit, istructsmem.NullCommandExec)) // nolint SA1019
	cfg.Resources.Add(istructsmem.NewCommandFunction(qnCmdODoc, istructsmem.NullCommandExec))
	appDef, err := adb.Build()
	if err != nil {
		return err
	}
	tokens := itokensjwt.TestTokensJWT()
	asp := istructsmem.Provide(cfgs, payloads.ProvideIAppTokensFactory(tokens), r.storage, isequencer.SequencesTrustLevel_0, nil)
	as, err := asp.BuiltIn(testApp)
	if err != nil {
		return err
	}
	l := &life{as: as, appDef: appDef}
	l.ctx, l.cancel = context.WithCancel(context.Background())

	statelessResources := istructsmem.NewStatelessResources()
	secretReader := isecretsimpl.ProvideSecretReader()
	n10nBroker, n10nCleanup := in10nmem.NewN10nBroker(in10n.Quotas{Channels: 1000, ChannelsPerSubject: 10, Subscriptions: 1000, SubscriptionsPerSubject: 10}, timeu.NewITime())
	appParts, appPartsClean, err := appparts.New2(l.ctx, asp,
		actualizers.NewSyncActualizerFactoryFactory(actualizers.ProvideSyncActualizerFactory(), secretReader, n10nBroker, statelessResources),
		appparts.NullActualizerRunner, appparts.NullSchedulerRunner,
		engines.ProvideExtEngineFactories(engines.ExtEngineFactoriesConfig{AppConfigs: cfgs, StatelessResources: statelessResources,
			WASMConfig: iextengine.WASMFactoryConfig{Compile: false}}, "", imetrics.Provide()),
		iratesce.TestBucketsFactory)
	if err != nil {
		return err
	}
	appParts.DeployApp(testApp, nil, appDef, 1, [appparts.ProcessorKind_Count]uint{2, 2, 2, 0}, cfg.NumAppWorkspaces())
	appParts.DeployAppPartitions(testApp, []istructs.PartitionID{partID})
	l.cleanups = []func(){n10nCleanup, appPartsClean}

	l.ch = make(commandprocessor.CommandChannel)
	ch := l.ch
	l.sender = bus.NewIRequestSender(timeu.NewITime(), func(requestCtx context.Context, request bus.Request, responder bus.IResponder) {
		cmdQName, err := appdef.ParseQName(request.Resource[2:])
		if err != nil || appDef.Type(cmdQName).Kind() == appdef.TypeKind_null {
			bus.ReplyBadRequest(responder, "unknown function")
			return
		}
		token := strings.TrimPrefix(request.Header[httpu.Authorization], "Bearer ")
		apiPath := processors.APIPath_null
		if request.Header[hdrAPIv2] != "" {
			apiPath = processors.APIPath_Commands // same request shape, camel-cased reply re-encoded by sendResponse
		}
		ch <- commandprocessor.NewCommandMessage(requestCtx, request.Body, request.AppQName, request.WSID, responder, partID, cmdQName, token, "", apiPath, 0, "", "")
	})
	appTokens := payloads.ProvideIAppTokensFactory(tokens).New(testApp)
	sysToken, err := payloads.GetSystemPrincipalTokenApp(appTokens)
	if err != nil {
		return err
	}
	l.authHdr = map[string]string{httpu.Authorization: "Bearer " + sysToken}
	l.factory = commandprocessor.ProvideServiceFactory(appParts, timeu.NewITime(), n10nBroker, imetrics.Provide(), "vvm",
		iauthnzimpl.NewDefaultAuthenticator(iauthnzimpl.TestSubjectRolesGetter, iauthnzimpl.TestIsDeviceAllowedFuncs), secretReader)
	r.life = l
	return nil
}

// startProc starts a command processor (its partition state is recovered from the PLog on the first command)
func (l *life) startProc() {
	if l.procAlive {
		return
	}
	svc := l.factory(l.ch)
	runCtx, runCancel := context.WithCancel(l.ctx)
	l.done = make(chan struct{})
	l.runCancel = runCancel
	done := l.done
	go func() {
		svc.Run(runCtx)
		close(done)
	}()
	l.procAlive = true
}

func (l *life) stopProc() {
	if l.procAlive {
		l.runCancel()
		<-l.done
		l.procAlive = false
	}
}

func (l *life) shutdown() {
	l.stopProc()
	l.cancel()
	for _, c := range l.cleanups {
		c()
	}
}

// restart: stop everything above the storage and build it again (command processor not yet started)
func (r *rig) restart() error {
	r.life.shutdown()
	return r.boot()
}

func (r *rig) close() { r.life.shutdown() }

type cmdReply struct {
	Status int
	Body   map[string]any
	Raw    string
}

// send posts a command to the running command processor and waits for the reply
const hdrAPIv2 = "X-Verif-APIv2"

func (l *life) send(ws istructs.WSID, resource string, body []byte, apiv2 bool) (cmdReply, error) {
	l.startProc()
	ctx, cancel := context.WithTimeout(l.ctx, 20*time.Second)
	defer cancel()
	hdr := l.authHdr
	if apiv2 {
		hdr = map[string]string{hdrAPIv2: "1"}
		for k, v := range l.authHdr {
			hdr[k] = v
		}
	}
	respCh, respMeta, respErr, err := l.sender.SendRequest(ctx, bus.Request{WSID: ws, AppQName: testApp, Resource: resource, Body: body, Header: hdr})
	if err != nil {
		return cmdReply{}, err
	}
	rep := cmdReply{Status: respMeta.StatusCode, Body: map[string]any{}}
	for elem := range respCh {
		switch typed := elem.(type) {
		case string:
			rep.Raw = typed
		case coreutils.SysError:
			rep.Raw = typed.ToJSON_APIV1()
		default:
			rep.Raw = fmt.Sprint(elem)
		}
	}
	if *respErr != nil {
		return rep, *respErr
	}
	if rep.Raw != "" {
		dec := json.NewDecoder(strings.NewReader(rep.Raw))
		dec.UseNumber()
		_ = dec.Decode(&rep.Body)
	}
	return rep, nil
}
