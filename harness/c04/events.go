package c04

import (
	"context"
	"encoding/json"
	"fmt"
	"sort"
	"strconv"
	"strings"

	"verifharness/kit"

	"github.com/voedger/voedger/pkg/appdef"
	"github.com/voedger/voedger/pkg/istructs"
	"github.com/voedger/voedger/pkg/istructsmem"
)

// rowSpec: one row of an event (argument-tree node, CUD create, or CUD update).
type rowSpec struct {
	Kind   int       `json:"kind"`
	ID     uint64    `json:"id"`
	Parent uint64    `json:"parent,omitempty"`
	Refs   [3]uint64 `json:"refs"` // R1, R2 (reference fields), P (plain RecordID field)
	// SetParent=false for argument children: sys.ParentID is left out and restored by the validator
	OmitParent bool `json:"omit_parent,omitempty"`
	// update rows only: 1 = set sys.IsActive true (reactivate), 2 = set it false (deactivate); no other field then
	SetActive int `json:"set_active,omitempty"`
}

type nodeSpec struct {
	Row      rowSpec     `json:"row"`
	Children []*nodeSpec `json:"children,omitempty"`
}

type pair struct {
	Raw     uint64 `json:"raw"`
	Storage uint64 `json:"storage"`
}

// obsSpec: everything observed for one event
type obsSpec struct {
	Accepted bool      `json:"accepted"`
	Logged   bool      `json:"logged,omitempty"` // refused although an event was written to the PLog
	Err      string    `json:"err,omitempty"`
	NewIDs   []pair    `json:"new_ids"`        // hook sequence (direct) / response map (cmd), sorted by raw id
	Offset   uint64    `json:"plog_offset"`    // where the event was logged
	Arg      []rowSpec `json:"stored_arg"`     // argument tree read back from the PLog, pre-order
	Creates  []rowSpec `json:"stored_creates"` // new CUD rows read back from the PLog
	Updates  []rowSpec `json:"stored_updates"` // update CUD rows read back from the PLog, sorted by id
	Records  []rowSpec `json:"records"`        // IRecords.Get of every create right after the event
	ApplyErr string    `json:"apply_err,omitempty"`
}

type eventSpec struct {
	WS      uint64    `json:"ws"`
	Via     string    `json:"via"` // direct (istructs level, harness-held generator) | cmd (command processor)
	Sync    bool      `json:"sync,omitempty"`
	APIv2   bool      `json:"apiv2,omitempty"` // cmd only: through an APIv2 path (camel-cased, re-encoded reply)
	Arg     *nodeSpec `json:"arg,omitempty"`
	Creates []rowSpec `json:"creates,omitempty"`
	Updates []rowSpec `json:"updates,omitempty"`
	Dropped []uint64  `json:"dropped_updates,omitempty"` // replay only: update targets that do not exist on this tree
	Singles []uint64  `json:"singleton_ids,omitempty"`   // observed registry IDs for creates of kind Single (by position), filled at run time
	Obs     *obsSpec  `json:"observed,omitempty"`
}

type stepSpec struct {
	Event   *eventSpec `json:"event,omitempty"`
	Restart bool       `json:"restart,omitempty"`
	Skipped bool       `json:"skipped,omitempty"` // replay only: the event had nothing left after dropping updates
}

type scenario struct {
	Note string `json:"note,omitempty"`
	// replay only: events left empty after dropping updates of records that do not exist on the replayed tree
	SkippedSteps int         `json:"skipped_steps,omitempty"`
	Steps        []*stepSpec `json:"steps"`
}

func flatten(n *nodeSpec, parent uint64, out *[]rowSpec) {
	if n == nil {
		return
	}
	r := n.Row
	r.Parent = parent
	*out = append(*out, r)
	for _, c := range n.Children {
		flatten(c, n.Row.ID, out)
	}
}

// ---- execution ----

type runner struct {
	rig  *rig
	gens map[uint64]istructs.IIDGenerator // direct phase: one real generator per workspace
	hook []pair
}

func (x *runner) gen(ws uint64) istructs.IIDGenerator {
	g, ok := x.gens[ws]
	if !ok {
		g = istructsmem.NewIDGeneratorWithHook(func(raw, st istructs.RecordID) error {
			x.hook = append(x.hook, pair{uint64(raw), uint64(st)})
			return nil
		})
		x.gens[ws] = g
	}
	return g
}

func fillRefs(w istructs.IRowWriter, r rowSpec) {
	for i, n := range refFields {
		if r.Refs[i] != 0 {
			w.PutRecordID(n, istructs.RecordID(r.Refs[i]))
		}
	}
}

func fillNode(b istructs.IObjectBuilder, n *nodeSpec, parent uint64, root bool) {
	b.PutRecordID(appdef.SystemField_ID, istructs.RecordID(n.Row.ID))
	if !root && !n.Row.OmitParent {
		b.PutRecordID(appdef.SystemField_ParentID, istructs.RecordID(parent))
	}
	fillRefs(b, n.Row)
	for _, c := range n.Children {
		fillNode(b.ChildBuilder(kindContainer[c.Row.Kind]), c, n.Row.ID, false)
	}
}

func (x *runner) singletonIDs(ev *eventSpec) {
	ev.Singles = nil
	for _, c := range ev.Creates {
		if c.Kind == kSingle {
			id, err := x.rig.life.as.Records().GetSingletonID(kindQName[kSingle])
			if err != nil {
				id = 0
			}
			ev.Singles = append(ev.Singles, uint64(id))
		}
	}
}

// direct: build the event with the real builders, PutPlog with the workspace's generator, Apply, PutWlog
func (x *runner) direct(ev *eventSpec) error {
	r := x.rig
	as := r.life.as
	ws := istructs.WSID(ev.WS)
	obs := &obsSpec{NewIDs: []pair{}}
	ev.Obs = obs
	name := qnCUD
	if ev.Arg != nil {
		name = qnCmdODoc
	}
	gp := istructs.GenericRawEventBuilderParams{HandlingPartition: partID, Workspace: ws, QName: name, RegisteredAt: 1,
		PLogOffset: r.plogNext, WLogOffset: r.wlogNext[ws]}
	var reb istructs.IRawEventBuilder
	if ev.Sync {
		reb = as.Events().GetSyncRawEventBuilder(istructs.SyncRawEventBuilderParams{GenericRawEventBuilderParams: gp, SyncedAt: 1})
	} else {
		reb = as.Events().GetNewRawEventBuilder(istructs.NewRawEventBuilderParams{GenericRawEventBuilderParams: gp})
	}
	if ev.Arg != nil {
		fillNode(reb.ArgumentObjectBuilder(), ev.Arg, 0, true)
	}
	for _, c := range ev.Creates {
		w := reb.CUDBuilder().Create(kindQName[c.Kind])
		w.PutRecordID(appdef.SystemField_ID, istructs.RecordID(c.ID))
		if kindContainer[c.Kind] != "" {
			w.PutRecordID(appdef.SystemField_ParentID, istructs.RecordID(c.Parent))
			w.PutString(appdef.SystemField_Container, kindContainer[c.Kind])
		}
		fillRefs(w, c)
	}
	for _, u := range ev.Updates {
		rec, err := as.Records().Get(ws, true, istructs.RecordID(u.ID))
		if err != nil {
			return err
		}
		if rec.QName() == appdef.NullQName {
			return fmt.Errorf("scenario updates a record that does not exist: ws %d id %d", ev.WS, u.ID)
		}
		w := reb.CUDBuilder().Update(rec)
		if u.SetActive != 0 {
			w.PutBool(appdef.SystemField_IsActive, u.SetActive == 1)
		}
		fillRefs(w, u)
	}
	raw, err := reb.BuildRawEvent()
	if err != nil {
		obs.Err = firstLine(err.Error())
		return nil
	}
	x.hook = nil
	pe, err := as.Events().PutPlog(raw, nil, x.gen(ev.WS))
	if err != nil {
		return fmt.Errorf("PutPlog: %w", err)
	}
	obs.Accepted = true
	obs.Offset = uint64(r.plogNext)
	obs.NewIDs = append(obs.NewIDs, x.hook...)
	if e := pe.Error(); e != nil && !e.ValidEvent() {
		// regeneration failed inside PutPlog: the event is logged as an error event, nothing to apply
		obs.Accepted, obs.Logged = false, true
		obs.NewIDs = []pair{}
		obs.Err = "stored as error event: " + firstLine(e.ErrStr())
	} else if err := as.Records().Apply(pe); err != nil {
		obs.ApplyErr = firstLine(err.Error())
	}
	if err := as.Events().PutWlog(pe); err != nil {
		return fmt.Errorf("PutWlog: %w", err)
	}
	pe.Release()
	r.plogNext++
	r.wlogNext[ws]++
	return nil
}

func rowJSON(c rowSpec) map[string]any {
	f := map[string]any{}
	for i, n := range refFields {
		if c.Refs[i] != 0 {
			f[n] = c.Refs[i]
		}
	}
	return f
}

func nodeJSON(n *nodeSpec, parent uint64, root bool) map[string]any {
	f := rowJSON(n.Row)
	f[appdef.SystemField_ID] = n.Row.ID
	if !root && !n.Row.OmitParent {
		f[appdef.SystemField_ParentID] = parent
	}
	for _, c := range n.Children {
		cont := kindContainer[c.Row.Kind]
		l, _ := f[cont].([]any)
		f[cont] = append(l, nodeJSON(c, n.Row.ID, false))
	}
	return f
}

// cmd: the same event as a request to the real command processor
func (x *runner) cmd(ev *eventSpec) error {
	r := x.rig
	obs := &obsSpec{NewIDs: []pair{}}
	ev.Obs = obs
	body := map[string]any{}
	resource := "c.sys.CUD"
	if ev.Sync {
		// c.sys.Init: the command processor builds a synced event (GetSyncRawEventBuilder); CUDs only
		if ev.Arg != nil {
			return fmt.Errorf("a synced command (c.sys.Init) carries CUDs only")
		}
		resource = "c.sys.Init"
	}
	if ev.Arg != nil {
		resource = "c.test.CmdODoc"
		body["args"] = nodeJSON(ev.Arg, 0, true)
	}
	var cuds []any
	for _, c := range ev.Creates {
		f := rowJSON(c)
		f[appdef.SystemField_ID] = c.ID
		f[appdef.SystemField_QName] = kindQName[c.Kind].String()
		if kindContainer[c.Kind] != "" {
			f[appdef.SystemField_ParentID] = c.Parent
			f[appdef.SystemField_Container] = kindContainer[c.Kind]
		}
		cuds = append(cuds, map[string]any{"fields": f})
	}
	for _, u := range ev.Updates {
		f := rowJSON(u)
		if u.SetActive != 0 {
			f[appdef.SystemField_IsActive] = u.SetActive == 1
		}
		cuds = append(cuds, map[string]any{appdef.SystemField_ID: u.ID, "fields": f})
	}
	if len(cuds) > 0 {
		body["cuds"] = cuds
	}
	b, _ := json.Marshal(body)
	rep, err := r.life.send(istructs.WSID(ev.WS), resource, b, ev.APIv2)
	keyNewIDs, keyOffset := "NewIDs", "CurrentWLogOffset"
	if ev.APIv2 {
		keyNewIDs, keyOffset = "newIDs", "currentWLogOffset"
	}
	if err != nil {
		return fmt.Errorf("command send: %w", err)
	}
	wsid := istructs.WSID(ev.WS)
	if rep.Status != 200 {
		obs.Err = fmt.Sprintf("%d %s", rep.Status, firstLine(rep.Raw))
		// refused after the event was written? (a failure behind PutPlog; the partition is then restarted)
		_ = r.life.as.Events().ReadPLog(context.Background(), partID, r.plogNext, 1, func(istructs.Offset, istructs.IPLogEvent) error {
			obs.Logged = true
			return nil
		})
		if obs.Logged {
			// the event is in the log: it is judged as what the system stored, although the client got an error
			obs.Accepted = true
			obs.Offset = uint64(r.plogNext)
			r.plogNext++
			r.wlogNext[wsid]++
		}
		return nil
	}
	obs.Accepted = true
	obs.Offset = uint64(r.plogNext)
	if m, ok := rep.Body[keyNewIDs].(map[string]any); ok {
		for k, v := range m {
			raw, _ := strconv.ParseUint(k, 10, 64)
			st, _ := strconv.ParseUint(fmt.Sprint(v), 10, 64)
			obs.NewIDs = append(obs.NewIDs, pair{raw, st})
		}
	}
	if off, err := strconv.ParseUint(fmt.Sprint(rep.Body[keyOffset]), 10, 64); err != nil || off != uint64(r.wlogNext[wsid]) {
		obs.Err = fmt.Sprintf("reply reports WLog offset %v, expected %d", rep.Body[keyOffset], r.wlogNext[wsid])
	}
	r.plogNext++
	r.wlogNext[wsid]++
	return nil
}

func readRow(rr istructs.IRowReader, withParent bool) rowSpec {
	var out rowSpec
	out.ID = uint64(rr.AsRecordID(appdef.SystemField_ID))
	if withParent {
		out.Parent = uint64(rr.AsRecordID(appdef.SystemField_ParentID))
	}
	for i, n := range refFields {
		out.Refs[i] = uint64(rr.AsRecordID(n))
	}
	return out
}

func kindOf(q appdef.QName) int {
	for i, k := range kindQName {
		if k == q {
			return i
		}
	}
	return -1
}

func readTree(o istructs.IObject, root bool, out *[]rowSpec) {
	k := kindOf(o.QName())
	row := readRow(o, !root)
	row.Kind = k
	*out = append(*out, row)
	for c := range o.Children() {
		readTree(c, false, out)
	}
}

// records reads every created row back through IRecords.Get (right after the event)
func (x *runner) records(ev *eventSpec) error {
	obs := ev.Obs
	obs.Records = []rowSpec{}
	if !obs.Accepted {
		return nil
	}
	// the IDs the creates received: from the PLog event as the live app structs return it
	var ids []uint64
	err := x.rig.life.as.Events().ReadPLog(context.Background(), partID, istructs.Offset(obs.Offset), 1, func(_ istructs.Offset, e istructs.IPLogEvent) error {
		for c := range e.CUDs {
			if c.IsNew() {
				ids = append(ids, uint64(c.ID()))
			}
		}
		return nil
	})
	if err != nil {
		return err
	}
	for _, id := range ids {
		rec, err := x.rig.life.as.Records().Get(istructs.WSID(ev.WS), true, istructs.RecordID(id))
		if err != nil {
			return err
		}
		row := rowSpec{Kind: kindOf(rec.QName())}
		if rec.QName() != appdef.NullQName {
			k := row.Kind
			row = readRow(rec, k >= 0 && kindContainer[k] != "")
			row.Kind = k
		}
		obs.Records = append(obs.Records, row)
	}
	return nil
}

// readBack fills the stored rows of every accepted event from the PLog through the given (fresh) app structs
func readBack(as istructs.IAppStructs, sc *scenario, expectEvents uint64) error {
	byOff := map[uint64]*eventSpec{}
	for _, st := range sc.Steps {
		if st.Event != nil && st.Event.Obs != nil && (st.Event.Obs.Accepted || st.Event.Obs.Logged) {
			byOff[st.Event.Obs.Offset] = st.Event
		}
	}
	var seen uint64
	err := as.Events().ReadPLog(context.Background(), partID, istructs.FirstOffset, istructs.ReadToTheEnd, func(off istructs.Offset, e istructs.IPLogEvent) error {
		seen++
		ev, ok := byOff[uint64(off)]
		if !ok {
			if off <= istructs.Offset(len(workspaces)) {
				return nil // workspace descriptor stubs
			}
			return fmt.Errorf("PLog holds an event at offset %d that no accepted step produced", off)
		}
		obs := ev.Obs
		delete(byOff, uint64(off))
		if !obs.Accepted {
			return nil
		}
		obs.Arg, obs.Creates, obs.Updates = []rowSpec{}, []rowSpec{}, []rowSpec{}
		if uint64(e.Workspace()) != ev.WS {
			return fmt.Errorf("event at %d in workspace %d, expected %d", off, e.Workspace(), ev.WS)
		}
		if ao := e.ArgumentObject(); ao.QName() != appdef.NullQName {
			readTree(ao, true, &obs.Arg)
		}
		for c := range e.CUDs {
			k := kindOf(c.QName())
			if c.IsNew() {
				row := readRow(c, k >= 0 && kindContainer[k] != "")
				row.Kind = k
				obs.Creates = append(obs.Creates, row)
			} else {
				row := readRow(c, false)
				row.Kind = k
				obs.Updates = append(obs.Updates, row)
			}
		}
		sort.Slice(obs.Updates, func(i, j int) bool { return obs.Updates[i].ID < obs.Updates[j].ID })
		return nil
	})
	if err != nil {
		return err
	}
	if len(byOff) != 0 {
		return fmt.Errorf("%d accepted event(s) are missing from the PLog", len(byOff))
	}
	if seen != expectEvents {
		return fmt.Errorf("PLog holds %d events, expected %d", seen, expectEvents)
	}
	return nil
}

func firstLine(s string) string {
	if i := strings.IndexByte(s, '\n'); i >= 0 {
		s = s[:i]
	}
	if len(s) > 300 {
		s = s[:300]
	}
	return s
}

// exec runs the steps of a scenario one by one on a fresh rig (the generator looks at the observations of
// the steps executed so far to choose existing records and explicit IDs)
type exec struct {
	x        *runner
	cmdPhase bool
	n        int
	// replaying a stored scenario on another tree: earlier steps may end differently there (an event refused
	// instead of accepted), so a record a later step updates may not exist; such update rows are dropped
	lenient bool
}

func newExec() (*exec, error) {
	r, err := newRig()
	if err != nil {
		return nil, err
	}
	return &exec{x: &runner{rig: r, gens: map[uint64]istructs.IIDGenerator{}}}, nil
}

func (e *exec) step(st *stepSpec) (err error) {
	e.n++
	switch {
	case st.Restart:
		if err := e.x.rig.restart(); err != nil {
			return fmt.Errorf("step %d restart: %w", e.n, err)
		}
		e.cmdPhase = true // the harness-held generators of the direct phase are gone with the "process"
	case st.Event != nil:
		ev := st.Event
		sort.Slice(ev.Updates, func(i, j int) bool { return ev.Updates[i].ID < ev.Updates[j].ID })
		if e.lenient && len(ev.Updates) > 0 {
			kept := ev.Updates[:0]
			for _, u := range ev.Updates {
				rec, err := e.x.rig.life.as.Records().Get(istructs.WSID(ev.WS), true, istructs.RecordID(u.ID))
				if err == nil && rec.QName() != appdef.NullQName {
					kept = append(kept, u)
				} else {
					ev.Dropped = append(ev.Dropped, u.ID)
				}
			}
			ev.Updates = kept
			if ev.Arg == nil && len(ev.Creates) == 0 && len(ev.Updates) == 0 {
				st.Skipped = true
				return nil
			}
		}
		e.x.singletonIDs(ev)
		if ev.Via == "cmd" {
			e.cmdPhase = true
			err = e.x.cmd(ev)
		} else {
			if e.cmdPhase {
				return fmt.Errorf("step %d: direct event after the command phase began", e.n)
			}
			err = e.x.direct(ev)
		}
		if err == nil {
			err = e.x.records(ev)
		}
		if err != nil {
			return fmt.Errorf("step %d: %w", e.n, err)
		}
		sort.Slice(ev.Obs.NewIDs, func(a, b int) bool { return ev.Obs.NewIDs[a].Raw < ev.Obs.NewIDs[b].Raw })
	}
	return nil
}

// finish reads every stored event back from the storage through a fresh application instance
func (e *exec) finish(sc *scenario) error {
	r := e.x.rig
	defer func() { r.close() }()
	expect := uint64(r.plogNext) - 1
	if err := r.restart(); err != nil {
		return err
	}
	return readBack(r.life.as, sc, expect)
}

func (e *exec) abort() { e.x.rig.close() }

// run executes a stored scenario and fills in all observations
func run(sc *scenario) error {
	e, err := newExec()
	if err != nil {
		return err
	}
	e.lenient = true
	for _, st := range sc.Steps {
		if st.Event != nil {
			st.Event.Obs = nil
		}
		if err := e.step(st); err != nil {
			e.abort()
			return err
		}
	}
	kept := sc.Steps[:0]
	for _, st := range sc.Steps {
		if st.Skipped {
			sc.SkippedSteps++
		} else {
			kept = append(kept, st)
		}
	}
	sc.Steps = kept
	return e.finish(sc)
}

// ---- Coq printing ----

func (r rowSpec) coq(single uint64) string {
	return fmt.Sprintf("mkRow %d %d %s %d", r.ID, r.Parent, kit.List([]string{kit.N(r.Refs[0]), kit.N(r.Refs[1]), kit.N(r.Refs[2])}), single)
}

func rowsCoq(rows []rowSpec, singles []uint64) string {
	items := make([]string, len(rows))
	si := 0
	for i, r := range rows {
		var s uint64
		if singles != nil && r.Kind == kSingle {
			if si < len(singles) {
				s = singles[si]
			}
			si++
		}
		items[i] = r.coq(s)
	}
	return kit.List(items)
}

func pairsCoq(ps []pair) string {
	items := make([]string, len(ps))
	for i, p := range ps {
		items[i] = fmt.Sprintf("(%d, %d)", p.Raw, p.Storage)
	}
	return kit.List(items)
}

func (sc *scenario) coq() string {
	var ops []string
	direct := false // harness-held generators in use since the last restart
	for _, st := range sc.Steps {
		if st.Restart {
			ops = append(ops, "ORestart")
			direct = false
			continue
		}
		ev := st.Event
		if ev.Via != "cmd" {
			direct = true
		} else if direct {
			// the command processor starts on a log written by someone else: its state is recovered from the PLog
			ops = append(ops, "ORestart")
			direct = false
		}
		var arg []rowSpec
		flatten(ev.Arg, 0, &arg)
		o := ev.Obs
		ctor := "OEvent"
		if ev.Via == "cmd" && ev.APIv2 {
			ctor = "OEventV2"
		}
		ops = append(ops, fmt.Sprintf(ctor+" %d (mkEv %s %s %s %s) (mkObs %s %s %s %s %s %s)",
			ev.WS, kit.Bool(ev.Sync), rowsCoq(arg, nil), rowsCoq(ev.Creates, ev.Singles), rowsCoq(ev.Updates, nil),
			kit.Bool(o.Accepted), pairsCoq(o.NewIDs), rowsCoq(o.Arg, nil), rowsCoq(o.Creates, nil), rowsCoq(o.Updates, nil), rowsCoq(o.Records, nil)))
		if ev.Via == "cmd" && o.Logged {
			// the command failed behind the PLog write: the processor drops the partition and recovers it from the
			// PLog on the next command (appPartitionRestartScheduled)
			ops = append(ops, "ORestart")
		}
	}
	return kit.List(ops)
}
