package c04

import (
	"encoding/json"
	"fmt"
	"os"
	"sort"
	"strings"

	"verifharness/kit"
)

const (
	maxRaw    = 65535
	firstUser = 200001
)

type known struct {
	id   uint64
	kind int
}

// what the generator knows about a workspace from the observations so far
type wsView struct {
	recs        []known         // records created by accepted events
	used        map[uint64]bool // every ID stored in the workspace's log (argument rows and creates)
	explicitArg map[uint64]bool // explicit IDs of synced argument rows
	maxID       uint64          // highest ID stored or reserved so far
	maxGen      uint64          // highest ID the generator handed out so far (the live generator is above it)
	single      bool            // a record sits at the singleton's registry ID
	singleID    uint64          // that record's ID
	singleOff   bool            // it is deactivated
	resCtr      uint64
}

type gen struct {
	r  *kit.Rng
	ws map[uint64]*wsView
}

func (g *gen) view(ws uint64) *wsView {
	v, ok := g.ws[ws]
	if !ok {
		v = &wsView{used: map[uint64]bool{}, explicitArg: map[uint64]bool{}, maxID: firstUser - 1}
		g.ws[ws] = v
	}
	return v
}

// rawPool: small colliding alphabet, reused by every event (raw IDs are scoped to one event)
func (g *gen) rawPool() []uint64 {
	if g.r.Chance(7, 10) {
		return []uint64{1, 2, 3, 4, 5, 6, 7, 8, 9, 10, 11, 12, 13, 14}
	}
	pool := []uint64{1, 2, 3, 4, 5, 6, 7, 8, 9, 100, 65534, maxRaw, 255, 256}
	for i := len(pool) - 1; i > 0; i-- {
		j := g.r.Intn(i + 1)
		pool[i], pool[j] = pool[j], pool[i]
	}
	return pool
}

// explicitID picks an ID a sync client could own: not yet stored in the workspace, and never one the
// generator will hand out while it processes this very event.  IDs above next are therefore spaced nRaw+2
// apart (an explicit ID bumps the generator just past itself; the event's own raw IDs then take at most nRaw
// consecutive values), IDs below next are taken below the highest generated ID seen so far.
func (g *gen) explicitID(v *wsView, above bool, nRaw int, slot *int, small bool) uint64 {
	if small {
		// IDs that travel in a JSON request body: below 2^53, and above the generator only when it is there itself
		if v.maxID+1+uint64(nRaw)+200 >= 1<<53 {
			above = false
		}
	}
	for try := 0; try < 20; try++ {
		var id uint64
		if above {
			base := v.maxID + 1 + uint64(nRaw)
			switch g.r.Intn(8) {
			case 0:
				base += 1
			case 1:
				base += 100
			case 2:
				if base < 1<<32 {
					base = 1 << 32
				}
			case 3:
				if g.r.Chance(1, 8) && base < 1<<40 {
					base = 1<<40 + uint64(g.r.Intn(1000))
				}
			case 4:
				if !small && g.r.Chance(1, 4) && base < 1<<53 {
					base = 1<<53 + uint64(g.r.Intn(8)) // IDs that no longer fit a float64 exactly
				}
			}
			id = base + uint64(*slot)*uint64(nRaw+2)
			*slot++
			if !small && g.r.Chance(1, 12) {
				// the largest IDs validation lets an event carry (MaxRecordID = MaxInt64 and the one below): the generator
				// then works above MaxRecordID, and a generator rebuilt from the log must follow it there
				for _, top := range []uint64{1<<63 - 1, 1<<63 - 2} {
					if !v.used[top] && g.r.Bool() {
						v.used[top] = true
						return top
					}
				}
			}
			if !small && g.r.Chance(1, 40) && !v.used[^uint64(0)] {
				// the largest ID: UpdateOnSync must leave the generator alone (its successor does not fit)
				v.used[^uint64(0)] = true
				return ^uint64(0)
			}
			if id > v.maxID {
				v.maxID = id // keeps later explicit IDs of this scenario apart
			}
		} else {
			switch g.r.Intn(4) {
			case 0:
				v.resCtr++
				id = 70000 + v.resCtr
			case 1:
				id = 200000
			case 2:
				id = maxRaw + 1 + 600 + uint64(g.r.Intn(5)) // just above the singleton range
			default:
				// a gap left below the live generator by an earlier jump
				for c := uint64(firstUser); c < v.maxGen && c < firstUser+300; c++ {
					if !v.used[c] {
						id = c
						break
					}
				}
			}
		}
		if id != 0 && !v.used[id] {
			return id
		}
	}
	v.resCtr++
	return 80000 + v.resCtr
}

func replaceVal(ev *eventSpec, from, to uint64) {
	fix := func(r *rowSpec) {
		if r.ID == from {
			r.ID = to
		}
		if r.Parent == from {
			r.Parent = to
		}
		for i := range r.Refs {
			if r.Refs[i] == from {
				r.Refs[i] = to
			}
		}
	}
	for i := range ev.Creates {
		fix(&ev.Creates[i])
	}
	for i := range ev.Updates {
		fix(&ev.Updates[i])
	}
	var walk func(n *nodeSpec)
	walk = func(n *nodeSpec) {
		if n == nil {
			return
		}
		fix(&n.Row)
		for _, c := range n.Children {
			walk(c)
		}
	}
	walk(ev.Arg)
}

func argRows(n *nodeSpec) []*rowSpec {
	if n == nil {
		return nil
	}
	out := []*rowSpec{&n.Row}
	for _, c := range n.Children {
		out = append(out, argRows(c)...)
	}
	return out
}

// genEvent: a structurally valid event (then possibly one ID-rule mutation); returns shape tags
func (g *gen) genEvent(ws uint64, via string) (*eventSpec, []string) {
	r := g.r
	v := g.view(ws)
	ev := &eventSpec{WS: ws, Via: via}
	if via == "cmd" && r.Chance(1, 3) {
		ev.APIv2 = true
	}
	var tags []string
	pool := g.rawPool()
	pi := 0
	nextRaw := func() uint64 { x := pool[pi%len(pool)]; pi++; return x }

	withArg := r.Chance(35, 100)
	if via == "cmd" && r.Chance(1, 5) {
		// a synced event through the real command processor (c.sys.Init, CUDs only): its explicit IDs reach the live
		// generator through the wrapper the processor hands to PutPlog
		ev.Sync = true
		withArg = false
	}
	withCUD := !withArg || (via == "direct" && r.Chance(35, 100))
	if via == "direct" && r.Chance(3, 10) {
		ev.Sync = true
	}
	var argRaw []uint64
	if withArg {
		root := &nodeSpec{Row: rowSpec{Kind: kODoc, ID: nextRaw()}}
		for i, n := 0, r.Intn(4); i < n; i++ {
			it := &nodeSpec{Row: rowSpec{Kind: kOItem, ID: nextRaw(), OmitParent: r.Bool()}}
			for j, m := 0, r.Intn(3); j < m && pi < 9; j++ {
				it.Children = append(it.Children, &nodeSpec{Row: rowSpec{Kind: kOSub, ID: nextRaw(), OmitParent: r.Bool()}})
			}
			root.Children = append(root.Children, it)
		}
		ev.Arg = root
		rows := argRows(root)
		for _, x := range rows {
			argRaw = append(argRaw, x.ID)
		}
		for _, x := range rows {
			for k := range x.Refs {
				switch r.Intn(5) {
				case 0, 1:
					x.Refs[k] = kit.Pick(r, argRaw)
				case 2:
					if via == "direct" && len(v.recs) > 0 {
						x.Refs[k] = kit.Pick(r, v.recs).id
					}
				}
			}
		}
		tags = append(tags, "arg")
		if len(rows) > 2 {
			tags = append(tags, "arg-nested")
		}
	}
	var cudRaw []uint64
	if withCUD {
		docs := 1 + r.Intn(3)
		for d := 0; d < docs && len(ev.Creates) < 6; d++ {
			switch r.Intn(5) {
			case 0:
				ev.Creates = append(ev.Creates, rowSpec{Kind: kWDoc, ID: nextRaw()})
			case 1:
				if !v.single {
					ev.Creates = append(ev.Creates, rowSpec{Kind: kSingle, ID: nextRaw()})
					tags = append(tags, "singleton")
					break
				}
				if r.Chance(1, 2) {
					// the slot is taken: must be refused, whether the record there is active or not
					ev.Creates = append(ev.Creates, rowSpec{Kind: kSingle, ID: nextRaw()})
					tags = append(tags, "singleton-create-again")
					if v.singleOff {
						tags = append(tags, "singleton-create-again-after-deactivation")
					}
					break
				}
				fallthrough
			default:
				doc := rowSpec{Kind: kDoc, ID: nextRaw()}
				ev.Creates = append(ev.Creates, doc)
				for i, n := 0, r.Intn(3); i < n; i++ {
					rec := rowSpec{Kind: kRec, ID: nextRaw(), Parent: doc.ID}
					ev.Creates = append(ev.Creates, rec)
					if r.Chance(1, 3) {
						ev.Creates = append(ev.Creates, rowSpec{Kind: kSub, ID: nextRaw(), Parent: rec.ID})
					}
					tags = append(tags, "cud-parent-child")
				}
			}
		}
		// a record under an existing document
		if len(v.recs) > 0 && r.Chance(1, 4) {
			for _, k := range v.recs {
				if k.kind == kDoc {
					ev.Creates = append(ev.Creates, rowSpec{Kind: kRec, ID: nextRaw(), Parent: k.id})
					tags = append(tags, "child-of-existing")
					break
				}
			}
		}
		for _, c := range ev.Creates {
			cudRaw = append(cudRaw, c.ID)
		}
		lifecycle := false
		if v.singleID != 0 && r.Chance(1, 3) {
			// singleton life cycle: deactivate / reactivate the record that holds the singleton's slot
			lifecycle = true
			if v.singleOff {
				ev.Updates = append(ev.Updates, rowSpec{Kind: kSingle, ID: v.singleID, SetActive: 1})
				tags = append(tags, "singleton-reactivate")
			} else {
				ev.Updates = append(ev.Updates, rowSpec{Kind: kSingle, ID: v.singleID, SetActive: 2})
				tags = append(tags, "singleton-deactivate")
			}
		}
		if v.singleID != 0 && v.singleOff && !lifecycle && r.Chance(1, 2) && pi < len(pool) {
			hasSingle := false
			for _, c := range ev.Creates {
				hasSingle = hasSingle || c.Kind == kSingle
			}
			if !hasSingle {
				ev.Creates = append(ev.Creates, rowSpec{Kind: kSingle, ID: nextRaw()})
				tags = append(tags, "singleton-create-again", "singleton-create-again-after-deactivation")
			}
		}
		if len(v.recs) > 0 && r.Chance(3, 10) {
			n := 1 + r.Intn(2)
			seen := map[uint64]bool{}
			for i := 0; i < n; i++ {
				t := kit.Pick(r, v.recs)
				if seen[t.id] || (t.id == v.singleID && (lifecycle || v.singleOff)) {
					continue
				}
				seen[t.id] = true
				ev.Updates = append(ev.Updates, rowSpec{Kind: t.kind, ID: t.id})
			}
			tags = append(tags, "update")
		}
		pickRef := func() uint64 {
			switch r.Intn(6) {
			case 0, 1, 2:
				if len(cudRaw) > 0 {
					return kit.Pick(r, cudRaw)
				}
			case 3:
				if len(v.recs) > 0 {
					return kit.Pick(r, v.recs).id
				}
			}
			return 0
		}
		for i := range ev.Creates {
			for k := range ev.Creates[i].Refs {
				ev.Creates[i].Refs[k] = pickRef()
			}
		}
		for i := range ev.Updates {
			for k := range ev.Updates[i].Refs {
				ev.Updates[i].Refs[k] = pickRef()
			}
			if ev.Updates[i].SetActive != 0 {
				ev.Updates[i].Refs = [3]uint64{}
				continue
			}
			if ev.Updates[i].Refs[0] == 0 && ev.Updates[i].Refs[1] == 0 {
				if len(cudRaw) > 0 {
					ev.Updates[i].Refs[0] = cudRaw[0]
				} else {
					ev.Updates[i].Refs[0] = v.recs[0].id
				}
			}
		}
		// children before parents now and then (the ID map is built before references are checked)
		if r.Chance(1, 4) && len(ev.Creates) > 1 {
			i, j := r.Intn(len(ev.Creates)), r.Intn(len(ev.Creates))
			ev.Creates[i], ev.Creates[j] = ev.Creates[j], ev.Creates[i]
			tags = append(tags, "creates-shuffled")
		}
		// CUD rows that refer to raw IDs declared in the argument document (validated against the joint ID map)
		if withArg && len(ev.Creates) > 0 && r.Chance(1, 5) {
			ev.Creates[r.Intn(len(ev.Creates))].Refs[r.Intn(2)] = kit.Pick(r, argRaw)
			tags = append(tags, "cud-ref-to-arg-id")
		}
	}
	// a plain RecordID field of an argument row pointing outside the argument: to a raw ID declared by a CUD row of
	// the same event, or to a raw ID nobody declares (validation looks at the argument's reference fields only)
	if withArg && r.Chance(1, 25) {
		rows := argRows(ev.Arg)
		x := rows[r.Intn(len(rows))]
		if len(ev.Creates) > 0 && ev.Creates[0].ID <= maxRaw && r.Chance(2, 3) {
			x.Refs[2] = ev.Creates[r.Intn(len(ev.Creates))].ID
			tags = append(tags, "arg-plain-field-to-cud-id")
		} else {
			x.Refs[2] = kit.Pick(r, []uint64{777, 65535, 999})
			tags = append(tags, "arg-plain-field-unknown-raw")
		}
	}
	if ev.Sync {
		tags = append(tags, "sync")
		// explicit storage IDs instead of some raw ones
		slot := 0
		order := append(append([]uint64{}, argRaw...), cudRaw...) // the order in which the two passes meet the rows
		if n := len(order); n >= 2 && r.Chance(3, 10) && (via != "cmd" || (v.maxID+100 < 1<<53 && v.maxGen < 1<<53)) {
			// tight: explicit IDs at / just above the generator's current value, on rows met after raw rows, before
			// them, or both - the IDs the generator is about to hand out for the event's own raw rows
			var at []int
			switch r.Intn(4) {
			case 0:
				at = []int{n - 1}
			case 1:
				at = []int{0}
			case 2:
				at = []int{0, n - 1}
			default:
				at = []int{r.Intn(n)}
				if j := r.Intn(n); j != at[0] && n > 2 {
					at = append(at, j)
				}
			}
			if len(at) == n {
				at = at[:1] // keep at least one raw row
			}
			next := v.maxID + 1
			taken := map[uint64]bool{}
			for _, i := range at {
				id := next + uint64(r.Intn(n+2))
				for taken[id] || v.used[id] {
					id++
				}
				taken[id] = true
				v.used[id] = true
				replaceVal(ev, order[i], id)
			}
			tags = append(tags, "explicit-tight")
			order = nil
			cudRaw, argRaw = nil, nil // no further replacements in this event
		}
		for _, raw := range cudRaw {
			if r.Chance(1, 2) {
				above := r.Chance(6, 10)
				id := g.explicitID(v, above, len(argRaw)+len(cudRaw), &slot, via == "cmd")
				v.used[id] = true // reserved for this scenario even if the event is refused
				replaceVal(ev, raw, id)
				if id == 1<<63-1 || id == 1<<63-2 {
					tags = append(tags, "explicit-at-max-record-id")
				} else if id == ^uint64(0) {
					tags = append(tags, "explicit-max-uint64")
				} else if above {
					tags = append(tags, "explicit-above-next")
				} else {
					tags = append(tags, "explicit-below-next")
				}
			}
		}
		if withArg && r.Chance(1, 4) {
			for _, raw := range argRaw {
				if r.Chance(1, 2) {
					id := g.explicitID(v, r.Chance(1, 2), len(argRaw)+len(cudRaw), &slot, via == "cmd")
					v.used[id] = true
					replaceVal(ev, raw, id)
					tags = append(tags, "explicit-arg-id")
				}
			}
		}
	}
	if pi > len(pool) {
		// ran out of distinct raw IDs: keep the event small instead of colliding by accident
		return g.genEvent(ws, via)
	}
	if pi > 0 && pool[0] != 1 {
		tags = append(tags, "raw-boundary-alphabet")
	}
	// ---- malformed stream: exactly one ID-rule mutation ----
	if r.Chance(22, 100) {
		rows := argRows(ev.Arg)
		all := append([]*rowSpec{}, rows...)
		for i := range ev.Creates {
			all = append(all, &ev.Creates[i])
		}
		kind := ""
		switch r.Intn(9) {
		case 0:
			x := all[r.Intn(len(all))]
			x.Refs[r.Intn(2)] = kit.Pick(r, []uint64{999, 65535, 77})
			kind = "unknown-raw-ref"
		case 1:
			if len(all) > 1 {
				i, j := r.Intn(len(all)), r.Intn(len(all))
				if i != j {
					all[j].ID = all[i].ID
					kind = "duplicate-id"
				}
			}
		case 2, 8:
			// a client-chosen storage ID in a new (not synced) event - preferably on a nested row (argument
			// ORecord, CUD child), drawn from (a) IDs the workspace already stored, (b) the reserved / singleton
			// band, (c) IDs at and far above the generator; every occurrence of the row's raw ID is replaced, so
			// the "raw ID required" rule is the only one the event breaks
			if !ev.Sync {
				var nested []*rowSpec
				for _, x := range rows[min(1, len(rows)):] {
					nested = append(nested, x)
				}
				where := "argument-child"
				if len(nested) == 0 || r.Chance(1, 4) {
					nested = nil
					for i := range ev.Creates {
						if ev.Creates[i].Parent != 0 {
							nested = append(nested, &ev.Creates[i])
						}
					}
					where = "cud-child"
				}
				if len(nested) == 0 || r.Chance(1, 6) {
					nested = all
					where = "any-row"
				}
				x := nested[r.Intn(len(nested))]
				var id uint64
				from := ""
				switch r.Intn(3) {
				case 0:
					var issued []uint64
					for u := range v.used {
						if u >= firstUser && u < 1<<53 {
							issued = append(issued, u)
						}
					}
					sort.Slice(issued, func(i, j int) bool { return issued[i] < issued[j] })
					if len(issued) > 0 {
						id, from = kit.Pick(r, issued), "issued"
					}
				case 1:
					id, from = kit.Pick(r, []uint64{maxRaw + 1, maxRaw + 2, maxRaw + 3, maxRaw + 1 + 511, maxRaw + 1 + 512, 70000, firstUser - 1}), "reserved"
				}
				if from == "" {
					id, from = kit.Pick(r, []uint64{v.maxID + 1, v.maxID + 2, v.maxID + 1000, 1 << 33, 1<<40 + 7}), "above"
				}
				if old := x.ID; old != 0 {
					replaceVal(ev, old, id)
				}
				x.ID = id
				if via == "cmd" {
					// the command processor checks storage-ID references of the argument against the sys.RecordsRegistry
					// view, which this application does not have: argument rows refer to raw IDs only
					for _, a := range rows {
						for k := range a.Refs {
							if a.Refs[k] > maxRaw {
								a.Refs[k] = 0
							}
						}
					}
				}
				kind = "storage-id-in-new-event"
				tags = append(tags, "storage-id-in-new-event:"+where, "storage-id-in-new-event:"+from)
			}
		case 3:
			all[r.Intn(len(all))].ID = 0
			kind = "null-id"
		case 4:
			for i := range ev.Creates {
				if ev.Creates[i].Kind == kRec {
					ev.Creates[i].Parent = 998
					kind = "unknown-raw-parent"
					break
				}
			}
		case 5:
			if !v.single && len(ev.Creates) > 0 && pi+2 <= len(pool) {
				ev.Creates = append(ev.Creates, rowSpec{Kind: kSingle, ID: nextRaw()}, rowSpec{Kind: kSingle, ID: nextRaw()})
				kind = "singleton-twice"
			}
		case 6:
			if len(rows) > 0 && len(ev.Creates) > 0 && ev.Creates[0].ID <= maxRaw {
				rows[r.Intn(len(rows))].Refs[0] = ev.Creates[0].ID
				kind = "arg-ref-to-cud-id"
			}
		case 7:
			if ev.Sync && len(ev.Updates) > 0 && len(ev.Creates) > 0 {
				ev.Creates[0].ID = ev.Updates[0].ID
				kind = "create-id-equals-update-id"
			}
		}
		if kind != "" {
			tags = append(tags, "malformed:"+kind)
		}
	}
	return ev, tags
}

// learn updates the generator's view from the observations of an executed event and returns tags computed
// from the observed behaviour (the finding tags are produced only by the behaviour they name)
func (g *gen) learn(ev *eventSpec) []string {
	return observe(g.view(ev.WS), ev)
}

func observe(v *wsView, ev *eventSpec) []string {
	var tags []string
	o := ev.Obs
	if !o.Accepted {
		if o.Logged {
			return []string{"refused-after-logging"}
		}
		return []string{"rejected"}
	}
	tags = append(tags, "accepted")
	// generated IDs judged against what the workspace's log already held
	for _, p := range o.NewIDs {
		if v.explicitArg[p.Storage] {
			tags = append(tags, "F41:generated-id-equals-synced-argument-id")
		}
		if p.Storage < firstUser {
			tags = append(tags, "F44:generated-id-below-first-user-id")
		}
	}
	var arg []rowSpec
	flatten(ev.Arg, 0, &arg)
	explicit := map[uint64]bool{}
	for _, rows := range [][]rowSpec{arg, ev.Creates} {
		for _, x := range rows {
			if x.ID > maxRaw {
				explicit[x.ID] = true
			}
		}
	}
	for _, p := range o.NewIDs {
		if explicit[p.Storage] {
			tags = append(tags, "F43:generated-id-equals-explicit-id-of-the-same-event")
		}
	}
	if ev.APIv2 && o.Creates != nil {
		stored := map[uint64]bool{}
		for _, rows := range [][]rowSpec{o.Arg, o.Creates} {
			for _, x := range rows {
				stored[x.ID] = true
			}
		}
		for _, p := range o.NewIDs {
			if !stored[p.Storage] {
				tags = append(tags, "F47:apiv2-reply-reports-an-id-that-was-not-stored")
			}
		}
	}
	argRaw := map[uint64]bool{}
	for i, a := range arg {
		if a.ID >= 1 && a.ID <= maxRaw {
			argRaw[a.ID] = true
		} else if ev.Sync && i < len(o.Arg) {
			v.explicitArg[o.Arg[i].ID] = true
		}
	}
	isRaw := func(x uint64) bool { return x >= 1 && x <= maxRaw }
	for i, a := range arg {
		if p := a.Refs[2]; isRaw(p) && !argRaw[p] && i < len(o.Arg) && o.Arg[i].Refs[2] == 0 {
			tags = append(tags, "F46:argument-plain-recordid-field-nulled")
		}
	}
	for _, rows := range [][]rowSpec{o.Creates, o.Updates} {
		for _, c := range rows {
			for _, x := range []uint64{c.Parent, c.Refs[0], c.Refs[1], c.Refs[2]} {
				if isRaw(x) && argRaw[x] {
					tags = append(tags, "F12:cud-reference-to-argument-raw-id-stored-raw")
				}
			}
		}
	}
	// (the stored rows are read back at the end of the scenario: while generating, the created rows are
	// known from IRecords.Get and the argument IDs from the input and the reported new IDs)
	note := func(id uint64) {
		v.used[id] = true
		if id > v.maxID && id < 1<<62 {
			v.maxID = id
		}
	}
	for _, p := range o.NewIDs {
		note(p.Storage)
		if p.Storage > v.maxGen && p.Storage < 1<<62 {
			v.maxGen = p.Storage
		}
	}
	for _, a := range arg {
		if !isRaw(a.ID) {
			note(a.ID)
		}
	}
	creates := o.Creates
	if creates == nil {
		creates = o.Records
	}
	for _, c := range creates {
		note(c.ID)
		if c.Kind == kSingle && c.ID <= maxRaw+1+511 {
			v.single, v.singleID, v.singleOff = true, c.ID, false
		}
		if c.Kind >= 0 && c.ID < 1<<53 { // larger IDs do not survive a JSON request body
			v.recs = append(v.recs, known{c.ID, c.Kind})
		}
	}
	for _, u := range ev.Updates {
		if u.SetActive != 0 && u.ID == v.singleID {
			v.singleOff = u.SetActive == 2
		}
	}
	if len(o.NewIDs) > 1 {
		tags = append(tags, "several-new-ids")
	}
	return tags
}

func uniq(tags []string) []string {
	m := map[string]bool{}
	var out []string
	for _, t := range tags {
		if !m[t] {
			m[t] = true
			out = append(out, t)
		}
	}
	sort.Strings(out)
	return out
}

// genScenario generates and executes one scenario step by step
func genScenario(r *kit.Rng, tier string) (*scenario, []string, error) {
	g := &gen{r: r, ws: map[uint64]*wsView{}}
	e, err := newExec()
	if err != nil {
		return nil, nil, err
	}
	sc := &scenario{}
	var tags []string
	do := func(st *stepSpec, t []string) error {
		sc.Steps = append(sc.Steps, st)
		if err := e.step(st); err != nil {
			return err
		}
		tags = append(tags, t...)
		if st.Event != nil {
			tags = append(tags, "via:"+st.Event.Via)
			tags = append(tags, g.learn(st.Event)...)
		} else {
			tags = append(tags, "restart")
		}
		return nil
	}
	pickWS := func() uint64 {
		if r.Chance(3, 4) {
			return 1
		}
		return 2
	}
	nDirect := r.Intn(5)
	nCmd := 1 + r.Intn(6)
	if tier == "thorough" {
		nCmd += r.Intn(6)
	}
	if r.Chance(1, 8) {
		nCmd = 0
		nDirect = 2 + r.Intn(5)
	}
	for i := 0; i < nDirect; i++ {
		ev, t := g.genEvent(pickWS(), "direct")
		if err := do(&stepSpec{Event: ev}, t); err != nil {
			e.abort()
			return sc, nil, err
		}
	}
	if nDirect > 0 && nCmd > 0 && r.Chance(1, 2) {
		if err := do(&stepSpec{Restart: true}, nil); err != nil {
			e.abort()
			return sc, nil, err
		}
	}
	for i := 0; i < nCmd; i++ {
		if i > 0 && r.Chance(1, 4) {
			for k, n := 0, 1+r.Intn(2); k < n; k++ {
				if err := do(&stepSpec{Restart: true}, nil); err != nil {
					e.abort()
					return sc, nil, err
				}
			}
		}
		ev, t := g.genEvent(pickWS(), "cmd")
		if err := do(&stepSpec{Event: ev}, t); err != nil {
			e.abort()
			return sc, nil, err
		}
	}
	if err := e.finish(sc); err != nil {
		return sc, nil, err
	}
	// finding tags need the rows read back from the log: judge the complete observations
	return sc, uniq(append(tags, tagsOf(sc)...)), nil
}

// tagsOf recomputes the observation tags of an executed (stored) scenario
func tagsOf(sc *scenario) []string {
	views := map[uint64]*wsView{}
	var tags []string
	for _, st := range sc.Steps {
		if st.Restart {
			tags = append(tags, "restart")
			continue
		}
		ev := st.Event
		v, ok := views[ev.WS]
		if !ok {
			v = &wsView{used: map[uint64]bool{}, explicitArg: map[uint64]bool{}, maxID: firstUser - 1}
			views[ev.WS] = v
		}
		tags = append(tags, "via:"+ev.Via)
		if ev.Sync {
			tags = append(tags, "sync")
		}
		if ev.Arg != nil {
			tags = append(tags, "arg")
		}
		tags = append(tags, observe(v, ev)...)
	}
	return uniq(tags)
}

// non-trivial: an accepted event that declared at least two raw IDs and referred to one of them, or IDs
// generated after a restart, or a synced event with explicit IDs
func nontrivial(sc *scenario) bool {
	restarted := false
	for _, st := range sc.Steps {
		if st.Restart {
			restarted = true
			continue
		}
		ev := st.Event
		if ev.Obs == nil || !ev.Obs.Accepted {
			continue
		}
		if restarted && len(ev.Obs.NewIDs) > 0 {
			return true
		}
		if ev.Sync && len(ev.Obs.NewIDs) < len(ev.Obs.Creates)+len(ev.Obs.Arg) {
			return true
		}
		if len(ev.Obs.NewIDs) >= 2 {
			var rows []rowSpec
			flatten(ev.Arg, 0, &rows)
			rows = append(rows, ev.Creates...)
			rows = append(rows, ev.Updates...)
			for _, x := range rows {
				for _, v := range []uint64{x.Parent, x.Refs[0], x.Refs[1], x.Refs[2]} {
					if v >= 1 && v <= maxRaw {
						return true
					}
				}
			}
		}
	}
	return false
}

func shapeKey(sc *scenario) string {
	var sb strings.Builder
	for _, st := range sc.Steps {
		if st.Restart {
			sb.WriteString("|R")
			continue
		}
		ev := st.Event
		var rows []rowSpec
		flatten(ev.Arg, 0, &rows)
		acc := "-"
		if ev.Obs != nil && ev.Obs.Accepted {
			acc = "+"
		}
		nExp := 0
		for _, c := range ev.Creates {
			if c.ID > maxRaw {
				nExp++
			}
		}
		fmt.Fprintf(&sb, "|%s%d%s%v:a%d:c%d:x%d:u%d", ev.Via[:1], ev.WS, acc, ev.Sync, len(rows), len(ev.Creates), nExp, len(ev.Updates))
	}
	return sb.String()
}

func emit(sc *scenario, tags []string, out *kit.Out) {
	out.Emit(kit.Case{Coq: sc.coq(), Key: shapeKey(sc), Nontrivial: nontrivial(sc), Desc: sc, Tags: tags})
}

func Generate(seed uint64, n int, tier, corpusDir string, out *kit.Out) error {
	// (kit seeds are an arithmetic progression: nearby seeds give shifted copies of one stream; mix first)
	r := kit.NewRng(kit.NewRng(seed).U64())
	if corpusDir != "" {
		ents, _ := os.ReadDir(corpusDir)
		var names []string
		for _, e := range ents {
			if strings.HasSuffix(e.Name(), ".json") {
				names = append(names, e.Name())
			}
		}
		sort.Strings(names)
		for _, nm := range names {
			if err := replayFile(corpusDir+"/"+nm, out); err != nil {
				return fmt.Errorf("%s: %w", nm, err)
			}
		}
	}
	for i := 0; i < n; i++ {
		sc, tags, err := genScenario(r.Fork(), tier)
		if err != nil {
			b, _ := json.Marshal(sc)
			return fmt.Errorf("generated scenario %d: %w\n%s", i, err, b)
		}
		emit(sc, tags, out)
	}
	return nil
}

func replayFile(path string, out *kit.Out) error {
	b, err := os.ReadFile(path)
	if err != nil {
		return err
	}
	var wrapper struct {
		Case struct {
			Desc *scenario `json:"desc"`
		} `json:"case"`
		Desc  *scenario   `json:"desc"`
		Steps []*stepSpec `json:"steps"`
		Note  string      `json:"note"`
	}
	if err := json.Unmarshal(b, &wrapper); err != nil {
		return err
	}
	var sc *scenario
	switch {
	case wrapper.Case.Desc != nil:
		sc = wrapper.Case.Desc
	case wrapper.Desc != nil:
		sc = wrapper.Desc
	default:
		sc = &scenario{Note: wrapper.Note, Steps: wrapper.Steps}
	}
	if len(sc.Steps) == 0 {
		return fmt.Errorf("no steps in %s", path)
	}
	if err := run(sc); err != nil {
		return err
	}
	emit(sc, tagsOf(sc), out)
	return nil
}

// Replay re-executes exactly the scenario stored in a replay/corpus file
func Replay(path string, out *kit.Out) error { return replayFile(path, out) }
