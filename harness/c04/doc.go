// Package c04: harness of property C04 (registers itself with kit.Register in an init function).
package c04
