// Package c16: totality and determinism of the VSQL compiler (property C16, partial claim).
package c16

import (
	"encoding/json"
	"fmt"
	"reflect"
	"regexp"
	"strings"
	"time"

	"verifharness/c17"

	"github.com/voedger/voedger/pkg/appdef"
	"github.com/voedger/voedger/pkg/appdef/builder"
	"github.com/voedger/voedger/pkg/parser"
)

// Result of one compilation: parser + BuildAppDefs + builder.Build, each stage observed
type Result struct {
	Stage string    `json:"stage"` // ok | parse | package | analyse | build | validate | panic | died | hang
	Err   string    `json:"err,omitempty"`
	Dump  *c17.Dump `json:"-"`
}

const deadline = 20 * time.Second

// Result of one compilation as it crosses the process boundary
type wireResult struct {
	Stage string    `json:"stage"`
	Err   string    `json:"err"`
	Dump  *c17.Dump `json:"dump,omitempty"`
}
type buildArg struct {
	Items []c17.DItem `json:"items"`
}
type buildRes struct {
	OK  bool   `json:"ok"`
	Why string `json:"why"`
}

func init() {
	c17.RegisterWorkerOp("c16.compile", func(raw json.RawMessage) any {
		var pkgs []c17.PkgText
		if err := json.Unmarshal(raw, &pkgs); err != nil {
			return wireResult{Stage: "harness", Err: err.Error()}
		}
		r := compileInProcess(pkgs)
		return wireResult{Stage: r.Stage, Err: r.Err, Dump: r.Dump}
	})
	c17.RegisterWorkerOp("c16.build", func(raw json.RawMessage) any {
		var a buildArg
		if err := json.Unmarshal(raw, &a); err != nil {
			return buildRes{Why: "harness: " + err.Error()}
		}
		ok, why := BuildFromItems(a.Items)
		return buildRes{ok, why}
	})
	c17.RunWorkerIfRequested("c16")
}

var worker = c17.NewIsolated("c16")

// compileOnce runs the whole pipeline on fresh parser/builder state in the worker process (recover()
// there turns a panic into stage "panic"). A fatal runtime error or a hang kills the worker: stage
// "died" / "hang", with the reason the runtime printed; the worker is replaced.
// "validate" = the parser returned no error but builder.Build() failed.
func compileOnce(pkgs []c17.PkgText) Result {
	var r wireResult
	if died := worker.Call("c16.compile", pkgs, &r, deadline); died != "" {
		if strings.HasPrefix(died, "hang") {
			return Result{Stage: "hang", Err: died}
		}
		return Result{Stage: "died", Err: died}
	}
	return Result{Stage: r.Stage, Err: r.Err, Dump: r.Dump}
}

// BuildIsolated = BuildFromItems in the worker process
func BuildIsolated(items []c17.DItem) (bool, string) {
	var r buildRes
	if died := worker.Call("c16.build", buildArg{items}, &r, deadline); died != "" {
		return false, died
	}
	return r.OK, r.Why
}

func compileInProcess(pkgs []c17.PkgText) (r Result) {
	defer func() {
		if p := recover(); p != nil {
			r = Result{Stage: "panic", Err: fmt.Sprint(p)}
		}
	}()
	return pipeline(pkgs)
}

func pipeline(pkgs []c17.PkgText) Result {
	var asts []*parser.PackageSchemaAST
	for _, p := range pkgs {
		var files []*parser.FileSchemaAST
		for i, txt := range p.Files {
			f, e := parser.ParseFile(fmt.Sprintf("f%d.vsql", i), txt)
			if e != nil {
				return Result{Stage: "parse", Err: e.Error()}
			}
			files = append(files, f)
		}
		pa, e := parser.BuildPackageSchema(p.Path, files)
		if e != nil {
			return Result{Stage: "package", Err: e.Error()}
		}
		asts = append(asts, pa)
	}
	app, e := parser.BuildAppSchema(asts)
	if e != nil {
		return Result{Stage: "analyse", Err: e.Error()}
	}
	b := builder.New()
	if e := parser.BuildAppDefs(app, b); e != nil {
		return Result{Stage: "build", Err: e.Error()}
	}
	def, e := b.Build()
	if e != nil {
		return Result{Stage: "validate", Err: e.Error()}
	}
	return Result{Stage: "ok", Dump: safeDump(def)}
}

// the dump is harness code: a failure in it is not the compiler's
func safeDump(def appdef.IAppDef) (res *c17.Dump) {
	defer func() {
		if p := recover(); p != nil {
			res = &c17.Dump{SysDigest: "dump failed: " + fmt.Sprint(p)}
		}
	}()
	d := c17.DumpApp(def)
	return &d
}

// TextObs mirrors Model.v `text_obs`
type TextObs struct {
	Panicked      bool     `json:"panicked"`
	Hung          bool     `json:"hung"`
	Accepted      bool     `json:"accepted"`
	Built         bool     `json:"built"`
	Positioned    bool     `json:"positioned"`
	Deterministic bool     `json:"deterministic"`
	Stage         string   `json:"stage"`
	Err           string   `json:"err,omitempty"`
	Unpositioned  []string `json:"unpositioned,omitempty"`
	NonDet        string   `json:"nondeterminism,omitempty"`
	RuleOrder     bool     `json:"rule_order_only,omitempty"`
	AppACLOrder   bool     `json:"app_acl_order_only,omitempty"`
}

var posRe = regexp.MustCompile(`^[^\s:]+:\d+:\d+:`)

// errors that are about the application as a whole: there is no construct to point at
var appLevel = []string{"application not defined", "application redefined", "does not define use of package", "package redeclared",
	"no schema files", "local package name", "could not import"}

func unpositioned(r Result) []string {
	var res []string
	if r.Stage == "ok" || r.Stage == "panic" || r.Stage == "hang" || r.Stage == "died" {
		return nil
	}
	for _, line := range strings.Split(r.Err, "\n") {
		line = strings.TrimSpace(line)
		if line == "" || posRe.MatchString(line) {
			continue
		}
		app := false
		for _, a := range appLevel {
			app = app || strings.Contains(line, a)
		}
		if !app {
			res = append(res, line)
		}
	}
	return res
}

func permuted(pkgs []c17.PkgText) []c17.PkgText {
	res := make([]c17.PkgText, 0, len(pkgs))
	for i := len(pkgs) - 1; i >= 0; i-- {
		p := c17.PkgText{Path: pkgs[i].Path}
		for j := len(pkgs[i].Files) - 1; j >= 0; j-- {
			p.Files = append(p.Files, pkgs[i].Files[j])
		}
		res = append(res, p)
	}
	return res
}

func accepted(r Result) bool { return r.Stage == "ok" || r.Stage == "validate" }

// Observe compiles three times: twice as given (fresh state each), once with the packages and the
// files of every package in reverse order
func Observe(pkgs []c17.PkgText) (TextObs, Result) {
	r1 := compileOnce(pkgs)
	o := TextObs{Stage: r1.Stage, Err: r1.Err, Panicked: r1.Stage == "panic" || r1.Stage == "died", Hung: r1.Stage == "hang",
		Accepted: accepted(r1), Built: r1.Stage == "ok"}
	if len(o.Err) > 800 {
		o.Err = o.Err[:800]
	}
	o.Unpositioned = unpositioned(r1)
	o.Positioned = len(o.Unpositioned) == 0
	o.Deterministic = true
	if o.Hung || r1.Stage == "died" {
		return o, r1
	}
	same := func(what string, r Result, raw bool) {
		switch {
		case accepted(r) != accepted(r1) || (r.Stage == "panic") != (r1.Stage == "panic") || r.Stage == "died" || r.Stage == "hang":
			o.Deterministic, o.NonDet = false, what+": "+r1.Stage+" vs "+r.Stage
		case r1.Stage == "ok" && r.Stage == "ok" && !reflect.DeepEqual(c17.Canon(*r1.Dump), c17.Canon(*r.Dump)):
			o.Deterministic, o.NonDet = false, what+": definitions differ"
		case raw && r1.Stage == "ok" && r.Stage == "ok" && r1.Dump.AppACLDigest != r.Dump.AppACLDigest && sameBut(*r1.Dump, *r.Dump):
			// per-workspace ACLs equal, only the application-wide list IAppDef.ACL() is in another order
			// (was C16-F8, fixed 4db55a7c2: the comparison is exact, this branch only names the regression)
			o.Deterministic, o.NonDet, o.AppACLOrder = false, what+": application-wide ACL order differs", true
		case raw && r1.Stage == "ok" && r.Stage == "ok" && !reflect.DeepEqual(*r1.Dump, *r.Dump):
			// exact comparison, rule order included; equal up to the order of the rules of one statement
			// was C16-F2 (fixed 87b96bf82)
			o.Deterministic, o.NonDet, o.RuleOrder = false, what+": ACL rule order differs", true
		}
	}
	same("second compilation", compileOnce(pkgs), true)
	if len(pkgs) >= 3 {
		// several application packages: whatever ranges over the map of packages shows only now and then
		for i := 0; i < 4 && o.Deterministic; i++ {
			same("repeated compilation", compileOnce(pkgs), true)
		}
	}
	if o.Deterministic && (len(pkgs) > 1 || len(pkgs[0].Files) > 1) {
		// statement order over files is part of the program: compared up to rule order
		same("reversed package/file order", compileOnce(permuted(pkgs)), false)
	}
	return o, r1
}

func sameBut(a, b c17.Dump) bool {
	a.AppACLDigest, b.AppACLDigest = "", ""
	return reflect.DeepEqual(a, b)
}
