package c16

import (
	"fmt"
	"strings"
	"time"

	"verifharness/c17"
	"verifharness/kit"

	"github.com/voedger/voedger/pkg/appdef"
	"github.com/voedger/voedger/pkg/appdef/builder"
	"github.com/voedger/voedger/pkg/appdef/filter"
	"github.com/voedger/voedger/pkg/parser"
)

// A definition described by dump items is put together through the appdef builder API (no VSQL, no
// parser) on top of the compiled sys package, in the order the parser's build steps use, and built.
// accepted = no Add... call panicked and Build() returned no error. This ties Model.v
// `builder_valid` to the real builder.

func qname(s string) appdef.QName {
	i := strings.Index(s, ".")
	if i < 0 {
		return appdef.NewQName("", s)
	}
	return appdef.NewQName(s[:i], s[i+1:])
}
func qnames(l []string) []appdef.QName {
	r := make([]appdef.QName, len(l))
	for i, s := range l {
		r[i] = qname(s)
	}
	return r
}

var dataKinds = map[string]appdef.DataKind{"int8": appdef.DataKind_int8, "int16": appdef.DataKind_int16, "int32": appdef.DataKind_int32,
	"int64": appdef.DataKind_int64, "float32": appdef.DataKind_float32, "float64": appdef.DataKind_float64, "bytes": appdef.DataKind_bytes,
	"string": appdef.DataKind_string, "QName": appdef.DataKind_QName, "bool": appdef.DataKind_bool, "RecordID": appdef.DataKind_RecordID}
var opKinds = map[string]appdef.OperationKind{"Insert": appdef.OperationKind_Insert, "Update": appdef.OperationKind_Update,
	"Activate": appdef.OperationKind_Activate, "Deactivate": appdef.OperationKind_Deactivate, "Select": appdef.OperationKind_Select,
	"Execute": appdef.OperationKind_Execute, "ExecuteWithParam": appdef.OperationKind_ExecuteWithParam, "Inherits": appdef.OperationKind_Inherits}
var scopeKinds = map[string]appdef.RateScope{"AppPartition": appdef.RateScope_AppPartition, "Workspace": appdef.RateScope_Workspace,
	"User": appdef.RateScope_User, "IP": appdef.RateScope_IP}

func ops(l []string) []appdef.OperationKind {
	r := make([]appdef.OperationKind, len(l))
	for i, s := range l {
		r[i] = opKinds[s]
	}
	return r
}
func typeKinds(t string) []appdef.TypeKind {
	switch t {
	case "records":
		return appdef.TypeKind_Records.AsArray()
	case "command":
		return []appdef.TypeKind{appdef.TypeKind_Command}
	case "query":
		return []appdef.TypeKind{appdef.TypeKind_Query}
	}
	return []appdef.TypeKind{appdef.TypeKind_ViewRecord}
}
func mkFilter(f c17.DFilter) appdef.IFilter {
	switch f.K {
	case "Q":
		return filter.QNames(qnames(f.Q)...)
	case "T":
		return filter.Types(typeKinds(f.T)...)
	case "WT":
		return filter.WSTypes(qname(f.W), typeKinds(f.T)...)
	case "AND":
		return filter.And(filter.Types(typeKinds(f.T)...), filter.QNames(qnames(f.Q)...))
	}
	panic("filter kind " + f.K)
}

func addFields(fb interface {
	AddField(appdef.FieldName, appdef.DataKind, bool, ...appdef.IConstraint) appdef.IFieldsBuilder
	AddRefField(appdef.FieldName, bool, ...appdef.QName) appdef.IFieldsBuilder
}, fs []c17.DField) {
	for _, f := range fs {
		if f.Sys {
			continue
		}
		if f.Refs != nil {
			fb.AddRefField(f.Name, f.Required, qnames(f.Refs)...)
		} else {
			fb.AddField(f.Name, dataKinds[f.Kind], f.Required)
		}
	}
}

func sysBuilder() appdef.IAppDefBuilder {
	mk := func(path, txt string) *parser.PackageSchemaAST {
		f, err := parser.ParseFile("f0.vsql", txt)
		if err != nil {
			panic(err)
		}
		p, err := parser.BuildPackageSchema(path, []*parser.FileSchemaAST{f})
		if err != nil {
			panic(err)
		}
		return p
	}
	app, err := parser.BuildAppSchema([]*parser.PackageSchemaAST{mk(appdef.SysPackage, c17.SysVSQL()), mk("github.com/verif/app0", "APPLICATION app0();")})
	if err != nil {
		panic(err)
	}
	b := builder.New()
	if err := parser.BuildAppDefs(app, b); err != nil {
		panic(err)
	}
	return b
}

func applyItems(items []c17.DItem) error {
	b := sysBuilder()
	wsb := map[string]appdef.IWorkspaceBuilder{}
	for _, it := range items {
		if it.Class == "ws" {
			wsb[it.QName] = b.AddWorkspace(qname(it.QName))
		}
	}
	ws := func(it c17.DItem) appdef.IWorkspaceBuilder {
		w, ok := wsb[it.WS]
		if !ok {
			panic("item " + it.QName + " in unknown workspace " + it.WS)
		}
		return w
	}
	structs := func(obj bool) {
		for _, it := range items {
			if it.Class != "struct" || (it.Kind == "Object") != obj {
				continue
			}
			var sb appdef.IStructureBuilder
			q := qname(it.QName)
			switch it.Kind {
			case "CDoc":
				x := ws(it).AddCDoc(q)
				if it.Singleton {
					x.SetSingleton()
				}
				sb = x
			case "WDoc":
				x := ws(it).AddWDoc(q)
				if it.Singleton {
					x.SetSingleton()
				}
				sb = x
			case "ODoc":
				sb = ws(it).AddODoc(q)
			case "CRecord":
				sb = ws(it).AddCRecord(q)
			case "WRecord":
				sb = ws(it).AddWRecord(q)
			case "ORecord":
				sb = ws(it).AddORecord(q)
			case "Object":
				sb = ws(it).AddObject(q)
			default:
				panic("struct kind " + it.Kind)
			}
			addFields(sb, it.Fields)
			for _, c := range it.Containers {
				sb.AddContainer(c.Name, qname(c.Type), appdef.Occurs(c.Min), appdef.Occurs(c.Max))
			}
			for _, u := range it.Uniques {
				sb.AddUnique(qname(u.Name), append([]string{}, u.Fields...))
			}
			if it.Abstract {
				sb.SetAbstract()
			}
		}
	}
	structs(true) // types(): objects first
	for _, it := range items {
		if it.Class == "rate" {
			var sc []appdef.RateScope
			for _, s := range it.Scopes {
				sc = append(sc, scopeKinds[s])
			}
			ws(it).AddRate(qname(it.QName), it.Count, time.Duration(it.Period)*time.Second, sc)
		}
	}
	structs(false)
	for _, it := range items {
		if it.Class == "view" {
			vb := ws(it).AddView(qname(it.QName))
			for _, f := range it.PartKey {
				if f.Refs != nil {
					vb.Key().PartKey().AddRefField(f.Name, qnames(f.Refs)...)
				} else {
					vb.Key().PartKey().AddField(f.Name, dataKinds[f.Kind])
				}
			}
			for _, f := range it.ClustCols {
				if f.Refs != nil {
					vb.Key().ClustCols().AddRefField(f.Name, qnames(f.Refs)...)
				} else {
					vb.Key().ClustCols().AddField(f.Name, dataKinds[f.Kind])
				}
			}
			addFields(vb.Value(), it.Value)
		}
	}
	funcs := func(cmd bool) {
		for _, it := range items {
			if it.Class != "func" || (it.Kind == "Command") != cmd {
				continue
			}
			var fb appdef.IFunctionBuilder
			if cmd {
				cb := ws(it).AddCommand(qname(it.QName))
				if it.Unlogged != "" {
					cb.SetUnloggedParam(qname(it.Unlogged))
				}
				fb = cb
			} else {
				fb = ws(it).AddQuery(qname(it.QName))
			}
			if it.Param != "" {
				fb.SetParam(qname(it.Param))
			}
			if it.Result != "" {
				fb.SetResult(qname(it.Result))
			}
			fb.SetName(qname(it.QName).Entity())
		}
	}
	funcs(true)
	for _, it := range items {
		if it.Class == "proj" {
			pb := ws(it).AddProjector(qname(it.QName))
			for _, e := range it.Events {
				pb.Events().Add(ops(e.Ops), mkFilter(e.Filter))
			}
			for _, s := range it.Intents { // "sys.View(a.V1,a.V2)"
				i := strings.Index(s, "(")
				var names []appdef.QName
				if in := s[i+1 : len(s)-1]; in != "" {
					names = qnames(strings.Split(in, ","))
				}
				pb.Intents().Add(qname(s[:i]), names...)
			}
			pb.SetName(qname(it.QName).Entity())
			pb.SetSync(it.Sync)
		}
	}
	for _, it := range items {
		if it.Class == "role" {
			ws(it).AddRole(qname(it.QName)).SetPublished(it.Published)
		}
	}
	funcs(false)
	for _, it := range items {
		if it.Class == "ws" {
			w := wsb[it.QName]
			if it.Abstract {
				w.SetAbstract()
			}
			if it.Descriptor != "" {
				w.SetDescriptor(qname(it.Descriptor))
			}
			var anc []appdef.QName
			for _, a := range it.Ancestors {
				if a != "sys.Workspace" {
					anc = append(anc, qname(a))
				}
			}
			if len(anc) > 0 {
				w.SetAncestors(anc[0], anc[1:]...)
			}
			for _, u := range it.Used {
				w.UseWorkspace(qname(u))
			}
		}
	}
	for _, it := range items {
		if it.Class == "ws" {
			for _, r := range it.ACL {
				fields := append([]string{}, r.Fields...)
				if r.Policy == "Allow" {
					wsb[it.QName].Grant(ops(r.Ops), mkFilter(r.Filter), fields, qname(r.Role))
				} else {
					wsb[it.QName].Revoke(ops(r.Ops), mkFilter(r.Filter), fields, qname(r.Role))
				}
			}
		}
	}
	for _, it := range items {
		if it.Class == "limit" {
			opt := appdef.LimitFilterOption_ALL
			if it.Option == "EACH" {
				opt = appdef.LimitFilterOption_EACH
			}
			ws(it).AddLimit(qname(it.QName), ops(it.Ops), opt, mkFilter(*it.Filter), qname(it.Rate))
		}
	}
	_, err := b.Build()
	return err
}

// BuildFromItems: accepted, and why not
func BuildFromItems(items []c17.DItem) (ok bool, why string) {
	defer func() {
		if p := recover(); p != nil {
			ok, why = false, "panic: "+fmt.Sprint(p)
		}
	}()
	if err := applyItems(items); err != nil {
		return false, "Build: " + err.Error()
	}
	return true, ""
}

// ---- single-clause violations of an accepted definition ----

var itemMutations = []string{"ref-unknown", "ref-to-object", "container-unknown", "container-wrong-kind", "param-cdoc", "param-unknown",
	"result-record", "view-no-cc", "view-string-pk", "view-var-not-last", "unique-unknown-field", "uniques-101", "unique-subset",
	"limit-unknown-rate", "limit-unknown-target", "acl-unknown-role", "acl-unknown-target", "ws-unknown-ancestor", "ws-unknown-used",
	"ws-foreign-descriptor", "proj-unknown-trigger", "proj-unknown-intent", "dup-field", "bad-field-name", "dup-type", "unique-257-fields",
	"container-zero-max", "long-type-name", "acl-invisible-role", "none"}

func clone(items []c17.DItem) []c17.DItem {
	res := make([]c17.DItem, len(items))
	for i, it := range items {
		it.Fields = append([]c17.DField{}, it.Fields...)
		it.Containers = append([]c17.DContainer{}, it.Containers...)
		it.Uniques = append([]c17.DUnique{}, it.Uniques...)
		it.PartKey = append([]c17.DField{}, it.PartKey...)
		it.ClustCols = append([]c17.DField{}, it.ClustCols...)
		it.Value = append([]c17.DField{}, it.Value...)
		it.ACL = append([]c17.DRule{}, it.ACL...)
		it.Events = append([]c17.DRule{}, it.Events...)
		it.Intents = append([]string{}, it.Intents...)
		it.Ancestors = append([]string{}, it.Ancestors...)
		it.Used = append([]string{}, it.Used...)
		if it.Filter != nil {
			f := *it.Filter
			it.Filter = &f
		}
		res[i] = it
	}
	return res
}

// MutateItems applies the named mutation to a copy; ok = applicable
func MutateItems(r *kit.Rng, src []c17.DItem, m string) ([]c17.DItem, bool) {
	items := clone(src)
	pick := func(f func(*c17.DItem) bool) *c17.DItem {
		var c []int
		for i := range items {
			if f(&items[i]) {
				c = append(c, i)
			}
		}
		if len(c) == 0 {
			return nil
		}
		return &items[kit.Pick(r, c)]
	}
	isRec := func(it *c17.DItem) bool { return it.Class == "struct" && it.Kind != "Object" }
	find := func(f func(*c17.DItem) bool) string {
		if it := pick(f); it != nil {
			return it.QName
		}
		return ""
	}
	const unknown = "app1.NoSuchThing"
	userField := func(it *c17.DItem) int {
		for i, f := range it.Fields {
			if !f.Sys {
				return i
			}
		}
		return -1
	}
	switch m {
	case "none":
		return items, true
	case "ref-unknown", "ref-to-object":
		it := pick(isRec)
		target := unknown
		if m == "ref-to-object" {
			target = find(func(x *c17.DItem) bool { return x.Class == "struct" && x.Kind == "Object" })
		}
		if it == nil || target == "" {
			return nil, false
		}
		it.Fields = append(it.Fields, c17.DField{Name: "zref", Kind: "RecordID", MaxLen: -1, Refs: []string{target}})
		return items, true
	case "container-unknown", "container-wrong-kind", "container-zero-max":
		it := pick(func(x *c17.DItem) bool { return x.Class == "struct" && x.Kind == "CDoc" })
		if it == nil {
			return nil, false
		}
		c := c17.DContainer{Name: "zcont", Type: unknown, Min: 0, Max: 100}
		if m == "container-wrong-kind" {
			if c.Type = find(func(x *c17.DItem) bool {
				return x.Class == "struct" && (x.Kind == "WRecord" || x.Kind == "CDoc" || x.Kind == "Object")
			}); c.Type == "" {
				return nil, false
			}
		}
		if m == "container-zero-max" {
			if c.Type = find(func(x *c17.DItem) bool { return x.Class == "struct" && x.Kind == "CRecord" }); c.Type == "" {
				return nil, false
			}
			c.Max = 0
		}
		it.Containers = append(it.Containers, c)
		return items, true
	case "param-cdoc", "param-unknown", "result-record":
		it := pick(func(x *c17.DItem) bool { return x.Class == "func" && x.Kind == "Command" })
		if it == nil {
			return nil, false
		}
		switch m {
		case "param-unknown":
			it.Param = unknown
		case "param-cdoc":
			if it.Param = find(func(x *c17.DItem) bool { return x.Class == "struct" && (x.Kind == "CDoc" || x.Kind == "WDoc") }); it.Param == "" {
				return nil, false
			}
		default:
			if it.Result = find(func(x *c17.DItem) bool { return x.Class == "struct" && strings.HasSuffix(x.Kind, "Record") }); it.Result == "" {
				return nil, false
			}
		}
		return items, true
	case "view-no-cc", "view-string-pk", "view-var-not-last":
		it := pick(func(x *c17.DItem) bool { return x.Class == "view" })
		if it == nil {
			return nil, false
		}
		switch m {
		case "view-no-cc":
			it.ClustCols = nil
		case "view-string-pk":
			it.PartKey = append(it.PartKey, c17.DField{Name: "zpk", Kind: "string", Required: true, MaxLen: -1})
		default:
			it.ClustCols = append([]c17.DField{{Name: "zcc", Kind: "bytes", MaxLen: -1}}, it.ClustCols...)
		}
		return items, true
	case "unique-unknown-field", "uniques-101", "unique-subset", "unique-257-fields":
		it := pick(func(x *c17.DItem) bool { return isRec(x) && userField(x) >= 0 })
		if it == nil {
			return nil, false
		}
		un := func(n string) string { return it.QName + "$uniques$" + n }
		switch m {
		case "unique-unknown-field":
			it.Uniques = append(it.Uniques, c17.DUnique{Name: un("zu"), Fields: []string{"nosuchfield"}})
		case "unique-subset":
			it.Uniques = nil
			f := it.Fields[userField(it)].Name
			it.Fields = append(it.Fields, c17.DField{Name: "zf", Kind: "int32", MaxLen: -1})
			it.Uniques = append(it.Uniques, c17.DUnique{Name: un("za"), Fields: []string{f, "zf"}}, c17.DUnique{Name: un("zb"), Fields: []string{f}})
		case "uniques-101":
			it.Uniques = nil
			for i := 0; i < 101; i++ {
				n := fmt.Sprintf("zq%d", i)
				it.Fields = append(it.Fields, c17.DField{Name: n, Kind: "int32", MaxLen: -1})
				it.Uniques = append(it.Uniques, c17.DUnique{Name: un(n), Fields: []string{n}})
			}
		default:
			it.Uniques = nil
			var fs []string
			for i := 0; i < 257; i++ {
				n := fmt.Sprintf("zq%d", i)
				it.Fields = append(it.Fields, c17.DField{Name: n, Kind: "int32", MaxLen: -1})
				fs = append(fs, n)
			}
			it.Uniques = append(it.Uniques, c17.DUnique{Name: un("zall"), Fields: fs})
		}
		return items, true
	case "limit-unknown-rate", "limit-unknown-target":
		it := pick(func(x *c17.DItem) bool {
			return x.Class == "limit" && (m == "limit-unknown-rate" || x.Filter.K == "AND")
		})
		if it == nil {
			return nil, false
		}
		if m == "limit-unknown-rate" {
			it.Rate = unknown
		} else {
			it.Filter.Q = []string{unknown}
		}
		return items, true
	case "acl-unknown-role", "acl-unknown-target", "acl-invisible-role":
		it := pick(func(x *c17.DItem) bool {
			if x.Class != "ws" {
				return false
			}
			for _, r := range x.ACL {
				if m != "acl-unknown-target" || r.Filter.K == "Q" {
					return true
				}
			}
			return false
		})
		if it == nil {
			return nil, false
		}
		for i := range it.ACL {
			switch {
			case m == "acl-unknown-role":
				it.ACL[i].Role = unknown
				return items, true
			case m == "acl-invisible-role":
				// a role of a workspace that is neither this one nor an ancestor
				vis := map[string]bool{it.QName: true}
				for _, a := range it.Ancestors {
					vis[a] = true
				}
				if role := find(func(x *c17.DItem) bool { return x.Class == "role" && !vis[x.WS] }); role != "" {
					it.ACL[i].Role = role
					return items, true
				}
				return nil, false
			case it.ACL[i].Filter.K == "Q":
				it.ACL[i].Filter.Q = []string{unknown}
				return items, true
			}
		}
	case "ws-unknown-ancestor", "ws-unknown-used", "ws-foreign-descriptor":
		it := pick(func(x *c17.DItem) bool {
			return x.Class == "ws" && (m != "ws-foreign-descriptor" || x.Descriptor != "")
		})
		if it == nil {
			return nil, false
		}
		switch m {
		case "ws-unknown-ancestor":
			it.Ancestors = append(it.Ancestors, unknown)
		case "ws-unknown-used":
			it.Used = append(it.Used, unknown)
		default:
			d := find(func(x *c17.DItem) bool { return x.Class == "struct" && x.Kind == "CDoc" && x.WS != it.QName })
			if d == "" {
				return nil, false
			}
			it.Descriptor = d
		}
		return items, true
	case "proj-unknown-trigger", "proj-unknown-intent":
		it := pick(func(x *c17.DItem) bool {
			return x.Class == "proj" && len(x.Events) > 0 && (m == "proj-unknown-trigger" || len(x.Intents) > 0)
		})
		if it == nil {
			return nil, false
		}
		if m == "proj-unknown-trigger" {
			it.Events[0].Filter = c17.DFilter{K: "Q", Q: []string{unknown}}
		} else {
			it.Intents = []string{"sys.View(" + unknown + ")"}
		}
		return items, true
	case "dup-field", "bad-field-name":
		it := pick(func(x *c17.DItem) bool { return x.Class == "struct" && userField(x) >= 0 })
		if it == nil {
			return nil, false
		}
		f := it.Fields[userField(it)]
		if m == "bad-field-name" {
			f.Name = "9bad"
		}
		it.Fields = append(it.Fields, f)
		return items, true
	case "dup-type":
		it := pick(func(x *c17.DItem) bool { return x.Class == "role" })
		other := find(func(x *c17.DItem) bool { return x.Class == "struct" })
		if it == nil || other == "" {
			return nil, false
		}
		it.QName = other
		return items, true
	case "long-type-name":
		it := pick(func(x *c17.DItem) bool { return x.Class == "role" })
		if it == nil {
			return nil, false
		}
		it.QName = it.QName + strings.Repeat("x", 256)
		return items, true
	}
	return nil, false
}
