package c16

import (
	"encoding/json"
	"fmt"
	"os"
	"path/filepath"
	"regexp"
	"sort"
	"strconv"
	"strings"

	"verifharness/c17"
	"verifharness/kit"
)

func init() {
	kit.Register("C16", kit.Runner{Generate: Generate, Replay: Replay})
}

// caseFile: a corpus / replay case; exactly one of Schema, Items, Texts, Gen is set
type caseFile struct {
	Kind   string        `json:"kind"`
	Note   string        `json:"note,omitempty"`
	Schema c17.Schema    `json:"schema,omitempty"`
	Items  []c17.DItem   `json:"items,omitempty"`
	Texts  []c17.PkgText `json:"texts,omitempty"`
	Gen    string        `json:"gen,omitempty"` // a text produced by a named generator (too big to store)
	// the compiler must refuse the text and its error must contain this (trace TTextErr); also implied by the kind
	ExpectErr string `json:"expect_err,omitempty"`
}

func cObs(o TextObs) string {
	return fmt.Sprintf("(TextObs %s %s %s %s %s %s)", c17.CoqBool(o.Panicked), c17.CoqBool(o.Hung), c17.CoqBool(o.Accepted),
		c17.CoqBool(o.Built), c17.CoqBool(o.Positioned), c17.CoqBool(o.Deterministic))
}

// tags computed from the observed behaviour
func obsTags(o TextObs, texts []c17.PkgText) []string {
	tags := []string{"outcome:" + o.Stage}
	if o.Panicked {
		switch {
		case strings.Contains(o.Err, "too many") || strings.Contains(o.Err, "too long") || strings.Contains(o.Err, "is invalid") || strings.Contains(o.Err, "invalid type name"):
			tags = append(tags, "C16-F1:builder-precondition-panic") // fixed 2c1d463a7: a regression
		case o.Stage == "panic" && o.Err == "no current workspace":
			tags = append(tags, "C16-F3:role-outside-workspace-panic") // fixed 7ddd85b13: a regression
		case o.Stage == "panic" && strings.Contains(o.Err, "nil pointer dereference") && hasViewOfJob(texts):
			tags = append(tags, "C16-F4:view-result-of-job-nil-dereference") // fixed a6c74ddce: a regression
		case o.Stage == "died" && strings.Contains(o.Err, "stack") && strings.Contains(o.Err, "fillTable"):
			tags = append(tags, "C16-F11:system-table-on-inherits-cycle-stack-overflow") // fixed 0a0d68cc1: a regression
		case o.Stage == "died" && strings.Contains(o.Err, "stack") && strings.Contains(o.Err, "participle") && !strings.Contains(o.Err, "voedger/pkg"):
			tags = append(tags, "C16-F17:deep-nesting-stack-overflow-in-parser") // fixed 300f06f2c: a regression
		case o.Stage == "died" && strings.Contains(o.Err, "stack") && strings.Contains(o.Err, "parser.lookupField") && hasFieldSetCycle(texts):
			tags = append(tags, "C16-F9:field-set-cycle-stack-overflow-in-field-lookup") // fixed 87e6dec40: a regression
		case o.Stage == "died" && strings.Contains(o.Err, "stack") && hasFieldSetCycle(texts):
			tags = append(tags, "C16-F5:field-set-cycle-stack-overflow") // fixed f76fc3ec8: a regression
		default:
			tags = append(tags, "panic:other")
		}
	}
	if o.Hung {
		switch {
		case sourceHas(texts, "GRANT") && hasFieldSetCycle(texts):
			tags = append(tags, "C16-F20:grant-column-lookup-explodes-on-field-set-cycle") // fixed 2a6677897: a regression
		case includesTwice(texts):
			tags = append(tags, "C16-F21:field-sets-included-along-many-paths-exponential") // fixed 8994eec81: a regression
		default:
			tags = append(tags, "hang")
		}
	}
	if o.Stage == "died" {
		tags = append(tags, "process-died")
	}
	if o.Accepted && !o.Built {
		switch {
		case strings.Contains(o.Err, "partition key fields"):
			tags = append(tags, "C16-F6:view-without-partition-key-refused-by-build") // fixed 55541a167: a regression
		case strings.Contains(o.Err, "ACL filter") && strings.Contains(o.Err, "has no matches"):
			tags = append(tags, "C16-F7:grant-matching-nothing-refused-by-build") // fixed 510061369: a regression
		case strings.Contains(o.Err, "reference field") && strings.Contains(o.Err, "to unknown table") && strings.Contains(o.Err, "sys.BLOB"):
			tags = append(tags, "C16-F23:blob-field-without-sys-blob-refused-by-build") // fixed ef5455249: a regression
		case strings.Contains(o.Err, "parameter type") && strings.Contains(o.Err, "should be") || strings.Contains(o.Err, "result type") && strings.Contains(o.Err, "should be"):
			tags = append(tags, "C16-F12:function-parameter-kind-refused-by-build") // fixed fc0be6878: a regression
		case strings.Contains(o.Err, "expected exactly 5 fields") && strings.Contains(o.Err, "cron schedule"):
			tags = append(tags, "C16-F13:job-cron-with-seconds-refused-by-build") // fixed b868c7680: a regression
		case strings.Contains(o.Err, "Limit") && strings.Contains(o.Err, "has no matches") && strings.Contains(o.Err, "TAGS("):
			tags = append(tags, "C16-F14:limit-over-empty-tag-refused-by-build")
		case sourceHas(texts, "ALTER WORKSPACE") && (strings.Contains(o.Err, "has no matches in Workspace") || strings.Contains(o.Err, "container") && strings.Contains(o.Err, "type") && strings.Contains(o.Err, "not found")):
			tags = append(tags, "C16-F15:alter-workspace-names-leak-refused-by-build")
		case sourceHasRe(texts, importAliasRe) && strings.Contains(o.Err, "invalid or unknown") && strings.Contains(o.Err, "type") && strings.Contains(o.Err, "not found"):
			tags = append(tags, "C16-F16:import-alias-parameter-refused-by-build") // fixed 385a7f25a: a regression
		default:
			tags = append(tags, "build-failed-after-nil-error")
		}
	}
	if !o.Positioned {
		if builderRefusal(o) {
			tags = append(tags, "C16-F1b:builder-refusal-without-position")
		} else if o.Stage == "build" && len(o.Unpositioned) == 1 && (strings.HasSuffix(o.Unpositioned[0], "unsupported operation: REVOKE Inherits") ||
			strings.HasPrefix(o.Unpositioned[0], "invalid application definition: not found: field «sys.")) {
			tags = append(tags, "C16-F24:revoke-role-or-missing-sys-field-without-position") // fixed 1d9ef77e6: a regression
		} else if o.Stage == "build" && len(o.Unpositioned) == 1 && unpositionedRefusal(o.Unpositioned[0]) {
			// four more refusals of the definition builder that the parser could have stated with a position
			tags = append(tags, "C16-F19:builder-refusal-without-position-2")
		} else if o.Stage == "build" && len(o.Unpositioned) == 1 && o.Unpositioned[0] == "incorrect nested table kind" {
			// a field `name RecordTable` of another family than the containing table
			tags = append(tags, "C16-F10:wrong-family-container-error-without-position") // fixed 70f4f5752: a regression
		} else {
			tags = append(tags, "error-without-position")
		}
	}
	// C16-F5b: a "circular reference in field sets" although no TYPE includes itself (the guard of f76fc3ec8 is
	// shared by tables built on demand in the middle of another one)
	if o.Err != "" && !accepted2(o) && !hasFieldSetCycle(texts) {
		only := true
		for _, l := range strings.Split(strings.TrimSpace(o.Err), "\n") {
			only = only && strings.HasSuffix(l, "circular reference in field sets")
		}
		if only {
			tags = append(tags, "C16-F5b:false-field-set-cycle") // fixed 243abdcb2: a regression
		}
	}
	if !o.Deterministic && strings.Contains(o.NonDet, " vs ") && !hasFieldSetCycle(texts) && sourceHasRe(texts, fieldSetRe) {
		tags = append(tags, "C16-F5b:false-field-set-cycle") // fixed 243abdcb2: a regression
	}
	if !o.Deterministic && strings.Contains(o.NonDet, "definitions differ") && sourceHas(texts, "Comment=") {
		tags = append(tags, "C16-F22:nested-table-comment-depends-on-build-order") // fixed 6660b8410: a regression
	}
	if !o.Deterministic {
		if o.RuleOrder {
			tags = append(tags, "C16-F2:acl-rule-order-nondeterministic") // fixed 87b96bf82: a regression
		} else if o.AppACLOrder {
			tags = append(tags, "C16-F8:application-acl-order-nondeterministic") // fixed 4db55a7c2: a regression
		} else {
			tags = append(tags, "nondeterministic")
		}
	}
	return tags
}

// the five shapes of C16-F1b: the builder refused the definition (limit of uniques / unique fields /
// fields, or a generated descriptor / unique name that is too long), buildAppDefs reports it as one
// error without file position although the offending statement has one
var refusalShapes = []string{"too many: uniques", "too many: fields in unique", "too many: fields, maximum", "invalid type name", "unique name"}

func builderRefusal(o TextObs) bool {
	if o.Stage != "build" || len(o.Unpositioned) != 1 || !strings.HasPrefix(o.Unpositioned[0], "invalid application definition: ") {
		return false
	}
	for _, s := range refusalShapes {
		if strings.Contains(o.Unpositioned[0], s) {
			return true
		}
	}
	return false
}

func withSys(texts []c17.PkgText) []c17.PkgText {
	return append([]c17.PkgText{{Path: "sys", Files: []string{c17.SysVSQL()}}}, texts...)
}

func runModel(a c17.Schema, kind string, out *kit.Out) *Result {
	texts := c17.Render(a)
	o, r := Observe(withSys(texts))
	co := c17.Observed{Stage: r.Stage, Err: r.Err, Dump: r.Dump, SysUnchanged: true, Deterministic: o.Deterministic}
	if r.Stage == "validate" {
		co.Stage = "build"
	}
	coq := fmt.Sprintf("(TModel %s %s %s %s)", c17.CoqSchema(a), c17.CoqTexts(texts), c17.CoqOutcome(co), cObs(o))
	desc := map[string]any{"kind": kind, "schema": a, "texts": texts, "observed": o}
	key := kind
	if strings.HasPrefix(kind, "model:valid") {
		key = fmt.Sprintf("%s p%d len%d", kind, len(a), len(coq)/2000)
	}
	out.Emit(kit.Case{Coq: coq, Key: key, Nontrivial: r.Stage == "ok", Desc: desc, Tags: append(obsTags(o, withSys(texts)), "stream:model", kind)})
	return &r
}

func runBuilder(items []c17.DItem, kind string, out *kit.Out) {
	ok, why := BuildIsolated(items)
	coq := fmt.Sprintf("(TBuilder %s %s)", c17.CoqItems(items), c17.CoqBool(ok))
	desc := map[string]any{"kind": kind, "items": items, "observed": map[string]any{"accepted": ok, "why": why}}
	out.Emit(kit.Case{Coq: coq, Key: kind, Nontrivial: true, Desc: desc, Tags: []string{"stream:builder-api", kind, fmt.Sprintf("builder-accepted:%v", ok)}})
}

// kinds that must be refused with a stated reason
func expectedError(kind string) string {
	if strings.Contains(kind, "semicolons-over-1000") || strings.Contains(kind, "deep-workspaces-semicolons") || strings.Contains(kind, "deep-expression") {
		return "parentheses nested deeper than"
	}
	return ""
}

func runText(texts []c17.PkgText, kind string, out *kit.Out, store bool) {
	runTextExpect(texts, kind, out, store, expectedError(kind))
}

func runTextExpect(texts []c17.PkgText, kind string, out *kit.Out, store bool, expectErr string) {
	o, _ := Observe(texts)
	desc := map[string]any{"kind": kind, "observed": o}
	if store {
		desc["texts"] = texts
	}
	stream := "stream:" + strings.SplitN(kind, ":", 2)[0]
	// a crafted program built to be well-formed (no token edit on top): it must compile and build
	tr := "TText"
	if (strings.Contains(kind, "shape:ok-") || strings.Contains(kind, "container-right-family")) && !strings.Contains(kind, "+") {
		tr = "TTextOk"
	}
	tags := obsTags(o, texts)
	if tr == "TTextOk" && !o.Built {
		tags = append(tags, controlTags(o, texts)...)
	}
	coq := "(" + tr + " " + cObs(o) + ")"
	if expectErr != "" {
		as := !o.Accepted && strings.Contains(o.Err, expectErr)
		coq = "(TTextErr " + cObs(o) + " " + c17.CoqBool(as) + ")"
		desc["expect_err"] = expectErr
		if !as {
			tags = append(tags, "expected-refusal-missing")
		}
	}
	out.Emit(kit.Case{Coq: coq, Key: kind + " " + o.Stage, Nontrivial: o.Stage != "parse", Desc: desc,
		Tags: append(tags, stream, "observed-only")})
}

func genText(name string) []c17.PkgText {
	if f := strings.Split(name, ":"); len(f) == 4 && f[0] == "container" { // container:<doc>:<rec>:<placement>
		return containerProgram(f[1], f[2], f[3])
	}
	if strings.HasPrefix(name, "deep-expression:") { // deep-expression:<levels of parentheses>
		if k, err := strconv.Atoi(name[16:]); err == nil {
			return withSys([]c17.PkgText{{Path: "github.com/verif/app1", Files: []string{
				"APPLICATION app1(); WORKSPACE W ( TABLE T INHERITS sys.CDoc (a int32 CHECK (" + strings.Repeat("(", k) + "a" + strings.Repeat(")", k) + " > 0)); );"}}})
		}
		return nil
	}
	if f := strings.Split(name, ":"); len(f) == 3 && f[0] == "doubling" { // doubling:<levels>:<types|table|unique|grant>
		if k, err := strconv.Atoi(f[1]); err == nil {
			return doublingFieldSets(k, f[2])
		}
		return nil
	}
	if strings.HasPrefix(name, "nested-semicolons:") { // not too big to store: the replay holds the text
		if k, err := strconv.Atoi(name[len("nested-semicolons:"):]); err == nil {
			return withSys([]c17.PkgText{{Path: "github.com/verif/app1", Files: []string{"APPLICATION app1(); " + strings.Repeat("WORKSPACE W (; ", k)}}})
		}
		return nil
	}
	if strings.HasPrefix(name, "deep-workspaces-semicolons:") {
		if k, err := strconv.Atoi(name[len("deep-workspaces-semicolons:"):]); err == nil {
			return withSys([]c17.PkgText{{Path: "github.com/verif/app1", Files: []string{"APPLICATION app1(); " + strings.Repeat("WORKSPACE W (; ", k)}}})
		}
		return nil
	}
	if strings.HasPrefix(name, "syscycle:") {
		return sysCycle(name[9:])
	}
	if strings.HasPrefix(name, "shape:") { // shape:<name of a crafted program>
		if m, ok := multiShapes[name[6:]]; ok {
			return withSys(m)
		}
		for _, sh := range shapeCatalogue {
			if sh[0] == name[6:] {
				return withSys([]c17.PkgText{{Path: "github.com/verif/app1", Files: []string{sh[1]}}})
			}
		}
		return nil
	}
	switch name {
	case "big-table-65540-fields":
		var fs []string
		for i := 0; i < 65540; i++ {
			fs = append(fs, fmt.Sprintf("f%d int32", i))
		}
		return withSys([]c17.PkgText{{Path: "github.com/verif/app1", Files: []string{
			"APPLICATION app1(); WORKSPACE W ( TABLE T INHERITS sys.CDoc (" + strings.Join(fs, ", ") + "); );"}}})
	}
	return nil
}

func runCaseFile(c caseFile, prefix string, out *kit.Out) error {
	switch {
	case len(c.Schema) > 0:
		runModel(c.Schema, prefix+c.Kind, out)
	case len(c.Items) > 0:
		runBuilder(c.Items, prefix+c.Kind, out)
	case len(c.Texts) > 0:
		runTextExpect(c.Texts, prefix+c.Kind, out, true, firstNonEmpty(c.ExpectErr, expectedError(c.Kind)))
	case c.Gen != "":
		t := genText(c.Gen)
		if t == nil {
			return fmt.Errorf("unknown generator %q", c.Gen)
		}
		runTextExpect(t, prefix+c.Kind, out, !strings.HasPrefix(c.Gen, "big-") && !strings.HasPrefix(c.Gen, "deep-"), // the big ones are not stored in the evidence
			firstNonEmpty(c.ExpectErr, expectedError(c.Kind)))
	default:
		return fmt.Errorf("empty case")
	}
	return nil
}

func loadCase(path string) (caseFile, error) {
	var c caseFile
	b, err := os.ReadFile(path)
	if err != nil {
		return c, err
	}
	var wrap struct {
		Case struct {
			Desc caseFile `json:"desc"`
		} `json:"case"`
	}
	if json.Unmarshal(b, &wrap) == nil && wrap.Case.Desc.Kind != "" {
		return wrap.Case.Desc, nil
	}
	err = json.Unmarshal(b, &c)
	return c, err
}

func Replay(path string, out *kit.Out) error {
	c, err := loadCase(path)
	if err != nil {
		return err
	}
	return runCaseFile(c, "", out)
}

// ---- boundary cases of stream (a): the limits the builder enforces and the parser does not ----

var boundaries = []string{"uniques-100", "uniques-101", "unique-fields-256", "unique-fields-257", "ws-name-245", "ws-name-246",
	"table-name-244-unique", "table-name-245-unique", "table-name-255"}

func boundary(a c17.Schema, b string) {
	ws := &a[0].Files[0][0]
	n := func(k int) string { return "B" + strings.Repeat("a", k-1) }
	tab := func(name string, nf int, uniques [][]string) {
		t := &c17.Table{Name: name, Inh: &c17.QRef{Pkg: "sys", Name: "CDoc"}}
		for i := 0; i < nf; i++ {
			t.Items = append(t.Items, c17.TItem{Field: &c17.Field{Name: fmt.Sprintf("bf%d", i), Type: c17.DType{K: "int32"}}})
		}
		for _, u := range uniques {
			t.Items = append(t.Items, c17.TItem{Unique: &c17.Unique{Fields: u}})
		}
		ws.Items = append([]c17.WsItem{{Table: t}}, ws.Items...)
	}
	each := func(k int) (u [][]string) {
		for i := 0; i < k; i++ {
			u = append(u, []string{fmt.Sprintf("bf%d", i)})
		}
		return
	}
	all := func(k int) [][]string {
		var f []string
		for i := 0; i < k; i++ {
			f = append(f, fmt.Sprintf("bf%d", i))
		}
		return [][]string{f}
	}
	switch b {
	case "uniques-100":
		tab("Bnd1", 100, each(100))
	case "uniques-101":
		tab("Bnd1", 101, each(101))
	case "unique-fields-256":
		tab("Bnd1", 256, all(256))
	case "unique-fields-257":
		tab("Bnd1", 257, all(257))
	case "ws-name-245", "ws-name-246":
		k := 245
		if b == "ws-name-246" {
			k = 246
		}
		a[0].Files[0] = append(a[0].Files[0], c17.Ws{Name: n(k), Items: []c17.WsItem{}})
	case "table-name-244-unique":
		tab(n(244), 1, each(1))
	case "table-name-245-unique":
		tab(n(245), 1, each(1))
	case "table-name-255":
		tab(n(255), 1, nil)
	}
}

func Generate(seed uint64, n int, tier, corpusDir string, shard int, out *kit.Out) error {
	if corpusDir != "" {
		files, _ := filepath.Glob(filepath.Join(corpusDir, "*.json"))
		sort.Strings(files)
		for _, f := range files {
			c, err := loadCase(f)
			if err != nil {
				return fmt.Errorf("%s: %w", f, err)
			}
			if err := runCaseFile(c, "corpus:", out); err != nil {
				return fmt.Errorf("%s: %w", f, err)
			}
		}
	}
	r := kit.NewRng(seed)
	donors := donorTokens()
	if len(donors) == 0 {
		return fmt.Errorf("no .vsql sources found under %s", repoRoot())
	}
	progNames := []string{"parser-example-app", "real-sys", "vrestaurant"}
	progs := map[string][]c17.PkgText{}
	for _, name := range progNames {
		p, err := loadProgram(name)
		if err != nil {
			return err
		}
		if res := compileOnce(p); res.Stage != "ok" {
			return fmt.Errorf("shipped program %s does not compile as it is: %s %s", name, res.Stage, res.Err)
		}
		progs[name] = p
	}
	var lastDump []c17.DItem // an accepted definition to take apart through the builder API
	malformed, builderCases, containers := shard*7, shard*11, shard*5
	for i := 0; i < n; i++ {
		cr := r.Fork()
		switch i % 10 {
		case 0, 5: // generated AST, valid
			a := c17.GenSchema(cr, i%20 == 0)
			if res := runModel(a, "model:valid", out); res.Stage == "ok" && len(res.Dump.Items) < 60 {
				lastDump = res.Dump.Items
			}
		case 1, 7: // one language rule broken; the kinds are cycled through so that a quick run covers all
			a := c17.GenSchema(cr, false)
			kind := "model:valid"
			muts := c17.Mutations()
			stride := 7
			for gcd(stride, len(muts)) != 1 {
				stride++
			}
			malformed++
			for k := 0; k < len(muts); k++ {
				if m := muts[(malformed*stride+k)%len(muts)]; c17.MutateKind(cr, a, m) { // a quick run samples the whole list
					kind = "model:malformed:" + m
					break
				}
			}
			runModel(a, kind, out)
		case 2: // a builder limit approached / crossed
			a := c17.GenSchema(cr, false)
			b := boundaries[(i/10)%len(boundaries)]
			boundary(a, b)
			runModel(a, "model:boundary:"+b, out)
		case 3, 8: // a definition through the builder API, one clause violated
			if lastDump == nil {
				a := c17.GenSchema(cr, false)
				if _, res := Observe(withSys(c17.Render(a))); res.Stage == "ok" {
					lastDump = res.Dump.Items
				}
			}
			if lastDump == nil {
				continue
			}
			if i%10 == 8 && i%20 == 8 { // rebuilt unchanged: must be accepted
				runBuilder(lastDump, "builder:none", out)
				continue
			}
			builderCases++
			start := builderCases
			for k := 0; k < len(itemMutations); k++ {
				m := itemMutations[(start+k)%len(itemMutations)]
				if items, ok := MutateItems(cr, lastDump, m); ok {
					runBuilder(items, "builder:"+m, out)
					break
				}
			}
		case 4: // token-level mutation of a shipped program
			name := progNames[cr.Intn(len(progNames))]
			texts, kinds := mutateText(cr, progs[name], donors)
			runText(texts, "text:"+name+":"+kinds, out, true)
		case 6: // statement-level mutation of a shipped program, or a crafted shape
			if i%30 == 6 {
				name := progNames[cr.Intn(len(progNames))]
				texts, kinds := mutateStatements(cr, progs[name])
				runText(texts, "text:"+name+":"+kinds, out, true)
			} else if i%30 == 16 {
				containers++
				texts, kind := containerShape(cr, containers)
				runText(texts, "text:"+kind, out, true)
			} else {
				texts, kind := shapeText(cr, donors)
				runText(texts, "text:"+kind, out, true)
			}
		default: // byte strings
			s, kind := garbage(cr, donors)
			texts := withSys([]c17.PkgText{{Path: "github.com/verif/app1", Files: []string{s}}})
			if cr.Chance(1, 3) { // also after a valid prefix
				texts = withSys([]c17.PkgText{{Path: "github.com/verif/app1", Files: []string{"APPLICATION app1();\nWORKSPACE W (\n" + s}}})
				kind += "+prefix"
			}
			runText(texts, "bytes:"+kind, out, true)
		}
	}
	return nil
}

func gcd(a, b int) int {
	for b != 0 {
		a, b = b, a%b
	}
	return a
}

func accepted2(o TextObs) bool { return o.Accepted }

func sourceHas(texts []c17.PkgText, sub string) bool {
	for _, p := range texts[1:] {
		for _, f := range p.Files {
			if strings.Contains(f, sub) {
				return true
			}
		}
	}
	return false
}

var importAliasRe = regexp.MustCompile(`IMPORT\s+SCHEMA\s+'[^']*'\s+AS\s+\w+`)
var fieldSetRe = regexp.MustCompile(`\bTYPE\s+\w+`)

func sourceHasRe(texts []c17.PkgText, re *regexp.Regexp) bool {
	for _, p := range texts[1:] {
		for _, f := range p.Files {
			if re.MatchString(f) {
				return true
			}
		}
	}
	return false
}

// the refusals of C16-F19: `invalid application definition: ` + one of these
// (three more - field length zero, a key field twice, a recovered nil dereference - are fixed by 9f80418f2 and
// count as plain violations again)
var refusals2 = []string{"not found: field"}

func unpositionedRefusal(line string) bool {
	if !strings.HasPrefix(line, "invalid application definition: ") {
		return false
	}
	for _, r := range refusals2 {
		if strings.Contains(line, r) {
			return true
		}
	}
	return false
}

// a well-formed control that did not compile: which finding of C17 (a well-formed schema refused) it is
func controlTags(o TextObs, texts []c17.PkgText) []string {
	tags := []string{"well-formed-control-refused"}
	switch {
	case strings.Contains(o.Err, "undefined field") && (sourceHas(texts, "UNIQUE")) && !sourceHas(texts, "GRANT"):
		tags = append(tags, "C17-F34:unique-over-inherited-or-field-set-field-refused")
	case strings.Contains(o.Err, "undefined field") && sourceHas(texts, "GRANT") && sourceHasRe(texts, fieldSetRe):
		tags = append(tags, "C17-F35:grant-column-from-field-set-refused")
	case strings.Contains(o.Err, "type not supported"):
		tags = append(tags, "C17-F36:field-of-nested-table-declared-later-refused")
	case strings.Contains(o.Err, "undefined table:") && sourceHas(texts, "DESCRIPTOR"):
		tags = append(tags, "C17-F37:ref-to-table-declared-in-descriptor-refused")
	case sourceHasRe(texts, importAliasRe) && (strings.Contains(o.Err, "does not define use of package") || strings.Contains(o.Err, "undefined workspace")):
		tags = append(tags, "C17-F38:aliased-import-shadows-same-base-name")
	case strings.Contains(o.Err, "undefined table kind") && sourceHas(texts, "PROJECTOR"):
		tags = append(tags, "C17-F39:projector-on-inherited-nested-table-of-another-package-refused")
	}
	return tags
}

// a TYPE that includes one TYPE twice
var doublingRe = regexp.MustCompile(`TYPE\s+\w+\s*\(\s*(\w+)\s*,\s*(\w+)\s*\)`)

func includesTwice(texts []c17.PkgText) bool {
	for _, p := range texts[1:] {
		for _, f := range p.Files {
			for _, m := range doublingRe.FindAllStringSubmatch(f, -1) {
				if m[1] == m[2] {
					return true
				}
			}
		}
	}
	return false
}

func firstNonEmpty(a, b string) string {
	if a != "" {
		return a
	}
	return b
}
