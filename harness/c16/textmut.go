package c16

import (
	"os"
	"path/filepath"
	"regexp"
	"sort"
	"strings"

	"verifharness/c17"
	"verifharness/kit"
)

// Stream (b): token-level mutation / splicing of the .vsql sources shipped in the repository.
// Nothing is copied into /verif: the files are read from VERIF_REPO (default /repo) at run time.

func repoRoot() string {
	if r := os.Getenv("VERIF_REPO"); r != "" {
		return r
	}
	return "/repo"
}

type basePkg struct {
	path string // import path
	dir  string // directory below the repository root
}

// programs that compile as they are shipped
var basePrograms = map[string][]basePkg{
	"parser-example-app": {{"sys", "pkg/parser/sql_example_syspkg"}, {"github.com/untillpro/main", "pkg/parser/sql_example_app/pmain"},
		{"github.com/untillpro/airsbp", "pkg/parser/sql_example_app/airsbp"}, {"github.com/untillpro/untill", "pkg/parser/sql_example_app/untill"}},
	"vrestaurant": {{"sys", "pkg/parser/sql_example_syspkg"}, {"github.com/untillpro/vrestaurant", "pkg/parser/sql_example_app/vrestaurant"}},
	"real-sys":    {{"sys", "pkg/sys"}, {"github.com/verif/app0", ""}},
}

func loadProgram(name string) ([]c17.PkgText, error) {
	var res []c17.PkgText
	for _, bp := range basePrograms[name] {
		p := c17.PkgText{Path: bp.path}
		if bp.dir == "" {
			p.Files = []string{"APPLICATION app0();\n"}
		} else {
			files, _ := filepath.Glob(filepath.Join(repoRoot(), bp.dir, "*.vsql"))
			sort.Strings(files)
			for _, f := range files {
				b, err := os.ReadFile(f)
				if err != nil {
					return nil, err
				}
				p.Files = append(p.Files, string(b))
			}
		}
		res = append(res, p)
	}
	return res, nil
}

// every .vsql of the repository: donor material for splicing
func donorTokens() []string {
	var toks []string
	filepath.Walk(repoRoot(), func(path string, info os.FileInfo, err error) error {
		if err == nil && !info.IsDir() && strings.HasSuffix(path, ".vsql") && !strings.Contains(path, "node_modules") {
			if b, e := os.ReadFile(path); e == nil && len(toks) < 40000 {
				toks = append(toks, tokenize(string(b))...)
			}
		}
		return nil
	})
	return toks
}

var tokRe = regexp.MustCompile(`(?s)--[^\n]*|/\*.*?\*/|'(?:\\'|[^'])*'|"[^"\n]*"|[A-Za-z_][A-Za-z0-9_]*|[0-9]+(?:\.[0-9]+)?|\s+|.`)

func tokenize(s string) []string { return tokRe.FindAllString(s, -1) }

func significant(toks []string) []int {
	var idx []int
	for i, t := range toks {
		if strings.TrimSpace(t) != "" && !strings.HasPrefix(t, "--") && !strings.HasPrefix(t, "/*") {
			idx = append(idx, i)
		}
	}
	return idx
}

var keywords = []string{"TABLE", "WORKSPACE", "ABSTRACT", "INHERITS", "VIEW", "PRIMARY KEY", "NOT NULL", "ref", "varchar", "int32", "(", ")", ",", ";",
	"GRANT", "REVOKE", "ON", "TO", "FROM", "ALL", "SELECT", "EXECUTE", "COMMAND", "QUERY", "PROJECTOR", "AFTER", "INSERT", "UNIQUE", "RATE",
	"LIMIT", "WITH", "TAG", "ROLE", "TYPE", "EXTENSION ENGINE", "BUILTIN", "USE", "ALTER", "DESCRIPTOR", "APPLICATION", "IMPORT SCHEMA", "AS",
	"RESULT", "OF", "INTENTS", "STATE", "sys", ".", "void", "any", "UNLOGGED", "RETURNS", "SYNC", "CHECK", "DEFAULT", "'", "\"", "0", "65536",
	"-1", "99999999999999999999", "JOB", "'* * * * *'", "DECLARE", "PER", "HOUR", "EACH", "OR", "INCLUDING ERRORS", "UNIQUEFIELD", "CONSTRAINT",
	"TEMPLATE", "SOURCE", "STORAGE", "ENTITY", "RECORD", "SCOPE", "GET", "blob", "record", "ALTERABLE", "POOL", "PUBLISHED"}

// mutateText applies 1..3 token-level edits to one file of the program
func mutateText(r *kit.Rng, prog []c17.PkgText, donors []string) ([]c17.PkgText, string) {
	pi := r.Intn(len(prog))
	if len(prog) > 1 && r.Chance(3, 4) {
		pi = 1 + r.Intn(len(prog)-1) // mostly the application packages, sometimes sys
	}
	return mutateTextAt(r, prog, pi, donors)
}

func mutateTextAt(r *kit.Rng, prog []c17.PkgText, pi int, donors []string) ([]c17.PkgText, string) {
	res := make([]c17.PkgText, len(prog))
	for i, p := range prog {
		res[i] = c17.PkgText{Path: p.Path, Files: append([]string{}, p.Files...)}
	}
	fi := r.Intn(len(res[pi].Files))
	toks := tokenize(res[pi].Files[fi])
	var kinds []string
	for n := 1 + r.Intn(3); n > 0; n-- {
		sig := significant(toks)
		if len(sig) < 4 {
			break
		}
		at := sig[r.Intn(len(sig))]
		kind := kit.Pick(r, []string{"delete", "duplicate", "swap", "replace-donor", "insert-keyword", "replace-keyword", "delete-range", "splice-range", "truncate", "rename"})
		switch kind {
		case "delete":
			toks = append(toks[:at:at], toks[at+1:]...)
		case "duplicate":
			toks = append(toks[:at+1:at+1], append([]string{" ", toks[at]}, toks[at+1:]...)...)
		case "swap":
			o := sig[r.Intn(len(sig))]
			toks[at], toks[o] = toks[o], toks[at]
		case "replace-donor":
			toks[at] = donors[r.Intn(len(donors))]
		case "insert-keyword":
			toks = append(toks[:at:at], append([]string{kit.Pick(r, keywords), " "}, toks[at:]...)...)
		case "replace-keyword":
			toks[at] = kit.Pick(r, keywords)
		case "delete-range":
			end := at + 1 + r.Intn(30)
			if end > len(toks) {
				end = len(toks)
			}
			toks = append(toks[:at:at], toks[end:]...)
		case "splice-range":
			s := r.Intn(len(donors))
			e := s + 1 + r.Intn(40)
			if e > len(donors) {
				e = len(donors)
			}
			toks = append(toks[:at:at], append(append([]string{}, donors[s:e]...), toks[at:]...)...)
		case "truncate":
			toks = toks[:at]
		case "rename":
			// an identifier gets the name of another identifier of the file (redefinitions, wrong kinds)
			o := sig[r.Intn(len(sig))]
			toks[at] = toks[o]
		}
		kinds = append(kinds, kind)
	}
	res[pi].Files[fi] = strings.Join(toks, "")
	return res, strings.Join(kinds, "+")
}

// ---- stream (c): byte strings ----

func garbage(r *kit.Rng, donors []string) (string, string) {
	switch r.Intn(5) {
	case 0: // random bytes
		b := make([]byte, r.Intn(200))
		for i := range b {
			b[i] = byte(r.Intn(256))
		}
		return string(b), "random-bytes"
	case 1: // printable noise
		b := make([]byte, r.Intn(300))
		for i := range b {
			b[i] = byte(32 + r.Intn(95))
		}
		return string(b), "printable-noise"
	case 2: // keyword soup
		var sb strings.Builder
		for n := r.Intn(120); n > 0; n-- {
			sb.WriteString(kit.Pick(r, keywords))
			sb.WriteString(kit.Pick(r, []string{" ", " ", "\n", ""}))
		}
		return sb.String(), "keyword-soup"
	case 3: // donor token soup
		var sb strings.Builder
		for n := r.Intn(200); n > 0; n-- {
			sb.WriteString(donors[r.Intn(len(donors))])
		}
		return sb.String(), "token-soup"
	default: // deep nesting / long runs
		k := 1 + r.Intn(3000)
		if r.Chance(1, 12) { // deep enough to exhaust the stack of a recursive descent (C16-F17)
			k = 150000 + r.Intn(100000)
		}
		switch r.Intn(4) {
		case 0:
			return "APPLICATION a(); WORKSPACE W ( TABLE T INHERITS sys.CDoc " + strings.Repeat("(", k), "open-parens"
		case 1:
			return "APPLICATION a(); WORKSPACE W ( TABLE T INHERITS sys.CDoc (a int32 CHECK (" + strings.Repeat("(", k) + "a" + strings.Repeat(")", k) + " > 0)); );", "nested-expression"
		case 2:
			if k%2 == 0 { // with a ';' before every level (a depth counter must not start over at a ';')
				if k <= 3000 {
					k += 1001 // 1001..4001 levels: over the guard, far below what exhausts a stack - the refusal must name the guard
				}
				return "APPLICATION a(); " + strings.Repeat("WORKSPACE W (; ", k), "nested-workspaces-semicolons-over-1000"
			}
			return "APPLICATION a(); " + strings.Repeat("WORKSPACE W (", k), "nested-workspaces"
		default:
			return "APPLICATION a(); WORKSPACE W ( TABLE T INHERITS sys.CDoc (" + strings.Repeat("x TABLE N (", k%300) + strings.Repeat(")", k%300) + "); );", "nested-tables"
		}
	}
}
