package c16

import (
	"fmt"
	"regexp"
	"sort"
	"strings"

	"verifharness/c17"
	"verifharness/kit"
)

// Statement-level mutations of the shipped programs and a catalogue of small crafted programs: shapes
// a token-level edit practically never produces (a statement moved to the root of the file, a clause
// removed, a type that contains itself, a grant over an empty class, ...).

var shapeCatalogue = [][2]string{
	{"root-role", "APPLICATION app1();\nROLE r;\nWORKSPACE W ();\n"},
	{"root-published-role", "APPLICATION app1();\nWORKSPACE W ();\nPUBLISHED ROLE r;\n"},
	{"view-of-job-no-intent", "APPLICATION app1();\nALTER WORKSPACE sys.AppWorkspaceWS (\n  EXTENSION ENGINE BUILTIN ( JOB j '1 0 * * *'; );\n  VIEW v (a int32, b int32, PRIMARY KEY ((a), b)) AS RESULT OF j;\n);\n"},
	{"view-of-job-with-intent", "APPLICATION app1();\nALTER WORKSPACE sys.AppWorkspaceWS (\n  EXTENSION ENGINE BUILTIN ( JOB j '1 0 * * *' INTENTS(sys.View(v)); );\n  VIEW v (a int32, b int32, PRIMARY KEY ((a), b)) AS RESULT OF j;\n);\n"},
	{"view-of-unknown", "APPLICATION app1();\nWORKSPACE W (\n  VIEW v (a int32, b int32, PRIMARY KEY ((a), b)) AS RESULT OF nosuch;\n);\n"},
	{"type-self-include", "APPLICATION app1();\nWORKSPACE W (\n  TYPE t1 (a int32, t1);\n);\n"},
	{"type-mutual-include", "APPLICATION app1();\nWORKSPACE W (\n  TYPE t1 (a int32, t2);\n  TYPE t2 (b int32, t1);\n);\n"},
	{"type-include-3", "APPLICATION app1();\nWORKSPACE W (\n  TYPE t1 (a int32, t2);\n  TYPE t2 (b int32, t3);\n  TYPE t3 (c int32, t1);\n  TABLE d INHERITS sys.CDoc (t1);\n);\n"},
	{"table-includes-cyclic-type", "APPLICATION app1();\nWORKSPACE W (\n  TYPE t1 (a int32, t1);\n  TABLE d INHERITS sys.CDoc (x int32, t1, UNIQUE (a));\n);\n"},
	{"type-self-include-uniquefield", "APPLICATION app1();\nWORKSPACE W (\n  TYPE t1 (a int32, t1, UNIQUEFIELD x);\n);\n"},
	{"table-cyclic-types-uniquefield", "APPLICATION app1();\nWORKSPACE W (\n  TYPE t1 (a int32, t2);\n  TYPE t2 (b int32, t1);\n  TABLE d INHERITS sys.CDoc (c int32, t1, UNIQUEFIELD zz);\n);\n"},
	{"table-cyclic-type-unique-unknown", "APPLICATION app1();\nWORKSPACE W (\n  TYPE t1 (a int32, t1);\n  TABLE d INHERITS sys.CDoc (c int32, t1, UNIQUE (c, zz));\n);\n"},
	{"table-two-field-sets-uniquefield", "APPLICATION app1();\nWORKSPACE W (\n  TYPE t1 (x int32);\n  TYPE t2 (y int32);\n  TABLE d INHERITS sys.CDoc (c int32, t1, t2, UNIQUEFIELD x);\n);\n"},
	{"type-self-container", "APPLICATION app1();\nWORKSPACE W (\n  TYPE t1 (a int32, me t1);\n);\n"},
	{"table-inherits-itself", "APPLICATION app1();\nWORKSPACE W (\n  ABSTRACT TABLE b1 INHERITS b1 ();\n  TABLE leaf INHERITS b1 ();\n);\n"},
	{"table-lasso", "APPLICATION app1();\nWORKSPACE W (\n  ABSTRACT TABLE a1 INHERITS b1 ();\n  ABSTRACT TABLE b1 INHERITS c1 ();\n  ABSTRACT TABLE c1 INHERITS b1 ();\n  TABLE leaf INHERITS a1 (x TABLE n INHERITS a1 ());\n);\n"},
	{"workspace-inherits-itself", "APPLICATION app1();\nABSTRACT WORKSPACE A INHERITS A ();\nWORKSPACE L INHERITS A ();\n"},
	{"workspace-lasso", "APPLICATION app1();\nABSTRACT WORKSPACE A INHERITS B ();\nABSTRACT WORKSPACE B INHERITS C ();\nABSTRACT WORKSPACE C INHERITS B ();\nWORKSPACE L INHERITS A ();\n"},
	{"use-itself", "APPLICATION app1();\nWORKSPACE W (\n  USE WORKSPACE W;\n);\n"},
	{"nested-workspaces", "APPLICATION app1();\nWORKSPACE W (\n  WORKSPACE X ( WORKSPACE Y ( WORKSPACE Z ( ROLE r; ); ); );\n);\n"},
	{"alter-unknown", "APPLICATION app1();\nALTER WORKSPACE nosuch ( ROLE r; );\n"},
	{"alter-profile", "APPLICATION app1();\nALTER WORKSPACE sys.Profile (\n  TABLE t INHERITS sys.CDoc (a int32);\n  ROLE r;\n  GRANT SELECT ON TABLE t TO r;\n);\n"},
	{"grant-all-views-none", "APPLICATION app1();\nWORKSPACE W (\n  ROLE r;\n  GRANT SELECT ON ALL VIEWS TO r;\n);\n"},
	{"grant-all-commands-none", "APPLICATION app1();\nWORKSPACE W (\n  ROLE r;\n  GRANT EXECUTE ON ALL COMMANDS TO r;\n);\n"},
	{"grant-all-queries-with-tag-none", "APPLICATION app1();\nWORKSPACE W (\n  ROLE r;\n  TAG g;\n  GRANT EXECUTE ON ALL QUERIES WITH TAG g TO r;\n);\n"},
	{"grant-all-tables-abstract-none", "APPLICATION app1();\nABSTRACT WORKSPACE W (\n  ROLE r;\n  GRANT ALL ON ALL TABLES TO r;\n);\n"},
	{"limit-all-views-none", "APPLICATION app1();\nWORKSPACE W (\n  RATE r 1 PER HOUR;\n  LIMIT l ON ALL VIEWS WITH RATE r;\n);\n"},
	{"limit-each-view-none", "APPLICATION app1();\nWORKSPACE W (\n  RATE r 1 PER HOUR;\n  LIMIT l SELECT ON EACH VIEW WITH RATE r;\n);\n"},
	{"view-no-partition-group", "APPLICATION app1();\nWORKSPACE W (\n  TABLE t INHERITS sys.CDoc (x int32);\n  EXTENSION ENGINE BUILTIN ( PROJECTOR p AFTER INSERT ON t INTENTS(sys.View(v)); );\n  VIEW v (a int32, b int32, PRIMARY KEY (a, b)) AS RESULT OF p;\n);\n"},
	{"view-empty-key", "APPLICATION app1();\nWORKSPACE W (\n  TABLE t INHERITS sys.CDoc (x int32);\n  EXTENSION ENGINE BUILTIN ( PROJECTOR p AFTER INSERT ON t INTENTS(sys.View(v)); );\n  VIEW v (a int32, b int32, PRIMARY KEY ()) AS RESULT OF p;\n);\n"},
	{"rate-undeclared-variable", "APPLICATION app1();\nWORKSPACE W (\n  RATE r nosuch PER HOUR;\n);\n"},
	{"rate-declared-variable", "APPLICATION app1();\nDECLARE v int32 DEFAULT 0;\nWORKSPACE W (\n  RATE r v PER HOUR;\n);\n"},
	{"command-param-is-command", "APPLICATION app1();\nWORKSPACE W (\n  EXTENSION ENGINE BUILTIN ( COMMAND c(c); );\n);\n"},
	{"projector-on-itself", "APPLICATION app1();\nWORKSPACE W (\n  EXTENSION ENGINE BUILTIN ( PROJECTOR p AFTER EXECUTE ON p; );\n);\n"},
	{"storage-outside-sys", "APPLICATION app1();\nEXTENSION ENGINE BUILTIN ( STORAGE s ( GET SCOPE(COMMANDS) ); );\nWORKSPACE W ();\n"},
	{"descriptor-named-like-table", "APPLICATION app1();\nWORKSPACE W (\n  DESCRIPTOR t (a int32);\n  TABLE t INHERITS sys.CDoc (b int32);\n);\n"},
	{"two-applications", "APPLICATION app1();\nAPPLICATION app2();\nWORKSPACE W ();\n"},
	{"no-application", "WORKSPACE W ();\n"},
	{"uniquefield-unknown", "APPLICATION app1();\nWORKSPACE W (\n  TABLE t INHERITS sys.CDoc (a int32, UNIQUEFIELD nosuch);\n);\n"},
	{"ref-field-to-type", "APPLICATION app1();\nWORKSPACE W (\n  TYPE y (a int32);\n  TABLE t INHERITS sys.CDoc (r ref(y));\n);\n"},
	{"record-field-of-doc", "APPLICATION app1();\nWORKSPACE W (\n  TABLE d INHERITS sys.CDoc (a int32);\n  TABLE t INHERITS sys.CDoc (x d);\n);\n"},
	{"record-field-of-itself", "APPLICATION app1();\nWORKSPACE W (\n  TABLE t INHERITS sys.CRecord (x t);\n);\n"},
	// command parameters / results of a kind the definition builder refuses (C16-F12)
	{"command-param-cdoc", "APPLICATION app1();\nWORKSPACE W (\n  TABLE t INHERITS sys.CDoc (a int32);\n  EXTENSION ENGINE BUILTIN ( COMMAND c(t); );\n);\n"},
	{"command-unlogged-param-cdoc", "APPLICATION app1();\nWORKSPACE W (\n  TABLE t INHERITS sys.CDoc (a int32);\n  EXTENSION ENGINE BUILTIN ( COMMAND c(UNLOGGED t); );\n);\n"},
	{"command-result-crecord", "APPLICATION app1();\nWORKSPACE W (\n  TABLE t INHERITS sys.CRecord (a int32);\n  EXTENSION ENGINE BUILTIN ( COMMAND c() RETURNS t; );\n);\n"},
	{"command-param-nested-table", "APPLICATION app1();\nWORKSPACE W (\n  TABLE t INHERITS sys.ODoc (a int32, items TABLE n (x int32));\n  EXTENSION ENGINE BUILTIN ( COMMAND c(n); );\n);\n"},
	{"ok-command-param-odoc-result-wdoc", "APPLICATION app1();\nWORKSPACE W (\n  TABLE t INHERITS sys.ODoc (a int32);\n  TABLE w INHERITS sys.WDoc (a int32);\n  EXTENSION ENGINE BUILTIN ( COMMAND c(t, UNLOGGED t) RETURNS w; );\n);\n"},
	// a job with seconds in its schedule (C16-F13)
	{"job-cron-6-fields", "APPLICATION app1();\nALTER WORKSPACE sys.AppWorkspaceWS (\n  EXTENSION ENGINE BUILTIN ( JOB Job1 '0 1 0 * * *'; );\n);\n"},
	{"ok-job-cron-5-fields", "APPLICATION app1();\nALTER WORKSPACE sys.AppWorkspaceWS (\n  EXTENSION ENGINE BUILTIN ( JOB Job1 '1 0 * * *'; );\n);\n"},
	{"job-cron-descriptor", "APPLICATION app1();\nALTER WORKSPACE sys.AppWorkspaceWS (\n  EXTENSION ENGINE BUILTIN ( JOB Job1 '@every 1h'; );\n);\n"},
	// a limit over a tag nothing carries (C16-F14)
	{"limit-all-queries-with-tag-none", "APPLICATION app1();\nWORKSPACE W (\n  TAG tg;\n  RATE r 1 PER HOUR;\n  LIMIT l ON ALL QUERIES WITH TAG tg WITH RATE r;\n);\n"},
	{"limit-each-table-with-tag-none", "APPLICATION app1();\nWORKSPACE W (\n  TAG tg;\n  RATE r 1 PER HOUR;\n  TABLE t INHERITS sys.CDoc (a int32);\n  LIMIT l ON EACH TABLE WITH TAG tg WITH RATE r;\n);\n"},
	// names declared inside ALTER WORKSPACE w2 used from another workspace of the package (C16-F15)
	{"alter-leak-projector-trigger", "APPLICATION app1();\nALTERABLE WORKSPACE W2 ();\nALTER WORKSPACE W2 ( TABLE t INHERITS sys.CDoc (a int32); );\nWORKSPACE W1 (\n  EXTENSION ENGINE BUILTIN ( PROJECTOR p AFTER INSERT ON t; );\n);\n"},
	{"alter-leak-container", "APPLICATION app1();\nALTERABLE WORKSPACE W2 ();\nALTER WORKSPACE W2 ( TABLE t INHERITS sys.CRecord (a int32); );\nWORKSPACE W1 (\n  TABLE d INHERITS sys.CDoc (x t);\n);\n"},
	{"alter-leak-type-container", "APPLICATION app1();\nALTERABLE WORKSPACE W2 ();\nALTER WORKSPACE W2 ( TYPE b (a int32); );\nWORKSPACE W1 (\n  TYPE a (x b);\n);\n"},
	{"alter-leak-limit", "APPLICATION app1();\nALTERABLE WORKSPACE W2 ();\nALTER WORKSPACE W2 ( TABLE t INHERITS sys.CDoc (a int32); );\nWORKSPACE W1 (\n  RATE r 1 PER HOUR;\n  LIMIT l ON TABLE t WITH RATE r;\n);\n"},
	{"alter-leak-command-trigger", "APPLICATION app1();\nALTERABLE WORKSPACE W2 ();\nALTER WORKSPACE W2 ( EXTENSION ENGINE BUILTIN ( COMMAND c(); ); );\nWORKSPACE W1 (\n  EXTENSION ENGINE BUILTIN ( PROJECTOR p AFTER EXECUTE ON c; );\n);\n"},
	{"ok-alter-own-names", "APPLICATION app1();\nALTERABLE WORKSPACE W2 ();\nALTER WORKSPACE W2 ( TABLE t INHERITS sys.CDoc (a int32); EXTENSION ENGINE BUILTIN ( PROJECTOR p AFTER INSERT ON t; ); );\n"},
	// refusals of the definition builder that come back without a position (C16-F19)
	{"varchar-zero", "APPLICATION app1();\nWORKSPACE W (\n  TABLE t INHERITS sys.CDoc (a varchar(0));\n);\n"},
	{"bytes-zero", "APPLICATION app1();\nWORKSPACE W (\n  TABLE t INHERITS sys.CDoc (a bytes(0));\n);\n"},
	{"view-key-field-twice", "APPLICATION app1();\nWORKSPACE W (\n  TABLE t INHERITS sys.CDoc (x int32);\n  EXTENSION ENGINE BUILTIN ( PROJECTOR p AFTER INSERT ON t INTENTS(sys.View(v)); );\n  VIEW v (a int32, b int32, PRIMARY KEY ((a), a)) AS RESULT OF p;\n);\n"},
	{"grant-on-nested-table-name", "APPLICATION app1();\nWORKSPACE W (\n  ROLE r;\n  TABLE t INHERITS sys.CDoc (a int32, items TABLE n (x int32));\n  GRANT SELECT(items) ON TABLE t TO r;\n);\n"},
	{"table-includes-type-with-type-field", "APPLICATION app1();\nWORKSPACE W (\n  TYPE Inner (a int32);\n  TYPE Outer (x Inner);\n  TABLE t INHERITS sys.CDoc (Outer);\n);\n"},
	// one TYPE included by two tables that refer to each other through it: no cycle (C16-F5b)
	{"ok-field-set-shared-by-referenced-tables", "APPLICATION app1();\nWORKSPACE W (\n  TYPE T (x ref(B));\n  TYPE T2 (y ref(C));\n  TABLE B INHERITS sys.CDoc (T2);\n  TABLE C INHERITS sys.CDoc (T2);\n);\n"},
	{"ok-field-set-shared-by-referenced-tables-2", "APPLICATION app1();\nWORKSPACE W (\n  TYPE T2 (y ref(C));\n  TYPE T (x ref(B));\n  TABLE B INHERITS sys.CDoc (T2);\n  TABLE C INHERITS sys.CDoc (T2);\n);\n"},
	// well-formed programs the compiler refused (C17-F34..F37): controls, must compile and build
	{"ok-unique-over-inherited-field", "APPLICATION app1();\nWORKSPACE W (\n  ABSTRACT TABLE base INHERITS sys.CDoc (b1 int32);\n  TABLE t1 INHERITS base (f2 int32, UNIQUE (b1, f2));\n);\n"},
	{"ok-unique-over-first-field-set", "APPLICATION app1();\nWORKSPACE W (\n  TYPE fs1 (f1 int32);\n  TYPE fs2 (g1 int32);\n  TABLE A INHERITS sys.CDoc (fs1, fs2, UNIQUE (f1));\n);\n"},
	{"ok-uniquefield-in-first-field-set", "APPLICATION app1();\nWORKSPACE W (\n  TYPE fs1 (f1 int32);\n  TYPE fs2 (g1 int32);\n  TABLE A INHERITS sys.CDoc (fs1, fs2, UNIQUEFIELD f1);\n);\n"},
	{"ok-grant-column-from-field-set", "APPLICATION app1();\nWORKSPACE W (\n  ROLE r;\n  TYPE fs (f1 int32);\n  TABLE t1 INHERITS sys.CDoc (fs, f2 int32);\n  GRANT SELECT(f1) ON TABLE t1 TO r;\n);\n"},
	{"ok-field-of-nested-table-declared-later", "APPLICATION app1();\nWORKSPACE W (\n  TABLE doc2 INHERITS sys.CDoc (again sub);\n  TABLE doc INHERITS sys.CDoc (a int32, items TABLE item (b int32, subs TABLE sub (c int32)));\n);\n"},
	{"ok-field-of-nested-table-declared-earlier", "APPLICATION app1();\nWORKSPACE W (\n  TABLE doc INHERITS sys.CDoc (a int32, items TABLE item (b int32, subs TABLE sub (c int32)));\n  TABLE doc2 INHERITS sys.CDoc (again sub);\n);\n"},
	{"ok-ref-to-table-declared-in-descriptor", "APPLICATION app1();\nWORKSPACE W (\n  DESCRIPTOR wd (a int32, items TABLE x (b int32));\n  TABLE t INHERITS sys.CDoc (r ref(x));\n);\n"},
	// the column lookup of GRANT on a table that includes a self-including TYPE (C16-F20, a regression of d88fceb13)
	{"grant-column-on-table-with-cyclic-field-set", "APPLICATION app1();\nWORKSPACE W (\n  ROLE r;\n  TYPE a (x int32, a, a, a);\n  TABLE t INHERITS sys.CDoc (a, f int32);\n  GRANT SELECT(zz) ON TABLE t TO r;\n);\n"},
	// a blob field, fine with the shipped sys package (C16-F23 is about a sys package without TABLE BLOB)
	{"ok-blob-field", "APPLICATION app1();\nWORKSPACE W (\n  TABLE t INHERITS sys.CDoc (b blob, c blob NOT NULL);\n);\n"},
	// several Tags=(...) in one WITH clause (C17-F40): must compile; the definition is not looked at here
	{"ok-two-tags-items", "APPLICATION app1();\nWORKSPACE W (\n  TAG A;\n  TAG B;\n  TABLE t INHERITS sys.CDoc (x int32) WITH Tags=(A), Tags=(B);\n);\n"},
	// two more refusals that came back without a position (C16-F24)
	{"revoke-role-from-role", "APPLICATION app1();\nWORKSPACE W (\n  ROLE r;\n  ROLE pr;\n  GRANT pr TO r;\n  REVOKE pr FROM r;\n);\n"},
	{"grant-sys-parentid-on-doc", "APPLICATION app1();\nWORKSPACE W (\n  ROLE r;\n  TABLE t INHERITS sys.CDoc (a int32);\n  GRANT SELECT(sys.ParentID) ON TABLE t TO r;\n);\n"},
	{"ok-grant-sys-parentid-on-record", "APPLICATION app1();\nWORKSPACE W (\n  ROLE r;\n  TABLE t INHERITS sys.CRecord (a int32);\n  GRANT SELECT(sys.ParentID, sys.Container, sys.IsActive) ON TABLE t TO r;\n);\n"},
	// a field and a table-typed field of one name (C17-F41)
	{"field-and-table-typed-field-share-a-name", "APPLICATION app1();\nWORKSPACE W (\n  TABLE Item INHERITS sys.CRecord (x int32);\n  TABLE Doc INHERITS sys.CDoc (items int32, items Item);\n);\n"},
	{"empty-file", ""},
	{"only-comment", "-- nothing here\n"},
}

func shapeText(r *kit.Rng, donors []string) ([]c17.PkgText, string) {
	if r.Chance(1, 12) {
		return grantsInPackages(2 + r.Intn(3)), "shape:grants-in-several-packages"
	}
	if r.Chance(1, 12) {
		n := multiShapeNames[r.Intn(len(multiShapeNames))]
		return withSys(multiShapes[n]), "shape:" + n
	}
	if r.Chance(1, 30) {
		tail := kit.Pick(r, []string{"types", "table", "unique", "grant"})
		return doublingFieldSets(28+r.Intn(8), tail), "shape:ok-doubling-field-sets-" + tail
	}
	if r.Chance(1, 30) {
		n := kit.Pick(r, []string{"odoc-inherits-itself", "crecord-cdoc-cycle", "wsingleton-wdoc-wrecord-cycle", "no-blob-table"})
		return sysCycle(n), "shape:sys-cycle-" + n
	}
	s := shapeCatalogue[r.Intn(len(shapeCatalogue))]
	texts := withSys([]c17.PkgText{{Path: "github.com/verif/app1", Files: []string{s[1]}}})
	kind := "shape:" + s[0]
	if r.Chance(1, 3) { // and one token-level edit on top
		var kinds string
		texts, kinds = mutateTextAt(r, texts, 1, donors)
		kind += "+" + kinds
	}
	return texts, kind
}

// crafted programs of several packages
var multiShapes = map[string][]c17.PkgText{
	// the package is imported under an alias and named by the base name of its path (C16-F16)
	"import-alias-param-by-base-name": {
		{Path: "github.com/verif/app1", Files: []string{"IMPORT SCHEMA 'github.com/verif/pkg1' AS p1;\nAPPLICATION app1( USE p1; );\nWORKSPACE W INHERITS p1.AW (\n  EXTENSION ENGINE BUILTIN ( COMMAND c(pkg1.T) RETURNS pkg1.T; QUERY q(pkg1.T) RETURNS pkg1.T; );\n);\n"}},
		{Path: "github.com/verif/pkg1", Files: []string{"ABSTRACT WORKSPACE AW ( TYPE T (a int32); );\n"}}},
	"ok-import-alias-param-by-alias": {
		{Path: "github.com/verif/app1", Files: []string{"IMPORT SCHEMA 'github.com/verif/pkg1' AS p1;\nAPPLICATION app1( USE p1; );\nWORKSPACE W INHERITS p1.AW (\n  EXTENSION ENGINE BUILTIN ( COMMAND c(p1.T) RETURNS p1.T; );\n);\n"}},
		{Path: "github.com/verif/pkg1", Files: []string{"ABSTRACT WORKSPACE AW ( TYPE T (a int32); );\n"}}},
	// two packages with the same base name, one imported under an alias: `pkg1` is the one without alias,
	// whatever the order of the IMPORT lines (C17-F38)
	"ok-aliased-import-same-base-name": {
		{Path: "github.com/verif/app1", Files: []string{"IMPORT SCHEMA 'github.com/verif/b/pkg1' AS other;\nIMPORT SCHEMA 'github.com/verif/a/pkg1';\nAPPLICATION app1( USE other; USE pkg1; );\nWORKSPACE W INHERITS pkg1.AW, other.BW (\n  TABLE t INHERITS sys.CDoc (r ref(pkg1.T), r2 ref(other.T));\n);\n"}},
		{Path: "github.com/verif/a/pkg1", Files: []string{"ABSTRACT WORKSPACE AW ( TABLE T INHERITS sys.CDoc (a int32); );\n"}},
		{Path: "github.com/verif/b/pkg1", Files: []string{"ABSTRACT WORKSPACE BW ( TABLE T INHERITS sys.CDoc (b int32); );\n"}}},
	// a projector of one package on a table declared in place in another, which INHERITS an abstract table (C17-F39)
	"ok-projector-on-inherited-nested-table-of-another-package": {
		{Path: "github.com/verif/app1", Files: []string{"IMPORT SCHEMA 'github.com/verif/pkg1';\nAPPLICATION app1( USE pkg1; );\nWORKSPACE W INHERITS pkg1.Base (\n  EXTENSION ENGINE BUILTIN ( PROJECTOR p AFTER INSERT ON pkg1.N; );\n);\n"}},
		{Path: "github.com/verif/pkg1", Files: []string{"ABSTRACT WORKSPACE Base (\n  ABSTRACT TABLE AR INHERITS sys.CRecord (a int32);\n  TABLE D INHERITS sys.CDoc (items TABLE N INHERITS AR (x int32));\n);\n"}}},
	// a table declared in place with a comment, referred to from another package: it was built either by its
	// parent (no comment) or on demand (comment), whichever package came first in the map (C16-F22)
	"ok-nested-table-comment-across-packages": {
		{Path: "github.com/verif/app1", Files: []string{"IMPORT SCHEMA 'github.com/verif/pkg2';\nAPPLICATION app1( USE pkg2; );\nWORKSPACE W INHERITS pkg2.Base ( TABLE A INHERITS sys.CDoc ( r ref(pkg2.N) ) );\n"}},
		{Path: "github.com/verif/pkg2", Files: []string{"ABSTRACT WORKSPACE Base ( TABLE B INHERITS sys.CDoc ( items TABLE N (x int32) WITH Comment='nested comment' ) );\n"}}},
	// storage entities in STATE(...) of a command, a query, a projector and a job, the package named by its
	// import alias / by the base name of its path while the application knows it under another name (seed c16-6)
	"ok-storage-entities-by-alias-used-by-base-name": {
		{Path: "github.com/verif/app1", Files: []string{"IMPORT SCHEMA 'github.com/verif/pkg2' AS p2;\nAPPLICATION app1( USE pkg2; );\nWORKSPACE W INHERITS p2.Base (\n  EXTENSION ENGINE BUILTIN (\n    COMMAND c1() STATE(sys.Record(p2.Tbl), sys.View(p2.Vw));\n    QUERY q1() STATE(sys.Record(p2.Tbl), sys.View(p2.Vw)) RETURNS void;\n    PROJECTOR pr AFTER EXECUTE ON c1 STATE(sys.Record(p2.Tbl), sys.View(p2.Vw));\n  );\n);\nALTER WORKSPACE sys.AppWorkspaceWS (\n  EXTENSION ENGINE BUILTIN ( JOB j1 '1 0 * * *' STATE(sys.Record(p2.JTbl)); );\n);\n"}},
		{Path: "github.com/verif/pkg2", Files: []string{"ABSTRACT WORKSPACE Base (\n  TABLE Tbl INHERITS sys.CDoc (x int32);\n  VIEW Vw (a int32, b int32, c int32, PRIMARY KEY ((a), b)) AS RESULT OF Prj;\n  EXTENSION ENGINE BUILTIN (\n    COMMAND Cmd();\n    PROJECTOR Prj AFTER EXECUTE ON Cmd INTENTS(sys.View(Vw));\n  );\n);\nALTER WORKSPACE sys.AppWorkspaceWS (\n  TABLE JTbl INHERITS sys.CDoc (x int32);\n);\n"}}},
	"ok-storage-entities-by-base-name-used-by-alias": {
		{Path: "github.com/verif/app1", Files: []string{"IMPORT SCHEMA 'github.com/verif/pkg2' AS p2;\nAPPLICATION app1( USE p2; );\nWORKSPACE W INHERITS pkg2.Base (\n  EXTENSION ENGINE BUILTIN (\n    COMMAND c1() STATE(sys.Record(pkg2.Tbl), sys.View(pkg2.Vw));\n    QUERY q1() STATE(sys.Record(pkg2.Tbl), sys.View(pkg2.Vw)) RETURNS void;\n    PROJECTOR pr AFTER EXECUTE ON c1 STATE(sys.Record(pkg2.Tbl), sys.View(pkg2.Vw));\n  );\n);\nALTER WORKSPACE sys.AppWorkspaceWS (\n  EXTENSION ENGINE BUILTIN ( JOB j1 '1 0 * * *' STATE(sys.Record(pkg2.JTbl)); );\n);\n"}},
		{Path: "github.com/verif/pkg2", Files: []string{"ABSTRACT WORKSPACE Base (\n  TABLE Tbl INHERITS sys.CDoc (x int32);\n  VIEW Vw (a int32, b int32, c int32, PRIMARY KEY ((a), b)) AS RESULT OF Prj;\n  EXTENSION ENGINE BUILTIN (\n    COMMAND Cmd();\n    PROJECTOR Prj AFTER EXECUTE ON Cmd INTENTS(sys.View(Vw));\n  );\n);\nALTER WORKSPACE sys.AppWorkspaceWS (\n  TABLE JTbl INHERITS sys.CDoc (x int32);\n);\n"}}},
	"ok-storage-entities-plain": {
		{Path: "github.com/verif/app1", Files: []string{"IMPORT SCHEMA 'github.com/verif/pkg2';\nAPPLICATION app1( USE pkg2; );\nWORKSPACE W INHERITS pkg2.Base (\n  EXTENSION ENGINE BUILTIN (\n    COMMAND c1() STATE(sys.Record(pkg2.Tbl), sys.View(pkg2.Vw));\n    QUERY q1() STATE(sys.Record(pkg2.Tbl), sys.View(pkg2.Vw)) RETURNS void;\n    PROJECTOR pr AFTER EXECUTE ON c1 STATE(sys.Record(pkg2.Tbl), sys.View(pkg2.Vw));\n  );\n);\nALTER WORKSPACE sys.AppWorkspaceWS (\n  EXTENSION ENGINE BUILTIN ( JOB j1 '1 0 * * *' STATE(sys.Record(pkg2.JTbl)); );\n);\n"}},
		{Path: "github.com/verif/pkg2", Files: []string{"ABSTRACT WORKSPACE Base (\n  TABLE Tbl INHERITS sys.CDoc (x int32);\n  VIEW Vw (a int32, b int32, c int32, PRIMARY KEY ((a), b)) AS RESULT OF Prj;\n  EXTENSION ENGINE BUILTIN (\n    COMMAND Cmd();\n    PROJECTOR Prj AFTER EXECUTE ON Cmd INTENTS(sys.View(Vw));\n  );\n);\nALTER WORKSPACE sys.AppWorkspaceWS (\n  TABLE JTbl INHERITS sys.CDoc (x int32);\n);\n"}}},
	// three packages alter one workspace; one TYPE is included by two tables that refer to each other through
	// it - which package is built first decided between success and a false "circular reference" (C16-F5b)
	"ok-field-set-shared-across-packages": {
		{Path: "github.com/verif/app1", Files: []string{"IMPORT SCHEMA 'github.com/verif/pkg1';\nIMPORT SCHEMA 'github.com/verif/pkg2';\nAPPLICATION app1( USE pkg1; USE pkg2; );\nALTERABLE WORKSPACE W ();\n"}},
		{Path: "github.com/verif/pkg1", Files: []string{"IMPORT SCHEMA 'github.com/verif/app1';\nIMPORT SCHEMA 'github.com/verif/pkg2';\nALTER WORKSPACE app1.W ( TYPE T (x ref(pkg2.B)); );\n"}},
		{Path: "github.com/verif/pkg2", Files: []string{"IMPORT SCHEMA 'github.com/verif/app1';\nALTER WORKSPACE app1.W ( TYPE T2 (y ref(C)); TABLE B INHERITS sys.CDoc (T2); TABLE C INHERITS sys.CDoc (T2); );\n"}}},
}
var multiShapeNames = func() []string {
	var l []string
	for k := range multiShapes {
		l = append(l, k)
	}
	sort.Strings(l)
	return l
}()

// `TYPE t0 (); TYPE t1 (t0, t0); ... TYPE tN (tN-1, tN-1)`: every level doubled the work of the build stage and of
// the field lookups (C16-F21); a well-formed program
func doublingFieldSets(n int, tail string) []c17.PkgText {
	src := "APPLICATION app1();\nWORKSPACE W (\n  ROLE r;\n  TYPE t0 ();\n"
	for i := 1; i <= n; i++ {
		src += fmt.Sprintf("  TYPE t%d (t%d, t%d);\n", i, i-1, i-1)
	}
	switch tail {
	case "table":
		src += fmt.Sprintf("  TABLE tt INHERITS sys.CDoc (t%d, f int32);\n", n)
	case "unique":
		src += fmt.Sprintf("  TABLE tt INHERITS sys.CDoc (t%d, f int32, UNIQUE (f));\n", n)
	case "grant":
		src += fmt.Sprintf("  TABLE tt INHERITS sys.CDoc (t%d, f int32);\n  GRANT SELECT(f) ON TABLE tt TO r;\n", n)
	}
	return withSys([]c17.PkgText{{Path: "github.com/verif/app1", Files: []string{src + ");\n"}}})
}

// the sys package with a system table put on an INHERITS cycle (C16-F11); nil: unknown name. The
// application declares no table: an heir of the cyclic table would have the cycle reported by ITS chain
func sysCycle(name string) []c17.PkgText {
	sys := c17.SysVSQL()
	edit := func(old, new string) {
		if !strings.Contains(sys, old) {
			sys = ""
		}
		sys = strings.Replace(sys, old, new, 1)
	}
	switch name {
	case "odoc-inherits-itself":
		edit("ABSTRACT TABLE ODoc INHERITS ORecord();", "ABSTRACT TABLE ODoc INHERITS ODoc();")
	case "crecord-cdoc-cycle":
		edit("ABSTRACT TABLE CRecord();", "ABSTRACT TABLE CRecord INHERITS CDoc();")
	case "wsingleton-wdoc-wrecord-cycle":
		edit("ABSTRACT TABLE WRecord();", "ABSTRACT TABLE WRecord INHERITS WSingleton();")
	case "no-blob-table": // C16-F23: a blob field is a reference to sys.BLOB
		edit("TABLE BLOB INHERITS WDoc (status int32 NOT NULL);", "")
		if sys == "" {
			return nil
		}
		return []c17.PkgText{{Path: "sys", Files: []string{sys}}, {Path: "github.com/verif/app1", Files: []string{"APPLICATION app1();\nWORKSPACE W (\n  TABLE t INHERITS sys.CDoc (b blob);\n);\n"}}}
	default:
		return nil
	}
	if sys == "" {
		return nil
	}
	return []c17.PkgText{{Path: "sys", Files: []string{sys}}, {Path: "github.com/verif/app1", Files: []string{"APPLICATION app1();\nWORKSPACE W (\n  ROLE r;\n);\n"}}}
}

// an application of 1+n packages, each with a workspace, a table, a role and a grant (C16-F8)
func grantsInPackages(n int) []c17.PkgText {
	app := ""
	var pkgs []c17.PkgText
	for i := 2; i < 2+n; i++ {
		app += fmt.Sprintf("IMPORT SCHEMA 'github.com/verif/p%d';\n", i)
	}
	app += "APPLICATION app1("
	for i := 2; i < 2+n; i++ {
		app += fmt.Sprintf(" USE p%d;", i)
	}
	app += " );\nWORKSPACE W1 (\n  TABLE t1 INHERITS sys.CDoc (a int32);\n  ROLE r1;\n  GRANT SELECT ON TABLE t1 TO r1;\n);\n"
	pkgs = append(pkgs, c17.PkgText{Path: "github.com/verif/app1", Files: []string{app}})
	for i := 2; i < 2+n; i++ {
		pkgs = append(pkgs, c17.PkgText{Path: fmt.Sprintf("github.com/verif/p%d", i), Files: []string{fmt.Sprintf(
			"WORKSPACE W%[1]d (\n  TABLE t%[1]d INHERITS sys.CDoc (a int32);\n  ROLE r%[1]d;\n  GRANT SELECT ON TABLE t%[1]d TO r%[1]d;\n  REVOKE SELECT ON TABLE t%[1]d FROM r%[1]d;\n);\n", i)}})
	}
	return withSys(pkgs)
}

// ---- container fields: `name TableName` in a table, the record table declared somewhere else ----

var containerDocs = [][2]string{{"CDoc", "CRecord"}, {"WDoc", "WRecord"}, {"ODoc", "ORecord"}, {"CSingleton", "CRecord"},
	{"WSingleton", "WRecord"}, {"CRecord", "CRecord"}, {"WRecord", "WRecord"}, {"ORecord", "ORecord"}}
var containerRecs = []string{"CRecord", "WRecord", "ORecord"}
var containerPlacements = []string{"same-ws-before", "same-ws-after", "base-ws-before", "base-ws-after", "base2-ws-after",
	"other-file-before", "other-file-after", "other-package-low", "other-package-high", "in-nested-base-after", "via-field-set-base-after"}

// containerProgram: a table of kind doc with a field `items rec`, rec a record table of kind rec, placed
// as the placement says. Right family: must compile and build; wrong family: the compiler must refuse it.
func containerProgram(doc, rec, placement string) []c17.PkgText {
	recT := "  TABLE rec INHERITS sys." + rec + " (x int32);\n"
	field := "items rec"
	docT := func(f string) string { return "  TABLE doc INHERITS sys." + doc + " (a int32, " + f + ");\n" }
	app := "APPLICATION app1();\n"
	one := func(src string) []c17.PkgText {
		return withSys([]c17.PkgText{{Path: "github.com/verif/app1", Files: []string{app + src}}})
	}
	base := "ABSTRACT WORKSPACE Base (\n" + recT + ");\n"
	w := func(inh, body string) string { return "WORKSPACE W " + inh + "(\n" + body + ");\n" }
	switch placement {
	case "same-ws-before":
		return one(w("", recT+docT(field)))
	case "same-ws-after":
		return one(w("", docT(field)+recT))
	case "base-ws-before":
		return one(base + w("INHERITS Base ", docT(field)))
	case "base-ws-after":
		return one(w("INHERITS Base ", docT(field)) + base)
	case "base2-ws-after":
		return one(w("INHERITS Mid ", docT(field)) + "ABSTRACT WORKSPACE Mid INHERITS Base ();\n" + base)
	case "other-file-before":
		return withSys([]c17.PkgText{{Path: "github.com/verif/app1", Files: []string{base, app + w("INHERITS Base ", docT(field))}}})
	case "other-file-after":
		return withSys([]c17.PkgText{{Path: "github.com/verif/app1", Files: []string{app + w("INHERITS Base ", docT(field)), base}}})
	case "other-package-low", "other-package-high":
		other := map[string]string{"other-package-low": "aaa", "other-package-high": "zzz"}[placement]
		return withSys([]c17.PkgText{
			{Path: "github.com/verif/app1", Files: []string{"IMPORT SCHEMA 'github.com/verif/" + other + "';\nAPPLICATION app1( USE " + other + "; );\n" +
				w("INHERITS "+other+".Base ", docT("items "+other+".rec"))}},
			{Path: "github.com/verif/" + other, Files: []string{base}}})
	case "in-nested-base-after":
		return one(w("INHERITS Base ", docT("n TABLE nn ("+field+")")) + base)
	case "via-field-set-base-after":
		return one(w("INHERITS Base ", "  TYPE fs (b int32);\n"+docT("fs, "+field)) + base)
	}
	return nil
}

func containerShape(r *kit.Rng, n int) ([]c17.PkgText, string) {
	// wrong families twice as often as right ones; the placements are cycled through
	placement := containerPlacements[n%len(containerPlacements)]
	d := containerDocs[r.Intn(len(containerDocs))]
	rec := d[1]
	verdict := "right-family"
	if n%3 != 0 {
		for rec == d[1] {
			rec = containerRecs[r.Intn(len(containerRecs))]
		}
		verdict = "wrong-family"
	}
	return containerProgram(d[0], rec, placement), "shape:container-" + verdict + ":" + placement + ":" + d[0] + "-" + rec
}

// ---- statement-level mutations of a shipped program ----

type span struct{ from, to int } // token indices [from, to)

// statements (token spans, without the separating ';') directly inside the body of a WORKSPACE /
// ALTER WORKSPACE statement
func workspaceStatements(toks []string) (stmts []span, bodies []span) {
	depth := 0
	type frame struct {
		ws    bool
		start int
	}
	var stack []frame
	pendingWs := false
	for i, t := range toks {
		switch t {
		case "WORKSPACE":
			pendingWs = true
		case "(":
			stack = append(stack, frame{ws: pendingWs, start: i + 1})
			pendingWs = false
			depth++
		case ")":
			if len(stack) > 0 {
				f := stack[len(stack)-1]
				stack = stack[:len(stack)-1]
				if f.ws {
					bodies = append(bodies, span{f.start, i})
					// split the body at ';' of its own depth
					d, from := 0, f.start
					for j := f.start; j < i; j++ {
						switch toks[j] {
						case "(":
							d++
						case ")":
							d--
						case ";":
							if d == 0 {
								if j > from {
									stmts = append(stmts, span{from, j})
								}
								from = j + 1
							}
						}
					}
				}
			}
			depth--
		case ";":
			if len(stack) == 0 {
				pendingWs = false
			}
		}
	}
	return
}

var stmtMutations = []string{"stmt-to-root", "stmt-to-other-workspace", "drop-intents", "drop-state", "drop-partition-group",
	"self-include", "grant-all-empty", "drop-inherits", "inherit-itself", "dup-statement"}

func firstWord(toks []string, s span) string {
	for i := s.from; i < s.to; i++ {
		if strings.TrimSpace(toks[i]) != "" && !strings.HasPrefix(toks[i], "--") && !strings.HasPrefix(toks[i], "/*") {
			return toks[i]
		}
	}
	return ""
}

var identRe = regexp.MustCompile(`^[A-Za-z_][A-Za-z0-9_]*$`)

func mutateStatements(r *kit.Rng, prog []c17.PkgText) ([]c17.PkgText, string) {
	res := make([]c17.PkgText, len(prog))
	for i, p := range prog {
		res[i] = c17.PkgText{Path: p.Path, Files: append([]string{}, p.Files...)}
	}
	pi := r.Intn(len(res))
	fi := r.Intn(len(res[pi].Files))
	toks := tokenize(res[pi].Files[fi])
	stmts, bodies := workspaceStatements(toks)
	start := r.Intn(len(stmtMutations))
	for k := 0; k < len(stmtMutations); k++ {
		m := stmtMutations[(start+k)%len(stmtMutations)]
		join := func(t []string) string { return strings.Join(t, "") }
		find := func(word string, from int) int {
			for i := from; i < len(toks); i++ {
				if toks[i] == word {
					return i
				}
			}
			return -1
		}
		matching := func(open int) int { // index of the ')' closing toks[open] == "("
			d := 0
			for i := open; i < len(toks); i++ {
				switch toks[i] {
				case "(":
					d++
				case ")":
					d--
					if d == 0 {
						return i
					}
				}
			}
			return -1
		}
		nextSig := func(i int) int {
			for i++; i < len(toks); i++ {
				if strings.TrimSpace(toks[i]) != "" {
					return i
				}
			}
			return -1
		}
		switch m {
		case "stmt-to-root", "stmt-to-other-workspace", "dup-statement":
			if len(stmts) == 0 {
				continue
			}
			s := stmts[r.Intn(len(stmts))]
			text := join(toks[s.from:s.to])
			switch m {
			case "stmt-to-root":
				res[pi].Files[fi] = join(toks[:s.from]) + join(toks[s.to:]) + "\n" + strings.TrimSpace(text) + ";\n"
			case "dup-statement":
				res[pi].Files[fi] = join(toks[:s.to]) + ";" + text + join(toks[s.to:])
			default:
				if len(bodies) < 2 {
					continue
				}
				b := bodies[r.Intn(len(bodies))]
				if b.from <= s.from && s.to <= b.to {
					continue
				}
				if b.to <= s.from {
					res[pi].Files[fi] = join(toks[:b.to]) + ";" + text + ";" + join(toks[b.to:s.from]) + join(toks[s.to:])
				} else {
					res[pi].Files[fi] = join(toks[:s.from]) + join(toks[s.to:b.to]) + ";" + text + ";" + join(toks[b.to:])
				}
			}
			return res, m + ":" + firstWord(toks, s)
		case "drop-intents", "drop-state":
			word := map[string]string{"drop-intents": "INTENTS", "drop-state": "STATE"}[m]
			var at []int
			for i, t := range toks {
				if t == word {
					at = append(at, i)
				}
			}
			if len(at) == 0 {
				continue
			}
			i := at[r.Intn(len(at))]
			o := nextSig(i)
			if o < 0 || toks[o] != "(" {
				continue
			}
			c := matching(o)
			if c < 0 {
				continue
			}
			res[pi].Files[fi] = join(toks[:i]) + join(toks[c+1:])
			return res, m
		case "drop-partition-group":
			// PRIMARY KEY ((a, b), c)  ->  PRIMARY KEY (a, b, c)
			var at []int
			for i, t := range toks {
				if t == "KEY" {
					at = append(at, i)
				}
			}
			if len(at) == 0 {
				continue
			}
			i := at[r.Intn(len(at))]
			o := nextSig(i)
			if o < 0 || toks[o] != "(" {
				continue
			}
			o2 := nextSig(o)
			if o2 < 0 || toks[o2] != "(" {
				continue
			}
			c2 := matching(o2)
			if c2 < 0 {
				continue
			}
			res[pi].Files[fi] = join(toks[:o2]) + join(toks[o2+1:c2]) + join(toks[c2+1:])
			return res, m
		case "self-include", "inherit-itself", "drop-inherits":
			// TYPE name ( ...   /   TABLE name [INHERITS x] ( ...
			var at []int
			for i, t := range toks {
				if (t == "TYPE" && m == "self-include") || (t == "TABLE" && m != "self-include") {
					at = append(at, i)
				}
			}
			if len(at) == 0 {
				continue
			}
			i := at[r.Intn(len(at))]
			n := nextSig(i)
			if n < 0 || !identRe.MatchString(toks[n]) {
				continue
			}
			name := toks[n]
			switch m {
			case "self-include":
				o := nextSig(n)
				if o < 0 || toks[o] != "(" {
					continue
				}
				extra := ""
				if r.Chance(1, 2) {
					extra = "UNIQUEFIELD zznone, "
					m = "self-include-uniquefield"
				}
				res[pi].Files[fi] = join(toks[:o+1]) + name + ", " + extra + join(toks[o+1:])
			default:
				inh := nextSig(n)
				if inh < 0 || toks[inh] != "INHERITS" {
					continue
				}
				o := find("(", inh)
				if o < 0 {
					continue
				}
				if m == "inherit-itself" {
					res[pi].Files[fi] = join(toks[:inh+1]) + " " + name + " " + join(toks[o:])
				} else {
					res[pi].Files[fi] = join(toks[:inh]) + join(toks[o:])
				}
			}
			return res, m
		case "grant-all-empty":
			if len(bodies) == 0 {
				continue
			}
			b := bodies[r.Intn(len(bodies))]
			class := kit.Pick(r, []string{"SELECT ON ALL VIEWS", "EXECUTE ON ALL COMMANDS", "EXECUTE ON ALL QUERIES", "INSERT ON ALL TABLES"})
			res[pi].Files[fi] = join(toks[:b.from]) + " ROLE zzrole; GRANT " + class + " TO zzrole; " + join(toks[b.from:])
			return res, m
		}
	}
	return res, "none"
}

// ---- which shapes the known findings are about (computed from the source text) ----

var jobRe = regexp.MustCompile(`\bJOB\s+([A-Za-z_]\w*)`)

// a view AS RESULT OF a job (C16-F4)
func hasViewOfJob(texts []c17.PkgText) bool {
	for _, p := range texts {
		for _, f := range p.Files {
			for _, m := range jobRe.FindAllStringSubmatch(f, -1) {
				if regexp.MustCompile(`\bRESULT\s+OF\s+(\w+\s*\.\s*)?` + regexp.QuoteMeta(m[1]) + `\b`).MatchString(f) {
					return true
				}
			}
		}
	}
	return false
}

// a TYPE that includes itself as a field set, directly or through other types (C16-F5)
func hasFieldSetCycle(texts []c17.PkgText) bool {
	includes := map[string][]string{}
	for _, p := range texts {
		for _, f := range p.Files {
			toks := tokenize(f)
			var sig []string
			for _, t := range toks {
				if strings.TrimSpace(t) != "" && !strings.HasPrefix(t, "--") && !strings.HasPrefix(t, "/*") {
					sig = append(sig, t)
				}
			}
			for i := 0; i+2 < len(sig); i++ {
				if sig[i] != "TYPE" || !identRe.MatchString(sig[i+1]) || sig[i+2] != "(" {
					continue
				}
				name, d, item := sig[i+1], 0, []string{}
				for j := i + 2; j < len(sig); j++ {
					switch {
					case sig[j] == "(":
						d++
						if d > 1 {
							item = append(item, sig[j])
						}
					case sig[j] == ")":
						d--
						if d > 0 {
							item = append(item, sig[j])
						}
					case sig[j] == "," && d == 1:
						if len(item) == 1 || (len(item) == 3 && item[1] == ".") {
							includes[name] = append(includes[name], item[len(item)-1])
						}
						item = nil
						continue
					default:
						item = append(item, sig[j])
					}
					if d == 0 {
						if len(item) == 1 || (len(item) == 3 && item[1] == ".") {
							includes[name] = append(includes[name], item[len(item)-1])
						}
						break
					}
				}
			}
		}
	}
	// depth-first with colours: every TYPE is expanded once (a TYPE included along many paths must not multiply
	// the work: the harness itself would hang on `TYPE tN (tN-1, tN-1)` ...)
	const (
		white = iota
		grey
		black
	)
	colour := map[string]int{}
	var visit func(n string, _ map[string]bool) bool
	visit = func(n string, _ map[string]bool) bool {
		switch colour[n] {
		case grey:
			return true
		case black:
			return false
		}
		colour[n] = grey
		for _, x := range includes[n] {
			if visit(x, nil) {
				return true
			}
		}
		colour[n] = black
		return false
	}
	for n := range includes {
		if visit(n, map[string]bool{}) {
			return true
		}
	}
	return false
}
