package c07

import (
	"fmt"
	"os"
	"sort"
	"strings"

	"verifharness/c06"
	"verifharness/kit"
)

func Generate(seed uint64, n int, tier, corpusDir string, shard int, out *kit.Out) error {
	r := kit.NewRng(seed)
	if corpusDir != "" {
		entries, _ := os.ReadDir(corpusDir)
		var names []string
		for _, e := range entries {
			if strings.HasSuffix(e.Name(), ".json") {
				names = append(names, e.Name())
			}
		}
		sort.Strings(names)
		for _, nm := range names {
			if err := Replay(corpusDir+"/"+nm, out); err != nil {
				return err
			}
		}
	}
	// histories with values around the size at which an entry stops fitting the cache (finding F26)
	nBig := n / 10
	if nBig < 12 {
		nBig = 12
	}
	for i := 0; i < nBig; i++ {
		backend := "mem"
		if i%3 == 2 {
			backend = "bbolt"
		}
		c, err := runSeq(markReuse(r, bigHistory(r.Fork(), backend)))
		if err != nil {
			return err
		}
		out.Emit(c)
	}
	// histories over two handles of one caching provider, with failing writes, or both (findings C07-HANDLES and
	// C07-WRITEERR, repaired)
	nX := n / 6
	for i := 0; i < nX; i++ {
		backend := "mem"
		if i%4 == 3 {
			backend = "bbolt"
		}
		xh := markReuse(r, xHistory(r.Fork(), backend, i%3))
		if i%3 != 1 && i%9 < 3 { // a few of the two-handle histories take their handles by two overlapping calls (150 ms each on /repo)
			xh.ConcurrentHandles = true
		}
		c, err := runSeqX(xh)
		if err != nil {
			return err
		}
		out.Emit(c)
	}
	// histories whose GetBatch calls pass the items slice of an earlier call again (seed c07-7)
	nR := n / 12
	for i := 0; i < nR; i++ {
		backend := "mem"
		if i%3 == 2 {
			backend = "bbolt"
		}
		c, err := runSeq(batchReuseHistory(r.Fork(), backend))
		if err != nil {
			return err
		}
		out.Emit(c)
	}
	// a cache that starts cold over rows written by an earlier run (what remains of finding F23)
	nC := n / 24
	for i := 0; i < nC; i++ {
		backend := "mem"
		if i%2 == 1 {
			backend = "bbolt"
		}
		c, err := runSeqX(coldHistory(r.Fork(), backend))
		if err != nil {
			return err
		}
		out.Emit(c)
	}
	nSeq := n*2/3 - nBig - nX - nR - nC
	for i := 0; i < nSeq; i++ {
		backend := "mem"
		if i%3 == 2 {
			backend = "bbolt"
		}
		al := alphabets
		if i%8 == 5 {
			al = longAlphabets
		}
		c, err := runSeq(markReuse(r, c06.GenHistory(r.Fork(), backend, al)))
		if err != nil {
			return err
		}
		out.Emit(c)
	}
	configs := []schedCase{
		{Init: 0, Prog: []string{"put:1", "put:2"}, Readers: [][]string{{"get", "get"}}},
		{Init: 0, Prog: []string{"put:1", "put:2"}, Readers: [][]string{{"get", "get"}, {"get", "get"}}},
		{Init: -1, Prog: []string{"ins:1"}, Readers: [][]string{{"ttlget"}, {"ttlget", "get"}}},
		{Init: -1, Prog: []string{"ins:1", "put:2"}, Readers: [][]string{{"ttlget", "ttlget"}, {"get"}}},
		{Init: -1, Prog: []string{"put:1"}, Readers: [][]string{{"get"}, {"ttlget"}, {"get", "ttlget"}}},
		{Init: 0, Prog: []string{"put:1", "put:2", "put:3"}, Readers: [][]string{{"ttlget"}, {"get", "get"}}},
		{Init: 5, Prog: []string{"put:6"}, Readers: [][]string{{"ttlget", "get"}, {"get"}, {"ttlget"}}},
		// programs with a delete (the stale re-fill after a delete was finding F8b, repaired)
		{Init: 0, Prog: []string{"put:1", "del"}, Readers: [][]string{{"get", "get"}, {"get"}}},
		{Init: 3, Prog: []string{"del", "ins:4"}, Readers: [][]string{{"get", "get"}, {"ttlget", "get"}}},
		// programs with a value too big for a cache entry (the entry it left behind was finding F26, repaired)
		{Init: -1, Prog: []string{"putbig:7"}, Readers: [][]string{{"get", "get"}, {"get", "ttlget"}}},
		{Init: 1, Prog: []string{"put:2", "putbig:3", "put:4"}, Readers: [][]string{{"get", "get"}, {"ttlget", "get"}}},
		{Init: 0, Prog: []string{"putbig:1", "del", "putbig:2"}, Readers: [][]string{{"get", "get"}, {"get"}, {"ttlget", "get"}}},
		// programs with a TTL write and clock steps ("C") anywhere in the schedule (an expired entry dropped by
		// TTLGet under a read in flight was finding C07-EXPDEL, repaired)
		{Init: 0, Prog: []string{"cast:1"}, Readers: [][]string{{"get"}, {"ttlget"}, {"get", "ttlget"}}},
		{Init: -1, Prog: []string{"inst:1", "inst:2"}, Readers: [][]string{{"ttlget", "get"}, {"ttlget", "ttlget"}}},
		{Init: 5, Prog: []string{"put:6", "cast:7", "put:8"}, Readers: [][]string{{"get", "ttlget"}, {"ttlget", "get"}}},
		{Init: 3, Prog: []string{"del", "inst:4", "putbig:5"}, Readers: [][]string{{"get", "get"}, {"ttlget"}, {"ttlget"}}},
	}
	for i := 0; i < n-nSeq-nBig-nX-nR-nC; i++ {
		cr := r.Fork()
		sc := configs[i%len(configs)]
		sc.Kind = "sched"
		sc.Sched = genSchedule(cr, &sc)
		c, err := runSched(&sc)
		if err != nil {
			return err
		}
		out.Emit(c)
	}
	return nil
}

// cacheMaxEntry: len(pKey)+len(cCols)+8+len(value) at which the cache stops storing the entry and
// marks the row instead (maxCachedEntrySize of istoragecache = fastcache's chunk size - 4)
const cacheMaxEntry = 64*1024 - 4

// bigHistory: a sequential history on a few keys of one partition whose values are tiny or lie around
// the size at which the entry of the key stops fitting the cache (exactly below / at / above the
// boundary of that key, then 65535, 65536 and 70000 bytes), every value one repeated byte that changes
// from write to write, with Get / TTLGet / GetBatch before and after every write
func bigHistory(r *kit.Rng, backend string) *c06.History {
	pk := kit.Pick(r, []string{"6161", "6162", "ffff"})
	ccs := []string{"", "01", "6162"}
	if r.Chance(1, 4) {
		ccs = []string{"01", "ff", strings.Repeat("78", 40)}
	}
	if backend == "mem" && r.Chance(1, 5) {
		// cache keys pKey ++ cCols of 65530, 65531 and 65532 bytes: the longest under which the mark fits a
		// fastcache chunk, the one under which only "known missing" would fit (finding F26b), and one under
		// which nothing fits (bbolt refuses keys that long)
		ccs = []string{fmt.Sprintf("%02x*%d", 1+r.Intn(200), cacheMaxEntry-2-len(pk)/2), fmt.Sprintf("%02x*%d", 1+r.Intn(200), cacheMaxEntry-1-len(pk)/2), fmt.Sprintf("%02x*%d", 1+r.Intn(200), cacheMaxEntry-len(pk)/2)}
	}
	nb := 0
	val := func(cc string) string {
		nb++
		b := fmt.Sprintf("%02x", 1+(nb*37)%250)
		boundary := cacheMaxEntry - 8 - len(pk)/2 - len(c06.Unhex(cc)) // the smallest value length that is marked
		if boundary < 2 { // a key so long that every value is marked (or nothing is cached at all)
			return kit.Pick(r, []string{"", "7631", b})
		}
		switch r.Intn(10) {
		case 0, 1:
			return kit.Pick(r, []string{"", "7631", b})
		case 2:
			return fmt.Sprintf("%s*%d", b, boundary-1)
		case 3, 4:
			return fmt.Sprintf("%s*%d", b, boundary)
		case 5:
			return fmt.Sprintf("%s*%d", b, boundary+1)
		case 6:
			return fmt.Sprintf("%s*%d", b, kit.Pick(r, []int{65520, 65524}))
		case 7:
			return fmt.Sprintf("%s*%d", b, kit.Pick(r, []int{65535, 65536}))
		default:
			return fmt.Sprintf("%s*%d", b, 70000)
		}
	}
	cur := map[string]string{} // what the generator believes the row holds (a guess is enough: Cas/Cad may be refused)
	h := &c06.History{Backend: backend}
	read := func(cc string) {
		switch r.Intn(5) {
		case 0, 1:
			h.Ops = append(h.Ops, &c06.Op{Op: "Get", PK: pk, CC: cc})
		case 2, 3:
			h.Ops = append(h.Ops, &c06.Op{Op: "TTLGet", PK: pk, CC: cc})
		default:
			o := &c06.Op{Op: "GetBatch", PK: pk, CCs: []string{cc}}
			if r.Bool() {
				o.CCs = append(o.CCs, kit.Pick(r, ccs))
			}
			h.Ops = append(h.Ops, o)
		}
	}
	n := 3 + r.Intn(4)
	for i := 0; i < n; i++ {
		cc := kit.Pick(r, ccs)
		if r.Chance(2, 3) {
			read(cc) // what the cache holds before the write: "missing", a value, the mark, or nothing
		}
		switch r.Intn(10) {
		case 0, 1, 2, 3:
			v := val(cc)
			h.Ops = append(h.Ops, &c06.Op{Op: "Put", PK: pk, CC: cc, V: v})
			cur[cc] = v
		case 4:
			v := val(cc)
			h.Ops = append(h.Ops, &c06.Op{Op: "Ins", PK: pk, CC: cc, V: v, TTL: kit.Pick(r, []int{0, 0, 2})})
			if _, ok := cur[cc]; !ok {
				cur[cc] = v
			}
		case 5, 6:
			v := val(cc)
			h.Ops = append(h.Ops, &c06.Op{Op: "Cas", PK: pk, CC: cc, Old: cur[cc], V: v, TTL: kit.Pick(r, []int{0, 0, 0, 2})})
			if _, ok := cur[cc]; ok {
				cur[cc] = v
			}
		case 7:
			h.Ops = append(h.Ops, &c06.Op{Op: "Cad", PK: pk, CC: cc, Old: cur[cc]})
			delete(cur, cc)
		default:
			o := &c06.Op{Op: "PutBatch", PK: pk}
			for _, c := range ccs[:1+r.Intn(len(ccs))] {
				v := val(c)
				o.Items = append(o.Items, [3]string{pk, c, v})
				cur[c] = v
			}
			h.Ops = append(h.Ops, o)
		}
		read(cc)
		if r.Chance(1, 2) {
			read(kit.Pick(r, ccs))
		}
		if r.Chance(1, 6) {
			h.Ops = append(h.Ops, &c06.Op{Op: "Advance", Ms: kit.Pick(r, []int64{999, 2000})})
		}
	}
	h.Ops = append(h.Ops, &c06.Op{Op: "GetBatch", PK: pk, CCs: ccs}, &c06.Op{Op: "Read", PK: pk})
	return h
}

// markReuse: a GetBatch that repeats the partition key and clustering columns of an earlier GetBatch of the
// history passes (2 times of 3) the items slice of that call again
func markReuse(r *kit.Rng, h *c06.History) *c06.History {
	seen := map[string]bool{}
	for _, o := range h.Ops {
		if o.Op != "GetBatch" {
			continue
		}
		k := o.PK + "|" + strings.Join(o.CCs, ",")
		if seen[k] && r.Chance(2, 3) {
			o.Reuse = true
		}
		seen[k] = true
	}
	return h
}

// batchReuseHistory: writes, deletes and point reads on three keys of one partition between GetBatch calls over
// the same clustering columns, most of which re-use the items slice of the call before (Ok and *Data as that
// call left them): a storage - and a cache answering the whole batch from its entries - must set Ok and Data of
// every item on every call, for rows that are missing, were deleted or expired in between as well
func batchReuseHistory(r *kit.Rng, backend string) *c06.History {
	pk := kit.Pick(r, []string{"6161", "6162", "0000"})
	ccs := []string{"", "01", "6162"}
	lists := [][]string{ccs, ccs[:2], {ccs[2]}, {ccs[1], ccs[0]}}
	cur := map[string]string{}
	h := &c06.History{Backend: backend}
	batch := func() {
		l := lists[0]
		if r.Chance(1, 3) {
			l = kit.Pick(r, lists)
		}
		h.Ops = append(h.Ops, &c06.Op{Op: "GetBatch", PK: pk, CCs: append([]string{}, l...)})
	}
	nv := 0
	val := func() string { nv++; return fmt.Sprintf("76%02x", nv) }
	batch()
	n := 5 + r.Intn(8)
	for i := 0; i < n; i++ {
		cc := kit.Pick(r, ccs)
		switch r.Intn(10) {
		case 0, 1, 2:
			v := val()
			h.Ops = append(h.Ops, &c06.Op{Op: "Put", PK: pk, CC: cc, V: v})
			cur[cc] = v
		case 3, 4, 5:
			h.Ops = append(h.Ops, &c06.Op{Op: "Cad", PK: pk, CC: cc, Old: cur[cc]})
			delete(cur, cc)
		case 6:
			v := val()
			ttl := kit.Pick(r, []int{0, 1})
			h.Ops = append(h.Ops, &c06.Op{Op: "Ins", PK: pk, CC: cc, V: v, TTL: ttl})
			if _, ok := cur[cc]; !ok {
				cur[cc] = v
			}
			if ttl > 0 && r.Bool() {
				h.Ops = append(h.Ops, &c06.Op{Op: "TTLGet", PK: pk, CC: cc}, &c06.Op{Op: "Advance", Ms: 1000}, &c06.Op{Op: "TTLGet", PK: pk, CC: cc})
				delete(cur, cc)
			}
		case 7:
			h.Ops = append(h.Ops, &c06.Op{Op: kit.Pick(r, []string{"Get", "TTLGet"}), PK: pk, CC: cc})
		default:
			o := &c06.Op{Op: "PutBatch", PK: pk}
			for _, c := range ccs[:1+r.Intn(len(ccs))] {
				v := val()
				o.Items = append(o.Items, [3]string{pk, c, v})
				cur[c] = v
			}
			h.Ops = append(h.Ops, o)
		}
		if r.Chance(3, 4) {
			batch()
		}
	}
	batch()
	h = markReuse(r, h)
	for _, o := range h.Ops { // here most repeated batches re-use the slice
		if o.Op == "GetBatch" && !o.Reuse && r.Chance(1, 2) {
			o.Reuse = true
		}
	}
	return h
}

// coldHistory: one to three rows written to the storage directly (with and without a TTL), then the cache is
// used: point reads, batches, clock advances around the TTLs, writes
func coldHistory(r *kit.Rng, backend string) *c06.History {
	pk := kit.Pick(r, []string{"6161", "6162"})
	ccs := []string{"01", "6162", "ff"}
	h := &c06.History{Backend: backend}
	cur := map[string]string{}
	for i, cc := range ccs[:1+r.Intn(3)] {
		v := fmt.Sprintf("77%02x", i)
		if r.Chance(2, 3) {
			h.Ops = append(h.Ops, &c06.Op{Op: "Ins", PK: pk, CC: cc, V: v, TTL: 1 + r.Intn(2), Raw: true})
		} else {
			h.Ops = append(h.Ops, &c06.Op{Op: "Put", PK: pk, CC: cc, V: v, Raw: true})
		}
		cur[cc] = v
	}
	n := 6 + r.Intn(8)
	for i := 0; i < n; i++ {
		cc := kit.Pick(r, ccs)
		switch r.Intn(12) {
		case 0, 1, 2:
			h.Ops = append(h.Ops, &c06.Op{Op: "Get", PK: pk, CC: cc})
		case 3, 4, 5:
			h.Ops = append(h.Ops, &c06.Op{Op: "TTLGet", PK: pk, CC: cc})
		case 6:
			h.Ops = append(h.Ops, &c06.Op{Op: "GetBatch", PK: pk, CCs: []string{cc, kit.Pick(r, ccs)}})
		case 7, 8:
			h.Ops = append(h.Ops, &c06.Op{Op: "Advance", Ms: kit.Pick(r, []int64{999, 1000, 2000})})
		case 9:
			v := fmt.Sprintf("78%02x", i)
			h.Ops = append(h.Ops, &c06.Op{Op: "Put", PK: pk, CC: cc, V: v})
			cur[cc] = v
		case 10:
			v := fmt.Sprintf("79%02x", i)
			h.Ops = append(h.Ops, &c06.Op{Op: "Cas", PK: pk, CC: cc, Old: cur[cc], V: v, TTL: kit.Pick(r, []int{0, 1})})
			cur[cc] = v
		default:
			h.Ops = append(h.Ops, &c06.Op{Op: "Cad", PK: pk, CC: cc, Old: cur[cc]})
		}
	}
	h.Ops = append(h.Ops, &c06.Op{Op: "TTLGet", PK: pk, CC: ccs[0]}, &c06.Op{Op: "TTLRead", PK: pk})
	return h
}

func Replay(path string, out *kit.Out) error {
	kind, h, sc, err := load(path)
	if err != nil {
		return err
	}
	var c kit.Case
	if kind == "sched" {
		c, err = runSched(sc)
	} else if kind == "seqx" {
		for _, o := range h.Ops {
			o.Out = ""
		}
		c, err = runSeqX(h)
	} else {
		for _, o := range h.Ops {
			o.Out = ""
		}
		c, err = runSeq(h)
	}
	if err != nil {
		return err
	}
	out.Emit(c)
	return nil
}

func init() { kit.Register("C07", kit.Runner{Generate: Generate, Replay: Replay}) }
