package c07

import (
	"os"
	"sort"
	"strings"

	"verifharness/c06"
	"verifharness/kit"
)

func Generate(seed uint64, n int, tier, corpusDir string, shard int, out *kit.Out) error {
	r := kit.NewRng(seed)
	if corpusDir != "" {
		entries, _ := os.ReadDir(corpusDir)
		var names []string
		for _, e := range entries {
			if strings.HasSuffix(e.Name(), ".json") {
				names = append(names, e.Name())
			}
		}
		sort.Strings(names)
		for _, nm := range names {
			if err := Replay(corpusDir+"/"+nm, out); err != nil {
				return err
			}
		}
	}
	nSeq := n * 2 / 3
	for i := 0; i < nSeq; i++ {
		backend := "mem"
		if i%3 == 2 {
			backend = "bbolt"
		}
		al := alphabets
		if i%8 == 5 {
			al = longAlphabets
		}
		c, err := runSeq(c06.GenHistory(r.Fork(), backend, al))
		if err != nil {
			return err
		}
		out.Emit(c)
	}
	configs := []schedCase{
		{Init: 0, Prog: []string{"put:1", "put:2"}, Readers: [][]string{{"get", "get"}}},
		{Init: 0, Prog: []string{"put:1", "put:2"}, Readers: [][]string{{"get", "get"}, {"get", "get"}}},
		{Init: -1, Prog: []string{"ins:1"}, Readers: [][]string{{"ttlget"}, {"ttlget", "get"}}},
		{Init: -1, Prog: []string{"ins:1", "put:2"}, Readers: [][]string{{"ttlget", "ttlget"}, {"get"}}},
		{Init: -1, Prog: []string{"put:1"}, Readers: [][]string{{"get"}, {"ttlget"}, {"get", "ttlget"}}},
		{Init: 0, Prog: []string{"put:1", "put:2", "put:3"}, Readers: [][]string{{"ttlget"}, {"get", "get"}}},
		{Init: 5, Prog: []string{"put:6"}, Readers: [][]string{{"ttlget", "get"}, {"get"}, {"ttlget"}}},
		// programs with a delete (the stale re-fill after a delete was finding F8b, repaired)
		{Init: 0, Prog: []string{"put:1", "del"}, Readers: [][]string{{"get", "get"}, {"get"}}},
		{Init: 3, Prog: []string{"del", "ins:4"}, Readers: [][]string{{"get", "get"}, {"ttlget", "get"}}},
	}
	for i := 0; i < n-nSeq; i++ {
		cr := r.Fork()
		sc := configs[i%len(configs)]
		sc.Kind = "sched"
		sc.Sched = genSchedule(cr, &sc)
		c, err := runSched(&sc)
		if err != nil {
			return err
		}
		out.Emit(c)
	}
	return nil
}

func Replay(path string, out *kit.Out) error {
	kind, h, sc, err := load(path)
	if err != nil {
		return err
	}
	var c kit.Case
	if kind == "sched" {
		c, err = runSched(sc)
	} else {
		for _, o := range h.Ops {
			o.Out = ""
		}
		c, err = runSeq(h)
	}
	if err != nil {
		return err
	}
	out.Emit(c)
	return nil
}

func init() { kit.Register("C07", kit.Runner{Generate: Generate, Replay: Replay}) }
