package c07

import (
	"fmt"
	"os"
	"sort"
	"strings"

	"verifharness/c06"
	"verifharness/kit"
)

func Generate(seed uint64, n int, tier, corpusDir string, shard int, out *kit.Out) error {
	r := kit.NewRng(seed)
	if corpusDir != "" {
		entries, _ := os.ReadDir(corpusDir)
		var names []string
		for _, e := range entries {
			if strings.HasSuffix(e.Name(), ".json") {
				names = append(names, e.Name())
			}
		}
		sort.Strings(names)
		for _, nm := range names {
			if err := Replay(corpusDir+"/"+nm, out); err != nil {
				return err
			}
		}
	}
	// histories with values around the size at which an entry stops fitting the cache (finding F26)
	nBig := n / 10
	if nBig < 12 {
		nBig = 12
	}
	for i := 0; i < nBig; i++ {
		backend := "mem"
		if i%3 == 2 {
			backend = "bbolt"
		}
		c, err := runSeq(bigHistory(r.Fork(), backend))
		if err != nil {
			return err
		}
		out.Emit(c)
	}
	// histories over two handles of one caching provider, with failing writes, or both (findings C07-HANDLES and
	// C07-WRITEERR, repaired)
	nX := n / 6
	for i := 0; i < nX; i++ {
		backend := "mem"
		if i%4 == 3 {
			backend = "bbolt"
		}
		c, err := runSeqX(xHistory(r.Fork(), backend, i%3))
		if err != nil {
			return err
		}
		out.Emit(c)
	}
	nSeq := n*2/3 - nBig - nX
	for i := 0; i < nSeq; i++ {
		backend := "mem"
		if i%3 == 2 {
			backend = "bbolt"
		}
		al := alphabets
		if i%8 == 5 {
			al = longAlphabets
		}
		c, err := runSeq(c06.GenHistory(r.Fork(), backend, al))
		if err != nil {
			return err
		}
		out.Emit(c)
	}
	configs := []schedCase{
		{Init: 0, Prog: []string{"put:1", "put:2"}, Readers: [][]string{{"get", "get"}}},
		{Init: 0, Prog: []string{"put:1", "put:2"}, Readers: [][]string{{"get", "get"}, {"get", "get"}}},
		{Init: -1, Prog: []string{"ins:1"}, Readers: [][]string{{"ttlget"}, {"ttlget", "get"}}},
		{Init: -1, Prog: []string{"ins:1", "put:2"}, Readers: [][]string{{"ttlget", "ttlget"}, {"get"}}},
		{Init: -1, Prog: []string{"put:1"}, Readers: [][]string{{"get"}, {"ttlget"}, {"get", "ttlget"}}},
		{Init: 0, Prog: []string{"put:1", "put:2", "put:3"}, Readers: [][]string{{"ttlget"}, {"get", "get"}}},
		{Init: 5, Prog: []string{"put:6"}, Readers: [][]string{{"ttlget", "get"}, {"get"}, {"ttlget"}}},
		// programs with a delete (the stale re-fill after a delete was finding F8b, repaired)
		{Init: 0, Prog: []string{"put:1", "del"}, Readers: [][]string{{"get", "get"}, {"get"}}},
		{Init: 3, Prog: []string{"del", "ins:4"}, Readers: [][]string{{"get", "get"}, {"ttlget", "get"}}},
		// programs with a value too big for a cache entry (the entry it left behind was finding F26, repaired)
		{Init: -1, Prog: []string{"putbig:7"}, Readers: [][]string{{"get", "get"}, {"get", "ttlget"}}},
		{Init: 1, Prog: []string{"put:2", "putbig:3", "put:4"}, Readers: [][]string{{"get", "get"}, {"ttlget", "get"}}},
		{Init: 0, Prog: []string{"putbig:1", "del", "putbig:2"}, Readers: [][]string{{"get", "get"}, {"get"}, {"ttlget", "get"}}},
		// programs with a TTL write and clock steps ("C") anywhere in the schedule (an expired entry dropped by
		// TTLGet under a read in flight is finding C07-EXPDEL)
		{Init: 0, Prog: []string{"cast:1"}, Readers: [][]string{{"get"}, {"ttlget"}, {"get", "ttlget"}}},
		{Init: -1, Prog: []string{"inst:1", "inst:2"}, Readers: [][]string{{"ttlget", "get"}, {"ttlget", "ttlget"}}},
		{Init: 5, Prog: []string{"put:6", "cast:7", "put:8"}, Readers: [][]string{{"get", "ttlget"}, {"ttlget", "get"}}},
		{Init: 3, Prog: []string{"del", "inst:4", "putbig:5"}, Readers: [][]string{{"get", "get"}, {"ttlget"}, {"ttlget"}}},
	}
	for i := 0; i < n-nSeq-nBig-nX; i++ {
		cr := r.Fork()
		sc := configs[i%len(configs)]
		sc.Kind = "sched"
		sc.Sched = genSchedule(cr, &sc)
		c, err := runSched(&sc)
		if err != nil {
			return err
		}
		out.Emit(c)
	}
	return nil
}

// cacheMaxEntry: len(pKey)+len(cCols)+8+len(value) at which the cache stops storing the entry and
// marks the row instead (maxCachedEntrySize of istoragecache = fastcache's chunk size - 4)
const cacheMaxEntry = 64*1024 - 4

// bigHistory: a sequential history on a few keys of one partition whose values are tiny or lie around
// the size at which the entry of the key stops fitting the cache (exactly below / at / above the
// boundary of that key, then 65535, 65536 and 70000 bytes), every value one repeated byte that changes
// from write to write, with Get / TTLGet / GetBatch before and after every write
func bigHistory(r *kit.Rng, backend string) *c06.History {
	pk := kit.Pick(r, []string{"6161", "6162", "ffff"})
	ccs := []string{"", "01", "6162"}
	if r.Chance(1, 4) {
		ccs = []string{"01", "ff", strings.Repeat("78", 40)}
	}
	if backend == "mem" && r.Chance(1, 5) {
		// cache keys pKey ++ cCols of 65530, 65531 and 65532 bytes: the longest under which the mark fits a
		// fastcache chunk, the one under which only "known missing" would fit (finding F26b), and one under
		// which nothing fits (bbolt refuses keys that long)
		ccs = []string{fmt.Sprintf("%02x*%d", 1+r.Intn(200), cacheMaxEntry-2-len(pk)/2), fmt.Sprintf("%02x*%d", 1+r.Intn(200), cacheMaxEntry-1-len(pk)/2), fmt.Sprintf("%02x*%d", 1+r.Intn(200), cacheMaxEntry-len(pk)/2)}
	}
	nb := 0
	val := func(cc string) string {
		nb++
		b := fmt.Sprintf("%02x", 1+(nb*37)%250)
		boundary := cacheMaxEntry - 8 - len(pk)/2 - len(c06.Unhex(cc)) // the smallest value length that is marked
		if boundary < 2 { // a key so long that every value is marked (or nothing is cached at all)
			return kit.Pick(r, []string{"", "7631", b})
		}
		switch r.Intn(10) {
		case 0, 1:
			return kit.Pick(r, []string{"", "7631", b})
		case 2:
			return fmt.Sprintf("%s*%d", b, boundary-1)
		case 3, 4:
			return fmt.Sprintf("%s*%d", b, boundary)
		case 5:
			return fmt.Sprintf("%s*%d", b, boundary+1)
		case 6:
			return fmt.Sprintf("%s*%d", b, kit.Pick(r, []int{65520, 65524}))
		case 7:
			return fmt.Sprintf("%s*%d", b, kit.Pick(r, []int{65535, 65536}))
		default:
			return fmt.Sprintf("%s*%d", b, 70000)
		}
	}
	cur := map[string]string{} // what the generator believes the row holds (a guess is enough: Cas/Cad may be refused)
	h := &c06.History{Backend: backend}
	read := func(cc string) {
		switch r.Intn(5) {
		case 0, 1:
			h.Ops = append(h.Ops, &c06.Op{Op: "Get", PK: pk, CC: cc})
		case 2, 3:
			h.Ops = append(h.Ops, &c06.Op{Op: "TTLGet", PK: pk, CC: cc})
		default:
			o := &c06.Op{Op: "GetBatch", PK: pk, CCs: []string{cc}}
			if r.Bool() {
				o.CCs = append(o.CCs, kit.Pick(r, ccs))
			}
			h.Ops = append(h.Ops, o)
		}
	}
	n := 3 + r.Intn(4)
	for i := 0; i < n; i++ {
		cc := kit.Pick(r, ccs)
		if r.Chance(2, 3) {
			read(cc) // what the cache holds before the write: "missing", a value, the mark, or nothing
		}
		switch r.Intn(10) {
		case 0, 1, 2, 3:
			v := val(cc)
			h.Ops = append(h.Ops, &c06.Op{Op: "Put", PK: pk, CC: cc, V: v})
			cur[cc] = v
		case 4:
			v := val(cc)
			h.Ops = append(h.Ops, &c06.Op{Op: "Ins", PK: pk, CC: cc, V: v, TTL: kit.Pick(r, []int{0, 0, 2})})
			if _, ok := cur[cc]; !ok {
				cur[cc] = v
			}
		case 5, 6:
			v := val(cc)
			h.Ops = append(h.Ops, &c06.Op{Op: "Cas", PK: pk, CC: cc, Old: cur[cc], V: v, TTL: kit.Pick(r, []int{0, 0, 0, 2})})
			if _, ok := cur[cc]; ok {
				cur[cc] = v
			}
		case 7:
			h.Ops = append(h.Ops, &c06.Op{Op: "Cad", PK: pk, CC: cc, Old: cur[cc]})
			delete(cur, cc)
		default:
			o := &c06.Op{Op: "PutBatch", PK: pk}
			for _, c := range ccs[:1+r.Intn(len(ccs))] {
				v := val(c)
				o.Items = append(o.Items, [3]string{pk, c, v})
				cur[c] = v
			}
			h.Ops = append(h.Ops, o)
		}
		read(cc)
		if r.Chance(1, 2) {
			read(kit.Pick(r, ccs))
		}
		if r.Chance(1, 6) {
			h.Ops = append(h.Ops, &c06.Op{Op: "Advance", Ms: kit.Pick(r, []int64{999, 2000})})
		}
	}
	h.Ops = append(h.Ops, &c06.Op{Op: "GetBatch", PK: pk, CCs: ccs}, &c06.Op{Op: "Read", PK: pk})
	return h
}

func Replay(path string, out *kit.Out) error {
	kind, h, sc, err := load(path)
	if err != nil {
		return err
	}
	var c kit.Case
	if kind == "sched" {
		c, err = runSched(sc)
	} else if kind == "seqx" {
		for _, o := range h.Ops {
			o.Out = ""
		}
		c, err = runSeqX(h)
	} else {
		for _, o := range h.Ops {
			o.Out = ""
		}
		c, err = runSeq(h)
	}
	if err != nil {
		return err
	}
	out.Emit(c)
	return nil
}

func init() { kit.Register("C07", kit.Runner{Generate: Generate, Replay: Replay}) }
