package c07

import (
	"os"
	"sort"
	"strings"

	"verifharness/c06"
	"verifharness/kit"
)

func Generate(seed uint64, n int, tier, corpusDir string, shard int, out *kit.Out) error {
	r := kit.NewRng(seed)
	if corpusDir != "" {
		entries, _ := os.ReadDir(corpusDir)
		var names []string
		for _, e := range entries {
			if strings.HasSuffix(e.Name(), ".json") {
				names = append(names, e.Name())
			}
		}
		sort.Strings(names)
		for _, nm := range names {
			if err := Replay(corpusDir+"/"+nm, out); err != nil {
				return err
			}
		}
	}
	nSeq := n * 2 / 3
	for i := 0; i < nSeq; i++ {
		backend := "mem"
		if i%3 == 2 {
			backend = "bbolt"
		}
		c, err := runSeq(c06.GenHistory(r.Fork(), backend, alphabets))
		if err != nil {
			return err
		}
		out.Emit(c)
	}
	configs := []struct {
		puts    int
		readers []int
	}{{2, []int{2}}, {2, []int{2, 2}}, {1, []int{1, 1}}, {3, []int{1, 2}}, {2, []int{1, 1, 1}}}
	for i := 0; i < n-nSeq; i++ {
		cr := r.Fork()
		cfg := configs[i%len(configs)]
		sc := &schedCase{Kind: "sched", Puts: cfg.puts, Readers: cfg.readers}
		sc.Sched = genSchedule(cr, cfg.puts, cfg.readers)
		c, err := runSched(sc)
		if err != nil {
			return err
		}
		out.Emit(c)
	}
	return nil
}

func Replay(path string, out *kit.Out) error {
	kind, h, sc, err := load(path)
	if err != nil {
		return err
	}
	var c kit.Case
	if kind == "sched" {
		c, err = runSched(sc)
	} else {
		for _, o := range h.Ops {
			o.Out = ""
		}
		c, err = runSeq(h)
	}
	if err != nil {
		return err
	}
	out.Emit(c)
	return nil
}

func init() { kit.Register("C07", kit.Runner{Generate: Generate, Replay: Replay}) }
