// Package c07: the storage cache is transparent (sequential histories) and never serves a value
// older than a completed write (schedules of one writer and several readers on one key).
package c07

import (
	"encoding/json"
	"fmt"
	"os"
	"sort"
	"strings"

	"verifharness/c06"
	"verifharness/kit"

	"github.com/voedger/voedger/pkg/istorage"
)

const cacheBytes = 64 << 20 // large: nothing is evicted during a history

// fixed-length partition keys: pKey ++ cCols of distinct pairs never coincide (finding F7 is
// exercised by the corpus probes only)
var alphabets = c06.Alphabets{
	PKs:    []string{"6161", "6162", "0000", "ffff", "6100"},
	CCs:    []string{"", "", "0000", "01", "ff", "ffff", "61", "6162", "62", "0001", "0100"},
	Bounds: []string{"", "0000", "01", "ff", "ffff", "61", "6162", "62", "0001", "63", "00ff"},
}

// long clustering columns that differ only in their last byte or only in length (a cache key must
// cover the whole of pKey ++ cCols, however long)
var longAlphabets = func() c06.Alphabets {
	x := strings.Repeat("78", 600)
	return c06.Alphabets{
		PKs:    []string{"6161", "6162"},
		CCs:    []string{"", x + "41", x + "42", x, x[:2*509] + "41", x[:2*509] + "42", x[:2*510], "61"},
		Bounds: []string{"", "61", x, "79"},
	}
}()

type seqCase struct {
	Kind    string       `json:"kind"` // "seq"
	History *c06.History `json:"history"`
	Plain   []string     `json:"plain_outs"`
}

func runSeq(h *c06.History) (kit.Case, error) {
	run := func(cached bool) ([]string, error) {
		clock := kit.NewClock()
		st, cleanup, err := kit.NewBackend(h.Backend, clock)
		if err != nil {
			return nil, err
		}
		defer cleanup()
		var target istorage.IAppStorage = st
		if cached {
			if target, err = kit.NewCached(st, clock, cacheBytes); err != nil {
				return nil, err
			}
		}
		outs := make([]string, len(h.Ops))
		ss := c06.NewSession()
		for i, o := range h.Ops {
			outs[i] = ss.Exec(target, clock, o)
			if cached {
				o.Out = outs[i]
			}
		}
		return outs, nil
	}
	plain, err := run(false)
	if err != nil {
		return kit.Case{}, err
	}
	cachedOuts, err := run(true)
	if err != nil {
		return kit.Case{}, err
	}
	ops := make([]string, len(h.Ops))
	tags := map[string]bool{"seq": true, h.Backend: true}
	for i, o := range h.Ops {
		ops[i] = o.Coq()
		tags["op:"+o.Op] = true
	}
	if collides(h) {
		tags["F7:key-concatenation-collision"] = true
	}
	if recachedExpired(h, cachedOuts, plain) {
		tags["F23:plain-get-recached-expired-ttl-row"] = true
	}
	if writesBigValue(h) {
		tags["big-value"] = true
	}
	if usesLongKey(h) {
		tags["key-around-mark-limit"] = true
	}
	var tl []string
	for t := range tags {
		tl = append(tl, t)
	}
	sort.Strings(tl)
	be := "Mem"
	if h.Backend == "bbolt" {
		be = "Bbolt"
	}
	return kit.Case{
		Coq:        fmt.Sprintf("TSeq (mkSTrace %s %s %s %s)", be, kit.List(ops), kit.List(cachedOuts), kit.List(plain)),
		Key:        "seq|" + h.Backend + "|" + strings.Join(ops, "|"),
		Nontrivial: len(h.Ops) > 3,
		Desc:       seqCase{Kind: "seq", History: h, Plain: plain},
		Tags:       tl,
	}, nil
}

// recachedExpired recognises finding F23 by what was observed: on bbolt the first output (plain point
// reads aside) that differs between the cached and the uncached instance is a TTLGet that the cache answered with a value
// while the storage says the row is gone, and an earlier plain Get/GetBatch of that key had
// returned a value (bbolt's plain Get ignores the TTL, so the cache stored the expired row again
// without an expiry)
func recachedExpired(h *c06.History, cached, plain []string) bool {
	// ... or, on any backend, the cache started cold over a TTL row written behind it (raw ops)
	cold := false
	for _, o := range h.Ops {
		cold = cold || o.Raw
	}
	if h.Backend != "bbolt" && !cold {
		return false
	}
	for j := range cached {
		if cached[j] == plain[j] {
			continue
		}
		o := h.Ops[j]
		if o.Op == "Get" || o.Op == "GetBatch" {
			// a plain read of an expired row is left open by the interface; once the cleaner has removed
			// the row physically the uncached instance says "absent" while the cache still serves the
			// re-cached value: same root cause, the judged difference is the TTLGet that follows
			continue
		}
		if o.Op != "TTLGet" || plain[j] != "RGet None" || !strings.HasPrefix(cached[j], "RGet (Some") {
			return false
		}
		for i := 0; i < j; i++ {
			p := h.Ops[i]
			if p.PK != o.PK {
				continue
			}
			if p.Op == "Get" && p.CC == o.CC && strings.HasPrefix(cached[i], "RGet (Some") {
				return true
			}
			if p.Op == "GetBatch" {
				for _, c := range p.CCs {
					if c == o.CC {
						return true
					}
				}
			}
		}
		return false
	}
	return false
}

// writesBigValue: some write of the history carries a value within 100 bytes of, or above, the size at
// which its entry stops fitting the cache
func writesBigValue(h *c06.History) bool {
	big := func(v string) bool { return len(c06.Unhex(v)) >= cacheMaxEntry-100 }
	for _, o := range h.Ops {
		if big(o.V) {
			return true
		}
		for _, it := range o.Items {
			if big(it[2]) {
				return true
			}
		}
	}
	return false
}

// usesLongKey: some point operation addresses a key whose concatenation pKey ++ cCols is within two bytes
// of the length under which the cache mark stops fitting
func usesLongKey(h *c06.History) bool {
	for _, o := range h.Ops {
		if n := len(c06.Unhex(o.PK)) + len(c06.Unhex(o.CC)); n >= cacheMaxEntry-3 && n <= cacheMaxEntry+1 {
			return true
		}
	}
	return false
}

// collides: two different (pKey, cCols) pairs of the history have the same concatenation
func collides(h *c06.History) bool {
	seen := map[string]string{}
	add := func(pk, cc string) bool {
		k := pk + cc
		id := pk + "/" + cc
		if prev, ok := seen[k]; ok && prev != id {
			return true
		}
		seen[k] = id
		return false
	}
	for _, o := range h.Ops {
		if o.Op == "Advance" || o.Op == "Read" || o.Op == "TTLRead" {
			continue
		}
		if o.Op == "PutBatch" {
			for _, it := range o.Items {
				if add(it[0], it[1]) {
					return true
				}
			}
			continue
		}
		if o.Op == "GetBatch" {
			for _, c := range o.CCs {
				if add(o.PK, c) {
					return true
				}
			}
			continue
		}
		if add(o.PK, o.CC) {
			return true
		}
	}
	return false
}

func load(path string) (kind string, h *c06.History, sc *schedCase, err error) {
	b, err := os.ReadFile(path)
	if err != nil {
		return "", nil, nil, err
	}
	var w struct {
		Case *struct {
			Desc json.RawMessage `json:"desc"`
		} `json:"case"`
		First *struct {
			Desc json.RawMessage `json:"desc"`
		} `json:"first_disagreeing_case"`
	}
	raw := json.RawMessage(b)
	if json.Unmarshal(b, &w) == nil {
		if w.Case != nil && w.Case.Desc != nil {
			raw = w.Case.Desc
		} else if w.First != nil && w.First.Desc != nil {
			raw = w.First.Desc
		}
	}
	var k struct {
		Kind string `json:"kind"`
	}
	_ = json.Unmarshal(raw, &k)
	switch k.Kind {
	case "sched":
		sc = &schedCase{}
		err = json.Unmarshal(raw, sc)
		return "sched", nil, sc, err
	case "seqx":
		var s seqxCase
		err = json.Unmarshal(raw, &s)
		return "seqx", s.History, nil, err
	case "seq":
		var s seqCase
		err = json.Unmarshal(raw, &s)
		return "seq", s.History, nil, err
	}
	h = &c06.History{}
	err = json.Unmarshal(raw, h)
	return "seq", h, nil, err
}
