package c07

import (
	"fmt"
	"strings"

	"verifharness/kit"

	"github.com/voedger/voedger/pkg/istorage"
)

// schedCase: one writer (Puts versions 1..Puts of one key) and readers (Gets of that key) over the
// real cache in front of mem; Sched is the interleaving, one entry per model step.
type schedCase struct {
	Kind    string   `json:"kind"` // "sched"
	Puts    int      `json:"puts"`
	Readers []int    `json:"readers"`
	Sched   []string `json:"sched"` // "W" | "R0" | "R1" ...
	Obs     []string `json:"observed,omitempty"`
}

var schedPK, schedCC = []byte("k1"), []byte("c")

func runSched(sc *schedCase) (kit.Case, error) {
	clock := kit.NewClock()
	mem, cleanup, err := kit.NewBackend("mem", clock)
	if err != nil {
		return kit.Case{}, err
	}
	defer cleanup()
	if err := mem.Put(schedPK, schedCC, []byte{0}); err != nil { // version 0, not known to the cache
		return kit.Case{}, err
	}
	sched := kit.NewSched()
	wrap := &kit.Wrap{Inner: mem}
	wrap.Before = func(c *kit.Call) kit.Verdict {
		if p := sched.Current(); p != nil && c.Op == "Get" {
			p.Yield("before-get")
		}
		return kit.Verdict{}
	}
	wrap.After = func(c *kit.Call) {
		if p := sched.Current(); p != nil && (c.Op == "Get" || c.Op == "Put") {
			p.Yield("after-" + strings.ToLower(c.Op))
		}
	}
	var cached istorage.IAppStorage
	if cached, err = kit.NewCached(wrap, clock, cacheBytes); err != nil {
		return kit.Case{}, err
	}
	procs := map[string]*kit.Proc{}
	last := map[string]int{} // last Get result per reader
	procs["W"] = sched.Go("W", func(p *kit.Proc) {
		for i := 1; i <= sc.Puts; i++ {
			if err := cached.Put(schedPK, schedCC, []byte{byte(i)}); err != nil {
				panic(err)
			}
			if i < sc.Puts {
				p.Yield("op")
			}
		}
	})
	for ri, gets := range sc.Readers {
		name := fmt.Sprintf("R%d", ri)
		g := gets
		procs[name] = sched.Go(name, func(p *kit.Proc) {
			for i := 0; i < g; i++ {
				var data []byte
				ok, err := cached.Get(schedPK, schedCC, &data)
				if err != nil || !ok || len(data) != 1 {
					last[name] = -1
				} else {
					last[name] = int(data[0])
				}
				if i < g-1 {
					p.Yield("op")
				}
			}
		})
	}
	completed := 0
	var obs, ps []string
	sc.Obs = nil
	for _, who := range sc.Sched {
		p := procs[who]
		if p == nil {
			return kit.Case{}, fmt.Errorf("unknown process %q", who)
		}
		pt, err := p.Step()
		if err != nil {
			return kit.Case{}, err
		}
		var o string
		switch {
		case who == "W" && pt == "after-put":
			o = "SNone"
		case who == "W":
			completed++
			o = "SPutDone"
		case pt == "before-get":
			o = fmt.Sprintf("SGetStart %d", completed)
		case pt == "after-get":
			o = "SNone"
		default: // a Get returned: from the cache within one step, or after its fill
			if len(obs) > 0 && lastStepOf(ps, obs, who) == "SNone" {
				o = fmt.Sprintf("SGetDone %d", last[who])
			} else {
				o = fmt.Sprintf("SGetHit %d %d", completed, last[who])
			}
		}
		obs = append(obs, o)
		if who == "W" {
			ps = append(ps, "PW")
		} else {
			ps = append(ps, "(PR "+who[1:]+")")
		}
		sc.Obs = append(sc.Obs, o)
	}
	// drain: let every unfinished process run to completion so that no goroutine is left parked
	for _, p := range procs {
		for !p.Done {
			if _, err := p.Step(); err != nil {
				break
			}
		}
	}
	rd := make([]string, len(sc.Readers))
	for i, g := range sc.Readers {
		rd[i] = fmt.Sprint(g)
	}
	sc.Kind = "sched"
	return kit.Case{
		Coq:        fmt.Sprintf("TSched (mkCTrace %d%%nat %s %s %s)", sc.Puts, natList(sc.Readers), kit.List(ps), kit.List(obs)),
		Key:        fmt.Sprintf("sched|%d|%v|%s", sc.Puts, sc.Readers, strings.Join(sc.Sched, "")),
		Nontrivial: strings.Contains(strings.Join(obs, " "), "SGetStart") && strings.Contains(strings.Join(obs, " "), "SPutDone"),
		Desc:       sc,
		Tags:       []string{"sched", fmt.Sprintf("readers:%d", len(sc.Readers))},
	}, nil
}

func natList(xs []int) string {
	items := make([]string, len(xs))
	for i, x := range xs {
		items[i] = fmt.Sprintf("%d%%nat", x)
	}
	return kit.List(items)
}

// lastStepOf: the observation of the most recent earlier step of process who
func lastStepOf(ps, obs []string, who string) string {
	want := "PW"
	if who != "W" {
		want = "(PR " + who[1:] + ")"
	}
	for i := len(ps) - 1; i >= 0; i-- {
		if ps[i] == want {
			return obs[i]
		}
	}
	return ""
}

// stepsOf: how many model steps a process needs at most (each Put: 2; each Get: 1 or 3)
func genSchedule(r *kit.Rng, puts int, readers []int) []string {
	// simulate the step structure abstractly: writer needs 2 steps per Put; a reader's Get needs
	// 1 step on a hit and 3 on a miss; whether a Get hits depends on the cache, which holds a value
	// after the first completed Put or fill. The harness tolerates surplus entries by regenerating:
	// here we track the same abstract state as the model.
	cacheSet := false
	wLeft, wMid := puts, false
	type rs struct {
		left int
		pc   int
	}
	rds := make([]rs, len(readers))
	for i, g := range readers {
		rds[i] = rs{left: g}
	}
	var out []string
	for {
		var en []string
		if wMid || wLeft > 0 {
			en = append(en, "W")
		}
		for i, x := range rds {
			if x.pc > 0 || x.left > 0 {
				en = append(en, fmt.Sprintf("R%d", i))
			}
		}
		if len(en) == 0 {
			return out
		}
		who := kit.Pick(r, en)
		out = append(out, who)
		if who == "W" {
			if wMid {
				wMid, cacheSet = false, true
			} else {
				wLeft--
				wMid = true
			}
			continue
		}
		var i int
		fmt.Sscanf(who, "R%d", &i)
		x := &rds[i]
		switch x.pc {
		case 0:
			x.left--
			if !cacheSet {
				x.pc = 1
			}
		case 1:
			x.pc = 2
		case 2:
			x.pc, cacheSet = 0, true
		}
	}
}
