package c07

import (
	"bytes"
	"fmt"
	"strings"
	"time"

	"verifharness/kit"

	"github.com/voedger/voedger/pkg/istorage"
)

// bigLen: length of the value a "putbig:N" writes (70000 times the byte N): its cache entry does not
// fit a fastcache chunk. In the model's terms the value is the number 256+N.
const bigLen = 70000

// schedCase: one writer running a program of writes on one key (Put v | Ins v | Del | PutBig v) and readers
// running Get / TTLGet over the real cache in front of mem; Sched is the interleaving, one entry
// per model step.  Init < 0 means the key is absent at the start.
type schedCase struct {
	Kind    string     `json:"kind"` // "sched"
	Init    int        `json:"init"`
	Prog    []string   `json:"prog"`    // "put:3" "ins:1" "del" "putbig:7" "inst:2" "cast:4" (the last two with a TTL of 1 s)
	Readers [][]string `json:"readers"` // "get" | "ttlget"
	Sched   []string   `json:"sched"`   // "W" | "R0" | "R1" ... | "C" (the clock advances by 1 s)
	Obs     []string   `json:"observed,omitempty"`
	// legacy fields of older corpus files
	Puts       int   `json:"puts,omitempty"`
	OldReaders []int `json:"old_readers,omitempty"`
}

var schedPK, schedCC = []byte("k1"), []byte("c")

func optN(v int) string {
	if v < 0 {
		return "None"
	}
	return fmt.Sprintf("(Some %d)", v)
}

func (sc *schedCase) normalize() {
	if len(sc.Prog) == 0 && sc.Puts > 0 { // old format: Puts of 1..n over initial value 0, readers doing Gets
		sc.Init = 0
		for i := 1; i <= sc.Puts; i++ {
			sc.Prog = append(sc.Prog, fmt.Sprintf("put:%d", i))
		}
	}
}

func runSched(sc *schedCase) (kit.Case, error) {
	sc.normalize()
	clock := kit.NewClock()
	mem, cleanup, err := kit.NewBackend("mem", clock)
	if err != nil {
		return kit.Case{}, err
	}
	defer cleanup()
	if sc.Init >= 0 { // present before the run, not known to the cache
		if err := mem.Put(schedPK, schedCC, []byte{byte(sc.Init)}); err != nil {
			return kit.Case{}, err
		}
	}
	sched := kit.NewSched()
	wrap := &kit.Wrap{Inner: mem}
	readOp := func(op string) bool { return op == "Get" || op == "TTLGet" }
	writeOp := func(op string) bool {
		return op == "Put" || op == "InsertIfNotExists" || op == "CompareAndDelete" || op == "CompareAndSwap"
	}
	wrap.Before = func(c *kit.Call) kit.Verdict {
		if p := sched.Current(); p != nil && readOp(c.Op) {
			p.Yield("before-read")
		} else if p != nil && writeOp(c.Op) {
			p.Yield("before-write")
		}
		return kit.Verdict{}
	}
	wrap.After = func(c *kit.Call) {
		if p := sched.Current(); p != nil && (readOp(c.Op) || writeOp(c.Op)) {
			if readOp(c.Op) {
				p.Yield("after-read")
			} else {
				p.Yield("after-write")
			}
		}
	}
	var cached istorage.IAppStorage
	if cached, err = kit.NewCached(wrap, clock, cacheBytes); err != nil {
		return kit.Case{}, err
	}
	procs := map[string]*kit.Proc{}
	last := map[string]int{} // last read result per reader (-1 = not found)
	var werr error
	procs["W"] = sched.Go("W", func(p *kit.Proc) {
		cur := []byte{byte(sc.Init)}
		for i, w := range sc.Prog {
			var v int
			switch {
			case strings.HasPrefix(w, "putbig:"):
				fmt.Sscanf(w, "putbig:%d", &v)
				cur = bytes.Repeat([]byte{byte(v)}, bigLen)
				werr = cached.Put(schedPK, schedCC, bytes.Clone(cur))
			case strings.HasPrefix(w, "inst:"):
				fmt.Sscanf(w, "inst:%d", &v)
				ok, e := cached.InsertIfNotExists(schedPK, schedCC, []byte{byte(v)}, 1)
				if e != nil || !ok {
					werr = fmt.Errorf("insert with TTL refused (%v, %v): the program must only contain writes that succeed", ok, e)
				}
				cur = []byte{byte(v)}
			case strings.HasPrefix(w, "cast:"):
				fmt.Sscanf(w, "cast:%d", &v)
				ok, e := cached.CompareAndSwap(schedPK, schedCC, bytes.Clone(cur), []byte{byte(v)}, 1)
				if e != nil || !ok {
					werr = fmt.Errorf("swap with TTL refused (%v, %v): the program must only contain writes that succeed", ok, e)
				}
				cur = []byte{byte(v)}
			case strings.HasPrefix(w, "put:"):
				fmt.Sscanf(w, "put:%d", &v)
				werr = cached.Put(schedPK, schedCC, []byte{byte(v)})
				cur = []byte{byte(v)}
			case strings.HasPrefix(w, "ins:"):
				fmt.Sscanf(w, "ins:%d", &v)
				ok, e := cached.InsertIfNotExists(schedPK, schedCC, []byte{byte(v)}, 0)
				if e != nil || !ok {
					werr = fmt.Errorf("insert refused (%v, %v): the program must only contain writes that succeed", ok, e)
				}
				cur = []byte{byte(v)}
			case w == "del":
				ok, e := cached.CompareAndDelete(schedPK, schedCC, bytes.Clone(cur))
				if e != nil || !ok {
					werr = fmt.Errorf("delete refused (%v, %v)", ok, e)
				}
				cur = nil
			}
			if i < len(sc.Prog)-1 {
				p.Yield("op")
			}
		}
	})
	for ri, ops := range sc.Readers {
		name := fmt.Sprintf("R%d", ri)
		rops := ops
		procs[name] = sched.Go(name, func(p *kit.Proc) {
			for i, o := range rops {
				var data []byte
				var ok bool
				var err error
				if o == "ttlget" {
					ok, err = cached.TTLGet(schedPK, schedCC, &data)
				} else {
					ok, err = cached.Get(schedPK, schedCC, &data)
				}
				switch {
				case err != nil:
					last[name] = -2
				case !ok:
					last[name] = -1
				case len(data) == 1:
					last[name] = int(data[0])
				case len(data) == bigLen && bytes.Equal(data, bytes.Repeat(data[:1], bigLen)):
					last[name] = 256 + int(data[0])
				default:
					last[name] = -2
				}
				if i < len(rops)-1 {
					p.Yield("op")
				}
			}
		})
	}
	completed := 0
	var obs, ps []string
	sc.Obs = nil
	skipped := 0
	wAtStart := true
	clockSteps := 0
	for _, who := range sc.Sched {
		if who == "C" { // the clock advances by one second: a row or entry with the TTL of 1 s expires
			clock.AdvanceSettle(time.Second)
			clockSteps++
			obs = append(obs, "SClock")
			ps = append(ps, "PC")
			sc.Obs = append(sc.Obs, "SClock")
			continue
		}
		silent := who == "w" // "w": let the writer run the part of its operation that precedes the storage call
		if silent {
			if !wAtStart {
				skipped++
				continue
			}
			who = "W"
		}
		p := procs[who]
		if p == nil {
			return kit.Case{}, fmt.Errorf("unknown process %q", who)
		}
		if p.Done {
			skipped++ // a stored schedule may be longer than what the current code needs
			continue
		}
		pt, err := p.Step()
		if err != nil {
			return kit.Case{}, err
		}
		if who == "W" && pt == "before-write" {
			// in the model the writer does nothing to the cache before its storage call: reaching the
			// call is not a step of its own; whatever the code does there shows in the readers' steps
			wAtStart = false
			if silent {
				continue
			}
			if pt, err = p.Step(); err != nil {
				return kit.Case{}, err
			}
		}
		if who == "W" {
			wAtStart = pt != "after-write"
		}
		var o string
		switch {
		case who == "W" && pt == "after-write":
			o = "SNone"
		case who == "W":
			completed++
			o = "SWDone"
		case pt == "before-read":
			o = fmt.Sprintf("SGetStart %d", completed)
		case pt == "after-read":
			o = "SNone"
		default: // a read returned: from the cache within one step, or after its fill
			if lastStepOf(ps, obs, who) == "SNone" {
				o = "SGetDone " + optN(last[who])
			} else {
				o = fmt.Sprintf("SGetHit %d %s", completed, optN(last[who]))
			}
		}
		obs = append(obs, o)
		if who == "W" {
			ps = append(ps, "PW")
		} else {
			ps = append(ps, "(PR "+who[1:]+")")
		}
		sc.Obs = append(sc.Obs, o)
	}
	// drain: let every unfinished process run to completion so that no goroutine is left parked
	for _, p := range procs {
		for !p.Done {
			if _, err := p.Step(); err != nil {
				break
			}
		}
	}
	if werr != nil {
		return kit.Case{}, werr
	}
	prog := make([]string, len(sc.Prog))
	hasDel, hasBig, hasTTL := false, false, false
	for i, w := range sc.Prog {
		var v int
		switch {
		case strings.HasPrefix(w, "putbig:"):
			fmt.Sscanf(w, "putbig:%d", &v)
			prog[i] = fmt.Sprintf("WPutBig %d", v)
			hasBig = true
		case strings.HasPrefix(w, "inst:"):
			fmt.Sscanf(w, "inst:%d", &v)
			prog[i] = fmt.Sprintf("WInsT %d", v)
			hasTTL = true
		case strings.HasPrefix(w, "cast:"):
			fmt.Sscanf(w, "cast:%d", &v)
			prog[i] = fmt.Sprintf("WCasT %d", v)
			hasTTL = true
		case strings.HasPrefix(w, "put:"):
			fmt.Sscanf(w, "put:%d", &v)
			prog[i] = fmt.Sprintf("WPut %d", v)
		case strings.HasPrefix(w, "ins:"):
			fmt.Sscanf(w, "ins:%d", &v)
			prog[i] = fmt.Sprintf("WIns %d", v)
		default:
			prog[i] = "WDel"
			hasDel = true
		}
	}
	rds := make([]string, len(sc.Readers))
	for i, ops := range sc.Readers {
		items := make([]string, len(ops))
		for j, o := range ops {
			if o == "ttlget" {
				items[j] = "OpTTLGet"
			} else {
				items[j] = "OpGet"
			}
		}
		rds[i] = kit.List(items)
	}
	sc.Kind = "sched"
	tags := []string{"sched", fmt.Sprintf("readers:%d", len(sc.Readers))}
	if hasDel {
		tags = append(tags, "delete-in-writer-program")
	}
	if hasBig {
		tags = append(tags, "big-value-in-writer-program")
	}
	if hasTTL {
		tags = append(tags, "ttl-write-in-writer-program")
	}
	if clockSteps > 0 {
		tags = append(tags, "clock-steps")
	}
	if sc.Init < 0 {
		tags = append(tags, "init:absent")
	}
	joined := strings.Join(obs, " ")
	return kit.Case{
		Coq:        fmt.Sprintf("TSched (mkCTrace %s %s %s %s %s)", optN(sc.Init), kit.List(prog), kit.List(rds), kit.List(ps), kit.List(obs)),
		Key:        fmt.Sprintf("sched|%d|%v|%v|%s", sc.Init, sc.Prog, sc.Readers, strings.Join(sc.Sched, "")),
		Nontrivial: strings.Contains(joined, "SGetStart") && strings.Contains(joined, "SWDone"),
		Desc:       sc,
		Tags:       tags,
	}, nil
}

// lastStepOf: the observation of the most recent earlier step of process who
func lastStepOf(ps, obs []string, who string) string {
	want := "PW"
	if who != "W" {
		want = "(PR " + who[1:] + ")"
	}
	for i := len(ps) - 1; i >= 0; i-- {
		if ps[i] == want {
			return obs[i]
		}
	}
	return ""
}

// genSchedule draws an interleaving while tracking the abstract control state of the model
// (who is between which steps, whether the key is cached) so that every entry is a possible step
func genSchedule(r *kit.Rng, sc *schedCase) []string {
	cached := false   // an entry a reader can answer from
	storeBig := false // the row in the storage is a big value (its entry would be the mark)
	hasTTL := false
	for _, w := range sc.Prog {
		if strings.HasPrefix(w, "inst:") || strings.HasPrefix(w, "cast:") {
			hasTTL = true
		}
	}
	rowLive := sc.Init >= 0 // a row is there and has not expired
	rowTTL := false         // ... and it will expire at the next clock step
	clocks := 0
	wLeft, wMid, wPre := len(sc.Prog), false, false
	wi := 0
	type rs struct {
		left int
		pc   int
		op   string
		idx  int
	}
	rds := make([]rs, len(sc.Readers))
	for i, g := range sc.Readers {
		rds[i] = rs{left: len(g)}
	}
	var out []string
	for {
		var en []string
		// an insert (with or without TTL) succeeds only while no live row is there
		blocked := !wMid && wLeft > 0 && rowLive && (strings.HasPrefix(sc.Prog[wi], "inst:") || strings.HasPrefix(sc.Prog[wi], "ins:"))
		if wMid || (wLeft > 0 && !blocked) {
			en = append(en, "W")
		}
		if !wMid && !wPre && wLeft > 0 && !blocked {
			en = append(en, "w")
		}
		if (hasTTL && clocks < 3) || (blocked && rowTTL) {
			en = append(en, "C")
		}
		for i, x := range rds {
			if x.pc > 0 || x.left > 0 {
				en = append(en, fmt.Sprintf("R%d", i))
			}
		}
		if len(en) == 0 {
			return out
		}
		who := kit.Pick(r, en)
		out = append(out, who)
		if who == "C" {
			clocks++
			if rowTTL {
				rowLive, rowTTL = false, false
			}
			continue
		}
		if who == "w" {
			wPre = true
			continue
		}
		if who == "W" {
			wPre = false
			if wMid {
				wMid = false
				cached = !storeBig // a delete leaves a "not found" entry; a big value leaves the mark: readers go to the storage
			} else {
				storeBig = strings.HasPrefix(sc.Prog[wi], "putbig:")
				rowLive = sc.Prog[wi] != "del"
				rowTTL = strings.HasPrefix(sc.Prog[wi], "inst:") || strings.HasPrefix(sc.Prog[wi], "cast:")
				wLeft--
				wi++
				wMid = true
			}
			continue
		}
		var i int
		fmt.Sscanf(who, "R%d", &i)
		x := &rds[i]
		switch x.pc {
		case 0:
			x.op = sc.Readers[i][x.idx]
			x.idx++
			x.left--
			if !cached {
				x.pc = 1
			}
		case 1:
			x.pc = 2
		case 2:
			x.pc = 0
			// a fill makes the key cached unless it is a TTLGet that found the row; whether it found
			// it is not tracked here: assume "maybe cached" conservatively by re-checking on the next step
			cached = cached || (x.op == "get" && !storeBig)
		}
	}
}
