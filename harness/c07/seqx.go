package c07

import (
	"errors"
	"fmt"
	"sort"
	"strings"
	"time"

	"verifharness/c06"
	"verifharness/kit"

	"github.com/voedger/voedger/pkg/istorage"
	"github.com/voedger/voedger/pkg/istoragecache"
	imetrics "github.com/voedger/voedger/pkg/metrics"
)

// Histories with a fault plan and two handles: every op goes through one of two storages obtained from ONE
// caching provider for one app (op.H), and a write may carry a fault (op.Fault): the underlying storage
// returns an error after applying nothing ("before"), everything ("after") or the first K items of a batch
// ("partial:K"). The uncached instance runs the same history under the same fault plan.

var errInjected = errors.New("injected storage error")

// faultStore fails the next write as told by pending
type faultStore struct {
	istorage.IAppStorage
	pending string
}

func (f *faultStore) take() string { p := f.pending; f.pending = ""; return p }

func (f *faultStore) Put(pKey, cCols, value []byte) error {
	switch f.take() {
	case "":
		return f.IAppStorage.Put(pKey, cCols, value)
	case "after":
		_ = f.IAppStorage.Put(pKey, cCols, value)
	}
	return errInjected
}

func (f *faultStore) PutBatch(items []istorage.BatchItem) error {
	p := f.take()
	switch {
	case p == "":
		return f.IAppStorage.PutBatch(items)
	case p == "after":
		_ = f.IAppStorage.PutBatch(items)
	case strings.HasPrefix(p, "partial:"):
		k := 0
		fmt.Sscanf(p, "partial:%d", &k)
		if k > len(items) {
			k = len(items)
		}
		_ = f.IAppStorage.PutBatch(items[:k])
	}
	return errInjected
}

func (f *faultStore) InsertIfNotExists(pKey, cCols, value []byte, ttl int) (bool, error) {
	switch f.take() {
	case "":
		return f.IAppStorage.InsertIfNotExists(pKey, cCols, value, ttl)
	case "after":
		_, _ = f.IAppStorage.InsertIfNotExists(pKey, cCols, value, ttl)
	}
	return false, errInjected
}

func (f *faultStore) CompareAndSwap(pKey, cCols, old, new []byte, ttl int) (bool, error) {
	switch f.take() {
	case "":
		return f.IAppStorage.CompareAndSwap(pKey, cCols, old, new, ttl)
	case "after":
		_, _ = f.IAppStorage.CompareAndSwap(pKey, cCols, old, new, ttl)
	}
	return false, errInjected
}

func (f *faultStore) CompareAndDelete(pKey, cCols, expected []byte) (bool, error) {
	switch f.take() {
	case "":
		return f.IAppStorage.CompareAndDelete(pKey, cCols, expected)
	case "after":
		_, _ = f.IAppStorage.CompareAndDelete(pKey, cCols, expected)
	}
	return false, errInjected
}

func isWrite(op string) bool {
	switch op {
	case "Put", "PutBatch", "Ins", "Cas", "Cad":
		return true
	}
	return false
}

// fault of an op as the model sees it: faults are injected into writes only; "partial" makes sense for a
// batch only (anywhere else nothing is applied)
func faultOf(o *c06.Op) string {
	if !isWrite(o.Op) {
		return ""
	}
	if strings.HasPrefix(o.Fault, "partial:") && o.Op != "PutBatch" {
		return "before"
	}
	return o.Fault
}

// raw: the op bypasses the cache (the clock is shared: an Advance never does)
func isRaw(o *c06.Op) bool { return o.Raw && o.Op != "Advance" }

func coqFault(f string) string {
	switch {
	case f == "raw":
		return "FRaw"
	case f == "before":
		return "FErrBefore"
	case f == "after":
		return "FErrAfter"
	case strings.HasPrefix(f, "partial:"):
		k := 0
		fmt.Sscanf(f, "partial:%d", &k)
		return fmt.Sprintf("(FPartial %d)", k)
	}
	return "FNone"
}

type seqxCase struct {
	Kind    string       `json:"kind"` // "seqx"
	History *c06.History `json:"history"`
	Plain   []string     `json:"plain_outs"`
}

// handleWait: how long the underlying provider holds the first AppStorage call waiting for a second one (a
// provider that serialises its callers never lets the second through: the first is then let go)
const handleWait = 150 * time.Millisecond

func runSeqX(h *c06.History) (kit.Case, error) {
	sameHandles := false
	run := func(cached bool) ([]string, error) {
		clock := kit.NewClock()
		st, cleanup, err := kit.NewBackend(h.Backend, clock)
		if err != nil {
			return nil, err
		}
		defer cleanup()
		fs := &faultStore{IAppStorage: st}
		handles := []istorage.IAppStorage{fs, fs}
		if cached && h.ConcurrentHandles {
			// one caching provider, asked for the storage of the app by two overlapping first calls
			hs, err := kit.TwoHandlesConcurrently(fs, handleWait, func(u istorage.IAppStorageProvider) istorage.IAppStorageProvider {
				return istoragecache.Provide(cacheBytes, u, imetrics.Provide(), "verif", clock)
			})
			if err != nil {
				return nil, err
			}
			handles[0], handles[1] = hs[0], hs[1]
			sameHandles = hs[0] == hs[1]
		} else if cached {
			// one caching provider, asked twice for the storage of the same app
			p := istoragecache.Provide(cacheBytes, kit.FixedProvider(fs), imetrics.Provide(), "verif", clock)
			for i := range handles {
				if handles[i], err = p.AppStorage(kit.AppQName()); err != nil {
					return nil, err
				}
			}
			sameHandles = handles[0] == handles[1]
		}
		outs := make([]string, len(h.Ops))
		ss := c06.NewSession() // one caller: an items slice may come back through the other handle
		for i, o := range h.Ops {
			if isRaw(o) {
				outs[i] = ss.Exec(st, clock, o)
				if cached {
					o.Out = outs[i]
				}
				continue
			}
			fs.pending = faultOf(o)
			outs[i] = ss.Exec(handles[o.H&1], clock, o)
			fs.pending = ""
			if cached {
				o.Out = outs[i]
			}
		}
		return outs, nil
	}
	plain, err := run(false)
	if err != nil {
		return kit.Case{}, err
	}
	cachedOuts, err := run(true)
	if err != nil {
		return kit.Case{}, err
	}
	ops := make([]string, len(h.Ops))
	tags := map[string]bool{"seq": true, "seqx": true, h.Backend: true}
	twoHandles, faults := false, false
	for i, o := range h.Ops {
		f := faultOf(o)
		if isRaw(o) {
			f = "raw"
			tags["raw-op-behind-the-cache"] = true
		}
		ops[i] = fmt.Sprintf("(%s, %s, %s)", kit.Bool(o.H&1 == 1), coqFault(f), o.Coq())
		tags["op:"+o.Op] = true
		if o.H&1 == 1 {
			twoHandles = true
		}
		if f := faultOf(o); f != "" && !isRaw(o) {
			faults = true
			tags["fault:"+strings.SplitN(f, ":", 2)[0]] = true
		}
	}
	if twoHandles {
		tags["two-handles"] = true
	}
	if h.ConcurrentHandles {
		tags["handles-taken-concurrently"] = true
	}
	if sameHandles {
		tags["handles:same-storage"] = true
	} else {
		tags["handles:distinct-storages"] = true
	}
	if recachedExpired(h, cachedOuts, plain) {
		tags["F23:plain-get-recached-expired-ttl-row"] = true
	}
	var tl []string
	for t := range tags {
		tl = append(tl, t)
	}
	sort.Strings(tl)
	be := "Mem"
	if h.Backend == "bbolt" {
		be = "Bbolt"
	}
	return kit.Case{
		Coq:        fmt.Sprintf("TSeqX (mkXTrace %s %s %s %s %s)", be, kit.Bool(h.ConcurrentHandles), kit.List(ops), kit.List(cachedOuts), kit.List(plain)),
		Key:        "seqx|" + h.Backend + "|" + kit.Bool(h.ConcurrentHandles) + "|" + strings.Join(ops, "|"),
		Nontrivial: len(h.Ops) > 3 && (twoHandles || faults),
		Desc:       seqxCase{Kind: "seqx", History: h, Plain: plain},
		Tags:       tl,
	}, nil
}

// xHistory: a C06 history over the collision-free key set, spread over two handles (mode 0), with faults
// injected into about a third of its writes (mode 1), or both (mode 2)
func xHistory(r *kit.Rng, backend string, mode int) *c06.History {
	h := c06.GenHistory(r.Fork(), backend, alphabets)
	for _, o := range h.Ops {
		if mode != 1 && r.Bool() {
			o.H = 1
		}
		if mode == 0 || !isWrite(o.Op) || !r.Chance(1, 3) {
			continue
		}
		switch {
		case o.Op == "PutBatch" && r.Chance(2, 3):
			o.Fault = fmt.Sprintf("partial:%d", r.Intn(len(o.Items)+1))
		case r.Chance(1, 3):
			o.Fault = "before"
		default:
			o.Fault = "after"
		}
	}
	return h
}
