// Package c07: harness of property C07 (registers itself with kit.Register in an init function).
package c07
