module verifharness

go 1.26.5

require github.com/voedger/voedger v0.0.0

require (
	github.com/davecgh/go-spew v1.1.1 // indirect
	github.com/google/uuid v1.6.0 // indirect
	github.com/pmezard/go-difflib v1.0.0 // indirect
	github.com/stretchr/testify v1.11.1 // indirect
	go.etcd.io/bbolt v1.5.0 // indirect
	golang.org/x/sys v0.47.0 // indirect
	gopkg.in/yaml.v3 v3.0.1 // indirect
)

replace github.com/voedger/voedger => /repo
