module verifharness

go 1.26.5

require (
	github.com/golang-jwt/jwt/v5 v5.3.1
	github.com/voedger/voedger v0.0.0
)

require (
	github.com/VictoriaMetrics/fastcache v1.13.3 // indirect
	github.com/alecthomas/participle/v2 v2.1.4 // indirect
	github.com/cespare/xxhash/v2 v2.3.0 // indirect
	github.com/davecgh/go-spew v1.1.1 // indirect
	github.com/golang/snappy v1.0.0 // indirect
	github.com/google/flatbuffers v25.12.19+incompatible // indirect
	github.com/google/go-cmp v0.7.0 // indirect
	github.com/google/uuid v1.6.0 // indirect
	github.com/hashicorp/golang-lru/v2 v2.0.7 // indirect
	github.com/juju/errors v1.0.0 // indirect
	github.com/pmezard/go-difflib v1.0.0 // indirect
	github.com/robfig/cron/v3 v3.0.1 // indirect
	github.com/stretchr/objx v0.5.3 // indirect
	github.com/stretchr/testify v1.11.1 // indirect
	github.com/tetratelabs/wazero v1.12.0 // indirect
	github.com/untillpro/dynobuffers v0.0.0-20251212090544-93da105bf1da // indirect
	github.com/untillpro/gojay v1.2.17-0.20250325110036-70ad3373aa24 // indirect
	github.com/valyala/bytebufferpool v1.0.0 // indirect
	github.com/wneessen/go-mail v0.8.1 // indirect
	go.etcd.io/bbolt v1.5.0 // indirect
	golang.org/x/crypto v0.54.0 // indirect
	golang.org/x/exp v0.0.0-20260709172345-9ea1abe57597 // indirect
	golang.org/x/sys v0.47.0 // indirect
	golang.org/x/text v0.40.0 // indirect
	gopkg.in/yaml.v2 v2.4.0 // indirect
	gopkg.in/yaml.v3 v3.0.1 // indirect
)

replace github.com/voedger/voedger => /repo
