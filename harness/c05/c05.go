package c05

// c05.go: scenarios (replayable descriptions), their execution on the real istructsmem and the
// rendering of what was observed as a Coq term of C05_SeqTrust.Model.trace.

import (
	"bytes"
	"context"
	"time"
	"errors"
	"fmt"
	"sort"
	"strings"

	"verifharness/kit"

	"github.com/voedger/voedger/pkg/appdef"
	"github.com/voedger/voedger/pkg/istructs"
	"github.com/voedger/voedger/pkg/istructsmem"
)

// recSpec: one record written by an event; Stamp goes into the record's `stamp` field
type recSpec struct {
	// Kind: Doc (default) | Settings | WDoc | WState | Item | WItem, see recKinds
	Kind string `json:"kind,omitempty"`
	// ID the scripted generator hands out (ignored for singletons: their id is fixed by the registry)
	ID    uint64 `json:"id"`
	Stamp int64  `json:"stamp"`
	Pad   string `json:"pad,omitempty"`
	// nested records: the parent is the ParentRaw-th create of the same event (1-based) or a stored id
	ParentRaw int    `json:"parent_raw,omitempty"`
	Parent    uint64 `json:"parent,omitempty"`
	// Direct: the create carries the storage id itself (no raw id; the path of synced events)
	Direct bool `json:"direct,omitempty"`
	// FromCB (updates): ICUD.Update is given the record OBJECT that the Apply2 callback handed out when the
	// named event was applied, instead of a record read with Records().Get
	FromCB string `json:"from_cb,omitempty"`
}

// argSpec: the event is the command verif.MakeOrder with an ODoc argument and one nested ORecord
type argSpec struct {
	ID     uint64 `json:"id"`
	LineID uint64 `json:"line_id"`
	Stamp  int64  `json:"stamp"`
}

// evSpec: one event; Stamp is its RegisteredAt
type evSpec struct {
	Part      uint16    `json:"part"`
	POfs      uint64    `json:"pofs"`
	WS        uint64    `json:"ws"`
	WOfs      uint64    `json:"wofs"`
	Stamp     int64     `json:"stamp"`
	Corrupted bool      `json:"corrupted,omitempty"` // a sys.Corrupted event (QNameForCorruptedData)
	Invalid   bool      `json:"invalid,omitempty"`   // a build error: stored as sys.Error
	Creates   []recSpec `json:"creates,omitempty"`
	Updates   []recSpec `json:"updates,omitempty"`
	Arg       *argSpec  `json:"arg,omitempty"`
}

// op kinds: build (Ev -> Name) | plog | apply | wlog | restart | reread (Name -> As) |
// reapply_recs | reapply_wlog | rawdel (WS, ID)
type op struct {
	Op   string  `json:"op"`
	Name string  `json:"name,omitempty"`
	As   string  `json:"as,omitempty"`
	Ev   *evSpec `json:"ev,omitempty"`
	WS   uint64  `json:"ws,omitempty"`
	ID   uint64  `json:"id,omitempty"`
	Kind string  `json:"kind,omitempty"` // rawdel: record kind (singletons: the id is looked up)
	// Node 2: the op (build, plog, apply, wlog, reread) is done by the second node - another app-structs instance
	// with its own caches on the same backend.  Its writes are KForeign steps of the trace.
	Node int `json:"node,omitempty"`
	// filled by the run
	// Hold (reapply_wlog): the re-applier's storage write is held at its entry under this name while the Inner ops
	// run (other partitions of the application), then it is released; op "release" lets a named hold go earlier
	Hold  string `json:"hold,omitempty"`
	Inner []*op  `json:"inner,omitempty"`
	// Fault (plog): the storage write of this PutPlog is made to fail before it has any effect
	Fault bool `json:"fault,omitempty"`
	Obs   *stepObs `json:"observed,omitempty"`
	// the probe after an unsuccessful PutPlog: the same event object handed to GetEventReapplier
	Probes []*stepObs `json:"reapply_of_unstored_event,omitempty"`
}

type scenario struct {
	Cell    string `json:"cell"` // what the scenario is meant to hit (label only)
	Backend string `json:"backend"`
	Trust   int    `json:"trust"`
	Ops     []*op  `json:"ops"`
}

type slotObs struct {
	Key    string `json:"key"`
	Kind   string `json:"kind,omitempty"`
	Stale  bool   `json:"update_from_created_object,omitempty"`
	Foreign bool  `json:"written_by_other_node,omitempty"`
	New    bool   `json:"new"`
	Load   bool   `json:"load,omitempty"`
	Val    string `json:"val"` // "id/stamp sha" of the bytes the op tried to write
	Before string `json:"before"`
	After  string `json:"after"`
}

type stepObs struct {
	Kind   string    `json:"kind"`
	Mode   uint64    `json:"mode,omitempty"`
	Result string    `json:"result"`
	Error  string    `json:"error,omitempty"`
	Calls  []string  `json:"calls"`
	Slots  []slotObs `json:"slots"`
}

// ---- run state ----

type liveEvent struct {
	spec   *evSpec
	node   int // 2: built / stored by the second node
	unbuilt string // non-empty: BuildRawEvent refused the event (e.g. singleton exists); its ops are skipped
	raw    istructs.IRawEvent
	berr   error
	pev    istructs.IPLogEvent
	putGen int  // app generation whose PutPlog produced pev
	reread bool // pev was read back through ReadPLog
	loaded bool // ... from the storage (not from the PLog cache of the instance that wrote it)
	// updates of a loaded event whose stored record apply2 has already read (origin no longer empty)
	updLoaded map[uint64]bool
	// record objects the Apply2 callback handed out when this event was applied, by id
	cbRecs map[uint64]istructs.IRecord
	// updates of this event that were built from a record object of a created row (by id)
	staleUpd map[uint64]bool
}

type item struct {
	pk, cc []byte
	isNew  bool
	load   bool
	stamp  int64
	api    func() (bool, int64, error)
	val    []byte // bytes the op handed to the storage for this row (nil = never reached)
	before  obs
	after   obs
	touched bool
	ev      *liveEvent // for record rows
	id      uint64
	kind    *kindDef // nil for log rows
	foreign bool     // another writer has written this slot underneath the node's caches
	stale   bool     // update built from a record object whose isNew flag is set
	pofs    uint64   // log rows: the PLog offset of the event itself
}

type runner struct {
	sc     *scenario
	rig    *rig
	events map[string]*liveEvent
	// interning of byte strings: id 1.. in order of first sight; stamp fixed at first sight
	ids    map[string]uint64
	stamps []int64
	steps  []string
	tags   map[string]bool
	shape  strings.Builder
	// guarded writes that were refused, by slot and stamp of what they tried to write (observation P-A)
	refused map[string]bool
	// slots another writer (node 2) has written underneath the first node's caches
	staleKeys map[string]bool
	// s_mode of the next step (0 ordinary; 1/2 re-apply of an event whose PutPlog was refused / failed; 3 injected fault)
	mode uint64
	// window: number of re-applier WLog writes in flight (held); afterOverlap: two of them have overlapped
	window       int
	afterOverlap bool
	// the held storage call of the step whose call function is returning (see "reapply_wlog" with Hold)
	extraCalls []kit.Call
	innerErr   error
}

// stepMode: the s_mode of the step being emitted
func (r *runner) stepMode() uint64 {
	switch {
	case r.mode != 0:
		return r.mode
	case r.window > 0:
		return 4
	case r.afterOverlap:
		return 5
	}
	return 0
}

func (r *runner) intern(b []byte, stamp int64) uint64 {
	if id, ok := r.ids[string(b)]; ok {
		return id
	}
	id := uint64(len(r.stamps) + 1)
	r.ids[string(b)] = id
	r.stamps = append(r.stamps, stamp)
	return id
}

func (r *runner) val(b []byte, stamp int64) string {
	id := r.intern(b, stamp)
	return fmt.Sprintf("(%d, %d)", id, r.stamps[id-1])
}

func optVal(r *runner, ok bool, b []byte) string {
	if !ok {
		return "None"
	}
	return "(Some " + r.val(b, 0) + ")"
}

type obs struct {
	topOk, botOk, apiOk bool
	top, bot            []byte
	api                 int64
}

func (r *runner) observe(it *item) (obs, error) {
	var o obs
	var err error
	var d1, d2 []byte
	if o.topOk, err = r.rig.mid.Get(it.pk, it.cc, &d1); err != nil {
		return o, err
	}
	if o.botOk, err = r.rig.bottom.Get(it.pk, it.cc, &d2); err != nil {
		return o, err
	}
	o.top, o.bot = append([]byte{}, d1...), append([]byte{}, d2...)
	if o.apiOk, o.api, err = it.api(); err != nil {
		return o, fmt.Errorf("API read: %w", err)
	}
	return o, nil
}

func (r *runner) obsTerm(o obs) string {
	api := "None"
	if o.apiOk {
		api = fmt.Sprintf("(Some %d)", o.api)
	}
	return fmt.Sprintf("(mkObs %s %s %s)", optVal(r, o.topOk, o.top), optVal(r, o.botOk, o.bot), api)
}

func (r *runner) obsDesc(o obs) string {
	f := func(ok bool, b []byte) string {
		if !ok {
			return "-"
		}
		return fmt.Sprintf("#%d", r.intern(b, 0))
	}
	api := "-"
	if o.apiOk {
		api = fmt.Sprint(o.api)
	}
	return fmt.Sprintf("top=%s bottom=%s api=%s", f(o.topOk, o.top), f(o.botOk, o.bot), api)
}

func resClass(err error, panicked any) (string, string) {
	switch {
	case panicked != nil:
		return "RPanic", fmt.Sprint(panicked)
	case err == nil:
		return "ROk", ""
	case errors.Is(err, istructsmem.ErrSequencesViolation):
		return "RViolation", err.Error()
	case errors.Is(err, istructsmem.ErrIDNotFoundError):
		return "RNotFound", err.Error()
	default:
		return "ROther", err.Error()
	}
}

// step executes one observed step: observations before, the call with recording on, observations after
func (r *runner) step(o *op, kind string, corrupted bool, items []*item, call func() error) error {
	mode := r.stepMode()
	for _, it := range items {
		b, err := r.observe(it)
		if err != nil {
			return err
		}
		it.before = b
	}
	var cerr error
	var panicked any
	calls := r.rig.record(func() {
		defer func() { panicked = recover() }()
		cerr = call()
	})
	if r.innerErr != nil {
		err := r.innerErr
		r.innerErr = nil
		return err
	}
	calls = append(calls, r.extraCalls...)
	r.extraCalls = nil
	res, emsg := resClass(cerr, panicked)
	// the bytes handed to the storage, per row: from the recorded write calls.  The updates of an
	// event live in a Go map (cudType.updates): their order in the batch is the order in which
	// the implementation touched them, taken from the calls.
	var touched []*item
	mark := func(it *item) {
		if !it.isNew && !it.touched {
			it.touched = true
			touched = append(touched, it)
		}
	}
	find := func(pk, cc []byte) *item {
		for _, it := range items {
			if it.val == nil && bytes.Equal(it.pk, pk) && bytes.Equal(it.cc, cc) {
				return it
			}
		}
		return nil
	}
	stampFor := func(pk, cc []byte, v []byte) int64 {
		if it := find(pk, cc); it != nil {
			it.val = append([]byte{}, v...)
			mark(it)
			return it.stamp
		}
		return 0
	}
	loadOf := func(pk, cc []byte) {
		for _, it := range items {
			if !it.isNew && bytes.Equal(it.pk, pk) && bytes.Equal(it.cc, cc) {
				mark(it)
				return
			}
		}
	}
	callTerms := make([]string, 0, len(calls))
	callDescs := make([]string, 0, len(calls))
	for _, c := range calls {
		switch c.Op {
		case "Put":
			v := r.val(c.Value, stampFor(c.PKey, c.CCols, c.Value))
			callTerms = append(callTerms, fmt.Sprintf("CPut %s %s %s", kit.Bytes(c.PKey), kit.Bytes(c.CCols), v))
			callDescs = append(callDescs, fmt.Sprintf("Put %x/%x #%d", c.PKey, c.CCols, r.intern(c.Value, 0)))
		case "InsertIfNotExists":
			v := r.val(c.Value, stampFor(c.PKey, c.CCols, c.Value))
			callTerms = append(callTerms, fmt.Sprintf("CIns %s %s %s %s %s", kit.Bytes(c.PKey), kit.Bytes(c.CCols), v, kit.Z(int64(c.TTL)), kit.Bool(c.Ok)))
			callDescs = append(callDescs, fmt.Sprintf("InsertIfNotExists %x/%x #%d ttl=%d -> %v", c.PKey, c.CCols, r.intern(c.Value, 0), c.TTL, c.Ok))
		case "PutBatch":
			rows := make([]string, len(c.Items))
			d := make([]string, len(c.Items))
			for i, bi := range c.Items {
				rows[i] = fmt.Sprintf("(%s, %s, %s)", kit.Bytes(bi.PKey), kit.Bytes(bi.CCols), r.val(bi.Value, stampFor(bi.PKey, bi.CCols, bi.Value)))
				d[i] = fmt.Sprintf("%x/%x #%d", bi.PKey, bi.CCols, r.intern(bi.Value, 0))
			}
			callTerms = append(callTerms, "CBatch "+kit.List(rows))
			callDescs = append(callDescs, "PutBatch "+strings.Join(d, ", "))
		case "Get":
			loadOf(c.PKey, c.CCols)
			callTerms = append(callTerms, fmt.Sprintf("CGet %s %s %s", kit.Bytes(c.PKey), kit.Bytes(c.CCols), kit.Bool(c.Ok)))
			callDescs = append(callDescs, fmt.Sprintf("Get %x/%x -> %v", c.PKey, c.CCols, c.Ok))
		default:
			callTerms = append(callTerms, "COther 0")
			callDescs = append(callDescs, c.Op)
		}
		if c.Err != nil {
			return fmt.Errorf("storage call %s failed: %w", c.Op, c.Err)
		}
	}
	so := &stepObs{Kind: kind, Result: res, Error: emsg, Calls: callDescs}
	var ordered []*item
	for _, it := range items {
		if it.isNew {
			ordered = append(ordered, it)
		}
	}
	ordered = append(ordered, touched...)
	for _, it := range items {
		if !it.isNew && !it.touched {
			ordered = append(ordered, it)
		}
	}
	items = ordered
	slots := make([]string, len(items))
	for i, it := range items {
		after, err := r.observe(it)
		if err != nil {
			return err
		}
		v := "(0, 0)"
		vd := "not reached"
		if it.val != nil {
			v = r.val(it.val, it.stamp)
			vd = fmt.Sprintf("#%d stamp=%d", r.intern(it.val, it.stamp), it.stamp)
		}
		kcode, kname := uint64(0), ""
		if it.kind != nil {
			kcode, kname = it.kind.Code, it.kind.Name
		}
		foreign := r.staleKeys[string(it.pk)+"/"+string(it.cc)]
		slots[i] = fmt.Sprintf("mkSlot (mkItem %s %s %d %s %s %s %s) %s %s %s", kit.Bytes(it.pk), kit.Bytes(it.cc), kcode,
			kit.Bool(it.isNew), kit.Bool(it.stale), kit.Bool(it.load), v, kit.Bool(foreign), r.obsTerm(it.before), r.obsTerm(after))
		it.foreign = foreign
		it.after = after
		so.Slots = append(so.Slots, slotObs{Key: fmt.Sprintf("%x/%x", it.pk, it.cc), Kind: kname, Stale: it.stale, Foreign: foreign, New: it.isNew, Load: it.load, Val: vd,
			Before: r.obsDesc(it.before), After: r.obsDesc(after)})
		r.tagSlot(kind, corrupted, it, it.before, after, res)
	}
	// apply2 reads the stored record of a loaded update once: its origin is no longer empty afterwards
	for _, it := range items {
		if it.load {
			if !it.before.topOk {
				break
			}
			it.ev.updLoaded[it.id] = true
		}
	}
	o.Obs = so
	r.steps = append(r.steps, fmt.Sprintf("mkStep %s %d %s %s %s %s", kind, mode, kit.Bool(corrupted), kit.List(slots), res, kit.List(callTerms)))
	so.Mode = mode
	if mode != 0 {
		fmt.Fprintf(&r.shape, "/m%d", mode)
		r.tags[fmt.Sprintf("mode:%d", mode)] = true
	}
	fmt.Fprintf(&r.shape, "|%s:%d:%s", kind, len(items), res)
	return nil
}

// foreignStep: the second node performs a write; the rows it stored become a KForeign step of the trace and the
// slots are marked: from now on the first node's views of them (through its istoragecache, its PLog cache) may
// be out of date, only the raw bytes of the shared storage are compared.  The observation taken before the
// write goes through the first node's cache: the node has read the slot (while it was empty, in the cells).
func (r *runner) foreignStep(o *op, items []*item, call func() error) error {
	for _, it := range items {
		b, err := r.observe(it)
		if err != nil {
			return err
		}
		it.before = b
	}
	var cerr error
	var panicked any
	calls := r.rig.record2(func() {
		defer func() { panicked = recover() }()
		cerr = call()
	})
	res, emsg := resClass(cerr, panicked)
	var written []*item
	take := func(pk, cc, v []byte) {
		for _, it := range items {
			if it.val == nil && bytes.Equal(it.pk, pk) && bytes.Equal(it.cc, cc) {
				it.val = append([]byte{}, v...)
				written = append(written, it)
				return
			}
		}
	}
	so := &stepObs{Kind: "KForeign", Result: res, Error: emsg}
	for _, c := range calls {
		switch c.Op {
		case "Put":
			take(c.PKey, c.CCols, c.Value)
		case "InsertIfNotExists":
			if c.Ok {
				take(c.PKey, c.CCols, c.Value)
			}
		case "PutBatch":
			for _, bi := range c.Items {
				take(bi.PKey, bi.CCols, bi.Value)
			}
		}
		so.Calls = append(so.Calls, fmt.Sprintf("node2 %s %x/%x ok=%v", c.Op, c.PKey, c.CCols, c.Ok))
	}
	o.Obs = so
	if len(written) == 0 {
		return nil
	}
	slots := make([]string, len(written))
	for i, it := range written {
		r.staleKeys[string(it.pk)+"/"+string(it.cc)] = true
		after, err := r.observe(it)
		if err != nil {
			return err
		}
		kcode, kname := uint64(0), ""
		if it.kind != nil {
			kcode, kname = it.kind.Code, it.kind.Name
		}
		slots[i] = fmt.Sprintf("mkSlot (mkItem %s %s %d %s false false %s) true %s %s", kit.Bytes(it.pk), kit.Bytes(it.cc), kcode,
			kit.Bool(it.isNew), r.val(it.val, it.stamp), r.obsTerm(it.before), r.obsTerm(after))
		so.Slots = append(so.Slots, slotObs{Key: fmt.Sprintf("%x/%x", it.pk, it.cc), Kind: kname, Foreign: true, New: it.isNew,
			Val: fmt.Sprintf("#%d stamp=%d", r.intern(it.val, it.stamp), it.stamp), Before: r.obsDesc(it.before), After: r.obsDesc(after)})
	}
	r.tags["foreign-writer"] = true
	r.steps = append(r.steps, fmt.Sprintf("mkStep KForeign 0 false %s ROk []", kit.List(slots)))
	fmt.Fprintf(&r.shape, "|KForeign:%d", len(written))
	return nil
}

// tagSlot: matrix cell of this row (computed from what was observed) for the evidence histogram
func (r *runner) tagSlot(kind string, corrupted bool, it *item, before, after obs, res string) {
	op := map[string]string{"KPlog": "plog", "KWlog": "wlog", "KReapplyWlog": "reapply", "KReapplyRecs": "reapply", "KRawDel": "rawdel"}[kind]
	if kind == "KApply" {
		op = "update"
		if it.isNew {
			op = "create"
		}
	}
	if kind == "KRawDel" {
		return
	}
	state := "empty"
	if before.botOk {
		state = "different"
		if it.val != nil && bytes.Equal(before.bot, it.val) {
			state = "identical"
		} else if it.val == nil {
			state = "occupied"
		}
	}
	pre := "cell"
	if corrupted {
		pre = "corrupted"
	}
	if it.kind != nil {
		op += ":" + it.kind.Name
	}
	if kind == "KWlog" && !it.foreign {
		op += fmt.Sprintf(":p%d", it.pofs)
	}
	if it.foreign && !corrupted {
		pre = "foreign"
	}
	switch r.mode {
	case 1, 2:
		pre = fmt.Sprintf("unstored-m%d", r.mode)
	case 3:
		pre = "fault"
	}
	if kind == "KApply" && !it.isNew && it.stale {
		op = "update-from-created-object"
		if before.botOk && res == "RViolation" {
			// finding F-A, judged from the observed outcome
			r.tags["F-A:update-built-from-created-record-object-refused"] = true
		}
	}
	r.tags[fmt.Sprintf("%s:t%d:%s:%s:%s", pre, r.sc.Trust, op, state, r.sc.Backend)] = true
	r.tags["result:"+res] = true
	rk := fmt.Sprintf("%x/%x/%d", it.pk, it.cc, it.stamp)
	if before.botOk && res == "RViolation" && bytes.Equal(before.bot, after.bot) {
		r.tags["refused-intact"] = true
		if it.val != nil {
			r.refused[rk] = true
		}
	}
	if (kind == "KReapplyRecs" || kind == "KReapplyWlog") && res == "ROk" && r.refused[rk] && before.botOk && !bytes.Equal(before.bot, after.bot) {
		// observation P-A: the write that was refused with SequencesViolation is carried out by the re-applier
		// (by design of re-apply; the composition is the command processor's, see findings/C05/handover-C01-P-A.md)
		r.tags["note:P-A:refused-write-carried-out-by-reapply"] = true
	}
	if before.botOk && it.val != nil && !bytes.Equal(before.bot, after.bot) {
		r.tags["overwritten"] = true
	}
}

// recID: the storage id of a record of the scenario (singletons: the id the registry fixed)
func (r *runner) recID(rs recSpec) (uint64, error) {
	k := kindOf(rs.Kind)
	if k == nil {
		return 0, fmt.Errorf("unknown record kind %q", rs.Kind)
	}
	if k.Singleton {
		id, err := r.rig.app.Records().GetSingletonID(qn(k.Name))
		return uint64(id), err
	}
	return rs.ID, nil
}

func (r *runner) eventItems(ev *liveEvent) ([]*item, error) {
	var items []*item
	sp := ev.spec
	mk := func(rs recSpec, isNew bool) error {
		id, err := r.recID(rs)
		if err != nil {
			return err
		}
		pk, cc := recordKey(sp.WS, id)
		ws := sp.WS
		items = append(items, &item{pk: pk, cc: cc, isNew: isNew, load: !isNew && ev.loaded && !ev.updLoaded[id], stamp: rs.Stamp, ev: ev, id: id,
			stale: !isNew && !ev.loaded && ev.staleUpd[id],
			kind: kindOf(rs.Kind), api: func() (bool, int64, error) { return r.rig.apiRecord(ws, id) }})
		return nil
	}
	for _, c := range sp.Creates {
		if err := mk(c, true); err != nil {
			return nil, err
		}
	}
	for _, u := range sp.Updates {
		if err := mk(u, false); err != nil {
			return nil, err
		}
	}
	return items, nil
}

func (r *runner) plogItem(sp *evSpec) *item {
	pk, cc := plogKey(sp.Part, sp.POfs)
	return &item{pk: pk, cc: cc, isNew: true, stamp: sp.Stamp,
		api: func() (bool, int64, error) { return r.rig.apiPLog(sp.Part, sp.POfs) }}
}

func (r *runner) wlogItem(sp *evSpec) *item {
	pk, cc := wlogKey(sp.WS, sp.WOfs)
	return &item{pk: pk, cc: cc, isNew: true, stamp: sp.Stamp, pofs: sp.POfs,
		api: func() (bool, int64, error) { return r.rig.apiWLog(sp.WS, sp.WOfs) }}
}

func (r *runner) build(o *op) error {
	sp := o.Ev
	app := r.rig.app
	if o.Node == 2 {
		var err error
		if app, err = r.rig.node2(); err != nil {
			return err
		}
	}
	name := istructs.QNameCommandCUD
	params := istructs.GenericRawEventBuilderParams{HandlingPartition: istructs.PartitionID(sp.Part), PLogOffset: istructs.Offset(sp.POfs),
		Workspace: istructs.WSID(sp.WS), WLogOffset: istructs.Offset(sp.WOfs), QName: name, RegisteredAt: istructs.UnixMilli(sp.Stamp)}
	if sp.Corrupted {
		params.QName = istructs.QNameForCorruptedData
		params.EventBytes = []byte(fmt.Sprintf("damaged-%d", sp.Stamp))
	}
	if sp.Arg != nil {
		params.QName = qnCmd
	}
	direct := false
	for _, c := range sp.Creates {
		direct = direct || c.Direct
	}
	var bld istructs.IRawEventBuilder
	if direct {
		// storage ids inside the event are accepted for synced events only
		bld = app.Events().GetSyncRawEventBuilder(istructs.SyncRawEventBuilderParams{GenericRawEventBuilderParams: params, Device: 1, SyncedAt: istructs.UnixMilli(sp.Stamp)})
	} else {
		bld = app.Events().GetNewRawEventBuilder(istructs.NewRawEventBuilderParams{GenericRawEventBuilderParams: params})
	}
	if sp.Arg != nil {
		ab := bld.ArgumentObjectBuilder()
		ab.PutRecordID(appdef.SystemField_ID, argRawID)
		ab.PutInt64(fldStamp, sp.Arg.Stamp)
		lb := ab.ChildBuilder("lines")
		lb.PutRecordID(appdef.SystemField_ID, argRawID+1)
		lb.PutInt64(fldStamp, sp.Arg.Stamp)
	}
	stale := map[uint64]bool{}
	if !sp.Corrupted {
		cud := bld.CUDBuilder()
		for i, c := range sp.Creates {
			k := kindOf(c.Kind)
			if k == nil {
				return fmt.Errorf("build %s: unknown record kind %q", o.Name, c.Kind)
			}
			w := cud.Create(qn(k.Name))
			if c.Direct {
				w.PutRecordID(appdef.SystemField_ID, istructs.RecordID(c.ID))
			} else {
				w.PutRecordID(appdef.SystemField_ID, istructs.RecordID(i+1))
			}
			if k.Parent != "" {
				if c.ParentRaw > 0 {
					w.PutRecordID(appdef.SystemField_ParentID, istructs.RecordID(c.ParentRaw))
				} else {
					w.PutRecordID(appdef.SystemField_ParentID, istructs.RecordID(c.Parent))
				}
				w.PutString(appdef.SystemField_Container, k.Container)
			}
			w.PutInt64(fldStamp, c.Stamp)
			if c.Pad != "" {
				w.PutString(fldPad, c.Pad)
			}
			if sp.Invalid && i == 0 {
				w.PutString("noSuchField", "x")
			}
		}
		for _, u := range sp.Updates {
			id, err := r.recID(u)
			if err != nil {
				return err
			}
			var rec istructs.IRecord
			if u.FromCB != "" {
				src := r.events[u.FromCB]
				if src == nil || src.cbRecs[id] == nil {
					r.events[o.Name] = &liveEvent{spec: sp, unbuilt: fmt.Sprintf("no record object %d from the callback of %s", id, u.FromCB)}
					return r.skip(o, r.events[o.Name].unbuilt)
				}
				rec = src.cbRecs[id]
				for _, c := range src.spec.Creates {
					if cid, _ := r.recID(c); cid == id {
						stale[id] = true
					}
				}
			} else if rec, err = app.Records().Get(istructs.WSID(sp.WS), true, istructs.RecordID(id)); err != nil {
				return err
			}
			if rec.QName() == appdef.NullQName {
				r.events[o.Name] = &liveEvent{spec: sp, unbuilt: fmt.Sprintf("record %d to update does not exist", id)}
				return r.skip(o, r.events[o.Name].unbuilt)
			}
			w := cud.Update(rec)
			w.PutInt64(fldStamp, u.Stamp)
			if u.Pad != "" {
				w.PutString(fldPad, u.Pad)
			}
		}
	}
	raw, berr := bld.BuildRawEvent()
	if !sp.Corrupted && !sp.Invalid && berr != nil {
		// validEvent refused it in the state reached (a singleton that exists, ...): deterministic; ops on it are skipped
		r.events[o.Name] = &liveEvent{spec: sp, unbuilt: berr.Error()}
		return r.skip(o, "build refused: "+berr.Error())
	}
	if sp.Invalid && berr == nil {
		return fmt.Errorf("build %s: the invalid event was built without an error", o.Name)
	}
	r.events[o.Name] = &liveEvent{spec: sp, raw: raw, berr: berr, staleUpd: stale, node: o.Node}
	return nil
}

// raw ids of the ODoc argument and its nested ORecord
const argRawID = 1000

func (r *runner) get(name string) (*liveEvent, error) {
	ev, ok := r.events[name]
	if !ok {
		// produced by a skipped reread
		return &liveEvent{spec: &evSpec{}}, nil
	}
	return ev, nil
}

// probeUnstored: after a PutPlog that was refused (mode 1) or failed (mode 2) the caller still holds the event
// object; it is handed to GetEventReapplier.  A panic is the expected answer (step outcome RPanic, nothing
// written); if the event is accepted, PutWLog and ApplyRecords are run and recorded like any other step.
func (r *runner) probeUnstored(o *op, ev *liveEvent, mode uint64) error {
	obj, ok := ev.raw.(istructs.IPLogEvent)
	if !ok {
		return nil
	}
	var ra istructs.IEventReapplier
	var refusal any
	func() {
		defer func() { refusal = recover() }()
		ra = r.rig.app.GetEventReapplier(obj)
	}()
	probe := &liveEvent{spec: ev.spec, pev: obj, staleUpd: ev.staleUpd, updLoaded: map[uint64]bool{}}
	run := func(kind string, items []*item, f func() error) error {
		po := &op{}
		r.mode = mode
		err := r.step(po, kind, ev.spec.Corrupted, items, func() error {
			if ra == nil {
				panic(refusal)
			}
			return f()
		})
		r.mode = 0
		if err != nil {
			return err
		}
		o.Probes = append(o.Probes, po.Obs)
		for _, it := range items {
			guarded := (kind == "KReapplyWlog" && r.sc.Trust < 2) || (kind == "KReapplyRecs" && r.sc.Trust == 0 && it.isNew)
			if guarded && it.before.botOk && !bytes.Equal(it.before.bot, it.after.bot) {
				if mode == 2 {
					// finding P-D, judged from the observed outcome
					r.tags["P-D:event-whose-PutPlog-failed-is-reapplied-over-an-existing-entry"] = true
				} else {
					r.tags["unstored:refused-event-reapplied-over-an-existing-entry"] = true
				}
			}
		}
		return nil
	}
	if ra == nil {
		r.tags[fmt.Sprintf("unstored:m%d:reapplier-refuses", mode)] = true
	} else {
		r.tags[fmt.Sprintf("unstored:m%d:reapplier-accepts", mode)] = true
	}
	if err := run("KReapplyWlog", []*item{r.wlogItem(ev.spec)}, func() error { return ra.PutWLog() }); err != nil {
		return err
	}
	if ev.spec.Corrupted || ev.spec.Invalid {
		return nil
	}
	items, err := r.eventItems(probe)
	if err != nil {
		return err
	}
	return run("KReapplyRecs", items, func() error { return ra.ApplyRecords() })
}

// reapplier: GetEventReapplier refuses (panics on) events whose isStored flag is unset; that is the
// case for sys.Corrupted / invalid events loaded from the storage (loadEvent returns before setting it).
// Nothing is written then, so the op is skipped and the fact is tagged.
func (r *runner) reapplier(ev *liveEvent) (ra istructs.IEventReapplier, why string) {
	defer func() {
		if p := recover(); p != nil {
			ra, why = nil, fmt.Sprintf("GetEventReapplier panics: %v", p)
			r.tags["note:reapplier-refuses-invalid-event-loaded-from-storage"] = true
		}
	}()
	return r.rig.app.GetEventReapplier(ev.pev), ""
}

// skip: the op cannot be executed in the state the scenario reached (deterministic; no step emitted)
func (r *runner) skip(o *op, why string) error {
	o.Obs = &stepObs{Kind: "skipped", Result: why}
	return nil
}

func (r *runner) runOp(o *op) error {
	switch o.Op {
	case "build":
		return r.build(o)
	case "restart":
		return r.rig.restart()
	case "plog":
		ev, err := r.get(o.Name)
		if err != nil {
			return err
		}
		if ev.unbuilt != "" || ev.raw == nil {
			return r.skip(o, "event was not built")
		}
		ids := map[uint64]uint64{}
		for i, c := range ev.spec.Creates {
			ids[uint64(i+1)] = c.ID
		}
		if a := ev.spec.Arg; a != nil {
			ids[argRawID], ids[argRawID+1] = a.ID, a.LineID
		}
		if o.Node == 2 {
			app2, err := r.rig.node2()
			if err != nil {
				return err
			}
			return r.foreignStep(o, []*item{r.plogItem(ev.spec)}, func() error {
				pev, err := app2.Events().PutPlog(ev.raw, ev.berr, &scriptedIDs{ids: ids})
				if err == nil {
					ev.pev, ev.putGen = pev, -2
				}
				return err
			})
		}
		if o.Fault {
			r.rig.failPLogWrite, r.mode = true, 3
		}
		err = r.step(o, "KPlog", ev.spec.Corrupted, []*item{r.plogItem(ev.spec)}, func() error {
			pev, err := r.rig.app.Events().PutPlog(ev.raw, ev.berr, &scriptedIDs{ids: ids})
			if err == nil {
				ev.pev, ev.putGen, ev.reread, ev.loaded = pev, r.rig.gen, false, false
			}
			return err
		})
		r.rig.failPLogWrite, r.mode = false, 0
		if err != nil || o.Obs == nil || ev.pev != nil {
			// (an object that an earlier PutPlog did store is a logged event: re-applying it is legitimate)
			return err
		}
		// an event whose PutPlog did not succeed is not in the log: the re-applier must not take it
		switch {
		case o.Obs.Result == "RViolation":
			return r.probeUnstored(o, ev, 1)
		case o.Fault && o.Obs.Result == "ROther":
			return r.probeUnstored(o, ev, 2)
		}
		return nil
	case "buildplog":
		// IEvents.BuildPLogEvent: a PLog event that is not put into the PLog (sys.Corrupted with null PLog offset
		// only; the path of `update corrupted` for the WLog)
		ev, err := r.get(o.Name)
		if err != nil {
			return err
		}
		if ev.raw == nil {
			return r.skip(o, "event was not built")
		}
		var pnc any
		func() {
			defer func() { pnc = recover() }()
			ev.pev = r.rig.app.Events().BuildPLogEvent(ev.raw)
		}()
		if pnc != nil {
			return r.skip(o, fmt.Sprintf("BuildPLogEvent panics: %v", pnc))
		}
		ev.putGen = r.rig.gen
		return nil
	case "wlog":
		ev, err := r.get(o.Name)
		if err != nil {
			return err
		}
		if ev.pev == nil {
			return r.skip(o, "no PLog event (the append was refused)")
		}
		if o.Node == 2 {
			app2, err := r.rig.node2()
			if err != nil {
				return err
			}
			return r.foreignStep(o, []*item{r.wlogItem(ev.spec)}, func() error { return app2.Events().PutWlog(ev.pev) })
		}
		return r.step(o, "KWlog", ev.spec.Corrupted, []*item{r.wlogItem(ev.spec)}, func() error { return r.rig.app.Events().PutWlog(ev.pev) })
	case "apply":
		ev, err := r.get(o.Name)
		if err != nil {
			return err
		}
		if ev.pev == nil || ev.spec.Invalid || ev.spec.Corrupted {
			return r.skip(o, "no valid PLog event")
		}
		items, err := r.eventItems(ev)
		if err != nil {
			return err
		}
		if o.Node == 2 {
			app2, err := r.rig.node2()
			if err != nil {
				return err
			}
			return r.foreignStep(o, items, func() error { return app2.Records().Apply(ev.pev) })
		}
		return r.step(o, "KApply", false, items, func() error {
			got := map[uint64]istructs.IRecord{}
			err := r.rig.app.Records().Apply2(ev.pev, func(rec istructs.IRecord) { got[uint64(rec.ID())] = rec })
			if err == nil {
				ev.cbRecs = got
			}
			return err
		})
	case "reread":
		src, err := r.get(o.Name)
		if err != nil {
			return err
		}
		var got istructs.IPLogEvent
		rapp := r.rig.app
		if o.Node == 2 {
			if rapp, err = r.rig.node2(); err != nil {
				return err
			}
		}
		err = rapp.Events().ReadPLog(context.Background(), istructs.PartitionID(src.spec.Part), istructs.Offset(src.spec.POfs), 1,
			func(_ istructs.Offset, e istructs.IPLogEvent) error { got = e; return nil })
		if err != nil {
			return err
		}
		if got == nil {
			return r.skip(o, "nothing at the offset")
		}
		// which event is it? (the slot may hold another event's bytes)
		var spec *evSpec
		for _, e := range r.events {
			if e.spec.Stamp == int64(got.RegisteredAt()) && e.spec.Part == src.spec.Part && e.spec.POfs == src.spec.POfs {
				spec = e.spec
			}
		}
		if spec == nil {
			return fmt.Errorf("reread %s: unknown event at the offset", o.Name)
		}
		// served from the PLog cache exactly when this instance stored an event at the offset
		loaded := true
		var stale map[uint64]bool
		for _, e := range r.events {
			if e.pev != nil && !e.reread && e.putGen == r.rig.gen && e.spec.Part == src.spec.Part && e.spec.POfs == src.spec.POfs {
				loaded = false
				if e.pev == got {
					stale = e.staleUpd // the very object that was built: its updates keep the flags they were built with
				}
			}
		}
		r.events[o.As] = &liveEvent{spec: spec, pev: got, reread: true, loaded: loaded, putGen: -1, updLoaded: map[uint64]bool{}, staleUpd: stale}
		return nil
	case "reapply_recs":
		ev, err := r.get(o.Name)
		if err != nil {
			return err
		}
		if ev.pev == nil || ev.spec.Invalid || ev.spec.Corrupted {
			return r.skip(o, "no valid stored event")
		}
		ra, why := r.reapplier(ev)
		if ra == nil {
			return r.skip(o, why)
		}
		items, err := r.eventItems(ev)
		if err != nil {
			return err
		}
		return r.step(o, "KReapplyRecs", false, items, func() error { return ra.ApplyRecords() })
	case "reapply_wlog":
		ev, err := r.get(o.Name)
		if err != nil {
			return err
		}
		if ev.pev == nil {
			return r.skip(o, "no stored event")
		}
		ra, why := r.reapplier(ev)
		if ra == nil {
			return r.skip(o, why)
		}
		if o.Hold == "" {
			return r.step(o, "KReapplyWlog", ev.spec.Corrupted, []*item{r.wlogItem(ev.spec)}, func() error { return ra.PutWLog() })
		}
		// the re-applier's storage write is held at its entry; meanwhile the inner ops run - other partitions of the
		// same application; in the trace they come first (they complete first; they touch other slots)
		wit := r.wlogItem(ev.spec)
		return r.step(o, "KReapplyWlog", ev.spec.Corrupted, []*item{wit}, func() error {
			h := r.rig.newHold(o.Hold, wit.pk, wit.cc)
			// the step's own storage call is the held one (captured by the hold); the reads the harness makes for
			// the inner steps are not this step's calls
			r.rig.recording = false
			go func() {
				defer func() {
					if p := recover(); p != nil {
						h.done <- fmt.Errorf("panic: %v", p)
					}
				}()
				h.done <- ra.PutWLog()
			}()
			select {
			case <-h.arrived:
			case h.result = <-h.done:
				h.finished = true
				return fmt.Errorf("the re-applier returned without a storage write to hold: %v", h.result)
			case <-time.After(10 * time.Second):
				return errors.New("the re-applier did not reach its storage write within 10s")
			}
			r.window++
			for _, in := range o.Inner {
				if err := r.runOp(in); err != nil {
					r.innerErr = fmt.Errorf("inner op %s %s: %w", in.Op, in.Name, err)
					break
				}
			}
			r.window--
			err := h.letGo()
			if h.call != nil {
				r.extraCalls = []kit.Call{*h.call}
			}
			return err
		})
	case "release":
		h := r.rig.holdByName(o.Name)
		if h == nil {
			return fmt.Errorf("release: no hold %q", o.Name)
		}
		if r.window >= 2 {
			r.afterOverlap = true // two re-appliers' WLog writes were in flight together and this one finishes first
		}
		h.letGo()
		return nil
	case "rawdel":
		id, err := r.recID(recSpec{Kind: o.Kind, ID: o.ID})
		if err != nil {
			return err
		}
		pk, cc := recordKey(o.WS, id)
		ws := o.WS
		it := &item{pk: pk, cc: cc, isNew: false, api: func() (bool, int64, error) { return r.rig.apiRecord(ws, id) }}
		return r.step(o, "KRawDel", false, []*item{it}, func() error {
			var cur []byte
			ok, err := r.rig.mid.Get(pk, cc, &cur)
			if err != nil || !ok {
				return err
			}
			done, err := r.rig.mid.CompareAndDelete(pk, cc, append([]byte{}, cur...))
			if err == nil && !done {
				err = errors.New("CompareAndDelete refused")
			}
			return err
		})
	}
	return fmt.Errorf("unknown op %q", o.Op)
}

// run executes the scenario and returns the Coq term, the tags and the shape key
func run(sc *scenario) (coq string, tags []string, key string, err error) {
	rg, err := newRig(sc.Backend, sc.Trust)
	if err != nil {
		return "", nil, "", err
	}
	defer rg.cleanup()
	r := &runner{sc: sc, rig: rg, events: map[string]*liveEvent{}, ids: map[string]uint64{}, tags: map[string]bool{}, refused: map[string]bool{}, staleKeys: map[string]bool{}}
	for i, o := range sc.Ops {
		if err := r.runOp(o); err != nil {
			return "", nil, "", fmt.Errorf("scenario %q op %d (%s %s): %w", sc.Cell, i, o.Op, o.Name, err)
		}
	}
	bk := map[string]int{"mem": 0, "bbolt": 1, "cached": 2}[sc.Backend]
	coq = fmt.Sprintf("mkTrace %d %d %s", bk, sc.Trust, kit.List(r.steps))
	for t := range r.tags {
		tags = append(tags, t)
	}
	sort.Strings(tags)
	key = fmt.Sprintf("%s:t%d%s", sc.Backend, sc.Trust, r.shape.String())
	return coq, tags, key, nil
}
