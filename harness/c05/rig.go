// Package c05: no silent overwrite of log entries / new records (property C05).
// rig.go: the storage stack (backend, optional istoragecache, recording wrapper) and the real
// istructsmem application structs running on it at a chosen sequences trust level.
package c05

import (
	"bytes"
	"context"
	"errors"
	"sync"
	"time"
	"encoding/binary"
	"fmt"

	"verifharness/kit"

	"github.com/voedger/voedger/pkg/appdef"
	"github.com/voedger/voedger/pkg/appdef/builder"
	"github.com/voedger/voedger/pkg/isequencer"
	"github.com/voedger/voedger/pkg/istorage"
	"github.com/voedger/voedger/pkg/istructs"
	"github.com/voedger/voedger/pkg/istructsmem"
	payloads "github.com/voedger/voedger/pkg/itokens-payloads"
	"github.com/voedger/voedger/pkg/itokensjwt"
)

var (
	appName = istructs.AppQName_test1_app1
	qnOrder = appdef.NewQName("verif", "Order")
	qnLine  = appdef.NewQName("verif", "Line")
	qnCmd   = appdef.NewQName("verif", "MakeOrder")
)

const (
	fldStamp = "stamp"
	fldPad   = "pad"
)

// kindDef: one kind of record the code could tell apart when it decides between insert and put.
// Code is the record kind of the Coq model (it_kind).
type kindDef struct {
	Name      string
	Code      uint64
	Singleton bool
	Parent    string // nested records: type of the parent document
	Container string
}

var errInjected = errors.New("injected storage failure")

var recKinds = []kindDef{
	{Name: "Doc", Code: 1},
	{Name: "Settings", Code: 2, Singleton: true},
	{Name: "WDoc", Code: 3},
	{Name: "WState", Code: 4, Singleton: true},
	{Name: "Item", Code: 5, Parent: "Doc", Container: "items"},
	{Name: "WItem", Code: 6, Parent: "WDoc", Container: "witems"},
}

func kindOf(name string) *kindDef {
	if name == "" {
		name = "Doc"
	}
	for i := range recKinds {
		if recKinds[i].Name == name {
			return &recKinds[i]
		}
	}
	return nil
}

func qn(name string) appdef.QName { return appdef.NewQName("verif", name) }

func buildAppDef() appdef.IAppDefBuilder {
	adb := builder.New()
	adb.AddPackage("verif", "verif.test/verif")
	ws := adb.AddWorkspace(appdef.NewQName("verif", "workspace"))
	ws.AddCDoc(appdef.NewQName("verif", "WSDesc"))
	ws.SetDescriptor(appdef.NewQName("verif", "WSDesc"))
	fields := func(f appdef.IFieldsBuilder) {
		f.AddField(fldStamp, appdef.DataKind_int64, false)
		f.AddField(fldPad, appdef.DataKind_string, false)
	}
	doc := ws.AddCDoc(qn("Doc"))
	fields(doc)
	doc.AddContainer("items", qn("Item"), 0, appdef.Occurs_Unbounded)
	set := ws.AddCDoc(qn("Settings"))
	set.SetSingleton()
	fields(set)
	wdoc := ws.AddWDoc(qn("WDoc"))
	fields(wdoc)
	wdoc.AddContainer("witems", qn("WItem"), 0, appdef.Occurs_Unbounded)
	wst := ws.AddWDoc(qn("WState"))
	wst.SetSingleton()
	fields(wst)
	fields(ws.AddCRecord(qn("Item")))
	fields(ws.AddWRecord(qn("WItem")))
	// a command whose argument is an operation document with a nested operation record: these live in
	// the logs only and never reach putRecordsBatch
	order := ws.AddODoc(qnOrder)
	fields(order)
	order.AddContainer("lines", qnLine, 0, appdef.Occurs_Unbounded)
	fields(ws.AddORecord(qnLine))
	ws.AddCommand(qnCmd).SetParam(qnOrder)
	return adb
}

// fixedProvider hands the recording wrapper to istructsmem for every app
type fixedProvider struct{ st istorage.IAppStorage }

func (p *fixedProvider) Prepare(any) error   { return nil }
func (p *fixedProvider) Run(context.Context) {}
func (p *fixedProvider) Stop()               {}
func (p *fixedProvider) AppStorage(appdef.AppQName) (istorage.IAppStorage, error) {
	return p.st, nil
}

// rig: bottom = the backend, mid = what istructsmem's calls reach (bottom, or the real
// istoragecache over it), top = recording wrapper handed to istructsmem
type rig struct {
	backend string
	trust   int
	bottom  istorage.IAppStorage
	mid     istorage.IAppStorage
	top     *kit.Wrap
	app     istructs.IAppStructs
	gen     int // app instance generation (restarts)
	cleanup func()

	recording bool
	calls     []kit.Call
	// fault injection, see top.Before
	failPLogWrite bool
	holdMu        sync.Mutex
	holds         []*hold

	// the second node: another app-structs instance on the SAME backend with its own istoragecache (cached
	// backend) and its own PLog cache - another writer on the shared storage, underneath the first node's caches
	clock      *kit.Clock
	app2       istructs.IAppStructs
	top2       *kit.Wrap
	recording2 bool
	calls2     []kit.Call
}

func (r *rig) newApp(st istorage.IAppStorage) (istructs.IAppStructs, error) {
	cfgs := make(istructsmem.AppConfigsType, 1)
	cfg := cfgs.AddBuiltInAppConfig(appName, buildAppDef())
	cfg.SetNumAppWorkspaces(istructs.DefaultNumAppWorkspaces)
	cfg.Resources.Add(istructsmem.NewCommandFunction(qnCmd, istructsmem.NullCommandExec))
	p := istructsmem.Provide(cfgs, payloads.ProvideIAppTokensFactory(itokensjwt.TestTokensJWT()),
		&fixedProvider{st: st}, isequencer.SequencesTrustLevel(r.trust), nil)
	return p.BuiltIn(appName)
}

// node2 starts the second node on first use
func (r *rig) node2() (istructs.IAppStructs, error) {
	if r.app2 != nil {
		return r.app2, nil
	}
	mid2 := r.bottom
	if r.backend == "cached" {
		c, err := kit.NewCached(r.bottom, r.clock, 64<<20)
		if err != nil {
			return nil, err
		}
		mid2 = c
	}
	r.top2 = &kit.Wrap{Inner: mid2}
	r.top2.After = func(c *kit.Call) {
		if r.recording2 {
			r.calls2 = append(r.calls2, *c)
		}
	}
	app, err := r.newApp(r.top2)
	if err != nil {
		return nil, err
	}
	r.app2 = app
	return app, nil
}

// record2 runs f with recording of the second node's storage calls on
func (r *rig) record2(f func()) []kit.Call {
	r.calls2 = nil
	r.recording2 = true
	defer func() { r.recording2 = false }()
	f()
	return r.calls2
}

func newRig(backend string, trust int) (*rig, error) {
	clock := kit.NewClock()
	r := &rig{backend: backend, trust: trust, clock: clock}
	inner := backend
	if backend == "cached" {
		inner = "mem"
	}
	st, cleanup, err := kit.NewBackend(inner, clock)
	if err != nil {
		return nil, err
	}
	r.bottom, r.mid, r.cleanup = st, st, cleanup
	if backend == "cached" {
		c, err := kit.NewCached(st, clock, 64<<20)
		if err != nil {
			cleanup()
			return nil, err
		}
		r.mid = c
	}
	r.top = &kit.Wrap{Inner: r.mid}
	r.top.Before = func(c *kit.Call) kit.Verdict {
		// fault injection: the next write into the PLog view fails before it has any effect
		if r.failPLogWrite && (c.Op == "Put" || c.Op == "InsertIfNotExists") && len(c.PKey) >= 2 && binary.BigEndian.Uint16(c.PKey) == viewPLog {
			r.failPLogWrite = false
			return kit.Verdict{FailBefore: errInjected}
		}
		if c.Op == "Put" || c.Op == "InsertIfNotExists" {
			r.holdMu.Lock()
			var mine *hold
			for _, h := range r.holds {
				if h.taken == nil && bytes.Equal(h.pk, c.PKey) && bytes.Equal(h.cc, c.CCols) {
					h.taken, mine = c, h
					break
				}
			}
			r.holdMu.Unlock()
			if mine != nil {
				close(mine.arrived)
				<-mine.release
			}
		}
		return kit.Verdict{}
	}
	r.top.After = func(c *kit.Call) {
		r.holdMu.Lock()
		for _, h := range r.holds {
			if h.taken == c {
				cp := *c
				h.call = &cp
				r.holdMu.Unlock()
				return
			}
		}
		r.holdMu.Unlock()
		if r.recording {
			r.calls = append(r.calls, *c)
		}
	}
	if err := r.restart(); err != nil {
		cleanup()
		return nil, err
	}
	return r, nil
}

// restart: a new app-structs provider (fresh configuration, empty PLog cache) over the same
// storage stack, as after a process restart
func (r *rig) restart() error {
	app, err := r.newApp(r.top)
	if err != nil {
		return err
	}
	r.app = app
	r.gen++
	return nil
}

// record runs f with call recording on and returns the IAppStorage calls istructsmem made
func (r *rig) record(f func()) []kit.Call {
	// re-entrant: a step may run other steps while one of its storage calls is held
	saved, savedRec := r.calls, r.recording
	r.calls, r.recording = nil, true
	defer func() { r.calls, r.recording = saved, savedRec }()
	f()
	return r.calls
}

// hold: one storage write (by key) that the wrapper keeps at its entry until it is released - the write of a
// re-applier of one partition, while other partitions of the application go on
type hold struct {
	name     string
	pk, cc   []byte
	arrived  chan struct{}
	release  chan struct{}
	released bool
	taken    *kit.Call // the held call (set by the Before hook, in the goroutine that made it)
	call     *kit.Call // ... and the same call with its result (After hook)
	done     chan error
	result   error
	finished bool
}

func (r *rig) newHold(name string, pk, cc []byte) *hold {
	h := &hold{name: name, pk: pk, cc: cc, arrived: make(chan struct{}), release: make(chan struct{}), done: make(chan error, 1)}
	r.holdMu.Lock()
	r.holds = append(r.holds, h)
	r.holdMu.Unlock()
	return h
}

func (r *rig) holdByName(name string) *hold {
	r.holdMu.Lock()
	defer r.holdMu.Unlock()
	for _, h := range r.holds {
		if h.name == name {
			return h
		}
	}
	return nil
}

// letGo releases the held call (once) and waits for the operation that made it to return
func (h *hold) letGo() error {
	if !h.released {
		h.released = true
		close(h.release)
	}
	if !h.finished {
		select {
		case h.result = <-h.done:
		case <-time.After(10 * time.Second):
			h.result = errors.New("held operation did not return within 10s")
		}
		h.finished = true
	}
	return h.result
}

// ---- storage keys, as pkg/istructsmem/utils.go builds them (cross-checked on every run against
// the keys of the recorded calls: a difference shows up as a model disagreement) ----

const (
	viewRecords = 19 // consts.SysView_Records (internal package: 16 + 3)
	viewPLog    = 20 // consts.SysView_PLog
	viewWLog    = 21 // consts.SysView_WLog
	lowBits     = 12
)

func u16(x uint16) []byte { b := make([]byte, 2); binary.BigEndian.PutUint16(b, x); return b }

func recordKey(ws, id uint64) (pk, cc []byte) {
	pk = make([]byte, 18)
	binary.BigEndian.PutUint16(pk, viewRecords)
	binary.BigEndian.PutUint64(pk[2:], ws)
	binary.BigEndian.PutUint64(pk[10:], id>>lowBits)
	return pk, u16(uint16(id & (1<<lowBits - 1)))
}

func plogKey(part uint16, ofs uint64) (pk, cc []byte) {
	pk = make([]byte, 12)
	binary.BigEndian.PutUint16(pk, viewPLog)
	binary.BigEndian.PutUint16(pk[2:], part)
	binary.BigEndian.PutUint64(pk[4:], ofs>>lowBits)
	return pk, u16(uint16(ofs & (1<<lowBits - 1)))
}

func wlogKey(ws, ofs uint64) (pk, cc []byte) {
	pk = make([]byte, 18)
	binary.BigEndian.PutUint16(pk, viewWLog)
	binary.BigEndian.PutUint64(pk[2:], ws)
	binary.BigEndian.PutUint64(pk[10:], ofs>>lowBits)
	return pk, u16(uint16(ofs & (1<<lowBits - 1)))
}

// ---- API-level reads, reduced to the stamp ----

func (r *rig) apiPLog(part uint16, ofs uint64) (bool, int64, error) {
	found, stamp := false, int64(0)
	err := r.app.Events().ReadPLog(context.Background(), istructs.PartitionID(part), istructs.Offset(ofs), 1,
		func(_ istructs.Offset, e istructs.IPLogEvent) error {
			found, stamp = true, int64(e.RegisteredAt())
			return nil
		})
	return found, stamp, err
}

func (r *rig) apiWLog(ws, ofs uint64) (bool, int64, error) {
	found, stamp := false, int64(0)
	err := r.app.Events().ReadWLog(context.Background(), istructs.WSID(ws), istructs.Offset(ofs), 1,
		func(_ istructs.Offset, e istructs.IWLogEvent) error {
			found, stamp = true, int64(e.RegisteredAt())
			return nil
		})
	return found, stamp, err
}

func (r *rig) apiRecord(ws, id uint64) (bool, int64, error) {
	rec, err := r.app.Records().Get(istructs.WSID(ws), true, istructs.RecordID(id))
	if err != nil {
		return false, 0, err
	}
	if rec.QName() == appdef.NullQName {
		return false, 0, nil
	}
	if kindOf(rec.QName().Entity()) == nil || rec.QName().Pkg() != "verif" {
		return false, 0, fmt.Errorf("record %d has unexpected type %v", id, rec.QName())
	}
	return true, rec.AsInt64(fldStamp), nil
}

// scriptedIDs hands out the storage IDs the scenario prescribes for the raw IDs of an event
type scriptedIDs struct{ ids map[uint64]uint64 }

func (g *scriptedIDs) NextID(raw istructs.RecordID) (istructs.RecordID, error) {
	id, ok := g.ids[uint64(raw)]
	if !ok {
		return 0, fmt.Errorf("no scripted id for raw id %d", raw)
	}
	return istructs.RecordID(id), nil
}

func (g *scriptedIDs) UpdateOnSync(istructs.RecordID) {}
