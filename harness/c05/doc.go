// Package c05: harness of property C05 (registers itself with kit.Register in an init function).
package c05
