package c05

// gen.go: the matrix 3 trust levels x ({PLog, WLog} + {create, update, re-apply} x 6 record kinds) x
// {slot empty, identical bytes, different bytes} x {mem, bbolt, cached} = 540 cells, enumerated on every
// run; fixed extra scenarios (per record kind: same event applied twice; synced creates; ODoc argument;
// sys.Corrupted / invalid events, unknown trust level, re-apply through the PLog cache, re-read updates,
// partial batches, duplicate ids); random multi-event scenarios over all record kinds.

import (
	"encoding/json"
	"fmt"
	"os"
	"sort"
	"strings"

	"verifharness/kit"
)

const (
	part = 5
	ws   = 77
)

var (
	backends = []string{"mem", "bbolt", "cached"}
	kinds    = []string{"plog", "wlog", "create", "update", "reapply"}
	states   = []string{"empty", "identical", "different"}
	// offsets / ids around the 4096-row partition split of the storage keys
	ofsPool = []uint64{1, 4094, 4095, 8190, 1 << 32, 0}
	// the PLog offsets of the event itself tried for every WLog append (0 = istructs.NullOffset, the zero
	// value of the builder parameters)
	wlogOwnPOfs = []uint64{0, 1, 4096}
	idPool  = []uint64{200001, 204798, 204799, 322685000131071}
)

func bld(name string, e *evSpec) *op { return &op{Op: "build", Name: name, Ev: e} }
func do(opn, name string) *op       { return &op{Op: opn, Name: name} }
func reread(name, as string) *op    { return &op{Op: "reread", Name: name, As: as} }

func cr(id uint64, stamp int64) recSpec { return recSpec{ID: id, Stamp: stamp, Pad: "p"} }

func event(pofs, wofs uint64, stamp int64, creates, updates []recSpec) *evSpec {
	return &evSpec{Part: part, POfs: pofs, WS: ws, WOfs: wofs, Stamp: stamp, Creates: creates, Updates: updates}
}

// recs: the rows an event needs to write record x of kind rk. Nested records (Item, WItem) come with
// their parent document in the first event (parent raw reference) and alone, under the stored
// parent id, in later ones.
func recs(rk string, x uint64, stamp int64, first bool) []recSpec {
	k := kindOf(rk)
	if k.Parent == "" {
		return []recSpec{{Kind: rk, ID: x, Stamp: stamp, Pad: "p"}}
	}
	if first {
		return []recSpec{{Kind: k.Parent, ID: x + 100, Stamp: stamp + 50, Pad: "p"}, {Kind: rk, ID: x, Stamp: stamp, Pad: "p", ParentRaw: 1}}
	}
	return []recSpec{{Kind: rk, ID: x, Stamp: stamp, Pad: "p", Parent: x + 100}}
}

// cell builds the scenario of one matrix cell; rk is the record kind (record operations only);
// v selects the boundary variant of offsets and ids and, for creates, the history: both events built
// from the same stale state before either is applied (always for singletons, whose second create
// cannot be built once the first is applied) or built one after the other
func cell(backend string, trust int, kind, rk, state string, v int, own uint64) *scenario {
	po, wo, x := ofsPool[v%len(ofsPool)], ofsPool[(v+2)%len(ofsPool)], idPool[v%len(idPool)]
	sc := &scenario{Cell: fmt.Sprintf("%s/%s/%s/t%d/%s", kind, rk, state, trust, backend), Backend: backend, Trust: trust}
	add := func(ops ...*op) { sc.Ops = append(sc.Ops, ops...) }
	if rk == "" {
		rk = "Doc"
	}
	a := event(po, wo, 1001, recs(rk, x, 501, true), nil)
	switch kind {
	case "plog":
		add(bld("A", a), do("plog", "A"))
		switch state {
		case "identical":
			add(bld("A2", event(po, wo, 1001, recs(rk, x, 501, true), nil)), do("plog", "A2"))
		case "different":
			add(bld("B", event(po, wo+1, 1002, []recSpec{cr(x+1, 502)}, nil)), do("plog", "B"))
		}
	case "wlog":
		// the appended event carries the PLog offset `own`; whatever it is, an occupied WLog offset is guarded
		sc.Cell = fmt.Sprintf("wlog/p%d/%s/t%d/%s", own, state, trust, backend)
		switch state {
		case "empty":
			add(bld("A", event(own, wo, 1001, recs(rk, x, 501, true), nil)), do("plog", "A"), do("wlog", "A"))
		case "identical":
			add(bld("A", event(own, wo, 1001, recs(rk, x, 501, true), nil)), do("plog", "A"), do("wlog", "A"), do("wlog", "A"))
		case "different":
			add(bld("A", event(own+7, wo, 1001, recs(rk, x, 501, true), nil)), do("plog", "A"), do("wlog", "A"),
				bld("B", event(own, wo, 1002, []recSpec{cr(x+1, 502)}, nil)), do("plog", "B"), do("wlog", "B"))
		}
	case "create":
		if state == "empty" {
			add(bld("A", a), do("plog", "A"), do("apply", "A"))
			break
		}
		st := int64(502)
		if state == "identical" {
			st = 501
		}
		b := event(po+1, wo+1, 1002, recs(rk, x, st, false), nil)
		if kindOf(rk).Singleton || v%2 == 1 {
			add(bld("A", a), bld("B", b), do("plog", "A"), do("apply", "A"), do("plog", "B"), do("apply", "B"))
		} else {
			add(bld("A", a), do("plog", "A"), do("apply", "A"), bld("B", b), do("plog", "B"), do("apply", "B"))
		}
	case "update":
		add(bld("A", a), do("plog", "A"), do("apply", "A"))
		st := int64(502)
		if state == "identical" {
			st = 501
		}
		add(bld("U", event(po+1, wo+1, 1002, nil, []recSpec{{Kind: rk, ID: x, Stamp: st, Pad: "p"}})), do("plog", "U"))
		if state == "empty" {
			add(&op{Op: "rawdel", WS: ws, ID: x, Kind: rk})
		}
		add(do("apply", "U"))
	case "reapply":
		switch state {
		case "empty":
			add(bld("A", a), do("plog", "A"))
		case "identical":
			add(bld("A", a), do("plog", "A"), do("apply", "A"), do("wlog", "A"))
		case "different":
			add(bld("A", a), do("plog", "A"))
			add(bld("B", event(po+1, wo, 1002, recs(rk, x, 502, true), nil)), do("plog", "B"), do("apply", "B"), do("wlog", "B"))
		}
		add(&op{Op: "restart"}, reread("A", "R"), do("reapply_recs", "R"), do("reapply_wlog", "R"))
	}
	return sc
}

// on2: the op is done by the second node
func on2(o *op) *op { o.Node = 2; return o }

// foreignCell: the first node has read the slot while it was empty (the observation taken through its cache
// before the other node's write), then ANOTHER node on the shared storage fills it, then the first node
// attempts its guarded write.  kind: plog | wlog | create; state: identical | different bytes.
func foreignCell(backend string, trust int, kind, rk, state string, v int) *scenario {
	po, wo, x := ofsPool[v%len(ofsPool)], ofsPool[(v+2)%len(ofsPool)], idPool[v%len(idPool)]
	sc := &scenario{Cell: fmt.Sprintf("foreign/%s/%s/%s/t%d/%s", kind, rk, state, trust, backend), Backend: backend, Trust: trust}
	add := func(ops ...*op) { sc.Ops = append(sc.Ops, ops...) }
	if rk == "" {
		rk = "Doc"
	}
	st := int64(502)
	if state == "identical" {
		st = 501
	}
	switch kind {
	case "plog":
		a := event(po, wo, 1001, recs(rk, x, 501, true), nil)
		b := event(po, wo+1, 1002, []recSpec{cr(x+1, 502)}, nil)
		if state == "identical" {
			b = event(po, wo, 1001, recs(rk, x, 501, true), nil)
		}
		add(bld("A", a), on2(bld("B", b)), on2(do("plog", "B")), do("plog", "A"))
	case "wlog":
		if state == "identical" {
			// the other node reads the event the first node stored in the PLog and puts the same bytes into the WLog
			add(bld("A", event(po, wo, 1001, recs(rk, x, 501, true), nil)), do("plog", "A"),
				on2(reread("A", "B")), on2(do("wlog", "B")), do("wlog", "A"))
		} else {
			add(bld("A", event(po, wo, 1001, recs(rk, x, 501, true), nil)), do("plog", "A"),
				on2(bld("B", event(po+1, wo, 1002, []recSpec{cr(x+1, 502)}, nil))), on2(do("plog", "B")), on2(do("wlog", "B")), do("wlog", "A"))
		}
	case "create":
		// the first node builds (and validates) its event before the other node creates the record
		add(bld("A", event(po, wo, 1001, recs(rk, x, 501, kindOf(rk).Parent == ""), nil)),
			on2(bld("B", event(po+1, wo+1, 1002, recs(rk, x, st, true), nil))), on2(do("plog", "B")), on2(do("apply", "B")),
			do("plog", "A"), do("apply", "A"))
	}
	return sc
}

func foreignMatrix(r *kit.Rng) []*scenario {
	var out []*scenario
	for _, b := range backends {
		for t := 0; t <= 2; t++ {
			for _, s := range []string{"identical", "different"} {
				out = append(out, foreignCell(b, t, "plog", "", s, r.Intn(30)), foreignCell(b, t, "wlog", "", s, r.Intn(30)))
				for _, rk := range kindNames() {
					out = append(out, foreignCell(b, t, "create", rk, s, r.Intn(30)))
				}
			}
		}
	}
	return out
}

func foreignTags() []string {
	var out []string
	for _, b := range backends {
		for t := 0; t <= 2; t++ {
			for _, s := range []string{"identical", "different"} {
				out = append(out, fmt.Sprintf("foreign:t%d:plog:%s:%s", t, s, b), fmt.Sprintf("foreign:t%d:wlog:%s:%s", t, s, b))
				for _, rk := range kindNames() {
					out = append(out, fmt.Sprintf("foreign:t%d:create:%s:%s:%s", t, rk, s, b))
				}
			}
		}
	}
	return out
}

// windowScenarios: a small concurrency stream.  Partition A (part 5 / ws 77) re-applies its logged event; the
// storage wrapper holds the re-applier's WLog write at its entry.  Meanwhile partition B (part 6 / ws 78) of the
// same application issues guarded writes on occupied slots - PutPlog at an occupied offset, PutWlog at an occupied
// offset, create of an existing record - which must be refused at levels 0 and 1 exactly as without the
// re-apply; then the held write is released.  Variant "overlap": two re-appliers' WLog writes are in flight
// together, the first one finishes first; afterwards plain sequential guarded writes on occupied slots.
func windowScenarios() []*scenario {
	var out []*scenario
	evAt := func(pt uint16, pofs, w, wofs uint64, stamp int64, creates []recSpec) *evSpec {
		return &evSpec{Part: pt, POfs: pofs, WS: w, WOfs: wofs, Stamp: stamp, Creates: creates}
	}
	// partition B's guarded writes: occupied PLog offset 3, occupied WLog offset 3, existing record 204799 and the
	// existing singleton (the events are built from the state before B's own event was applied)
	attack := []*op{do("plog", "C"), do("plog", "D"), do("wlog", "D"), do("apply", "D")}
	for t := 0; t <= 1; t++ {
		for i, b := range backends {
			setup := []*op{
				bld("A", evAt(5, 5, 77, 5, 1001, []recSpec{cr(204799, 501)})),
				bld("B", evAt(6, 3, 78, 3, 1002, []recSpec{cr(204799, 502), {Kind: "WState", Stamp: 503}})),
				bld("C", evAt(6, 3, 78, 9, 1101, []recSpec{cr(204900, 611)})),
				bld("D", evAt(6, 4, 78, 3, 1102, []recSpec{cr(204799, 612), {Kind: "WState", Stamp: 613}})),
				do("plog", "A"), do("apply", "A"), do("wlog", "A"), do("plog", "B"), do("apply", "B"), do("wlog", "B"),
			}
			if (i+t)%2 == 0 {
				setup = append(setup, &op{Op: "restart"})
			}
			setup = append(setup, reread("A", "RA"), reread("B", "RB"))
			held := &op{Op: "reapply_wlog", Name: "RA", Hold: "hA", Inner: attack}
			out = append(out, &scenario{Cell: "window/guarded-writes-during-a-reapply", Backend: b, Trust: t, Ops: append(append([]*op{}, setup...), held)})
			over := &op{Op: "reapply_wlog", Name: "RA", Hold: "hA", Inner: []*op{
				{Op: "reapply_wlog", Name: "RB", Hold: "hB", Inner: []*op{{Op: "release", Name: "hA"}}}}}
			out = append(out, &scenario{Cell: "window/two-overlapping-reapplies-then-sequential-writes", Backend: b, Trust: t,
				Ops: append(append(append([]*op{}, setup...), over), attack...)})
		}
	}
	return out
}

var recordOps = map[string]bool{"create": true, "update": true, "reapply": true}

func kindNames() []string {
	var out []string
	for _, k := range recKinds {
		out = append(out, k.Name)
	}
	return out
}

func matrix(r *kit.Rng) []*scenario {
	var out []*scenario
	for _, b := range backends {
		for t := 0; t <= 2; t++ {
			for _, k := range kinds {
				rks := []string{""}
				if recordOps[k] {
					rks = kindNames()
				}
				owns := []uint64{0}
				if k == "wlog" {
					owns = wlogOwnPOfs
				}
				for _, rk := range rks {
					for _, own := range owns {
						for _, s := range states {
							out = append(out, cell(b, t, k, rk, s, r.Intn(30), own))
						}
					}
				}
			}
		}
	}
	return out
}

// matrixTags: the cells that must have been reached, judged from the observed rows
func matrixTags() []string {
	var out []string
	for _, b := range backends {
		for t := 0; t <= 2; t++ {
			for _, k := range kinds {
				for _, s := range states {
					switch {
					case k == "wlog":
						for _, own := range wlogOwnPOfs {
							out = append(out, fmt.Sprintf("cell:t%d:wlog:p%d:%s:%s", t, own, s, b))
						}
					case !recordOps[k] || k == "reapply":
						out = append(out, fmt.Sprintf("cell:t%d:%s:%s:%s", t, k, s, b))
					}
					if recordOps[k] {
						for _, rk := range kindNames() {
							out = append(out, fmt.Sprintf("cell:t%d:%s:%s:%s:%s", t, k, rk, s, b))
						}
					}
				}
			}
		}
	}
	return out
}

// extras: the malformed / out-of-domain stream and the multi-row cases
func extras() []*scenario {
	var out []*scenario
	mk := func(cellName, backend string, trust int, ops ...*op) {
		out = append(out, &scenario{Cell: cellName, Backend: backend, Trust: trust, Ops: ops})
	}
	one := func(id uint64, st int64) []recSpec { return []recSpec{cr(id, st)} }
	corr := func(pofs, wofs uint64, stamp int64) *evSpec {
		return &evSpec{Part: part, POfs: pofs, WS: ws, WOfs: wofs, Stamp: stamp, Corrupted: true}
	}
	inval := func(pofs, wofs uint64, stamp int64) *evSpec {
		return &evSpec{Part: part, POfs: pofs, WS: ws, WOfs: wofs, Stamp: stamp, Invalid: true, Creates: one(300001, 1)}
	}
	for t := 0; t <= 2; t++ {
		for _, b := range backends {
			if b != "mem" && t != 0 {
				continue
			}
			// sys.Corrupted events: Put by design, at every level
			mk("corrupted/plog/empty", b, t, bld("C", corr(7, 7, 2001)), do("plog", "C"), do("wlog", "C"))
			mk("corrupted/plog/identical", b, t, bld("C", corr(7, 7, 2001)), do("plog", "C"), bld("C2", corr(7, 7, 2001)), do("plog", "C2"))
			mk("corrupted/plog/different", b, t, bld("A", event(7, 7, 1001, one(200001, 501), nil)), do("plog", "A"), bld("C", corr(7, 8, 2001)), do("plog", "C"))
			mk("corrupted/wlog/different", b, t, bld("A", event(7, 7, 1001, one(200001, 501), nil)), do("plog", "A"), do("wlog", "A"),
				bld("C", corr(8, 7, 2001)), do("plog", "C"), do("wlog", "C"), do("wlog", "C"))
			// ordinary event over a stored sys.Corrupted one: guarded as usual
			mk("over-corrupted/plog", b, t, bld("C", corr(7, 7, 2001)), do("plog", "C"), bld("A", event(7, 7, 1001, one(200001, 501), nil)), do("plog", "A"))
		}
		// events with a build error (stored as sys.Error): guarded like ordinary events
		mk("invalid/plog/different", "mem", t, bld("A", event(9, 9, 1001, one(200001, 501), nil)), do("plog", "A"), bld("I", inval(9, 10, 1002)), do("plog", "I"))
		mk("invalid/wlog/different", "mem", t, bld("A", event(9, 9, 1001, one(200001, 501), nil)), do("plog", "A"), do("wlog", "A"),
			bld("I", inval(10, 9, 1002)), do("plog", "I"), do("wlog", "I"))
		mk("invalid/empty", "bbolt", t, bld("I", inval(10, 9, 1002)), do("plog", "I"), do("wlog", "I"), do("plog", "I"))
		// re-apply through the PLog cache of the instance that stored the event (no loads)
		mk("reapply/cache", "mem", t, bld("A", event(3, 3, 1001, one(200001, 501), nil)), do("plog", "A"), do("apply", "A"), do("wlog", "A"),
			reread("A", "R"), do("reapply_recs", "R"), do("reapply_wlog", "R"))
		for _, b := range []string{"mem", "cached"} {
			// re-read event with updates: the stored records are loaded first
			mk("reapply/updates", b, t, bld("A", event(3, 3, 1001, []recSpec{cr(200001, 501), cr(204799, 502)}, nil)), do("plog", "A"), do("apply", "A"),
				bld("U", event(4, 4, 1002, one(200002, 503), []recSpec{cr(200001, 601), cr(204799, 602)})), do("plog", "U"), do("apply", "U"), do("wlog", "U"),
				&op{Op: "restart"}, reread("U", "R"), do("reapply_recs", "R"), do("reapply_wlog", "R"), do("apply", "R"))
			mk("reapply/update-of-missing", b, t, bld("A", event(3, 3, 1001, []recSpec{cr(200001, 501), cr(204799, 502)}, nil)), do("plog", "A"), do("apply", "A"),
				bld("U", event(4, 4, 1002, nil, []recSpec{cr(200001, 601), cr(204799, 602)})), do("plog", "U"), do("apply", "U"),
				&op{Op: "restart"}, reread("U", "R"), &op{Op: "rawdel", WS: ws, ID: 204799}, do("reapply_recs", "R"), do("apply", "R"))
		}
		// Apply of an event read back from the log (as a second processing of the same event)
		mk("apply-twice/reread", "bbolt", t, bld("A", event(3, 3, 1001, []recSpec{cr(200001, 501), cr(200002, 502)}, nil)), do("plog", "A"), do("apply", "A"),
			&op{Op: "restart"}, reread("A", "R"), do("apply", "R"))
		mk("apply-twice/same-object", "mem", t, bld("A", event(3, 3, 1001, []recSpec{cr(200001, 501), cr(200002, 502)}, nil)), do("plog", "A"), do("apply", "A"), do("apply", "A"))
		// a batch that is refused in the middle: rows before the refused one are written
		for _, b := range backends {
			mk("partial-batch", b, t, bld("A", event(3, 3, 1001, one(204799, 501), nil)), do("plog", "A"), do("apply", "A"),
				bld("M", event(4, 4, 1002, []recSpec{cr(204798, 601), cr(204799, 602), cr(204800, 603)}, []recSpec{cr(204799, 604)})), do("plog", "M"), do("apply", "M"))
		}
		// the id generator hands out one id twice inside an event
		mk("duplicate-ids", "mem", t, bld("D", event(3, 3, 1001, []recSpec{cr(200001, 501), cr(200001, 502)}, nil)), do("plog", "D"), do("apply", "D"))
	}
	// every record kind: the same event applied twice (same object / read back after a restart), and a
	// create event applied after the record was updated by a later event
	for t := 0; t <= 2; t++ {
		for i, k := range recKinds {
			b := backends[(i+t)%len(backends)]
			x := idPool[(i+t)%len(idPool)]
			mk("apply-twice/same-object/"+k.Name, b, t, bld("A", event(3, 3, 1001, recs(k.Name, x, 501, true), nil)), do("plog", "A"), do("apply", "A"), do("apply", "A"))
			mk("apply-twice/reread/"+k.Name, b, t, bld("A", event(3, 3, 1001, recs(k.Name, x, 501, true), nil)), do("plog", "A"), do("apply", "A"),
				bld("U", event(4, 4, 1002, nil, []recSpec{{Kind: k.Name, ID: x, Stamp: 601}})), do("plog", "U"), do("apply", "U"),
				&op{Op: "restart"}, reread("A", "R"), do("apply", "R"), do("reapply_recs", "R"))
		}
		// a create that carries its storage id (the path of synced events: no raw id, no generator)
		mk("direct-id", "mem", t, bld("A", event(3, 3, 1001, one(200001, 501), nil)), do("plog", "A"), do("apply", "A"),
			bld("D", event(4, 4, 1002, []recSpec{{ID: 200001, Stamp: 502, Direct: true}, {Kind: "WDoc", ID: 200002, Stamp: 503, Direct: true}}, nil)), do("plog", "D"), do("apply", "D"))
		// operation documents / records of the command argument live in the logs only: Apply writes the CUD rows alone
		mk("odoc-argument", "bbolt", t,
			bld("O", &evSpec{Part: part, POfs: 3, WS: ws, WOfs: 3, Stamp: 1001, Arg: &argSpec{ID: 200010, LineID: 200011, Stamp: 701}, Creates: one(200001, 501)}),
			do("plog", "O"), do("apply", "O"), do("wlog", "O"),
			bld("O2", &evSpec{Part: part, POfs: 4, WS: ws, WOfs: 4, Stamp: 1002, Arg: &argSpec{ID: 200010, LineID: 200001, Stamp: 702}, Creates: one(200011, 502)}),
			do("plog", "O2"), do("apply", "O2"), do("wlog", "O2"), do("apply", "O"))
	}
	for t := 0; t <= 2; t++ {
		for i, b := range backends {
			// finding F-A: an update built from the record object the Apply2 callback handed out for a created row
			// (its isNew flag is set) - against the same update built from Records().Get
			k := recKinds[(i+t)%len(recKinds)].Name
			x := idPool[(i+t)%len(idPool)]
			mk("update-from-created-object/"+k, b, t, bld("A", event(3, 3, 1001, recs(k, x, 501, true), nil)), do("plog", "A"), do("apply", "A"),
				bld("U", event(4, 4, 1002, nil, []recSpec{{Kind: k, ID: x, Stamp: 601, FromCB: "A"}})), do("plog", "U"), do("apply", "U"),
				bld("U2", event(5, 5, 1003, nil, []recSpec{{Kind: k, ID: x, Stamp: 602}})), do("plog", "U2"), do("apply", "U2"),
				&op{Op: "restart"}, reread("U", "R"), do("apply", "R"), do("reapply_recs", "R"))
			// `update corrupted` for the WLog: a sys.Corrupted event with null PLog offset, built by BuildPLogEvent
			// (never put into the PLog), replaces a WLog entry
			mk("corrupted/buildplog-wlog", b, t, bld("A", event(7, 7, 1001, one(200001, 501), nil)), do("plog", "A"), do("wlog", "A"),
				bld("C", corr(0, 7, 2001)), do("buildplog", "C"), do("wlog", "C"), do("wlog", "C"))
		}
	}
	for t := 0; t <= 2; t++ {
		for _, b := range backends {
			// an event whose PutPlog was REFUSED (occupied PLog offset) or FAILED (injected storage error) is not in
			// the log; its WLog offset and the record it creates are occupied: the same object handed to
			// GetEventReapplier must be refused, the entries must stay (the probe runs after the PutPlog)
			base := []*op{bld("A", event(5, 5, 1001, []recSpec{cr(204799, 501), {Kind: "Settings", Stamp: 502}}, nil)),
				bld("E", event(5, 5, 1002, []recSpec{cr(204799, 601), {Kind: "Settings", Stamp: 602}}, nil)),
				bld("F", event(6, 5, 1003, []recSpec{cr(204799, 701), {Kind: "Settings", Stamp: 702}}, nil)),
				do("plog", "A"), do("apply", "A"), do("wlog", "A")}
			mk("unstored/refused-plog", b, t, append(append([]*op{}, base...), do("plog", "E"))...)
			mk("unstored/failed-plog", b, t, append(append([]*op{}, base...), &op{Op: "plog", Name: "F", Fault: true})...)
		}
	}
	// a trust level the switch has no arm for
	mk("unknown-trust-level", "mem", 3, bld("A", event(3, 3, 1001, one(200001, 501), nil)), do("plog", "A"))
	return out
}

// random multi-event scenario over small colliding pools of offsets and ids
func genScenario(r *kit.Rng, tier string) *scenario {
	sc := &scenario{Cell: "random", Backend: kit.Pick(r, []string{"mem", "mem", "bbolt", "cached"}), Trust: kit.Pick(r, []int{0, 0, 0, 1, 2})}
	add := func(ops ...*op) { sc.Ops = append(sc.Ops, ops...) }
	base := kit.Pick(r, []uint64{200001, 204797, 322685000131069})
	ids := []uint64{base, base + 1, base + 2, base + 3, base + 4}
	pbase, wbase := kit.Pick(r, ofsPool), kit.Pick(r, ofsPool)
	nextP, nextW := pbase, wbase
	stamp := int64(1000)
	rstamp := int64(500)
	// the records of the scenario: one fixed kind per id; singletons have their own fixed ids
	pool := []recSpec{{Kind: "Doc", ID: ids[0]}, {Kind: "Doc", ID: ids[1]}, {Kind: "WDoc", ID: ids[2]}, {Kind: "Item", ID: ids[3], Parent: ids[0]},
		{Kind: "WItem", ID: ids[4], Parent: ids[2]}, {Kind: "Settings"}, {Kind: "WState"}}
	rec := func(i int) recSpec {
		rstamp++
		rs := pool[i]
		rs.Stamp = rstamp
		if r.Chance(1, 5) {
			rs.Stamp = 501 // same content as an earlier write of this record, possibly
		}
		rs.Pad = kit.Pick(r, []string{"", "p", "padding"})
		return rs
	}
	// the first event creates two records so that later updates always have a target
	add(bld("E0", event(nextP, nextW, stamp, []recSpec{{ID: ids[0], Stamp: 501, Pad: "p"}, {ID: ids[1], Stamp: 501}}, nil)),
		do("plog", "E0"), do("apply", "E0"), do("wlog", "E0"))
	var deferred []*op
	n := 2 + r.Intn(5)
	if tier == "thorough" {
		n += r.Intn(6)
	}
	for e := 1; e <= n; e++ {
		name := fmt.Sprintf("E%d", e)
		stamp++
		po, wo := nextP+1, nextW+1
		if r.Chance(1, 5) {
			po = pbase + uint64(r.Intn(int(nextP-pbase)+1)) // an offset already used
		} else {
			nextP++
		}
		if r.Chance(1, 5) {
			wo = wbase + uint64(r.Intn(int(nextW-wbase)+1))
		} else {
			nextW++
		}
		var creates, updates []recSpec
		for i, k := 0, r.Intn(4); i < k; i++ {
			creates = append(creates, rec(r.Intn(len(pool))))
		}
		seen := map[int]bool{}
		for i, k := 0, r.Intn(3); i < k; i++ {
			j := r.Intn(2)
			if r.Chance(1, 8) {
				j = 5 + r.Intn(2) // a singleton (the event is skipped when it does not exist yet)
			}
			if !seen[j] {
				seen[j] = true
				u := rec(j)
				if j < 2 && r.Chance(1, 6) {
					u.FromCB = "E0" // the record object E0's Apply2 callback handed out (a created row)
				}
				updates = append(updates, u)
			}
		}
		if len(creates)+len(updates) == 0 {
			creates = append(creates, rec(2+r.Intn(5)))
		}
		ev := event(po, wo, stamp, creates, updates)
		if r.Chance(1, 12) {
			ev = &evSpec{Part: part, POfs: po, WS: ws, WOfs: wo, Stamp: stamp, Corrupted: true}
		}
		// the event is built now; with some probability it is stored and applied only after the next
		// event has been built too (two events validated against the same stale state)
		sc.Ops = append(sc.Ops, bld(name, ev))
		sc.Ops = append(sc.Ops, deferred...)
		deferred = nil
		mark := len(sc.Ops)
		add(do("plog", name))
		if !ev.Corrupted && r.Chance(4, 5) {
			add(do("apply", name))
			if r.Chance(1, 8) {
				add(do("apply", name))
			}
		}
		if r.Chance(3, 4) {
			add(do("wlog", name))
		}
		if r.Chance(1, 4) {
			if r.Chance(1, 2) {
				add(&op{Op: "restart"})
			}
			src := fmt.Sprintf("E%d", r.Intn(e+1))
			as := "R" + name
			add(reread(src, as))
			if r.Chance(3, 4) {
				add(do("reapply_recs", as))
			}
			add(do("reapply_wlog", as))
			if r.Chance(1, 4) {
				add(do("apply", as))
			}
		}
		if e < n && r.Chance(1, 3) {
			deferred = append([]*op{}, sc.Ops[mark:]...)
			sc.Ops = sc.Ops[:mark]
		}
	}
	return sc
}

func loadScenario(b []byte) (*scenario, error) {
	var wrapper struct {
		Case struct {
			Desc *scenario `json:"desc"`
		} `json:"case"`
		Desc *scenario `json:"desc"`
	}
	var sc *scenario
	if err := json.Unmarshal(b, &wrapper); err == nil && wrapper.Desc != nil {
		sc = wrapper.Desc
	} else if err == nil && wrapper.Case.Desc != nil {
		sc = wrapper.Case.Desc
	} else {
		sc = &scenario{}
		if err := json.Unmarshal(b, sc); err != nil {
			return nil, err
		}
	}
	if len(sc.Ops) == 0 {
		return nil, fmt.Errorf("no scenario in the file")
	}
	for _, o := range sc.Ops {
		o.Obs = nil
	}
	return sc, nil
}

func emit(sc *scenario, out *kit.Out, seen map[string]bool) error {
	coq, tags, key, err := run(sc)
	if err != nil {
		return err
	}
	nontrivial := false
	for _, t := range tags {
		if seen != nil {
			seen[t] = true
		}
		if t == "refused-intact" || t == "overwritten" {
			nontrivial = true
		}
	}
	out.Emit(kit.Case{Coq: coq, Key: key, Nontrivial: nontrivial, Desc: sc, Tags: tags})
	return nil
}

func Generate(seed uint64, n int, tier string, corpusDir string, shard int, out *kit.Out) error {
	r := kit.NewRng(seed)
	if corpusDir != "" {
		entries, _ := os.ReadDir(corpusDir)
		var names []string
		for _, e := range entries {
			if strings.HasSuffix(e.Name(), ".json") {
				names = append(names, e.Name())
			}
		}
		sort.Strings(names)
		for _, nm := range names {
			b, err := os.ReadFile(corpusDir + "/" + nm)
			if err != nil {
				return err
			}
			sc, err := loadScenario(b)
			if err != nil {
				return fmt.Errorf("%s: %w", nm, err)
			}
			if err := emit(sc, out, nil); err != nil {
				return fmt.Errorf("%s: %w", nm, err)
			}
		}
	}
	mr := r.Fork()
	if shard == 0 {
		seen := map[string]bool{}
		for _, sc := range matrix(mr) {
			if err := emit(sc, out, seen); err != nil {
				return err
			}
		}
		for _, sc := range foreignMatrix(mr) {
			if err := emit(sc, out, seen); err != nil {
				return err
			}
		}
		var missing []string
		for _, t := range append(matrixTags(), foreignTags()...) {
			if !seen[t] {
				missing = append(missing, t)
			}
		}
		if len(missing) > 0 {
			return fmt.Errorf("matrix incomplete, cells not reached: %s", strings.Join(missing, " "))
		}
		for _, sc := range windowScenarios() {
			if err := emit(sc, out, seen); err != nil {
				return err
			}
		}
		for _, m := range []string{"mode:4", "mode:5"} {
			if !seen[m] {
				return fmt.Errorf("window scenarios did not produce %s steps", m)
			}
		}
		for _, sc := range extras() {
			if err := emit(sc, out, nil); err != nil {
				return err
			}
		}
	}
	for i := 0; i < n; i++ {
		if err := emit(genScenario(r.Fork(), tier), out, nil); err != nil {
			return err
		}
	}
	return nil
}

// Replay runs exactly the scenario stored in a replay/corpus file
func Replay(path string, out *kit.Out) error {
	b, err := os.ReadFile(path)
	if err != nil {
		return err
	}
	sc, err := loadScenario(b)
	if err != nil {
		return err
	}
	return emit(sc, out, nil)
}
