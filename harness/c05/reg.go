package c05

import "verifharness/kit"

func init() {
	kit.Register("C05", kit.Runner{Generate: Generate, Replay: Replay})
}
