package c11

import (
	"encoding/json"
	"fmt"
	"os"
	"sort"
	"strings"
	"time"

	"verifharness/kit"
)

// Scenario is a replayable list of moves
type Scenario struct {
	Cap     int      `json:"lru_cap"`
	Max     int      `json:"max_unflushed"`
	MaxErrs int      `json:"max_errs"`
	Moves   []string `json:"moves"`
	Actions []string `json:"actions,omitempty"` // observed: the model actions, as Coq terms
	Skipped int      `json:"skipped_moves,omitempty"`
	Failure string   `json:"harness_failure,omitempty"` // the scenario could not be run to its end
}

func newDriver(sc *Scenario) *driver {
	clock := kit.NewClock()
	stg, _, err := kit.NewBackend("mem", clock)
	if err != nil {
		panic(err)
	}
	return &driver{w: &world{stg: stg}, cap: sc.Cap, max: sc.Max, maxErrs: sc.MaxErrs, clock: clock, tags: map[string]bool{}}
}

// boot starts the first incarnation (a panic in here is caught by the caller, which holds the driver)
func (d *driver) boot() {
	d.newIncarnation()
	d.settle()
}

func (d *driver) finish() {
	d.crash() // tears the last incarnation down (no Crash action is emitted)
	current.Store(nil)
}

// execute never fails: a scenario the harness cannot run to its end (the real code does something the stepping
// driver cannot follow, a call that does not return, a panic) is the outcome of this case - `CBroken`, which
// `agrees` and `satisfies` reject, with the text and the actions observed so far in its description.
func execute(sc *Scenario) (c kit.Case, err error) {
	d := newDriver(sc)
	defer func() {
		if r := recover(); r != nil {
			c, err = d.broken(sc, fmt.Sprintf("scenario failed at move %d: %v", len(d.moves), r)), nil
		}
	}()
	d.boot()
	for _, m := range sc.Moves {
		ok := false
		for _, e := range d.enabled() {
			if e == m || (m == "fl" && strings.HasPrefix(e, "fl")) || (m == "act" && strings.HasPrefix(e, "act")) {
				ok = true
			}
		}
		if !ok {
			// a stored schedule may refer to a step the current code no longer has (e.g. the window
			// between the batcher's two lock sections after the F16 repair): skip it and go on
			sc.Skipped++
			continue
		}
		if err := d.do(m); err != nil {
			return d.broken(sc, fmt.Sprintf("scenario failed at move %d: %v", len(d.moves), err)), nil
		}
	}
	d.finish()
	return d.toCase(sc), nil
}

// abandon tears down an incarnation the driver lost track of: everything passes through, the goroutines of the
// sequencer are let go; if its cleanup does not return within the deadline they are left behind (they belong to
// a dead incarnation: their hooks return at once)
func (d *driver) abandon() {
	done := make(chan struct{})
	go func() {
		defer func() { recover(); close(done) }()
		d.crash()
	}()
	select {
	case <-done:
	case <-time.After(5 * time.Second):
	}
	current.Store(nil)
	passthrough.Store(false)
}

func (d *driver) broken(sc *Scenario, why string) kit.Case {
	d.abandon()
	sc.Actions, sc.Failure = d.acts, why
	if len(sc.Failure) > 600 {
		sc.Failure = sc.Failure[:600]
	}
	return kit.Case{
		Coq:        "CBroken",
		Key:        fmt.Sprintf("broken|%d|%d|%s", sc.Cap, sc.Max, strings.Join(d.moves, ",")),
		Nontrivial: true,
		Desc:       sc,
		Tags:       []string{"harness:case-did-not-complete", fmt.Sprintf("cap:%d", sc.Cap), fmt.Sprintf("max:%d", sc.Max)},
	}
}

func (d *driver) toCase(sc *Scenario) kit.Case {
	sc.Actions = d.acts
	tags := map[string]bool{fmt.Sprintf("cap:%d", sc.Cap): true, fmt.Sprintf("max:%d", sc.Max): true}
	for _, a := range d.acts {
		tags["a:"+strings.SplitN(a, " ", 2)[0]] = true
	}
	for t := range d.tags {
		tags[t] = true
	}
	var tl []string
	for t := range tags {
		tl = append(tl, t)
	}
	sort.Strings(tl)
	nontrivial := tags["a:CNext"] && (tags["a:FWriteOff"] || tags["a:Crash"])
	return kit.Case{
		Coq:        fmt.Sprintf("mkTrace %d %d %s", sc.Cap, sc.Max, kit.List(d.acts)),
		Key:        fmt.Sprintf("%d|%d|%s", sc.Cap, sc.Max, strings.Join(sc.Moves, ",")),
		Nontrivial: nontrivial,
		Desc:       sc,
		Tags:       tl,
	}
}

// generate: random walk over the applicable moves, biased so that transactions complete,
// background goroutines make progress, and crashes / cancelled transactions / storage failures
// stay rare enough for long histories
func generate(r *kit.Rng, steps int) (*Scenario, kit.Case, error) {
	sc := &Scenario{Cap: kit.Pick(r, []int{1, 1, 2, 3, 100}), Max: kit.Pick(r, []int{1, 1, 2, 3, 500}), MaxErrs: kit.Pick(r, []int{0, 0, 1, 2})}
	d := newDriver(sc)
	var err error
	func() {
		defer func() {
			if rec := recover(); rec != nil {
				err = fmt.Errorf("scenario failed at move %d: %v", len(d.moves), rec)
			}
		}()
		d.boot()
		for i := 0; i < steps; i++ {
			en := d.enabled()
			weights := make([]int, len(en))
			total := 0
			for j, m := range en {
				w := 10
				switch {
				case strings.HasPrefix(m, "start"):
					w = 8
				case strings.HasPrefix(m, "next") && strings.HasSuffix(m, ":rf"):
					w = 6 // most of them find the key in a volatile layer and never reach the storage
				case strings.HasPrefix(m, "next"):
					w = 10
				case m == "flush":
					w = 12
				case strings.HasPrefix(m, "actualize"):
					w = 2
				case m == "crash":
					w = 1
				case strings.HasSuffix(m, ":err"), strings.HasSuffix(m, ":errmid"):
					w = 3
				case strings.HasPrefix(m, "fl"):
					w = 14
				case strings.HasPrefix(m, "act"):
					w = 18
				}
				weights[j] = w
				total += w
			}
			x := r.Intn(total)
			pick := en[len(en)-1]
			for j, w := range weights {
				if x < w {
					pick = en[j]
					break
				}
				x -= w
			}
			if e := d.do(pick); e != nil {
				panic(e)
			}
		}
		d.finish()
	}()
	sc.Moves = d.moves
	if err != nil {
		return sc, d.broken(sc, err.Error()), nil
	}
	return sc, d.toCase(sc), nil
}

func Generate(seed uint64, n int, tier, corpusDir string, shard int, out *kit.Out) error {
	r := kit.NewRng(seed)
	if corpusDir != "" {
		entries, _ := os.ReadDir(corpusDir)
		var names []string
		for _, e := range entries {
			if strings.HasSuffix(e.Name(), ".json") {
				names = append(names, e.Name())
			}
		}
		sort.Strings(names)
		for _, nm := range names {
			if err := Replay(corpusDir+"/"+nm, out); err != nil {
				return fmt.Errorf("%s: %w", nm, err)
			}
		}
	}
	for i := 0; i < n; i++ {
		steps := 25 + r.Intn(70)
		_, c, err := generate(r.Fork(), steps)
		if err != nil {
			return err
		}
		out.Emit(wrapHistory(c))
		if i%3 == 2 {
			out.Emit(executeScan(genScan(r.Fork())))
		}
	}
	return nil
}

// the history cases are one constructor of the check's case type
func wrapHistory(c kit.Case) kit.Case {
	if c.Coq == "CBroken" {
		return c
	}
	c.Coq = "CHistory (" + c.Coq + ")"
	return c
}

func Replay(path string, out *kit.Out) error {
	b, err := os.ReadFile(path)
	if err != nil {
		return err
	}
	if done, err := replayScan(b, out); done {
		return err
	}
	var w struct {
		Case *struct {
			Desc *Scenario `json:"desc"`
		} `json:"case"`
		First *struct {
			Desc *Scenario `json:"desc"`
		} `json:"first_disagreeing_case"`
	}
	var sc *Scenario
	if json.Unmarshal(b, &w) == nil {
		if w.Case != nil && w.Case.Desc != nil {
			sc = w.Case.Desc
		} else if w.First != nil && w.First.Desc != nil {
			sc = w.First.Desc
		}
	}
	if sc == nil {
		sc = &Scenario{}
		if err := json.Unmarshal(b, sc); err != nil {
			return err
		}
	}
	sc.Actions, sc.Skipped, sc.Failure = nil, 0, ""
	c, err := execute(sc)
	if err != nil {
		return err
	}
	out.Emit(wrapHistory(c))
	return nil
}

func init() { kit.Register("C11", kit.Runner{Generate: Generate, Replay: Replay}) }
