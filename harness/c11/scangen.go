package c11

import (
	"encoding/json"
	"fmt"

	"verifharness/kit"
)

// genScan: 2-10 events over 1-3 workspaces.  An event is a command with or without an ODoc argument
// (0-3 items with 0-2 sub-items each), 0-4 creates (documents, records under a document of this event or
// of an earlier one, workspace documents, the two singletons), 0-2 updates of earlier documents; one in
// five is a synced event in which about half of the rows carry explicit ids (above everything recorded so
// far in the workspace, or in the reserved range); one in twenty-five is built with an error and stored as
// an error event.  The scan is run from offset 0, 1, behind the end and one or two offsets in between;
// two of three scenarios end with a restart of a real sequencer on a persisted pair covering a prefix.
func genScan(r *kit.Rng) *ScanScenario {
	sc := &ScanScenario{Kind: "scan", Reopen: r.Chance(2, 3), FromZero: r.Chance(1, 4)}
	all := []uint64{1, 2, 77}
	wss := all[:1+r.Intn(3)]
	if r.Chance(1, 2) {
		wss = all[:1+r.Intn(2)]
	}
	n := 2 + r.Intn(9)
	at := uint64(0)
	explicit := func() string {
		if !r.Chance(1, 2) {
			return ""
		}
		if r.Chance(1, 4) {
			// reserved range, each id once per scenario: behind the singleton range, in the middle, at the end (200000 first)
			at++
			return fmt.Sprintf("at:%d", kit.Pick(r, []uint64{66047 + at, 150000 + at, 200001 - at}))
		}
		return fmt.Sprintf("above:%d", kit.Pick(r, []uint64{1, 1, 2, 5, 1000}))
	}
	for i := 0; i < n; i++ {
		ev := &ScanEvent{WS: kit.Pick(r, wss)}
		if r.Chance(1, 25) {
			ev.Bad = true
			sc.Events = append(sc.Events, ev)
			continue
		}
		ev.Sync = r.Chance(1, 5)
		raw := uint64(0)
		next := func() uint64 { raw++; return raw }
		ex := func() string {
			if ev.Sync {
				return explicit()
			}
			return ""
		}
		if r.Chance(1, 3) {
			ev.Arg = &ScanNode{Raw: next(), Explicit: ex()}
			for j, items := 0, r.Intn(4); j < items; j++ {
				it := &ScanNode{Raw: next(), Explicit: ex()}
				for k, subs := 0, r.Intn(3); k < subs; k++ {
					it.Children = append(it.Children, &ScanNode{Raw: next(), Explicit: ex()})
				}
				ev.Arg.Children = append(ev.Arg.Children, it)
			}
		}
		var docsHere []uint64
		for j, cs := 0, r.Intn(5); j < cs; j++ {
			c := ScanCreate{Kind: kit.Pick(r, []string{"doc", "doc", "doc", "rec", "rec", "wdoc", "single", "single", "wsingle"}), Raw: next()}
			switch c.Kind {
			case "doc":
				docsHere = append(docsHere, c.Raw)
				c.Explicit = ex()
			case "rec":
				if len(docsHere) > 0 && r.Chance(2, 3) {
					c.ParentRaw = kit.Pick(r, docsHere)
				} else {
					p := uint64(r.Intn(8))
					c.ParentPick = &p
				}
				c.Explicit = ex()
			case "wdoc":
				c.Explicit = ex()
			}
			ev.Creates = append(ev.Creates, c)
		}
		for j, us := 0, r.Intn(3); j < us; j++ {
			ev.Updates = append(ev.Updates, uint64(r.Intn(8)))
		}
		sc.Events = append(sc.Events, ev)
	}
	sc.Starts = []uint64{0, 1, uint64(n) + 1}
	for j, k := 0, 1+r.Intn(2); j < k; j++ {
		sc.Starts = append(sc.Starts, uint64(2+r.Intn(n)))
	}
	if r.Chance(2, 3) {
		rs := &ScanRestart{Prefix: r.Intn(n + 1), Cap: kit.Pick(r, []int{1, 2, 100}), Max: kit.Pick(r, []int{1, 2, 500})}
		if r.Chance(1, 3) {
			rs.Ahead = 1 + r.Intn(2)
		}
		if r.Chance(1, 4) {
			// no next-offset row although the log has events: nothing persisted at all (the first flush of a
			// fresh partition is skipped), or only numbers (crash before the first offset write)
			rs.Prefix, rs.NoOffsetRow = 0, true
		}
		rs.WSs = append(rs.WSs, wss...)
		if r.Chance(1, 3) {
			rs.WSs = append(rs.WSs, 9)
		}
		sc.Restart = rs
	}
	return sc
}

func replayScan(b []byte, out *kit.Out) (bool, error) {
	var w struct {
		Case *struct {
			Desc *ScanScenario `json:"desc"`
		} `json:"case"`
		First *struct {
			Desc *ScanScenario `json:"desc"`
		} `json:"first_disagreeing_case"`
	}
	var sc *ScanScenario
	if json.Unmarshal(b, &w) == nil {
		if w.Case != nil && w.Case.Desc != nil {
			sc = w.Case.Desc
		} else if w.First != nil && w.First.Desc != nil {
			sc = w.First.Desc
		}
	}
	if sc == nil {
		sc = &ScanScenario{}
		if err := json.Unmarshal(b, sc); err != nil {
			return false, nil
		}
	}
	if sc.Kind != "scan" {
		return false, nil
	}
	for _, e := range sc.Events {
		e.Obs = nil
	}
	sc.Runs = nil
	out.Emit(executeScan(sc))
	return true, nil
}
