// Package c11: harness of property C11 (registers itself with kit.Register in an init function).
package c11
