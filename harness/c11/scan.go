package c11

// scan.go - the second case kind of C11: the REAL log scan.
//
// Real events (CDoc / nested CRecord / WDoc / singleton creates, updates, ODoc arguments with nested
// ORecords, synced events with explicit ids, error events; several workspaces) are built with the real
// istructsmem builders, get their ids from the real istructsmem generator (and the singleton registry),
// are stored through the real IEvents.PutPlog, and the real
// appparts/internal/seqstorage.ActualizeSequencesFromPLog is run over them from several start offsets
// with a recording batcher.  Optionally a real isequencer is then started on a persisted
// (numbers, next offset) pair over the same log through the same real scan, and numbers are drawn.
//
// The emitted case carries: what the harness knows about every event (workspace, WLog offset, the ids
// the generator issued and the explicit ids of the sequence's range it stored), the content of the
// stored events read back from the PLog (the input of the Coq function `event_batch`), the batches the
// scan delivered, and the numbers the restarted sequencer issued.

import (
	"context"
	"encoding/json"
	"fmt"
	"sort"
	"strings"
	"time"

	"verifharness/kit"

	"github.com/voedger/voedger/pkg/appdef"
	"github.com/voedger/voedger/pkg/appdef/builder"
	"github.com/voedger/voedger/pkg/appparts"
	"github.com/voedger/voedger/pkg/goutils/timeu"
	"github.com/voedger/voedger/pkg/isequencer"
	"github.com/voedger/voedger/pkg/istorage"
	"github.com/voedger/voedger/pkg/istorage/mem"
	"github.com/voedger/voedger/pkg/istorage/provider"
	"github.com/voedger/voedger/pkg/istructs"
	"github.com/voedger/voedger/pkg/istructsmem"
	payloads "github.com/voedger/voedger/pkg/itokens-payloads"
	"github.com/voedger/voedger/pkg/itokensjwt"
	vvmstorage "github.com/voedger/voedger/pkg/vvm/storage"
)

var (
	scanApp     = istructs.AppQName_test1_app1
	scanPart    = istructs.PartitionID(7)
	sqWS        = appdef.NewQName("verif", "workspace")
	sqDesc      = appdef.NewQName("verif", "WSDesc")
	sqDoc       = appdef.NewQName("verif", "Doc")
	sqRec       = appdef.NewQName("verif", "Rec")
	sqWDoc      = appdef.NewQName("verif", "WDoc")
	sqSingle    = appdef.NewQName("verif", "Single")
	sqWSingle   = appdef.NewQName("verif", "WSingle")
	sqODoc      = appdef.NewQName("verif", "ODoc")
	sqOItem     = appdef.NewQName("verif", "OItem")
	sqOSub      = appdef.NewQName("verif", "OSub")
	sqCmdODoc   = appdef.NewQName("verif", "CmdODoc")
	sqCmdPlain  = appdef.NewQName("verif", "CmdPlain")
	seqRecordID = uint64(istructs.QNameIDRecordIDSequence)
	seqWLog     = uint64(istructs.QNameIDWLogOffsetSequence)
)

const (
	firstUserID = uint64(istructs.FirstUserRecordID)
	minReserved = uint64(istructs.MinReservedRecordID)
	maxReserved = uint64(istructs.MaxReservedRecordID)
)

// ---- scenario ----

// ids of a scenario: Raw is the raw id of the row inside its event (unique there).  In a synced event
// Explicit asks for an explicit storage id instead: "above:<d>" = d above everything recorded so far in
// the workspace (what a device that numbers its own records above the server's sends), "at:<id>" = this
// id (used for the reserved range 65536..200000).  ID is the id the harness handed to the builder.
type ScanNode struct {
	Raw      uint64      `json:"raw"`
	Explicit string      `json:"explicit,omitempty"`
	ID       uint64      `json:"id,omitempty"`
	Children []*ScanNode `json:"children,omitempty"`
}

type ScanCreate struct {
	Kind       string  `json:"kind"` // doc | rec | wdoc | single | wsingle
	Raw        uint64  `json:"raw"`
	Explicit   string  `json:"explicit,omitempty"`
	ID         uint64  `json:"id,omitempty"`
	ParentRaw  uint64  `json:"parent_raw,omitempty"`  // rec: its document is the create of this event with this raw id ...
	ParentPick *uint64 `json:"parent_pick,omitempty"` // ... or the (pick mod n)-th document stored in the workspace so far
	Dropped    string  `json:"dropped,omitempty"`     // observed: why the row was left out
}

type ScanCUD struct {
	New bool   `json:"new"`
	ID  uint64 `json:"id"`
}

type ScanEventObs struct {
	Off    uint64    `json:"plog_offset"`
	WLog   uint64    `json:"wlog_offset"`
	Issued []uint64  `json:"issued"` // ids the generator issued for this event + explicit ids >= FirstUserRecordID the harness put in
	Err    string    `json:"stored_as_error,omitempty"`
	ODoc   bool      `json:"stored_arg_is_odoc"`
	ArgIDs []uint64  `json:"stored_arg_ids"`
	CUDs   []ScanCUD `json:"stored_cuds"`
}

type ScanEvent struct {
	WS      uint64        `json:"ws"`
	Sync    bool          `json:"sync,omitempty"`
	Bad     bool          `json:"bad,omitempty"` // built with an error: stored as an error event
	Arg     *ScanNode     `json:"arg,omitempty"`
	Creates []ScanCreate  `json:"creates,omitempty"`
	Updates []uint64      `json:"updates,omitempty"` // picks: the (pick mod n)-th document stored in the workspace so far is updated
	Updated []uint64      `json:"updated,omitempty"` // observed: the ids that were updated
	Obs     *ScanEventObs `json:"observed,omitempty"`
}

type ScanDelivery struct {
	Off   uint64      `json:"off"`
	Batch [][3]uint64 `json:"batch"` // workspace, sequence, number - in delivery order
}

type ScanRun struct {
	Start     uint64         `json:"start"`
	Delivered []ScanDelivery `json:"delivered"`
}

type ScanRestart struct {
	Prefix int `json:"covered_events"` // the persisted offset is that of event number Prefix (events before it are covered)
	Ahead  int `json:"numbers_ahead"`  // the persisted numbers already contain this many further events
	// the numbers are written, the next-offset row is not (a crash between the first numbers write and the
	// first offset write, or writes of the offset failing since start-up): the adapter reports offset 0
	NoOffsetRow bool     `json:"no_offset_row,omitempty"`
	Cap         int      `json:"lru_cap"`
	Max         int      `json:"max_unflushed"`
	WSs         []uint64 `json:"workspaces"`
	// observed
	PO    uint64      `json:"persisted_offset"`
	PN    [][3]uint64 `json:"persisted_numbers"`
	Calls [][3]uint64 `json:"issued_after_restart"` // workspace, sequence, number in call order
}

type ScanScenario struct {
	Kind   string `json:"kind"` // "scan"
	Note   string `json:"note,omitempty"`
	Reopen bool   `json:"reopen"` // scan through app structs built anew over the storage (no event cache)
	// the first event sits at PLog offset 0 - where a sequencer on a fresh partition puts it (no next-offset
	// row: the adapter reports 0, Start hands out 0) - instead of istructs.FirstOffset
	FromZero bool         `json:"first_event_at_offset_0,omitempty"`
	Failure  string       `json:"harness_failure,omitempty"` // the case could not be run to its end: rejected by agrees and satisfies
	Events   []*ScanEvent `json:"events"`
	Starts   []uint64     `json:"starts"`
	Restart  *ScanRestart `json:"restart,omitempty"`
	Runs     []ScanRun    `json:"runs,omitempty"`
	Verdicts []string     `json:"harness_verdicts,omitempty"`
}

// ---- rig ----

type scanRig struct {
	sp      istorage.IAppStorageProvider
	app     istructs.IAppStructs
	gens    map[uint64]istructs.IIDGenerator
	hook    []uint64
	docs    map[uint64][]uint64        // per workspace: stored ids of the documents created so far
	top     map[uint64]uint64          // per workspace: the highest id of the sequence's range recorded so far
	singles map[uint64]map[string]bool // per workspace: singletons created so far
	adapter isequencer.IVVMSeqStorageAdapter
}

func scanAppDef() appdef.IAppDefBuilder {
	adb := builder.New()
	adb.AddPackage("verif", "verif.test/verif")
	ws := adb.AddWorkspace(sqWS)
	ws.AddCDoc(sqDesc)
	ws.SetDescriptor(sqDesc)
	ws.AddCRecord(sqRec).AddField("n", appdef.DataKind_int32, false)
	doc := ws.AddCDoc(sqDoc)
	doc.AddField("n", appdef.DataKind_int32, false)
	doc.AddContainer("Rec", sqRec, 0, appdef.Occurs_Unbounded)
	ws.AddWDoc(sqWDoc).AddField("n", appdef.DataKind_int32, false)
	s := ws.AddCDoc(sqSingle)
	s.AddField("n", appdef.DataKind_int32, false)
	s.SetSingleton()
	wsn := ws.AddWDoc(sqWSingle)
	wsn.AddField("n", appdef.DataKind_int32, false)
	wsn.SetSingleton()
	ws.AddORecord(sqOSub).AddField("n", appdef.DataKind_int32, false)
	oi := ws.AddORecord(sqOItem)
	oi.AddField("n", appdef.DataKind_int32, false)
	oi.AddContainer("Sub", sqOSub, 0, appdef.Occurs_Unbounded)
	od := ws.AddODoc(sqODoc)
	od.AddField("n", appdef.DataKind_int32, false)
	od.AddContainer("Item", sqOItem, 0, appdef.Occurs_Unbounded)
	ws.AddCommand(sqCmdODoc).SetParam(sqODoc)
	ws.AddCommand(sqCmdPlain)
	ws.AddCommand(istructs.QNameCommandCUD)
	return adb
}

func (r *scanRig) open() error {
	cfgs := make(istructsmem.AppConfigsType, 1)
	cfg := cfgs.AddBuiltInAppConfig(scanApp, scanAppDef())
	cfg.SetNumAppWorkspaces(istructs.DefaultNumAppWorkspaces)
	cfg.Resources.Add(istructsmem.NewCommandFunction(sqCmdODoc, istructsmem.NullCommandExec))
	cfg.Resources.Add(istructsmem.NewCommandFunction(sqCmdPlain, istructsmem.NullCommandExec))
	cfg.Resources.Add(istructsmem.NewCommandFunction(istructs.QNameCommandCUD, istructsmem.NullCommandExec))
	p := istructsmem.Provide(cfgs, payloads.ProvideIAppTokensFactory(itokensjwt.TestTokensJWT()), r.sp, isequencer.SequencesTrustLevel_0, nil)
	app, err := p.BuiltIn(scanApp)
	if err != nil {
		return err
	}
	r.app = app
	return nil
}

func newScanRig() (*scanRig, error) {
	r := &scanRig{sp: provider.Provide(mem.Provide(kit.NewClock())), gens: map[uint64]istructs.IIDGenerator{},
		docs: map[uint64][]uint64{}, top: map[uint64]uint64{}, singles: map[uint64]map[string]bool{}}
	return r, r.open()
}

func (r *scanRig) gen(ws uint64) istructs.IIDGenerator {
	g, ok := r.gens[ws]
	if !ok {
		g = istructsmem.NewIDGeneratorWithHook(func(_, st istructs.RecordID) error {
			r.hook = append(r.hook, uint64(st))
			return nil
		})
		r.gens[ws] = g
	}
	return g
}

var nodeContainer = []string{"", "Item", "Sub"}

func (r *scanRig) resolve(ws uint64, raw uint64, explicit string, sync bool) uint64 {
	var x uint64
	switch {
	case !sync || explicit == "":
		return raw
	case strings.HasPrefix(explicit, "above:"):
		fmt.Sscanf(explicit, "above:%d", &x)
		base := r.top[ws]
		if base < maxReserved {
			base = maxReserved
		}
		r.top[ws] = base + x // later explicit ids of the same event go above this one
		return base + x
	case strings.HasPrefix(explicit, "at:"):
		fmt.Sscanf(explicit, "at:%d", &x)
		return x
	}
	return raw
}

func (r *scanRig) resolveNode(ws uint64, n *ScanNode, sync bool) {
	if n == nil {
		return
	}
	n.ID = r.resolve(ws, n.Raw, n.Explicit, sync)
	for _, c := range n.Children {
		r.resolveNode(ws, c, sync)
	}
}

func fillScanNode(b istructs.IObjectBuilder, n *ScanNode, parent uint64, depth int) {
	b.PutRecordID(appdef.SystemField_ID, istructs.RecordID(n.ID))
	if depth > 0 {
		b.PutRecordID(appdef.SystemField_ParentID, istructs.RecordID(parent))
	}
	b.PutInt32("n", int32(depth))
	for _, c := range n.Children {
		if depth+1 < len(nodeContainer) {
			fillScanNode(b.ChildBuilder(nodeContainer[depth+1]), c, n.ID, depth+1)
		}
	}
}

func explicitIDs(n *ScanNode, out *[]uint64) {
	if n == nil {
		return
	}
	*out = append(*out, n.ID)
	for _, c := range n.Children {
		explicitIDs(c, out)
	}
}

var createQName = map[string]appdef.QName{"doc": sqDoc, "rec": sqRec, "wdoc": sqWDoc, "single": sqSingle, "wsingle": sqWSingle}

func firstLine(s string) string {
	if i := strings.IndexByte(s, '\n'); i >= 0 {
		s = s[:i]
	}
	if len(s) > 200 {
		s = s[:200]
	}
	return s
}

// put builds one event, stores it through PutPlog and applies its records
func (r *scanRig) put(ev *ScanEvent, plogOff, wlogOff uint64) error {
	as := r.app
	ws := istructs.WSID(ev.WS)
	obs := &ScanEventObs{Off: plogOff, WLog: wlogOff, Issued: []uint64{}, ArgIDs: []uint64{}, CUDs: []ScanCUD{}}
	ev.Obs = obs
	// sys.CUD must carry rows: it is used when the first create is one that is never left out
	name := sqCmdPlain
	if ev.Arg != nil && !ev.Bad {
		name = sqCmdODoc
	} else if len(ev.Creates) > 0 && (ev.Creates[0].Kind == "doc" || ev.Creates[0].Kind == "wdoc") && !ev.Bad {
		name = istructs.QNameCommandCUD
	}
	gp := istructs.GenericRawEventBuilderParams{HandlingPartition: scanPart, Workspace: ws, QName: name, RegisteredAt: 1,
		PLogOffset: istructs.Offset(plogOff), WLogOffset: istructs.Offset(wlogOff)}
	var reb istructs.IRawEventBuilder
	if ev.Sync {
		reb = as.Events().GetSyncRawEventBuilder(istructs.SyncRawEventBuilderParams{GenericRawEventBuilderParams: gp, SyncedAt: 1})
	} else {
		reb = as.Events().GetNewRawEventBuilder(istructs.NewRawEventBuilderParams{GenericRawEventBuilderParams: gp})
	}
	if ev.Bad {
		ev.Arg, ev.Creates, ev.Updates, ev.Sync = nil, nil, nil, false
	}
	r.resolveNode(ev.WS, ev.Arg, ev.Sync)
	if ev.Arg != nil {
		fillScanNode(reb.ArgumentObjectBuilder(), ev.Arg, 0, 0)
	}
	if r.singles[ev.WS] == nil {
		r.singles[ev.WS] = map[string]bool{}
	}
	byRaw := map[uint64]uint64{}
	for i := range ev.Creates {
		c := &ev.Creates[i]
		c.Dropped = ""
		c.ID = r.resolve(ev.WS, c.Raw, c.Explicit, ev.Sync)
		var parent uint64
		switch c.Kind {
		case "single", "wsingle":
			if r.singles[ev.WS][c.Kind] {
				c.Dropped = "the singleton exists already"
				continue
			}
			r.singles[ev.WS][c.Kind] = true
			c.ID = c.Raw // a singleton gets its id from the registry
		case "doc":
			byRaw[c.Raw] = c.ID
		case "rec":
			if p, ok := byRaw[c.ParentRaw]; ok && c.ParentPick == nil {
				parent = p
			} else if ds := r.docs[ev.WS]; c.ParentPick != nil && len(ds) > 0 {
				parent = ds[*c.ParentPick%uint64(len(ds))]
			} else {
				c.Dropped = "no document to put the record under"
				continue
			}
		}
		w := reb.CUDBuilder().Create(createQName[c.Kind])
		w.PutRecordID(appdef.SystemField_ID, istructs.RecordID(c.ID))
		if c.Kind == "rec" {
			w.PutRecordID(appdef.SystemField_ParentID, istructs.RecordID(parent))
			w.PutString(appdef.SystemField_Container, "Rec")
		}
		w.PutInt32("n", 1)
	}
	ev.Updated = nil
	for _, pick := range ev.Updates {
		ds := r.docs[ev.WS]
		if len(ds) == 0 {
			continue
		}
		u := ds[pick%uint64(len(ds))]
		dup := false
		for _, x := range ev.Updated {
			dup = dup || x == u
		}
		if dup {
			continue
		}
		rec, err := as.Records().Get(ws, true, istructs.RecordID(u))
		if err != nil {
			return err
		}
		if rec.QName() == appdef.NullQName {
			return fmt.Errorf("the document %d of workspace %d is not in the records", u, ev.WS)
		}
		reb.CUDBuilder().Update(rec).PutInt32("n", int32(plogOff)+1)
		ev.Updated = append(ev.Updated, u)
	}
	if ev.Bad {
		// a field the type does not have: BuildRawEvent fails, the event is stored as an error event
		reb.CUDBuilder().Create(sqDoc).PutString("nosuchfield", "x")
	}
	raw, buildErr := reb.BuildRawEvent()
	if buildErr != nil && !ev.Bad {
		return fmt.Errorf("BuildRawEvent: %w", buildErr)
	}
	r.hook = nil
	pe, err := as.Events().PutPlog(raw, buildErr, r.gen(ev.WS))
	if err != nil {
		return fmt.Errorf("PutPlog: %w", err)
	}
	defer pe.Release()
	if e := pe.Error(); e != nil && !e.ValidEvent() {
		obs.Err = firstLine(e.ErrStr())
		return nil
	}
	if ev.Bad {
		return fmt.Errorf("the event built with an error was stored as a valid event")
	}
	obs.Issued = append(obs.Issued, r.hook...)
	if ev.Sync {
		var ex []uint64
		explicitIDs(ev.Arg, &ex)
		for _, c := range ev.Creates {
			if c.Dropped == "" {
				ex = append(ex, c.ID)
			}
		}
		for _, id := range ex {
			if id >= firstUserID {
				obs.Issued = append(obs.Issued, id)
			}
		}
	}
	for _, id := range obs.Issued {
		if id > r.top[ev.WS] {
			r.top[ev.WS] = id
		}
	}
	for c := range pe.CUDs {
		if c.IsNew() && c.QName() == sqDoc {
			r.docs[ev.WS] = append(r.docs[ev.WS], uint64(c.ID()))
		}
	}
	if err := as.Records().Apply(pe); err != nil {
		return fmt.Errorf("Apply: %w", err)
	}
	return nil
}

func walkIDs(o istructs.IObject, out *[]uint64) {
	*out = append(*out, uint64(o.AsRecordID(appdef.SystemField_ID)))
	for c := range o.Containers {
		for ch := range o.Children(c) {
			walkIDs(ch, out)
		}
	}
}

// readBack fills the stored content of every event (the input of the model's event_batch)
func (r *scanRig) readBack(evs []*ScanEvent) error {
	byOff := map[uint64]*ScanEvent{}
	for _, e := range evs {
		byOff[e.Obs.Off] = e
	}
	seen := 0
	err := r.app.Events().ReadPLog(context.Background(), scanPart, istructs.NullOffset, istructs.ReadToTheEnd,
		func(off istructs.Offset, pe istructs.IPLogEvent) error {
			e := byOff[uint64(off)]
			if e == nil {
				return fmt.Errorf("the PLog has an event at offset %d the harness did not write", off)
			}
			seen++
			o := e.Obs
			if uint64(pe.Workspace()) != e.WS || uint64(pe.WLogOffset()) != o.WLog {
				return fmt.Errorf("event %d read back with workspace %d / wlog offset %d", off, pe.Workspace(), pe.WLogOffset())
			}
			arg := pe.ArgumentObject()
			o.ODoc = r.app.AppDef().Type(arg.QName()).Kind() == appdef.TypeKind_ODoc
			o.ArgIDs = []uint64{}
			if o.ODoc {
				walkIDs(arg, &o.ArgIDs)
			}
			o.CUDs = []ScanCUD{}
			for c := range pe.CUDs {
				o.CUDs = append(o.CUDs, ScanCUD{New: c.IsNew(), ID: uint64(c.ID())})
			}
			return nil
		})
	if err != nil {
		return err
	}
	if seen != len(evs) {
		return fmt.Errorf("the PLog delivered %d of %d events", seen, len(evs))
	}
	return nil
}

func (r *scanRig) seqStorage() (isequencer.ISeqStorage, error) {
	stg, err := r.sp.AppStorage(istructs.AppQName_sys_vvm)
	if err != nil {
		return nil, err
	}
	r.adapter = vvmstorage.NewVVMSeqStorageAdapter(stg)
	return appparts.VerifNewSeqStorage(istructs.ClusterApps[scanApp], scanPart, r.app.Events(), r.app.AppDef(), r.adapter), nil
}

// ---- execution ----

// executeScan never fails: whatever keeps the case from running to its end (a sequencer that does not start
// a transaction, a panic, an event the real builders refuse) is the outcome of this case - a case that
// `agrees` and `satisfies` reject, with the text in its description - and the run goes on.
func executeScan(sc *ScanScenario) (c kit.Case) {
	sc.Failure = ""
	defer func() {
		if rec := recover(); rec != nil {
			passthrough.Store(false)
			c = brokenScan(sc, fmt.Sprintf("panic: %v", rec))
		}
	}()
	c, err := runScan(sc)
	if err != nil {
		c = brokenScan(sc, err.Error())
	}
	return c
}

func brokenScan(sc *ScanScenario, why string) kit.Case {
	sc.Failure = firstLine(why)
	keyb, _ := json.Marshal(struct {
		E []*ScanEvent
		S []uint64
		R *ScanRestart
	}{sc.Events, sc.Starts, sc.Restart})
	return kit.Case{Coq: "CBroken", Key: "scan-broken|" + string(keyb), Nontrivial: true, Desc: sc,
		Tags: []string{"harness:case-did-not-complete", "kind:scan"}}
}

func runScan(sc *ScanScenario) (kit.Case, error) {
	r, err := newScanRig()
	if err != nil {
		return kit.Case{}, err
	}
	base := uint64(istructs.FirstOffset)
	if sc.FromZero {
		base = 0
	}
	wlog := map[uint64]uint64{}
	for i, ev := range sc.Events {
		if _, ok := wlog[ev.WS]; !ok {
			wlog[ev.WS] = uint64(istructs.FirstOffset)
		}
		if err := r.put(ev, base+uint64(i), wlog[ev.WS]); err != nil {
			return kit.Case{}, fmt.Errorf("event %d: %w", i, err)
		}
		wlog[ev.WS]++
	}
	if sc.Reopen {
		if err := r.open(); err != nil {
			return kit.Case{}, err
		}
	}
	if err := r.readBack(sc.Events); err != nil {
		return kit.Case{}, err
	}
	ss, err := r.seqStorage()
	if err != nil {
		return kit.Case{}, err
	}
	sc.Runs = nil
	for _, start := range sc.Starts {
		run := ScanRun{Start: start, Delivered: []ScanDelivery{}}
		err := ss.ActualizeSequencesFromPLog(context.Background(), isequencer.PLogOffset(start),
			func(_ context.Context, batch []isequencer.SeqValue, off isequencer.PLogOffset) error {
				d := ScanDelivery{Off: uint64(off), Batch: [][3]uint64{}}
				for _, sv := range batch {
					d.Batch = append(d.Batch, [3]uint64{uint64(sv.Key.WSID), uint64(sv.Key.SeqID), uint64(sv.Value)})
				}
				run.Delivered = append(run.Delivered, d)
				return nil
			})
		if err != nil {
			return kit.Case{}, fmt.Errorf("scan from %d: %w", start, err)
		}
		sc.Runs = append(sc.Runs, run)
	}
	if sc.Restart != nil {
		if err := r.restart(sc, ss, base); err != nil {
			return kit.Case{}, err
		}
	}
	return scanCase(sc), nil
}

// restart: persist a (numbers, next offset) pair that covers the first Prefix events, start a real
// sequencer on it over the real scan, draw numbers
func (r *scanRig) restart(sc *ScanScenario, ss isequencer.ISeqStorage, base uint64) error {
	rs := sc.Restart
	n := len(sc.Events)
	if rs.NoOffsetRow {
		rs.Prefix = 0 // no offset row: nothing is covered
	}
	if rs.Prefix > n {
		rs.Prefix = n
	}
	if rs.Prefix+rs.Ahead > n {
		rs.Ahead = n - rs.Prefix
	}
	pn := map[[2]uint64]uint64{}
	for _, ev := range sc.Events[:rs.Prefix+rs.Ahead] {
		for _, id := range ev.Obs.Issued {
			k := [2]uint64{ev.WS, seqRecordID}
			if id > pn[k] {
				pn[k] = id
			}
		}
		pn[[2]uint64{ev.WS, seqWLog}] = ev.Obs.WLog
	}
	rs.PN = [][3]uint64{}
	var batch []isequencer.SeqValue
	for k, v := range pn {
		rs.PN = append(rs.PN, [3]uint64{k[0], k[1], v})
	}
	sort.Slice(rs.PN, func(i, j int) bool {
		if rs.PN[i][0] != rs.PN[j][0] {
			return rs.PN[i][0] < rs.PN[j][0]
		}
		return rs.PN[i][1] < rs.PN[j][1]
	})
	for _, x := range rs.PN {
		batch = append(batch, isequencer.SeqValue{Key: isequencer.NumberKey{WSID: isequencer.WSID(x[0]), SeqID: isequencer.SeqID(x[1])}, Value: isequencer.Number(x[2])})
	}
	rs.PO = 0
	switch {
	case rs.Prefix+rs.Ahead == 0:
		rs.NoOffsetRow = true // nothing at all is persisted
	case rs.NoOffsetRow:
		if err := r.adapter.PutNumbers(istructs.ClusterApps[scanApp], batch); err != nil {
			return err
		}
	default:
		rs.PO = base + uint64(rs.Prefix)
		if err := ss.WriteValuesAndNextPLogOffset(batch, isequencer.PLogOffset(rs.PO)); err != nil {
			return err
		}
	}
	passthrough.Store(true)
	defer passthrough.Store(false)
	params := isequencer.Params{
		SeqTypes: map[isequencer.WSKind]map[isequencer.SeqID]isequencer.Number{1: {
			isequencer.SeqID(seqRecordID): isequencer.Number(istructs.FirstUserRecordID),
			isequencer.SeqID(seqWLog):     isequencer.Number(istructs.FirstOffset)}},
		MaxNumUnflushedValues:             rs.Max,
		LRUCacheSize:                      rs.Cap,
		BatcherDelayOnToBeFlushedOverflow: 100 * time.Microsecond,
	}
	seq, cleanup := isequencer.New(params, ss, timeu.NewITime())
	defer cleanup()
	start := func(ws uint64) error {
		deadline := time.Now().Add(10 * time.Second)
		for {
			if _, ok := seq.Start(1, isequencer.WSID(ws)); ok {
				return nil
			}
			if time.Now().After(deadline) {
				return fmt.Errorf("the restarted sequencer does not start a transaction")
			}
			time.Sleep(50 * time.Microsecond)
		}
	}
	rs.Calls = [][3]uint64{}
	for _, ws := range rs.WSs {
		if err := start(ws); err != nil {
			return err
		}
		for _, sq := range []uint64{seqRecordID, seqRecordID, seqWLog} {
			num, err := seq.Next(isequencer.SeqID(sq))
			if err != nil {
				return err
			}
			rs.Calls = append(rs.Calls, [3]uint64{ws, sq, uint64(num)})
		}
		seq.Flush()
	}
	return nil
}

// ---- the harness's own reading of the outcome (tags only; the verdict is computed inside Coq) ----

func isReserved(id uint64) bool { return id >= minReserved && id <= maxReserved }

// lowered: does some delivered batch maximum of the record-id sequence fall below a number recorded
// in this or an earlier delivered event (or is missing)?  dropReserved: judge the batches without the
// reserved-range ids.
func scanLowered(sc *ScanScenario, dropReserved bool) bool {
	byOff := map[uint64]*ScanEvent{}
	for _, e := range sc.Events {
		byOff[e.Obs.Off] = e
	}
	for _, run := range sc.Runs {
		hi := map[[2]uint64]uint64{}
		for _, d := range run.Delivered {
			e := byOff[d.Off]
			if e == nil {
				return true
			}
			for _, id := range e.Obs.Issued {
				k := [2]uint64{e.WS, seqRecordID}
				if id > hi[k] {
					hi[k] = id
				}
			}
			hi[[2]uint64{e.WS, seqWLog}] = max(hi[[2]uint64{e.WS, seqWLog}], e.Obs.WLog)
			mx := map[[2]uint64]uint64{}
			for _, b := range d.Batch {
				if dropReserved && b[1] == seqRecordID && isReserved(b[2]) {
					continue
				}
				k := [2]uint64{b[0], b[1]}
				if b[2] > mx[k] {
					mx[k] = b[2]
				}
			}
			for k, v := range mx {
				if v < hi[k] {
					return true
				}
			}
			if len(e.Obs.Issued) > 0 && mx[[2]uint64{e.WS, seqRecordID}] == 0 {
				return true
			}
		}
	}
	return false
}

// restartLow: a number issued after the restart is not above everything recorded for its key
func restartLow(sc *ScanScenario) bool {
	if sc.Restart == nil {
		return false
	}
	hi := map[[2]uint64]uint64{}
	for _, e := range sc.Events {
		for _, id := range e.Obs.Issued {
			k := [2]uint64{e.WS, seqRecordID}
			if id > hi[k] {
				hi[k] = id
			}
		}
		k := [2]uint64{e.WS, seqWLog}
		if e.Obs.WLog > hi[k] {
			hi[k] = e.Obs.WLog
		}
	}
	for _, c := range sc.Restart.Calls {
		k := [2]uint64{c[0], c[1]}
		if c[2] <= hi[k] {
			return true
		}
		hi[k] = c[2]
	}
	return false
}

// restartExplainedByReserved: every low number is one above a reserved-range id
func restartOnlyReserved(sc *ScanScenario) bool {
	hi := map[[2]uint64]uint64{}
	for _, e := range sc.Events {
		for _, id := range e.Obs.Issued {
			k := [2]uint64{e.WS, seqRecordID}
			if id > hi[k] {
				hi[k] = id
			}
		}
	}
	prev := map[[2]uint64]uint64{}
	for _, c := range sc.Restart.Calls {
		k := [2]uint64{c[0], c[1]}
		if c[1] == seqRecordID && c[2] <= hi[k] {
			base := c[2] - 1
			if p, ok := prev[k]; ok {
				if base != p {
					return false
				}
			} else if !isReserved(base) {
				return false
			}
		} else if c[1] != seqRecordID {
			hw := uint64(0)
			for _, e := range sc.Events {
				if e.WS == c[0] && e.Obs.WLog > hw {
					hw = e.Obs.WLog
				}
			}
			if p, ok := prev[k]; ok {
				hw = max(hw, p)
			}
			if c[2] <= hw {
				return false
			}
		}
		prev[k] = c[2]
	}
	return true
}

// ---- case ----

func triples(xs [][3]uint64) string {
	items := make([]string, len(xs))
	for i, x := range xs {
		items[i] = fmt.Sprintf("((%d, %d), %d)", x[0], x[1], x[2])
	}
	return kit.List(items)
}

func nlist(xs []uint64) string {
	items := make([]string, len(xs))
	for i, x := range xs {
		items[i] = kit.N(x)
	}
	return kit.List(items)
}

func scanCase(sc *ScanScenario) kit.Case {
	tags := map[string]bool{"kind:scan": true}
	wss := map[uint64]bool{}
	evs := make([]string, len(sc.Events))
	for i, e := range sc.Events {
		o := e.Obs
		wss[e.WS] = true
		cuds := make([]string, len(o.CUDs))
		for j, c := range o.CUDs {
			cuds[j] = fmt.Sprintf("(%s, %d)", kit.Bool(c.New), c.ID)
			if !c.New {
				tags["scan:update"] = true
			}
			if c.New && isReserved(c.ID) {
				tags["scan:reserved-id"] = true
			}
		}
		for _, id := range o.ArgIDs {
			if isReserved(id) {
				tags["scan:reserved-id"] = true
			}
		}
		if o.ODoc {
			tags["scan:odoc"] = true
			if len(o.ArgIDs) > 1 {
				tags["scan:odoc-nested"] = true
			}
		}
		if e.Sync {
			tags["scan:sync"] = true
		}
		if o.Err != "" {
			tags["scan:error-event"] = true
		}
		for _, c := range e.Creates {
			tags["scan:create-"+c.Kind] = true
		}
		evs[i] = fmt.Sprintf("mkSObs %d %d %d %s (mkSEv %d %d %s %s %s)", o.Off, e.WS, o.WLog, nlist(o.Issued),
			e.WS, o.WLog, kit.Bool(o.ODoc), nlist(o.ArgIDs), kit.List(cuds))
	}
	if len(wss) > 1 {
		tags["scan:several-workspaces"] = true
	}
	if sc.FromZero {
		tags["scan:first-event-at-offset-0"] = true
	}
	runs := make([]string, len(sc.Runs))
	for i, run := range sc.Runs {
		ds := make([]string, len(run.Delivered))
		for j, d := range run.Delivered {
			ds[j] = fmt.Sprintf("(%d, %s)", d.Off, triples(d.Batch))
		}
		runs[i] = fmt.Sprintf("(%d, %s)", run.Start, kit.List(ds))
		if run.Start > 1 && int(run.Start) <= len(sc.Events) {
			tags["scan:from-the-middle"] = true
		}
	}
	rs := "None"
	if sc.Restart != nil {
		tags["scan:restart"] = true
		if sc.Restart.NoOffsetRow {
			tags["scan:restart-without-offset-row"] = true
		}
		tags[fmt.Sprintf("max:%d", sc.Restart.Max)] = true
		rs = fmt.Sprintf("(Some (mkSRestart %d %s %s))", sc.Restart.PO, triples(sc.Restart.PN), triples(sc.Restart.Calls))
	}
	sc.Verdicts = nil
	low, lowNoRes := scanLowered(sc, false), scanLowered(sc, true)
	rlow := restartLow(sc)
	if low {
		sc.Verdicts = append(sc.Verdicts, "a delivered batch maximum is below a recorded number")
	}
	if rlow {
		sc.Verdicts = append(sc.Verdicts, "the restarted sequencer issued a number that is not above the recorded ones")
	}
	// C11-F2: the only thing wrong is that reserved-range ids (singletons) went into the record-id sequence
	if (low || rlow) && !lowNoRes && (!rlow || restartOnlyReserved(sc)) {
		tags["C11-F2:reserved-id-lowers-record-id-sequence"] = true
	}
	var tl []string
	for t := range tags {
		tl = append(tl, t)
	}
	sort.Strings(tl)
	keyb, _ := json.Marshal(struct {
		E []*ScanEvent
		S []uint64
		R *ScanRestart
		O bool
		Z bool
	}{sc.Events, sc.Starts, sc.Restart, sc.Reopen, sc.FromZero})
	nontrivial := len(sc.Events) >= 2 && len(sc.Runs) > 0
	return kit.Case{
		Coq:        fmt.Sprintf("CScan %s %s %s", kit.List(evs), kit.List(runs), rs),
		Key:        "scan|" + string(keyb),
		Nontrivial: nontrivial,
		Desc:       sc,
		Tags:       tl,
	}
}
