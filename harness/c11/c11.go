// Package c11: the real isequencer driven step by step (caller, flusher goroutine, actualizer
// goroutine) through verifhook points. The ISeqStorage it works on persists through the real stack
// (appparts/internal/seqstorage over the vvm storage adapter over an in-memory IAppStorage, with
// failures injected at the IAppStorage calls); only the log scan is scripted. Crash = new sequencer
// on the persisted state. A scenario is a list of moves; the emitted trace is the list of model actions.
package c11

import (
	"context"
	"errors"
	"fmt"
	"os"
	"sort"
	"strings"
	"sync"
	"sync/atomic"
	"time"

	"verifharness/kit"

	"github.com/voedger/voedger/pkg/appparts"
	"github.com/voedger/voedger/pkg/goutils/verifhook"
	"github.com/voedger/voedger/pkg/isequencer"
	"github.com/voedger/voedger/pkg/istorage"
	vvmstorage "github.com/voedger/voedger/pkg/vvm/storage"
)

// keys 0..3 = (ws 1, seq 1), (ws 1, seq 2), (ws 2, seq 1), (ws 2, seq 2)
var keyOf = []isequencer.NumberKey{{WSID: 1, SeqID: 1}, {WSID: 1, SeqID: 2}, {WSID: 2, SeqID: 1}, {WSID: 2, SeqID: 2}}

func keyIdx(k isequencer.NumberKey) int {
	for i, x := range keyOf {
		if x == k {
			return i
		}
	}
	panic("unknown key")
}

type event struct {
	Off  uint64         `json:"off"`
	Vals map[int]uint64 `json:"vals"`
}

// world is what survives a crash
type world struct {
	stg istorage.IAppStorage // where numbers and the next offset are persisted
	log []event
}

type arrival struct{ role, point string }

var errInjected = errors.New("injected storage failure")

// inc is one incarnation of the sequencer
type inc struct {
	w        *world
	dead     atomic.Bool
	seq      isequencer.ISequencer
	cleanup  context.CancelFunc
	arrivals chan arrival
	early    map[string]arrival // arrivals of a role the driver was not yet waiting for
	gates    map[string]chan struct{}
	clock    *kit.Clock
	mu       sync.Mutex
	// decisions taken by the harness for the storage call a role is parked in
	writeOutcome string // ok | err | errmid
	readOffOK    bool
	scanFail     bool
	// what the storage saw (observed arguments)
	lastBatch map[int]uint64
	lastOff   uint64
	scanCur   uint64 // offset of the log event being handed to the batcher
	real      isequencer.ISeqStorage
	failGets  atomic.Int32 // number reads (Get) to fail before the next one succeeds
	failedGet atomic.Int32 // how many were failed
}

// before is the fault-injection / parking hook on the IAppStorage calls of this incarnation:
// PutBatch = the numbers write, Put = the offset write.
func (in *inc) before(c *kit.Call) kit.Verdict {
	if in.dead.Load() {
		if c.Op == "Put" || c.Op == "PutBatch" {
			return kit.Verdict{FailBefore: errInjected}
		}
		return kit.Verdict{}
	}
	switch c.Op {
	case "Get":
		if in.failGets.Load() > 0 {
			in.failGets.Add(-1)
			in.failedGet.Add(1)
			return kit.Verdict{FailBefore: errInjected}
		}
	case "PutBatch":
		in.park("flusher", "st.write.enter")
		if in.dead.Load() || in.writeOutcome == "err" {
			return kit.Verdict{FailBefore: errInjected}
		}
	case "Put":
		in.park("flusher", "st.write.mid")
		if in.dead.Load() || in.writeOutcome == "errmid" {
			return kit.Verdict{FailBefore: errInjected}
		}
	}
	return kit.Verdict{}
}

var debug = os.Getenv("C11_DEBUG") != ""

var (
	current     atomic.Pointer[inc]
	passthrough atomic.Bool
)

func hook(name string) {
	if passthrough.Load() {
		return
	}
	in := current.Load()
	if in == nil || in.dead.Load() {
		return
	}
	if name == "seq.flusher.snapshot" {
		return // observed at the storage call instead (where the snapshot's content is visible)
	}
	role := "act"
	if strings.HasPrefix(name, "seq.flusher.") {
		role = "flusher"
	}
	in.park(role, name)
}

func (in *inc) park(role, point string) {
	if in.dead.Load() || passthrough.Load() {
		return
	}
	in.arrivals <- arrival{role, point}
	<-in.gates[role]
}

// ---- scripted ISeqStorage ----

func (in *inc) ReadNumbers(ws isequencer.WSID, ids []isequencer.SeqID) ([]isequencer.Number, error) {
	return in.real.ReadNumbers(ws, ids)
}

func (in *inc) WriteValuesAndNextPLogOffset(batch []isequencer.SeqValue, off isequencer.PLogOffset) error {
	if in.dead.Load() {
		return nil
	}
	b := map[int]uint64{}
	for _, sv := range batch {
		b[keyIdx(sv.Key)] = uint64(sv.Value)
	}
	in.mu.Lock()
	in.lastBatch, in.lastOff = b, uint64(off)
	in.mu.Unlock()
	err := in.real.WriteValuesAndNextPLogOffset(batch, off)
	if in.dead.Load() {
		return nil
	}
	return err
}

func (in *inc) ReadNextPLogOffset() (isequencer.PLogOffset, error) {
	if in.dead.Load() {
		return 0, nil
	}
	in.park("act", "st.readoff.enter")
	if in.dead.Load() {
		return 0, nil
	}
	if !in.readOffOK {
		return 0, errInjected
	}
	return in.real.ReadNextPLogOffset()
}

func (in *inc) ActualizeSequencesFromPLog(ctx context.Context, offset isequencer.PLogOffset,
	batcher func(ctx context.Context, batch []isequencer.SeqValue, offset isequencer.PLogOffset) error) error {
	if in.dead.Load() {
		return nil
	}
	in.mu.Lock()
	var todo []event
	for _, e := range in.w.log {
		if e.Off >= uint64(offset) {
			todo = append(todo, e)
		}
	}
	in.mu.Unlock()
	for _, e := range todo {
		in.park("act", "st.scan.next")
		if in.dead.Load() {
			return nil
		}
		if in.scanFail {
			return errInjected
		}
		var batch []isequencer.SeqValue
		keys := make([]int, 0, len(e.Vals))
		for k := range e.Vals {
			keys = append(keys, k)
		}
		sort.Ints(keys)
		for _, k := range keys {
			batch = append(batch, isequencer.SeqValue{Key: keyOf[k], Value: isequencer.Number(e.Vals[k])})
		}
		in.mu.Lock()
		in.scanCur = e.Off
		in.mu.Unlock()
		if err := batcher(ctx, batch, isequencer.PLogOffset(e.Off)); err != nil {
			return err
		}
	}
	return nil
}

// ---- the driver ----

type driver struct {
	w       *world
	in      *inc
	cap     int
	max     int
	acts    []string // emitted model actions (Coq terms)
	moves   []string // executed moves (for replay)
	clock   *kit.Clock
	flLoc   string // none | select | <point>
	actLoc  string // none | blocked-stop | <point>
	sig     bool
	cancel  bool
	txn     bool
	ws      int
	maxErrs int
	issued  map[int]uint64
	nextOff uint64 // offset returned by the last successful Start
	errs    int    // injected failures so far (each costs a real 500 ms retry delay)
	tags    map[string]bool
	// arguments of the flusher's write as last reported by FSnapshot
	snapVals string
	snapOff  uint64
}

func kmapCoq(m map[int]uint64) string {
	keys := make([]int, 0, len(m))
	for k := range m {
		keys = append(keys, k)
	}
	sort.Ints(keys)
	items := make([]string, len(keys))
	for i, k := range keys {
		items[i] = fmt.Sprintf("(%d, %d)", k, m[k])
	}
	return kit.List(items)
}

func (d *driver) emit(a string) { d.acts = append(d.acts, a) }

// emitSnapshot: the arguments of the storage write the flusher is about to make
func (d *driver) emitSnapshot() {
	d.in.mu.Lock()
	d.snapVals, d.snapOff = kmapCoq(d.in.lastBatch), d.in.lastOff
	d.in.mu.Unlock()
	d.emit(fmt.Sprintf("FSnapshot %s %d", d.snapVals, d.snapOff))
}

func (d *driver) newIncarnation() {
	in := &inc{w: d.w, arrivals: make(chan arrival, 4), early: map[string]arrival{}, gates: map[string]chan struct{}{"flusher": make(chan struct{}), "act": make(chan struct{})}, clock: d.clock}
	in.real = appparts.VerifNewSeqStorage(1, 7, nil, nil, vvmstorage.NewVVMSeqStorageAdapter(&kit.Wrap{Inner: d.w.stg, Before: in.before}))
	d.in = in
	current.Store(in)
	params := isequencer.Params{
		SeqTypes:                          map[isequencer.WSKind]map[isequencer.SeqID]isequencer.Number{1: {1: 1, 2: 1}},
		MaxNumUnflushedValues:             d.max,
		LRUCacheSize:                      d.cap,
		BatcherDelayOnToBeFlushedOverflow: 5 * time.Millisecond,
	}
	in.seq, in.cleanup = isequencer.New(params, in, d.clock)
	d.flLoc, d.actLoc, d.sig, d.cancel, d.txn = "none", "", false, false, false
	d.issued = map[int]uint64{}
	// New() calls Actualize(): the actualizer goroutine parks at its first point
	d.expect("act", "seq.act.start")
	d.actLoc = "seq.act.start"
}

func (d *driver) expect(role string, points ...string) string {
	check := func(a arrival) string {
		for _, p := range points {
			if p == a.point {
				return a.point
			}
		}
		panic(fmt.Sprintf("expected %s at %v, got it at %s", role, points, a.point))
	}
	if a, ok := d.in.early[role]; ok {
		delete(d.in.early, role)
		return check(a)
	}
	for {
		select {
		case a := <-d.in.arrivals:
			if a.role == role {
				return check(a)
			}
			// the other goroutine reached its next point first (e.g. the batcher signals the flusher
			// before it parks itself): it stays parked there; keep its arrival for the expect that asks for it
			if _, dup := d.in.early[a.role]; dup {
				panic(fmt.Sprintf("expected %s at %v, got %s at %s twice", role, points, a.role, a.point))
			}
			d.in.early[a.role] = a
		case <-time.After(8 * time.Second):
			panic(fmt.Sprintf("timeout: expected %s at %v", role, points))
		}
	}
}

func (d *driver) release(role string) { d.in.gates[role] <- struct{}{} }

// settle performs the transitions that happen by themselves: a flusher waiting in its select
// consumes a pending signal at once; a cancelled flusher in its select exits, which lets an
// actualizer blocked in stopFlusher() proceed.
func (d *driver) settle() {
	for {
		switch {
		case d.flLoc == "select" && d.cancel:
			d.emit("FExit")
			d.flLoc = "none"
		case d.flLoc == "select" && d.sig:
			d.expect("flusher", "seq.flusher.woken")
			d.emit("FWake")
			d.sig, d.flLoc = false, "seq.flusher.woken"
		case d.flLoc == "none" && d.actLoc == "blocked-stop":
			d.arrive("blocked-stop", d.anyAct())
		default:
			return
		}
	}
}

// applicable moves in the current state
func (d *driver) enabled() []string {
	var ms []string
	if !d.txn {
		ms = append(ms, "start:1", "start:2")
	} else {
		ms = append(ms, "next:1", "next:2", "flush")
		if d.errs < d.maxErrs {
			ms = append(ms, "next:1:rf", "next:2:rf")
		}
		if d.actLoc == "none" {
			ms = append(ms, "actualize", "actualize-after-append")
		}
	}
	errOK := d.errs < d.maxErrs
	switch d.flLoc {
	case "none", "select":
	case "st.write.enter":
		ms = append(ms, "fl:ok")
		if errOK {
			ms = append(ms, "fl:err", "fl:errmid")
		}
	case "st.write.mid":
		ms = append(ms, "fl")
	default:
		ms = append(ms, "fl")
	}
	switch d.actLoc {
	case "none", "blocked-stop", "":
	case "st.readoff.enter", "st.scan.next":
		ms = append(ms, "act:ok")
		if errOK {
			ms = append(ms, "act:err")
		}
	default:
		ms = append(ms, "act")
	}
	ms = append(ms, "crash")
	return ms
}

func (d *driver) do(m string) error {
	d.moves = append(d.moves, m)
	if debug {
		fmt.Fprintf(os.Stderr, "move %d %s (fl=%s act=%s sig=%v cancel=%v txn=%v timers=%d)\n", len(d.moves), m, d.flLoc, d.actLoc, d.sig, d.cancel, d.txn, d.clock.PendingTimers())
	}
	switch {
	case strings.HasPrefix(m, "start:"):
		var ws int
		fmt.Sscanf(m, "start:%d", &ws)
		off, ok := d.in.seq.Start(1, isequencer.WSID(ws))
		d.emit(fmt.Sprintf("CStart %s %d", kit.Bool(ok), off))
		if ok {
			d.txn, d.ws, d.nextOff, d.issued = true, ws, uint64(off), map[int]uint64{}
		} else if d.actLoc == "none" {
			d.sig = true // refused because of too many unflushed values: Start signals the flusher
		}
	case strings.HasPrefix(m, "next:"):
		var sq int
		fmt.Sscanf(m, "next:%d", &sq)
		k := (d.ws-1)*2 + (sq - 1)
		if strings.HasSuffix(m, ":rf") {
			// the first read of the number from the storage (if this Next gets that far) fails;
			// Next retries it (a real 500 ms delay)
			d.in.failGets.Store(1)
		}
		n, err := d.in.seq.Next(isequencer.SeqID(sq))
		d.in.failGets.Store(0)
		if d.in.failedGet.Swap(0) > 0 {
			d.errs++
			d.tags["number-read-failed"] = true
		}
		if err != nil {
			return err
		}
		d.issued[k] = uint64(n)
		d.emit(fmt.Sprintf("CNext %d %d", k, n))
	case m == "flush":
		d.appendEvent()
		d.in.seq.Flush()
		d.emit("CFlush")
		d.txn, d.sig = false, true
	case m == "actualize", m == "actualize-after-append":
		if m == "actualize-after-append" {
			d.appendEvent()
		}
		d.in.seq.Actualize()
		d.emit("CActualize")
		d.txn = false
		d.expect("act", "seq.act.start")
		d.actLoc = "seq.act.start"
	case strings.HasPrefix(m, "fl"):
		if err := d.stepFlusher(m); err != nil {
			return err
		}
	case strings.HasPrefix(m, "act"):
		if err := d.stepActualizer(m); err != nil {
			return err
		}
	case m == "crash":
		d.crash()
		d.emit("Crash")
		d.newIncarnation()
	default:
		return fmt.Errorf("unknown move %q", m)
	}
	d.settle()
	return nil
}

func (d *driver) appendEvent() {
	vals := map[int]uint64{}
	for k, v := range d.issued {
		vals[k] = v
	}
	d.in.mu.Lock()
	d.w.log = append(d.w.log, event{Off: d.nextOff, Vals: vals})
	d.in.mu.Unlock()
	d.emit(fmt.Sprintf("EAppend %d %s", d.nextOff, kmapCoq(vals)))
}

func (d *driver) stepFlusher(m string) error {
	switch d.flLoc {
	case "seq.flusher.woken":
		d.release("flusher")
		p := d.expect("flusher", "seq.flusher.skip", "st.write.enter")
		if p == "seq.flusher.skip" {
			d.emit("FSkip")
		} else {
			d.emitSnapshot()
		}
		d.flLoc = p
	case "seq.flusher.skip", "seq.flusher.removed":
		d.release("flusher")
		d.flLoc = "select"
	case "st.write.enter":
		// the numbers write (PutBatch) is about to happen
		out := strings.TrimPrefix(m, "fl:")
		if out == "fl" {
			out = "ok"
		}
		d.in.writeOutcome = out
		d.release("flusher")
		if out == "err" {
			d.errs++
		} else {
			d.emit("FWriteNums")
		}
		d.afterWrite(out == "err")
	case "st.write.mid":
		// the offset write (Put) is about to happen
		d.release("flusher")
		failed := d.in.writeOutcome == "errmid"
		if failed {
			d.errs++
		} else {
			d.emit("FWriteOff")
		}
		d.afterWrite(failed)
	default:
		return fmt.Errorf("flusher cannot step from %q", d.flLoc)
	}
	return nil
}

// afterWrite: where the flusher shows up after a storage write tells what it made of the result
func (d *driver) afterWrite(failed bool) {
	p := d.expect("flusher", "st.write.enter", "st.write.mid", "seq.flusher.removed")
	switch p {
	case "st.write.enter":
		d.emit("FWriteErr") // a new attempt, after the retry delay
		// the retry must write what the flusher snapshotted: if the arguments of this attempt differ,
		// that is what gets persisted - show it to the model (which has no such step) and the oracle
		d.in.mu.Lock()
		same := d.in.lastOff == d.snapOff && kmapCoq(d.in.lastBatch) == d.snapVals
		d.in.mu.Unlock()
		if !same {
			d.emitSnapshot()
		}
	case "seq.flusher.removed":
		d.emit("FRemove")
	}
	d.flLoc = p
}

// arrive: the actualizer goroutine showed up at point p after leaving point from. What it did in
// between is told by where it is now, not by where the harness expected it: a tree that orders the
// actualizer's steps differently still yields a trace (one the model may refuse), not a dead harness.
func (d *driver) arrive(from, p string) {
	switch p {
	case "seq.act.flusherCancelled":
		d.emit("XStop")
		d.cancel = true
	case "seq.act.flusherStopped":
		d.emit("XStopped")
		d.sig = false
	case "seq.act.cleared":
		d.emit("XClear")
		d.flLoc, d.cancel = "select", false
	case "seq.batcher.overflow":
		d.emit("XBatchWait")
		d.sig = true
	case "seq.batcher.between":
		d.emit(fmt.Sprintf("XBatchOff %d", d.currentScanOffset()+1))
	case "seq.batcher.done":
		if from == "seq.batcher.between" {
			d.emit("XBatchVals")
		} else {
			d.emit(fmt.Sprintf("XBatchOff %d", d.currentScanOffset()+1))
		}
	}
	d.actLoc = p
}

// anyAct waits for the next point the actualizer goroutine parks at
func (d *driver) anyAct() string {
	if a, ok := d.in.early["act"]; ok {
		delete(d.in.early, "act")
		return a.point
	}
	for {
		select {
		case a := <-d.in.arrivals:
			if a.role == "act" {
				return a.point
			}
			if _, dup := d.in.early[a.role]; dup {
				panic(fmt.Sprintf("waiting for the actualizer, got %s at %s twice", a.role, a.point))
			}
			d.in.early[a.role] = a
		case <-time.After(8 * time.Second):
			panic("timeout: waiting for the actualizer's next point")
		}
	}
}

func (d *driver) stepActualizer(m string) error {
	from := d.actLoc
	switch from {
	case "none", "blocked-stop", "":
		return fmt.Errorf("actualizer cannot step from %q", from)
	case "seq.act.flusherCancelled":
		d.release("act")
		d.actLoc = "blocked-stop" // it waits for the flusher to exit: settle() completes it when the flusher is gone
		return nil
	case "st.readoff.enter":
		ok := m != "act:err"
		d.in.readOffOK = ok
		d.release("act")
		d.emit("XReadOff " + kit.Bool(ok))
		if !ok {
			d.errs++
		}
	case "st.scan.next":
		fail := m == "act:err"
		d.in.scanFail = fail
		d.release("act")
		if fail {
			d.errs++
			d.emit("XScanErr")
		}
	case "seq.batcher.overflow":
		armed := d.clock.Armed()
		d.release("act")
		// the batcher now arms its delay timer and waits on it: fire it
		for i := 0; d.clock.Armed() == armed && i < 80000; i++ {
			time.Sleep(100 * time.Microsecond)
		}
		d.clock.Advance(5 * time.Millisecond)
	case "seq.act.finishing":
		d.release("act")
		d.expect("act", "seq.act.finished") // the in-progress flag is cleared now
		d.emit("XDone")
		d.release("act")
		d.actLoc = "none"
		return nil
	default:
		d.release("act")
	}
	d.arrive(from, d.anyAct())
	return nil
}

// the offset of the event the batcher is working on = what the scripted storage is delivering
func (d *driver) currentScanOffset() uint64 {
	d.in.mu.Lock()
	defer d.in.mu.Unlock()
	return d.in.scanCur
}

func (d *driver) crash() {
	in := d.in
	if in == nil {
		return
	}
	passthrough.Store(true)
	in.dead.Store(true)
	close(in.gates["flusher"])
	close(in.gates["act"])
	// drain arrivals of goroutines that were about to park
	done := make(chan struct{})
	go func() {
		for {
			select {
			case <-in.arrivals:
			case <-done:
				return
			}
		}
	}()
	in.cleanup()
	close(done)
	passthrough.Store(false)
}

func init() {
	verifhook.SetCallback(hook)
}
