// Package c08: view records round-trip and partial-key reads (property C08).
// rig.go: generated view schemas built with the public appdef builder, the real istructsmem
// IViewRecords over a recording IAppStorage on mem / bbolt / cached storage.
package c08

import (
	"context"
	"fmt"

	"verifharness/kit"

	"github.com/voedger/voedger/pkg/appdef"
	"github.com/voedger/voedger/pkg/appdef/builder"
	"github.com/voedger/voedger/pkg/appdef/constraints"
	"github.com/voedger/voedger/pkg/isequencer"
	"github.com/voedger/voedger/pkg/istorage"
	"github.com/voedger/voedger/pkg/istructs"
	"github.com/voedger/voedger/pkg/istructsmem"
	payloads "github.com/voedger/voedger/pkg/itokens-payloads"
	"github.com/voedger/voedger/pkg/itokensjwt"
)

// kinds of fixed-size key fields: JSON name, appdef kind, Coq constructor
var kinds = []struct {
	Name string
	Kind appdef.DataKind
	Coq  string
	Bits uint
}{
	{"int8", appdef.DataKind_int8, "KI8", 8}, {"int16", appdef.DataKind_int16, "KI16", 16},
	{"int32", appdef.DataKind_int32, "KI32", 32}, {"int64", appdef.DataKind_int64, "KI64", 64},
	{"float32", appdef.DataKind_float32, "KF32", 32}, {"float64", appdef.DataKind_float64, "KF64", 64},
	{"bool", appdef.DataKind_bool, "KBool", 1}, {"recid", appdef.DataKind_RecordID, "KRecID", 64},
	{"qname", appdef.DataKind_QName, "KQName", 16},
}

func kindIdx(name string) int {
	for i, k := range kinds {
		if k.Name == name {
			return i
		}
	}
	panic("unknown kind " + name)
}

type viewSpec struct {
	PK  []string `json:"pk"`
	CC  []string `json:"cc"`
	Var string   `json:"var,omitempty"` // "" | "string" | "bytes": trailing variable-size clustering column
	// MaxLen constraint of the trailing column (0 = the builder's default, appdef.DefaultFieldMaxLength)
	VarMax int `json:"varmax,omitempty"`
	// MinLen constraint of the trailing column (0 = none)
	VarMin int `json:"varmin,omitempty"`
}

func (v viewSpec) coq(id uint64) string {
	ks := func(names []string) string {
		items := make([]string, len(names))
		for i, n := range names {
			items[i] = kinds[kindIdx(n)].Coq
		}
		return kit.List(items)
	}
	return fmt.Sprintf("mkSchema %d %s %s %s %d", id, ks(v.PK), ks(v.CC), kit.Bool(v.Var != ""), v.VarMin)
}

func lenConstraints(v viewSpec) (cc []appdef.IConstraint) {
	if v.VarMax > 0 {
		cc = append(cc, constraints.MaxLen(uint16(v.VarMax)))
	}
	if v.VarMin > 0 {
		cc = append(cc, constraints.MinLen(uint16(v.VarMin)))
	}
	return cc
}

func qn(name string) appdef.QName { return appdef.NewQName("verif", name) }

// values of QName-kind key fields are indices into this list (translated to the QNameID the
// application assigned when the Coq term is printed)
var qnCands = []string{"q0", "q1", "q2", "q3"}

var appName = istructs.AppQName_test1_app1

func buildAppDef(views []viewSpec) appdef.IAppDefBuilder {
	adb := builder.New()
	adb.AddPackage("verif", "verif.test/verif")
	ws := adb.AddWorkspace(qn("workspace"))
	ws.AddCDoc(qn("WSDesc"))
	ws.SetDescriptor(qn("WSDesc"))
	for _, q := range qnCands {
		ws.AddCDoc(qn(q))
	}
	for i, v := range views {
		vb := ws.AddView(qn(fmt.Sprintf("v%d", i)))
		for j, k := range v.PK {
			if k == "recid" {
				vb.Key().PartKey().AddRefField(fmt.Sprintf("p%d", j))
			} else {
				vb.Key().PartKey().AddField(fmt.Sprintf("p%d", j), kinds[kindIdx(k)].Kind)
			}
		}
		for j, k := range v.CC {
			if k == "recid" {
				vb.Key().ClustCols().AddRefField(fmt.Sprintf("c%d", j))
			} else {
				vb.Key().ClustCols().AddField(fmt.Sprintf("c%d", j), kinds[kindIdx(k)].Kind)
			}
		}
		switch v.Var {
		case "string":
			vb.Key().ClustCols().AddField("s", appdef.DataKind_string, lenConstraints(v)...)
		case "bytes":
			vb.Key().ClustCols().AddField("s", appdef.DataKind_bytes, lenConstraints(v)...)
		}
		vb.Value().AddField("n", appdef.DataKind_int64, true)
	}
	return adb
}

// one recorded call into IAppStorage, printed as a Coq `scall`
type recStorage struct {
	istorage.IAppStorage
	calls []string
}

func (r *recStorage) Put(pKey, cCols, value []byte) error {
	r.calls = append(r.calls, fmt.Sprintf("SPut %s %s", kit.Bytes(pKey), kit.Bytes(cCols)))
	return r.IAppStorage.Put(pKey, cCols, value)
}

func (r *recStorage) PutBatch(items []istorage.BatchItem) error {
	ks := make([]string, len(items))
	for i, it := range items {
		ks[i] = fmt.Sprintf("(%s, %s)", kit.Bytes(it.PKey), kit.Bytes(it.CCols))
	}
	r.calls = append(r.calls, "SPutBatch "+kit.List(ks))
	return r.IAppStorage.PutBatch(items)
}

func (r *recStorage) Get(pKey, cCols []byte, data *[]byte) (bool, error) {
	r.calls = append(r.calls, fmt.Sprintf("SGet %s %s", kit.Bytes(pKey), kit.Bytes(cCols)))
	return r.IAppStorage.Get(pKey, cCols, data)
}

func (r *recStorage) GetBatch(pKey []byte, items []istorage.GetBatchItem) error {
	// one entry per requested row: the grouping by partition follows Go map order and is not compared
	for _, it := range items {
		r.calls = append(r.calls, fmt.Sprintf("SGet %s %s", kit.Bytes(pKey), kit.Bytes(it.CCols)))
	}
	return r.IAppStorage.GetBatch(pKey, items)
}

func (r *recStorage) Read(ctx context.Context, pKey, start, finish []byte, cb istorage.ReadCallback) error {
	r.calls = append(r.calls, fmt.Sprintf("SRead %s %s %s", kit.Bytes(pKey), kit.Bytes(start), kit.Bytes(finish)))
	return r.IAppStorage.Read(ctx, pKey, start, finish, cb)
}

type oneStorage struct{ st istorage.IAppStorage }

func (p oneStorage) AppStorage(appdef.AppQName) (istorage.IAppStorage, error) { return p.st, nil }
func (p oneStorage) Prepare(any) error                                        { return nil }
func (p oneStorage) Run(context.Context)                                      {}
func (p oneStorage) Stop()                                                    {}

type rig struct {
	app     istructs.IAppStructs
	rec     *recStorage
	viewIDs []uint64
	qnIDs   []uint64
	cleanup func()
	kept    map[int]*keptBuilder // key builders kept for reuse, per view
}

func newRig(backend string, views []viewSpec) (*rig, error) {
	clock := kit.NewClock()
	inner := backend
	if backend == "cached" {
		inner = "mem"
	}
	if backend == "cached-bbolt" {
		inner = "bbolt"
	}
	st, cleanup, err := kit.NewBackend(inner, clock)
	if err != nil {
		return nil, err
	}
	if inner != backend {
		if st, err = kit.NewCached(st, clock, 64<<20); err != nil {
			cleanup()
			return nil, err
		}
	}
	rec := &recStorage{IAppStorage: st}
	cfgs := make(istructsmem.AppConfigsType, 1)
	cfg := cfgs.AddBuiltInAppConfig(appName, buildAppDef(views))
	cfg.SetNumAppWorkspaces(istructs.DefaultNumAppWorkspaces)
	p := istructsmem.Provide(cfgs, payloads.ProvideIAppTokensFactory(itokensjwt.TestTokensJWT()), oneStorage{rec}, isequencer.SequencesTrustLevel_0, nil)
	app, err := p.BuiltIn(appName)
	if err != nil {
		cleanup()
		return nil, err
	}
	r := &rig{app: app, rec: rec, cleanup: cleanup}
	for i := range views {
		id, err := app.QNameID(qn(fmt.Sprintf("v%d", i)))
		if err != nil {
			cleanup()
			return nil, err
		}
		r.viewIDs = append(r.viewIDs, uint64(id))
	}
	for _, q := range qnCands {
		id, err := app.QNameID(qn(q))
		if err != nil {
			cleanup()
			return nil, err
		}
		r.qnIDs = append(r.qnIDs, uint64(id))
	}
	return r, nil
}
