package c08

import "verifharness/kit"

func init() {
	kit.Register("C08", kit.Runner{
		Generate: func(seed uint64, n int, tier, corpus string, shard int, out *kit.Out) error {
			return Generate(seed, n, tier, corpus, out)
		},
		Replay: Replay,
	})
}
