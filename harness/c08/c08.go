package c08

import (
	"context"
	"encoding/hex"
	"errors"
	"fmt"
	"math"
	"sort"
	"strings"

	"verifharness/kit"

	"github.com/voedger/voedger/pkg/istructs"
	"github.com/voedger/voedger/pkg/istructsmem"
)

// keySpec: what is put into a key builder.  P/C hold one entry per declared field (null = the
// field is not set), as the unsigned bit pattern of the value (two's complement for ints, IEEE
// bits for floats, 0/1 for bool, index into qnCands for QName).  V = the trailing string/bytes
// column in hex ("" = not set).
type keySpec struct {
	P []*uint64 `json:"p"`
	C []*uint64 `json:"c"`
	V string    `json:"v,omitempty"`
}

type item struct {
	View int     `json:"view"`
	Key  keySpec `json:"key"`
	Val  uint64  `json:"val,omitempty"`
	// Reuse: fill the key builder kept from the previous operation on this view instead of a fresh one
	Reuse bool `json:"reuse,omitempty"`
}

type op struct {
	Op    string   `json:"op"` // put | putbatch | get | getbatch | read
	View  int      `json:"view,omitempty"`
	WS    uint64   `json:"ws"`
	Key   *keySpec `json:"key,omitempty"`
	Val   uint64   `json:"val,omitempty"`
	Items []item   `json:"items,omitempty"`
	Reuse bool     `json:"reuse,omitempty"` // single-key operations: see item.Reuse
	Obs   any      `json:"observed,omitempty"`
}

type scenario struct {
	Backend string     `json:"backend"`
	Views   []viewSpec `json:"views"`
	Ops     []*op      `json:"ops"`
}

func u(x uint64) *uint64 { return &x }

func (r *rig) fieldVal(kind string, x uint64) uint64 {
	if kind == "qname" {
		return r.qnIDs[int(x)%len(r.qnIDs)]
	}
	return x
}

func (r *rig) keyCoq(v viewSpec, k keySpec) string {
	side := func(ks []string, vals []*uint64) string {
		items := make([]string, len(vals))
		for i, p := range vals {
			if p == nil {
				items[i] = "None"
			} else {
				items[i] = fmt.Sprintf("Some %d", r.fieldVal(ks[i], *p))
			}
		}
		return kit.List(items)
	}
	vb, _ := hex.DecodeString(k.V)
	return fmt.Sprintf("(mkKey %s %s %s)", side(v.PK, k.P), side(v.CC, k.C), kit.Bytes(vb))
}

// fill sets the given fields on a key builder with the Put method of the field's kind
func (r *rig) fill(kb istructs.IKeyBuilder, v viewSpec, k keySpec) {
	put := func(name, kind string, x uint64) {
		switch kind {
		case "int8":
			kb.PutInt8(name, int8(uint8(x)))
		case "int16":
			kb.PutInt16(name, int16(uint16(x)))
		case "int32":
			kb.PutInt32(name, int32(uint32(x)))
		case "int64":
			kb.PutInt64(name, int64(x))
		case "float32":
			kb.PutFloat32(name, math.Float32frombits(uint32(x)))
		case "float64":
			kb.PutFloat64(name, math.Float64frombits(x))
		case "bool":
			kb.PutBool(name, x != 0)
		case "recid":
			kb.PutRecordID(name, istructs.RecordID(x))
		case "qname":
			kb.PutQName(name, qn(qnCands[int(x)%len(qnCands)]))
		}
	}
	for i, p := range k.P {
		if p != nil {
			put(fmt.Sprintf("p%d", i), v.PK[i], *p)
		}
	}
	for i, p := range k.C {
		if p != nil {
			put(fmt.Sprintf("c%d", i), v.CC[i], *p)
		}
	}
	if k.V != "" {
		vb, _ := hex.DecodeString(k.V)
		if v.Var == "string" {
			kb.PutString("s", string(vb))
		} else {
			kb.PutBytes("s", vb)
		}
	}
}

// readBack extracts the declared fields of a key handed to a Read callback, as bit patterns
func (r *rig) readBack(key istructs.IKey, v viewSpec) (p, c []uint64, s []byte) {
	get := func(name, kind string) uint64 {
		switch kind {
		case "int8":
			return uint64(uint8(key.AsInt8(name)))
		case "int16":
			return uint64(uint16(key.AsInt16(name)))
		case "int32":
			return uint64(uint32(key.AsInt32(name)))
		case "int64":
			return uint64(key.AsInt64(name))
		case "float32":
			return uint64(math.Float32bits(key.AsFloat32(name)))
		case "float64":
			return math.Float64bits(key.AsFloat64(name))
		case "bool":
			if key.AsBool(name) {
				return 1
			}
			return 0
		case "recid":
			return uint64(key.AsRecordID(name))
		case "qname":
			id, err := r.app.QNameID(key.AsQName(name))
			if err != nil {
				return 1 << 40
			}
			return uint64(id)
		}
		return 0
	}
	for i, k := range v.PK {
		p = append(p, get(fmt.Sprintf("p%d", i), k))
	}
	for i, k := range v.CC {
		c = append(c, get(fmt.Sprintf("c%d", i), k))
	}
	switch v.Var {
	case "string":
		s = []byte(key.AsString("s"))
	case "bytes":
		s = append([]byte{}, key.AsBytes("s")...)
	}
	return
}

func nlist(xs []uint64) string {
	items := make([]string, len(xs))
	for i, x := range xs {
		items[i] = fmt.Sprintf("%d", x)
	}
	return kit.List(items)
}

// 0 ok, 1 key rejected by validation (missing field / hole / empty), 2 record not found, 9 other
func errCode(err error) int {
	var ve istructsmem.ValidateError
	switch {
	case err == nil:
		return 0
	case errors.Is(err, istructs.ErrRecordNotFound):
		return 2
	case errors.As(err, &ve) && ve.Code() == istructsmem.ECode_EmptyData:
		return 1
	}
	return 9
}

func gres(code int, n uint64) string {
	switch code {
	case 0:
		return fmt.Sprintf("GVal %d", n)
	case 2:
		return "GNone"
	case 1:
		return "GInvalid"
	}
	return "GOther"
}

type obsRow struct {
	P []uint64 `json:"p"`
	C []uint64 `json:"c"`
	S string   `json:"s,omitempty"`
	N uint64   `json:"n"`
}

// safely: the key builders panic on misuse; a panic is an observable outcome (code 9), not a crash of the harness
func safely(f func() error) (err error) {
	defer func() {
		if p := recover(); p != nil {
			err = fmt.Errorf("panic: %v", p)
		}
	}()
	return f()
}

// run executes one scenario on a fresh storage and returns the Coq trace term
func run(sc *scenario) (coq string, tags []string, err error) {
	r, err := newRig(sc.Backend, sc.Views)
	if err != nil {
		return "", nil, err
	}
	defer r.cleanup()
	vr := r.app.ViewRecords()
	tagset := map[string]bool{"backend:" + sc.Backend: true}
	if strings.Contains(sc.Backend, "bbolt") {
		tagset["nullkey-backend"] = true
	}
	vname := func(i int) string { return fmt.Sprintf("v%d", i) }
	var terms []string
	for _, o := range sc.Ops {
		r.rec.calls = nil
		ws := istructs.WSID(o.WS)
		longest := 0
		if o.Key != nil {
			longest = len(o.Key.V) / 2
		}
		for _, it := range o.Items {
			longest = max(longest, len(it.Key.V)/2)
		}
		if longest > 255 {
			tagset["long:trailing>255:"+o.Op] = true
		}
		if longest > 500 { // pKey+cCols certainly beyond 512 bytes
			tagset["long:key>512:"+o.Op] = true
		}
		inUse := map[int]bool{} // views whose kept builder already serves an item of this call
		switch o.Op {
		case "put":
			v := sc.Views[o.View]
			e := safely(func() error {
				kb := r.builder(vr, sc, o.View, o.WS, *o.Key, o.Reuse, inUse, tagset)
				vb := vr.NewValueBuilder(qn(vname(o.View)))
				vb.PutInt64("n", int64(o.Val))
				return vr.Put(ws, kb, vb)
			})
			code := errCode(e)
			o.Obs = map[string]any{"code": code, "err": fmt.Sprint(e)}
			terms = append(terms, fmt.Sprintf("OPut %d %d %s %d %d %s", o.View, o.WS, r.keyCoq(v, *o.Key), o.Val, code, kit.List(r.rec.calls)))
			tagset[fmt.Sprintf("put:%d", code)] = true
		case "putbatch":
			var its []string
			e := safely(func() error {
				var batch []istructs.ViewKV
				for _, it := range o.Items {
					kb := r.builder(vr, sc, it.View, o.WS, it.Key, it.Reuse, inUse, tagset)
					vb := vr.NewValueBuilder(qn(vname(it.View)))
					vb.PutInt64("n", int64(it.Val))
					batch = append(batch, istructs.ViewKV{Key: kb, Value: vb})
				}
				return vr.PutBatch(ws, batch)
			})
			for _, it := range o.Items {
				its = append(its, fmt.Sprintf("(%d, %s, %d)", it.View, r.keyCoq(sc.Views[it.View], it.Key), it.Val))
			}
			code := errCode(e)
			o.Obs = map[string]any{"code": code, "err": fmt.Sprint(e)}
			terms = append(terms, fmt.Sprintf("OPutBatch %d %s %d %s", o.WS, kit.List(its), code, kit.List(r.rec.calls)))
			tagset[fmt.Sprintf("putbatch:%d", code)] = true
			if n := len(o.Items); n >= 255 {
				tagset["putbatch:rows>=255"] = true
				if n%256 == 0 {
					tagset["putbatch:rows%256=0"] = true
				}
			}
		case "get":
			v := sc.Views[o.View]
			var n uint64
			e := safely(func() error {
				kb := r.builder(vr, sc, o.View, o.WS, *o.Key, o.Reuse, inUse, tagset)
				val, err := vr.Get(ws, kb)
				if err == nil {
					n = uint64(val.AsInt64("n"))
				}
				return err
			})
			code := errCode(e)
			o.Obs = map[string]any{"code": code, "n": n, "err": fmt.Sprint(e)}
			terms = append(terms, fmt.Sprintf("OGet %d %d %s (%s) %s", o.View, o.WS, r.keyCoq(v, *o.Key), gres(code, n), kit.List(r.rec.calls)))
			tagset[fmt.Sprintf("get:%d", code)] = true
		case "getbatch":
			var its, res []string
			var obs []any
			e := safely(func() error {
				batch := make([]istructs.ViewRecordGetBatchItem, len(o.Items))
				for i, it := range o.Items {
					batch[i].Key = r.builder(vr, sc, it.View, o.WS, it.Key, it.Reuse, inUse, tagset)
				}
				if err := vr.GetBatch(ws, batch); err != nil {
					return err
				}
				for _, b := range batch {
					if b.Ok {
						n := uint64(b.Value.AsInt64("n"))
						res = append(res, fmt.Sprintf("GVal %d", n))
						obs = append(obs, n)
					} else {
						res = append(res, "GNone")
						obs = append(obs, nil)
					}
				}
				return nil
			})
			for _, it := range o.Items {
				its = append(its, fmt.Sprintf("(%d, %s)", it.View, r.keyCoq(sc.Views[it.View], it.Key)))
			}
			code := errCode(e)
			// the storage is asked partition by partition in Go map order: compare as a sorted list
			calls := append([]string{}, r.rec.calls...)
			sort.Strings(calls)
			o.Obs = map[string]any{"code": code, "items": obs, "err": fmt.Sprint(e)}
			terms = append(terms, fmt.Sprintf("OGetBatch %d %s %d %s %s", o.WS, kit.List(its), code, kit.List(res), kit.List(calls)))
			tagset[fmt.Sprintf("getbatch:%d", code)] = true
			switch n := len(o.Items); {
			case n > 16:
				tagset["getbatch:keys>16"] = true
			case n > 8:
				tagset["getbatch:keys>8"] = true
			}
		case "read":
			v := sc.Views[o.View]
			var rows []obsRow
			var rterms []string
			e := safely(func() error {
				kb := r.builder(vr, sc, o.View, o.WS, *o.Key, o.Reuse, inUse, tagset)
				return vr.Read(context.Background(), ws, kb, func(key istructs.IKey, value istructs.IValue) error {
					p, c, s := r.readBack(key, v)
					n := uint64(value.AsInt64("n"))
					rows = append(rows, obsRow{P: p, C: c, S: hex.EncodeToString(s), N: n})
					rterms = append(rterms, fmt.Sprintf("mkRRow %s %s %s %d", nlist(p), nlist(c), kit.Bytes(s), n))
					return nil
				})
			})
			code := errCode(e)
			o.Obs = map[string]any{"code": code, "rows": rows, "err": fmt.Sprint(e)}
			terms = append(terms, fmt.Sprintf("ORead %d %d %s %d %s %s", o.View, o.WS, r.keyCoq(v, *o.Key), code, kit.List(rterms), kit.List(r.rec.calls)))
			tagset[fmt.Sprintf("read:%d", code)] = true
			// finding F2 seen through views, recognised from the observed outcome alone: a stored row
			// cannot be loaded (its clustering columns came back shorter than the fixed columns) or
			// comes back with no clustering value at all
			if code == 9 && strings.Contains(fmt.Sprint(e), "unexpected EOF") {
				tagset["F2:view-row-ccols-00-unreadable"] = true
			}
			for _, row := range rows {
				if len(row.C) == 0 && row.S == "" {
					tagset["F2:view-row-ccols-00-unreadable"] = true
				}
			}
			// finding F24, recognised from the request and the observed refusal alone: the prefix given
			// for the trailing column is shorter than the column's MinLen and the read is refused
			// with a constraint violation
			if code == 9 && o.Key.V != "" && len(o.Key.V)/2 < v.VarMin && strings.Contains(fmt.Sprint(e), "constraint violation") {
				tagset["F24:prefix-shorter-than-minlen-refused"] = true
			}
			if code == 0 {
				nset := 0
				for _, p := range o.Key.C {
					if p != nil {
						nset++
					}
				}
				switch {
				case o.Key.V != "":
					tagset["partial:var-prefix"] = true
					if strings.HasSuffix(o.Key.V, "ff") {
						tagset["partial:var-prefix-ends-ff"] = true
					}
				case nset == len(o.Key.C):
					tagset["partial:all-fixed"] = true
				case nset == 0:
					tagset["partial:none"] = true
				default:
					tagset["partial:some-fixed"] = true
				}
				if len(rows) > 1 {
					tagset["read:multi-row"] = true
				}
				// finding F22, recognised from the request and the observed rows alone: the trailing
				// prefix ends in 0xff and a returned row does not carry the requested leading values
				if strings.HasSuffix(o.Key.V, "ff") && overread(*o.Key, r, v, rows) {
					tagset["F22:row-outside-partial-key-ending-ff"] = true
				}
			}
		default:
			return "", nil, fmt.Errorf("unknown op %q", o.Op)
		}
		// a builder that was refused (validation / constraint error) is not used again
		if m, ok := o.Obs.(map[string]any); ok {
			if c, _ := m["code"].(int); c == 1 || c == 9 {
				r.kept = map[int]*keptBuilder{}
			}
		}
	}
	var vs []string
	for i, v := range sc.Views {
		vs = append(vs, v.coq(r.viewIDs[i]))
	}
	for t := range tagset {
		tags = append(tags, t)
	}
	sort.Strings(tags)
	nullkey := strings.Contains(sc.Backend, "bbolt")
	return fmt.Sprintf("mkTrace %s %s %s", kit.Bool(nullkey), kit.List(vs), kit.List(terms)), tags, nil
}

// overread: some returned row does not carry the requested leading clustering values
func overread(k keySpec, r *rig, v viewSpec, rows []obsRow) bool {
	for _, row := range rows {
		for i, p := range k.C {
			if p != nil && i < len(row.C) && row.C[i] != r.fieldVal(v.CC[i], *p) {
				return true
			}
		}
		if k.V != "" && !strings.HasPrefix(row.S, k.V) {
			return true
		}
	}
	return false
}

// keptBuilder: the key builder last used for a view, what it holds and where it was used
type keptBuilder struct {
	kb  istructs.IKeyBuilder
	key keySpec
	ws  uint64
}

// holds: every field set in old is set in k (a builder cannot un-set a fixed-size field, so the
// builder is re-filled only when the new key gives a value for everything it already holds)
func covers(k, old keySpec) bool {
	for i, p := range old.P {
		if p != nil && (i >= len(k.P) || k.P[i] == nil) {
			return false
		}
	}
	for i, p := range old.C {
		if p != nil && (i >= len(k.C) || k.C[i] == nil) {
			return false
		}
	}
	return old.V == "" || k.V != ""
}

func sameVals(a, b []*uint64) bool {
	if len(a) != len(b) {
		return false
	}
	for i := range a {
		if (a[i] == nil) != (b[i] == nil) || (a[i] != nil && *a[i] != *b[i]) {
			return false
		}
	}
	return true
}

// builder returns a key builder holding exactly the key k: the one kept for the view, re-filled
// over its old values, when reuse is asked for and possible; a fresh one otherwise
func (r *rig) builder(vr istructs.IViewRecords, sc *scenario, view int, ws uint64, k keySpec, reuse bool, inUse map[int]bool, tagset map[string]bool) istructs.IKeyBuilder {
	v := sc.Views[view]
	if old := r.kept[view]; reuse && old != nil && !inUse[view] && covers(k, old.key) {
		inUse[view] = true
		tagset["builder:reused"] = true
		pk, cc := !sameVals(k.P, old.key.P), !sameVals(k.C, old.key.C) || k.V != old.key.V
		switch {
		case ws != old.ws:
			tagset["builder:reused-other-ws"] = true
		case pk && cc:
			tagset["builder:reused-pk-and-cc-changed"] = true
		case pk:
			tagset["builder:reused-pk-changed"] = true
		case cc:
			tagset["builder:reused-cc-changed"] = true
		default:
			tagset["builder:reused-same-key"] = true
		}
		r.fill(old.kb, v, k)
		old.key, old.ws = cloneKey(k), ws
		return old.kb
	}
	kb := vr.KeyBuilder(qn(fmt.Sprintf("v%d", view)))
	r.fill(kb, v, k)
	if r.kept == nil {
		r.kept = map[int]*keptBuilder{}
	}
	r.kept[view] = &keptBuilder{kb: kb, key: cloneKey(k), ws: ws}
	inUse[view] = true
	return kb
}
