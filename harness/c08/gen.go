package c08

import (
	"encoding/json"
	"fmt"
	"hash/crc32"
	"os"
	"sort"
	"strings"

	"verifharness/kit"
)

// boundary bit patterns per width: zero, one, byte carries (0xff/0x100), sign change, all-ones
var pool = map[uint][]uint64{
	1:  {0, 1},
	8:  {0, 1, 2, 0x7e, 0x7f, 0x80, 0xfe, 0xff},
	16: {0, 1, 0xfe, 0xff, 0x100, 0x1ff, 0x7fff, 0x8000, 0xfeff, 0xff00, 0xfffe, 0xffff},
	32: {0, 1, 0xff, 0x100, 0xffff, 0x10000, 0x00ffffff, 0x01000000, 0x7fffffff, 0x80000000, 0xfffffffe, 0xffffffff},
	64: {0, 1, 0xff, 0x100, 0xffffffff, 0x100000000, 0x00ffffffffffffff, 0x0100000000000000, 0x7fffffffffffffff, 0x8000000000000000, 0xfffffffffffffffe, 0xffffffffffffffff},
}

// IEEE bit patterns: +0, -0, 1, next after 1, max finite, +inf, -inf, quiet NaNs (incl. all-ones)
var f32pool = []uint64{0, 0x80000000, 0x3f800000, 0x3f800001, 0x7f7fffff, 0x7f800000, 0xff800000, 0x7fc00000, 0xffffffff, 0x00ffffff, 0x01000000}
var f64pool = []uint64{0, 0x8000000000000000, 0x3ff0000000000000, 0x3ff0000000000001, 0x7fefffffffffffff, 0x7ff0000000000000, 0xfff0000000000000, 0x7ff8000000000000, 0xffffffffffffffff, 0x00ffffffffffffff, 0x0100000000000000}

// trailing column values (hex): prefixes of each other, byte-adjacent values, 0xff runs and their
// length-preserving successors (01ff -> 0200), zero bytes
var varPool = []string{"61", "6162", "616263", "6163", "62", "00", "0000", "01", "01ff", "01ff00", "01ffff", "02", "0200", "020000", "feff", "ff", "ff00", "ffff", "ffff00", "fffe"}

var wsPool = []uint64{1, 2, 255, 256, 0x7fffffffffffffff, 0xffffffffffffffff}

var fixedKinds = []string{"int8", "int16", "int32", "int64", "float32", "float64", "bool", "recid", "qname"}

func kindPool(kind string) []uint64 {
	switch kind {
	case "float32":
		return f32pool
	case "float64":
		return f64pool
	case "qname":
		return []uint64{0, 1, 2, 3}
	}
	return pool[kinds[kindIdx(kind)].Bits]
}

func mask(kind string) uint64 {
	b := kinds[kindIdx(kind)].Bits
	if b >= 64 {
		return ^uint64(0)
	}
	return 1<<b - 1
}

// fieldDomain: the few values one field takes in a scenario: a boundary value, its successor
// (adjacent keys v, v+1 with carries) and one more
func fieldDomain(r *kit.Rng, kind string) []uint64 {
	if kind == "qname" {
		return []uint64{0, 1, 2, 3}[:2+r.Intn(3)]
	}
	if kind == "bool" {
		return []uint64{0, 1}
	}
	p := kindPool(kind)
	v := kit.Pick(r, p)
	d := []uint64{v, (v + 1) & mask(kind)}
	if r.Bool() {
		d = append(d, kit.Pick(r, p))
	}
	if kind == "float32" || kind == "float64" {
		// stay within the listed patterns plus successors: arbitrary successors may be signalling NaNs
		d = []uint64{v, kit.Pick(r, p), kit.Pick(r, p)}
	}
	return d
}

func genView(r *kit.Rng) viewSpec {
	var v viewSpec
	for i, n := 0, 1+r.Intn(3); i < n; i++ {
		v.PK = append(v.PK, kit.Pick(r, fixedKinds))
	}
	nfix := 1 + r.Intn(4)
	if r.Chance(3, 5) {
		v.Var = kit.Pick(r, []string{"string", "bytes", "bytes"})
		nfix = r.Intn(4)
		if r.Chance(1, 6) { // MinLen on the trailing column: prefixes shorter than it are legitimate partial keys
			v.VarMin = 2 + r.Intn(2)
		}
	}
	for i := 0; i < nfix; i++ {
		k := kit.Pick(r, fixedKinds)
		if r.Chance(1, 2) {
			k = kit.Pick(r, []string{"int8", "int16", "int32", "bool"}) // short columns: more prefix collisions
		}
		v.CC = append(v.CC, k)
	}
	return v
}

type doms struct{ p, c [][]uint64 }

func pickKey(r *kit.Rng, v viewSpec, d doms) keySpec {
	var k keySpec
	for i := range v.PK {
		k.P = append(k.P, u(kit.Pick(r, d.p[i])))
	}
	for i := range v.CC {
		k.C = append(k.C, u(kit.Pick(r, d.c[i])))
	}
	if v.Var != "" {
		for k.V = kit.Pick(r, varPool); len(k.V)/2 < v.VarMin; {
			k.V = kit.Pick(r, varPool)
		}
	}
	return k
}

func cloneKey(k keySpec) keySpec {
	c := keySpec{V: k.V}
	for _, p := range k.P {
		if p == nil {
			c.P = append(c.P, nil)
		} else {
			c.P = append(c.P, u(*p))
		}
	}
	for _, p := range k.C {
		if p == nil {
			c.C = append(c.C, nil)
		} else {
			c.C = append(c.C, u(*p))
		}
	}
	return c
}

// partial keeps the first n clustering values; vprefix ("" = none) is the prefix given for the trailing column
func partial(k keySpec, n int, vprefix string) keySpec {
	c := cloneKey(k)
	for i := n; i < len(c.C); i++ {
		c.C[i] = nil
	}
	c.V = vprefix
	return c
}

// malform breaks a key in one of the ways validateViewKey must reject (or, for an empty trailing
// value, treat as not set)
func malform(r *kit.Rng, v viewSpec, k keySpec, forRead bool) keySpec {
	c := cloneKey(k)
	switch r.Intn(4) {
	case 0: // missing partition field
		c.P[r.Intn(len(c.P))] = nil
	case 1: // hole in the clustering columns
		if len(c.C) >= 1 && (len(c.C) >= 2 || v.Var != "") {
			i := r.Intn(len(c.C))
			if v.Var == "" && i == len(c.C)-1 {
				i--
			}
			c.C[i] = nil
		} else {
			c.P[0] = nil
		}
	case 2: // trailing column not set / empty
		if v.Var != "" {
			c.V = ""
		} else {
			c.C[len(c.C)-1] = nil
		}
	case 3: // nothing set at all
		for i := range c.P {
			c.P[i] = nil
		}
		for i := range c.C {
			c.C[i] = nil
		}
		c.V = ""
	}
	return c
}

func genScenario(r *kit.Rng, backend string, malformed bool) *scenario {
	sc := &scenario{Backend: backend}
	nv := 1 + r.Intn(3)
	for i := 0; i < nv; i++ {
		if i > 0 && r.Chance(1, 2) {
			sc.Views = append(sc.Views, sc.Views[0]) // same layout under another view name: isolation by view ID only
		} else {
			sc.Views = append(sc.Views, genView(r))
		}
	}
	ds := make([]doms, nv)
	for i, v := range sc.Views {
		for _, k := range v.PK {
			ds[i].p = append(ds[i].p, fieldDomain(r, k)[:1+r.Intn(2)])
		}
		for _, k := range v.CC {
			ds[i].c = append(ds[i].c, fieldDomain(r, k))
		}
	}
	wss := []uint64{kit.Pick(r, wsPool)}
	if r.Bool() {
		wss = append(wss, kit.Pick(r, wsPool))
	}
	type written struct {
		view int
		ws   uint64
		key  keySpec
	}
	var rows []written
	val := uint64(1 + r.Intn(1000))
	nput := 4 + r.Intn(9)
	for i := 0; i < nput; i++ {
		vi := 0
		if r.Chance(1, 3) {
			vi = r.Intn(nv)
		}
		ws := kit.Pick(r, wss)
		k := pickKey(r, sc.Views[vi], ds[vi])
		if malformed && r.Chance(1, 3) {
			bad := malform(r, sc.Views[vi], k, false)
			sc.Ops = append(sc.Ops, &op{Op: "put", View: vi, WS: ws, Key: &bad, Val: val})
			val++
			continue
		}
		if r.Chance(1, 4) {
			o := &op{Op: "putbatch", WS: ws}
			for j, m := 0, 1+r.Intn(3); j < m; j++ {
				vj := vi
				if r.Chance(1, 3) {
					vj = r.Intn(nv)
				}
				kj := pickKey(r, sc.Views[vj], ds[vj])
				if malformed && r.Chance(1, 6) {
					kj = malform(r, sc.Views[vj], kj, false)
				} else {
					rows = append(rows, written{vj, ws, kj})
				}
				o.Items = append(o.Items, item{View: vj, Key: kj, Val: val})
				val++
			}
			sc.Ops = append(sc.Ops, o)
		} else {
			kk := k
			sc.Ops = append(sc.Ops, &op{Op: "put", View: vi, WS: ws, Key: &kk, Val: val})
			rows = append(rows, written{vi, ws, k})
			val++
		}
		if r.Chance(1, 6) && len(rows) > 0 { // read-your-write in the middle of the history
			w := kit.Pick(r, rows)
			kk := w.key
			sc.Ops = append(sc.Ops, &op{Op: "get", View: w.view, WS: w.ws, Key: &kk})
		}
	}
	// point reads: written keys, the same key values in another workspace / view, unwritten keys
	for i, n := 0, 2+r.Intn(4); i < n && len(rows) > 0; i++ {
		w := kit.Pick(r, rows)
		kk := w.key
		switch r.Intn(4) {
		case 0:
			kk = pickKey(r, sc.Views[w.view], ds[w.view])
		case 1:
			w.ws = kit.Pick(r, wsPool)
		}
		if malformed && r.Chance(1, 3) {
			kk = malform(r, sc.Views[w.view], kk, false)
		}
		sc.Ops = append(sc.Ops, &op{Op: "get", View: w.view, WS: w.ws, Key: &kk})
	}
	if len(rows) > 0 {
		o := &op{Op: "getbatch", WS: kit.Pick(r, wss)}
		for j, m := 0, 1+r.Intn(4); j < m; j++ {
			w := kit.Pick(r, rows)
			kk := w.key
			if r.Chance(1, 4) {
				kk = pickKey(r, sc.Views[w.view], ds[w.view])
			}
			if malformed && r.Chance(1, 5) {
				kk = malform(r, sc.Views[w.view], kk, false)
			}
			o.Items = append(o.Items, item{View: w.view, Key: kk})
		}
		sc.Ops = append(sc.Ops, o)
	}
	// range reads: every partial-key length of view 0 (and sometimes of the others), values taken
	// from written rows or from the field domains; prefixes of the trailing column
	for vi, v := range sc.Views {
		if vi > 0 && !r.Chance(1, 3) {
			continue
		}
		for _, ws := range wss {
			for n := 0; n <= len(v.CC); n++ {
				base := pickKey(r, v, ds[vi])
				for _, w := range rows {
					if w.view == vi && r.Chance(1, 2) {
						base = w.key
						break
					}
				}
				kk := partial(base, n, "")
				if malformed && r.Chance(1, 4) {
					kk = malform(r, v, kk, true)
				}
				sc.Ops = append(sc.Ops, &op{Op: "read", View: vi, WS: ws, Key: &kk})
			}
			if v.Var != "" {
				for j, m := 0, 1+r.Intn(3); j < m; j++ {
					base := pickKey(r, v, ds[vi])
					for _, w := range rows {
						if w.view == vi && r.Chance(1, 2) {
							base = w.key
							break
						}
					}
					pre := base.V
					switch r.Intn(3) {
					case 0:
						pre = pre[:2*(1+r.Intn(len(pre)/2))]
					case 1:
						pre = kit.Pick(r, varPool)
					}
					kk := partial(base, len(v.CC), pre)
					sc.Ops = append(sc.Ops, &op{Op: "read", View: vi, WS: ws, Key: &kk})
				}
			}
		}
	}
	return sc
}

func loadScenario(path string) (*scenario, error) {
	b, err := os.ReadFile(path)
	if err != nil {
		return nil, err
	}
	var wrapper struct {
		Case struct {
			Desc *scenario `json:"desc"`
		} `json:"case"`
		Desc *scenario `json:"desc"`
	}
	var sc scenario
	if err := json.Unmarshal(b, &wrapper); err == nil && wrapper.Desc != nil && len(wrapper.Desc.Views) > 0 {
		sc = *wrapper.Desc
	} else if err == nil && wrapper.Case.Desc != nil && len(wrapper.Case.Desc.Views) > 0 {
		sc = *wrapper.Case.Desc
	} else if err := json.Unmarshal(b, &sc); err != nil {
		return nil, fmt.Errorf("%s: %w", path, err)
	}
	for _, o := range sc.Ops {
		o.Obs = nil
	}
	return &sc, nil
}

func emit(sc *scenario, out *kit.Out) error {
	coq, tags, err := run(sc)
	if err != nil {
		return err
	}
	out.Emit(kit.Case{Coq: coq, Key: shapeKey(sc), Nontrivial: nontrivial(sc), Desc: sc, Tags: tags})
	return nil
}

// Generate runs the corpus, then n generated scenarios round-robin over the backends
func Generate(seed uint64, n int, tier string, corpusDir string, out *kit.Out) error {
	r := kit.NewRng(seed)
	if corpusDir != "" {
		entries, _ := os.ReadDir(corpusDir)
		var names []string
		for _, e := range entries {
			if strings.HasSuffix(e.Name(), ".json") {
				names = append(names, e.Name())
			}
		}
		sort.Strings(names)
		for _, nm := range names {
			sc, err := loadScenario(corpusDir + "/" + nm)
			if err != nil {
				return err
			}
			if err := emit(sc, out); err != nil {
				return fmt.Errorf("%s: %w", nm, err)
			}
		}
	}
	backends := []string{"mem", "bbolt", "cached", "mem", "bbolt", "cached-bbolt"}
	for i := 0; i < n; i++ {
		cr := r.Fork()
		sc := genScenario(cr, backends[i%len(backends)], i%5 == 4)
		// long keys: a few per quick run (one per backend kind), one in twelve in the thorough tier
		every := 40
		if tier == "thorough" {
			every = 12
		}
		if i%10 == 7 { // batch reads with many keys per partition
			sc = genBatchScenario(cr, backends[(i/10)%len(backends)])
		}
		// big PutBatch calls: four per quick run (the first two always an exact multiple of 256 rows)
		bigEvery := 60
		if tier == "thorough" {
			bigEvery = 25
		}
		if i%bigEvery == bigEvery/2 {
			size := kit.Pick(cr, bigSizes)
			switch i / bigEvery {
			case 0:
				size = 256
			case 1:
				size = kit.Pick(cr, []int{512, 768})
			}
			sc = genBigBatchScenario(cr, backends[(i/bigEvery)%len(backends)], size)
		}
		if i%every == every-1 {
			sc = genLongScenario(cr, []string{"cached", "mem", "bbolt", "cached-bbolt", "cached"}[(i/every)%5])
		}
		// key builders are kept per view and re-filled over their old values: a third of the
		// operations of every scenario, all of them in every eighth scenario
		markReuse(cr, sc, i%8 == 3)
		if err := emit(sc, out); err != nil {
			return err
		}
	}
	return nil
}

func markReuse(r *kit.Rng, sc *scenario, all bool) {
	for _, o := range sc.Ops {
		if len(o.Items) > 300 {
			continue
		}
		o.Reuse = o.Key != nil && (all || r.Chance(1, 3))
		for i := range o.Items {
			o.Items[i].Reuse = all || r.Chance(1, 3)
		}
	}
}

func Replay(path string, out *kit.Out) error {
	sc, err := loadScenario(path)
	if err != nil {
		return err
	}
	return emit(sc, out)
}

// non-trivial: at least two rows written and a range read with a proper partial key issued;
// distinct = backend + view layouts + op shapes (which fields are set, trailing value)
func nontrivial(sc *scenario) bool {
	puts, partials := 0, 0
	for _, o := range sc.Ops {
		switch o.Op {
		case "put":
			puts++
		case "putbatch":
			puts += len(o.Items)
		case "read":
			partials++
		}
	}
	return puts >= 2 && partials >= 1
}

func shapeKey(sc *scenario) string {
	var sb strings.Builder
	sb.WriteString(sc.Backend)
	for _, v := range sc.Views {
		fmt.Fprintf(&sb, "|%s/%s/%s%d", strings.Join(v.PK, ","), strings.Join(v.CC, ","), v.Var, v.VarMax*10+v.VarMin)
	}
	ks := func(k keySpec) string {
		var s strings.Builder
		for _, p := range append(append([]*uint64{}, k.P...), k.C...) {
			if p == nil {
				s.WriteByte('-')
			} else {
				fmt.Fprintf(&s, "%x.", *p)
			}
		}
		if len(k.V) > 40 { // long trailing values: length, checksum and tail identify the shape
			return fmt.Sprintf("%s:%d/%08x/%s", s.String(), len(k.V)/2, crc32.ChecksumIEEE([]byte(k.V)), k.V[len(k.V)-6:])
		}
		return s.String() + ":" + k.V
	}
	for _, o := range sc.Ops {
		fmt.Fprintf(&sb, "|%s%d@%x", o.Op, o.View, o.WS)
		if o.Reuse {
			sb.WriteByte('~')
		}
		if o.Key != nil {
			sb.WriteString(ks(*o.Key))
		}
		for _, it := range o.Items {
			fmt.Fprintf(&sb, "+%d%s", it.View, ks(it.Key))
			if it.Reuse {
				sb.WriteByte('~')
			}
		}
	}
	return sb.String()
}
