// Package c08: harness of property C08 (registers itself with kit.Register in an init function).
package c08
