package c08

import (
	"encoding/hex"

	"verifharness/kit"

	"github.com/voedger/voedger/pkg/appdef"
)

// Long keys: views whose trailing string/bytes column has MaxLen 1024 or the largest the builder
// allows, and families of values of 200..1100 bytes that differ only in their last byte or only
// in length, placed so that len(pKey)+len(cCols) falls on and around 255/256 and 511/512/513
// (storage layers that size a key buffer by a constant are exercised on both sides of it).

var maxFieldLen = int(appdef.MaxFieldLength)

func kindBytes(kind string) int {
	if kind == "bool" {
		return 1
	}
	return int(kinds[kindIdx(kind)].Bits) / 8
}

// position-dependent filler, so that a shifted or truncated value is a different value
func longBytes(seed, n int) []byte {
	b := make([]byte, n)
	for i := range b {
		b[i] = byte('a' + (i*7+i/26+seed)%26)
	}
	return b
}

func genLongScenario(r *kit.Rng, backend string) *scenario {
	sc := &scenario{Backend: backend}
	v := viewSpec{
		PK:     []string{kit.Pick(r, []string{"int8", "int16", "int32", "int64"})},
		Var:    kit.Pick(r, []string{"string", "bytes"}),
		VarMax: kit.Pick(r, []int{1024, 1024, maxFieldLen}),
	}
	if r.Bool() {
		v.CC = []string{kit.Pick(r, []string{"int8", "int16", "int32"})}
	}
	sc.Views = []viewSpec{v}
	if r.Chance(1, 2) {
		sc.Views = append(sc.Views, v) // the same layout under another view id
	}
	hdr := 2 + 8 + kindBytes(v.PK[0])
	fix := 0
	for _, k := range v.CC {
		fix += kindBytes(k)
	}
	// total key lengths aimed at (pKey + cCols of the family's base value)
	totals := []int{kit.Pick(r, []int{255, 256, 257}), kit.Pick(r, []int{511, 512, 513, 514}), kit.Pick(r, []int{600, 777, 1000, hdr + fix + 1024})}
	if v.VarMax > 1024 && r.Bool() {
		totals[2] = hdr + fix + 1025 + r.Intn(80)
	}
	if r.Bool() {
		totals = totals[1:]
	}
	ws := kit.Pick(r, wsPool)
	ws2 := kit.Pick(r, wsPool)
	pv := kit.Pick(r, kindPool(v.PK[0]))
	var cv []*uint64
	for _, k := range v.CC {
		cv = append(cv, u(kit.Pick(r, kindPool(k))))
	}
	mk := func(s []byte) keySpec {
		k := keySpec{P: []*uint64{u(pv)}, V: hex.EncodeToString(s)}
		for _, c := range cv {
			k.C = append(k.C, u(*c))
		}
		return k
	}
	val := uint64(1 + r.Intn(1000))
	put := func(view int, w uint64, k keySpec) {
		kk := k
		sc.Ops = append(sc.Ops, &op{Op: "put", View: view, WS: w, Key: &kk, Val: val})
		val++
	}
	get := func(view int, w uint64, k keySpec) {
		kk := k
		sc.Ops = append(sc.Ops, &op{Op: "get", View: view, WS: w, Key: &kk})
	}
	read := func(view int, w uint64, k keySpec) {
		kk := k
		sc.Ops = append(sc.Ops, &op{Op: "read", View: view, WS: w, Key: &kk})
	}
	for ti, total := range totals {
		L := total - hdr - fix
		base := longBytes(r.Intn(26), L)
		x := kit.Pick(r, []byte{'A', 0xfd})
		last := func(c byte) []byte { b := append([]byte{}, base...); b[L-1] = c; return b }
		a, b, c := mk(last(x)), mk(last(x+1)), mk(last(x+2)) // differ only in the last byte; c is never written
		shorter := mk(base[:L-1])                            // a proper prefix of a, b and c
		longer := mk(append(last(x), 0))                     // a is a proper prefix of it
		put(0, ws, a)
		if r.Bool() {
			get(0, ws, a)
			get(0, ws, b)
		}
		if r.Bool() {
			put(0, ws, b)
		} else {
			bb := b
			sc.Ops = append(sc.Ops, &op{Op: "putbatch", WS: ws, Items: []item{{View: 0, Key: bb, Val: val}}})
			val++
		}
		if r.Bool() {
			put(0, ws, shorter)
		}
		hasLonger := L+1 <= v.VarMax && r.Bool()
		if hasLonger {
			put(0, ws, longer)
		}
		// the same key values in another workspace and under the other view id
		if r.Bool() {
			put(0, ws2, b)
		}
		if len(sc.Views) > 1 && r.Bool() {
			put(1, ws, c)
		}
		for _, k := range []keySpec{a, b, c, shorter} {
			get(0, ws, k)
		}
		if L+1 <= v.VarMax {
			get(0, ws, longer)
		}
		get(0, ws2, a)
		if len(sc.Views) > 1 {
			get(1, ws, a)
			get(1, ws, c)
		}
		gb := &op{Op: "getbatch", WS: ws}
		for _, k := range []keySpec{c, a, shorter, b} {
			gb.Items = append(gb.Items, item{View: 0, Key: k})
		}
		if len(sc.Views) > 1 {
			gb.Items = append(gb.Items, item{View: 1, Key: c}, item{View: 1, Key: b})
		}
		sc.Ops = append(sc.Ops, gb)
		if r.Bool() { // overwrite, then read again: the newest value under exactly that key
			put(0, ws, a)
			get(0, ws, a)
			get(0, ws, b)
		}
		// range reads: the full key used as a partial key, the common prefix, a half-length prefix
		read(0, ws, a)
		read(0, ws, shorter)
		if ti == 0 {
			read(0, ws, mk(base[:L/2]))
			read(0, ws, partial(a, len(v.CC), ""))
			if len(v.CC) > 0 {
				read(0, ws, partial(a, 0, ""))
			}
			if len(sc.Views) > 1 {
				read(1, ws, shorter)
			}
		}
	}
	return sc
}
