package c08

import "verifharness/kit"

// Batch reads: one GetBatch with 1..40 keys, most of them in one partition (adjacent clustering
// values, present and absent, repeated), some in other partitions, workspaces' neighbours and
// the other view id; the same keys are then read one by one.
func genBatchScenario(r *kit.Rng, backend string) *scenario {
	sc := &scenario{Backend: backend}
	ck := kit.Pick(r, []string{"int8", "int16", "int32", "int64", "recid"})
	v := viewSpec{PK: []string{kit.Pick(r, []string{"int8", "int32", "bool", "qname"})}, CC: []string{ck}}
	if r.Chance(1, 3) {
		v.CC = append([]string{kit.Pick(r, []string{"bool", "int8"})}, v.CC...)
	}
	if r.Chance(1, 3) {
		v.Var = kit.Pick(r, []string{"string", "bytes"})
	}
	sc.Views = []viewSpec{v}
	if r.Bool() {
		sc.Views = append(sc.Views, v)
	}
	ws := kit.Pick(r, wsPool)
	pd := fieldDomain(r, v.PK[0])
	p0, p1 := pd[0], pd[1]
	base := kit.Pick(r, kindPool(ck)) - uint64(r.Intn(4)) // runs across a byte carry / sign change
	n := 4 + r.Intn(44)
	key := func(p uint64, j int) keySpec {
		k := keySpec{P: []*uint64{u(p)}}
		if len(v.CC) == 2 {
			k.C = append(k.C, u(1))
		}
		k.C = append(k.C, u((base+uint64(j))&mask(ck)))
		if v.Var != "" {
			k.V = "6b"
		}
		return k
	}
	val := uint64(1 + r.Intn(1000))
	present := map[int]bool{}
	var pending []item
	flush := func() {
		if len(pending) > 0 {
			sc.Ops = append(sc.Ops, &op{Op: "putbatch", WS: ws, Items: pending})
			pending = nil
		}
	}
	for j := 0; j < n; j++ {
		if r.Chance(1, 4) {
			continue // absent
		}
		present[j] = true
		pending = append(pending, item{View: 0, Key: key(p0, j), Val: val})
		val++
		if r.Chance(1, 5) { // the neighbouring partition and the other view hold other rows under the same clustering values
			pending = append(pending, item{View: 0, Key: key(p1, j), Val: val})
			val++
		}
		if len(sc.Views) > 1 && r.Chance(1, 6) {
			pending = append(pending, item{View: 1, Key: key(p0, j), Val: val})
			val++
		}
		if len(pending) >= 12 {
			flush()
		}
	}
	flush()
	sizes := []int{1, 2, 7, 8, 9, 10, 15, 16, 17, 24, 32, 33, 40}
	for b, nb := 0, 2+r.Intn(3); b < nb; b++ {
		m := kit.Pick(r, sizes)
		gb := &op{Op: "getbatch", WS: ws}
		start := r.Intn(n)
		mode := r.Intn(4)
		for i := 0; i < m; i++ {
			j := (start + i) % (n + 2) // two values beyond the written run
			it := item{View: 0, Key: key(p0, j)}
			switch mode {
			case 1: // every fourth key from the neighbouring partition
				if i%4 == 3 {
					it.Key = key(p1, j)
				}
			case 2: // repeated keys
				if i%3 == 2 {
					it.Key = key(p0, (start+i-2)%(n+2))
				}
			case 3: // the other view id in between
				if len(sc.Views) > 1 && i%5 == 4 {
					it.View = 1
				}
			}
			gb.Items = append(gb.Items, it)
		}
		sc.Ops = append(sc.Ops, gb)
		// the same keys one by one (all of them for the first batch, a sample afterwards)
		for i, it := range gb.Items {
			if b == 0 || i%5 == 0 {
				kk := it.Key
				sc.Ops = append(sc.Ops, &op{Op: "get", View: it.View, WS: ws, Key: &kk})
			}
		}
	}
	kk := partial(key(p0, 0), len(v.CC)-1, "")
	sc.Ops = append(sc.Ops, &op{Op: "read", View: 0, WS: ws, Key: &kk})
	return sc
}

// Big batches: ONE PutBatch call of `size` rows (sizes on and around the multiples of 256), in one
// partition or spread over three, read back by single Gets at the portion boundaries, GetBatch
// chunks of at most 256 keys (the GetBatch limit) over all rows, and a Read of every partition
// (count and order are judged by the oracle; the raw storage call must be one PutBatch with
// exactly the rows given).
var bigSizes = []int{1, 2, 255, 256, 257, 511, 512, 513, 768, 1000}

func genBigBatchScenario(r *kit.Rng, backend string, size int) *scenario {
	sc := &scenario{Backend: backend}
	ck := kit.Pick(r, []string{"int16", "int32"})
	v := viewSpec{PK: []string{kit.Pick(r, []string{"int8", "int16"})}, CC: []string{ck}}
	sc.Views = []viewSpec{v}
	ws := kit.Pick(r, wsPool)
	nparts := kit.Pick(r, []int{1, 1, 3})
	base := kit.Pick(r, []uint64{0, 0xff, 0x7f00, 0xfe00}) // the run crosses byte carries (and the int16 sign change)
	key := func(j int) keySpec {
		return keySpec{P: []*uint64{u(uint64(1 + j%nparts))}, C: []*uint64{u((base + uint64(j)) & mask(ck))}}
	}
	// something older in the store: the first row is overwritten by the batch, a neighbour is not touched
	k0 := key(0)
	sc.Ops = append(sc.Ops, &op{Op: "put", View: 0, WS: ws, Key: &k0, Val: 7})
	kn := key(size + nparts)
	sc.Ops = append(sc.Ops, &op{Op: "put", View: 0, WS: ws, Key: &kn, Val: 8})
	pb := &op{Op: "putbatch", WS: ws}
	for j := 0; j < size; j++ {
		pb.Items = append(pb.Items, item{View: 0, Key: key(j), Val: uint64(1000 + j)})
	}
	sc.Ops = append(sc.Ops, pb)
	// single gets around the multiples of 256 and at both ends
	seen := map[int]bool{}
	for _, j := range []int{0, 1, 254, 255, 256, 257, 510, 511, 512, 513, 767, 768, size - 257, size - 256, size - 2, size - 1, size, size + nparts} {
		if j >= 0 && j <= size+nparts && !seen[j] {
			seen[j] = true
			kk := key(j)
			sc.Ops = append(sc.Ops, &op{Op: "get", View: 0, WS: ws, Key: &kk})
		}
	}
	// all rows by GetBatch, at most 256 keys per call
	for from := 0; from < size; from += 256 {
		gb := &op{Op: "getbatch", WS: ws}
		for j := from; j < size && j < from+256; j++ {
			gb.Items = append(gb.Items, item{View: 0, Key: key(j)})
		}
		sc.Ops = append(sc.Ops, gb)
	}
	for p := 0; p < nparts; p++ {
		kk := partial(key(p), 0, "")
		sc.Ops = append(sc.Ops, &op{Op: "read", View: 0, WS: ws, Key: &kk})
	}
	return sc
}
