package c08

import "verifharness/kit"

// Batch reads: one GetBatch with 1..40 keys, most of them in one partition (adjacent clustering
// values, present and absent, repeated), some in other partitions, workspaces' neighbours and
// the other view id; the same keys are then read one by one.
func genBatchScenario(r *kit.Rng, backend string) *scenario {
	sc := &scenario{Backend: backend}
	ck := kit.Pick(r, []string{"int8", "int16", "int32", "int64", "recid"})
	v := viewSpec{PK: []string{kit.Pick(r, []string{"int8", "int32", "bool", "qname"})}, CC: []string{ck}}
	if r.Chance(1, 3) {
		v.CC = append([]string{kit.Pick(r, []string{"bool", "int8"})}, v.CC...)
	}
	if r.Chance(1, 3) {
		v.Var = kit.Pick(r, []string{"string", "bytes"})
	}
	sc.Views = []viewSpec{v}
	if r.Bool() {
		sc.Views = append(sc.Views, v)
	}
	ws := kit.Pick(r, wsPool)
	pd := fieldDomain(r, v.PK[0])
	p0, p1 := pd[0], pd[1]
	base := kit.Pick(r, kindPool(ck)) - uint64(r.Intn(4)) // runs across a byte carry / sign change
	n := 4 + r.Intn(44)
	key := func(p uint64, j int) keySpec {
		k := keySpec{P: []*uint64{u(p)}}
		if len(v.CC) == 2 {
			k.C = append(k.C, u(1))
		}
		k.C = append(k.C, u((base+uint64(j))&mask(ck)))
		if v.Var != "" {
			k.V = "6b"
		}
		return k
	}
	val := uint64(1 + r.Intn(1000))
	present := map[int]bool{}
	var pending []item
	flush := func() {
		if len(pending) > 0 {
			sc.Ops = append(sc.Ops, &op{Op: "putbatch", WS: ws, Items: pending})
			pending = nil
		}
	}
	for j := 0; j < n; j++ {
		if r.Chance(1, 4) {
			continue // absent
		}
		present[j] = true
		pending = append(pending, item{View: 0, Key: key(p0, j), Val: val})
		val++
		if r.Chance(1, 5) { // the neighbouring partition and the other view hold other rows under the same clustering values
			pending = append(pending, item{View: 0, Key: key(p1, j), Val: val})
			val++
		}
		if len(sc.Views) > 1 && r.Chance(1, 6) {
			pending = append(pending, item{View: 1, Key: key(p0, j), Val: val})
			val++
		}
		if len(pending) >= 12 {
			flush()
		}
	}
	flush()
	sizes := []int{1, 2, 7, 8, 9, 10, 15, 16, 17, 24, 32, 33, 40}
	for b, nb := 0, 2+r.Intn(3); b < nb; b++ {
		m := kit.Pick(r, sizes)
		gb := &op{Op: "getbatch", WS: ws}
		start := r.Intn(n)
		mode := r.Intn(4)
		for i := 0; i < m; i++ {
			j := (start + i) % (n + 2) // two values beyond the written run
			it := item{View: 0, Key: key(p0, j)}
			switch mode {
			case 1: // every fourth key from the neighbouring partition
				if i%4 == 3 {
					it.Key = key(p1, j)
				}
			case 2: // repeated keys
				if i%3 == 2 {
					it.Key = key(p0, (start+i-2)%(n+2))
				}
			case 3: // the other view id in between
				if len(sc.Views) > 1 && i%5 == 4 {
					it.View = 1
				}
			}
			gb.Items = append(gb.Items, it)
		}
		sc.Ops = append(sc.Ops, gb)
		// the same keys one by one (all of them for the first batch, a sample afterwards)
		for i, it := range gb.Items {
			if b == 0 || i%5 == 0 {
				kk := it.Key
				sc.Ops = append(sc.Ops, &op{Op: "get", View: it.View, WS: ws, Key: &kk})
			}
		}
	}
	kk := partial(key(p0, 0), len(v.CC)-1, "")
	sc.Ops = append(sc.Ops, &op{Op: "read", View: 0, WS: ws, Key: &kk})
	return sc
}
